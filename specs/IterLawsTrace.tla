--------------------------- MODULE IterLawsTrace ---------------------------
(* Trace validation for C12: every line of the ndjson trace recorded from   *)
(* real xtl iterators must be a step of IterLaws (L1) with the logged        *)
(* arguments, and the logged result and the full projection (container       *)
(* storage, both iterators seen through three observers) must be the spec's. *)
(* A {"op":"Reset"} event starts a new execution: a fresh container of the   *)
(* logged kind holding the logged elements, both iterators at begin().       *)
EXTENDS IterLaws, IOUtils

VARIABLE l     \* next line of the trace to be explained

JsonTrace == ndJsonDeserialize(IOEnv.TRACE)
ExplainAt == atoi(IOEnv.EXPLAIN)

TInit ==
    /\ l = 1
    /\ cfg = [ra |-> FALSE, ext |-> FALSE, mut |-> FALSE, std |-> FALSE, dc |-> FALSE, stp |-> FALSE]
    /\ step = 1 /\ n = 0 /\ under = <<>> /\ p = 0 /\ q = 0
    /\ last = [op |-> "Init", k |-> 0, a |-> NoArg, res |-> Void]
    /\ pre = [n |-> 0, step |-> 1, p |-> 0, q |-> 0]

(* the script's precondition: a positive stride, the storage holds exactly n strides *)
TReset(e) == LET a == e.a IN
    /\ a.step >= 1 /\ a.n >= 0 /\ Len(a.under) = a.n * a.step
    /\ (a.ext => a.ra) /\ (a.stp => a.ra)
    /\ cfg' = [ra |-> a.ra, ext |-> a.ext, mut |-> a.mut, std |-> a.std, dc |-> a.dc, stp |-> a.stp]
    /\ step' = a.step /\ n' = a.n /\ under' = a.under
    /\ p' = 0 /\ q' = 0
    /\ pre' = [n |-> n, step |-> step, p |-> p, q |-> q]
    /\ last' = [op |-> "Reset", k |-> e.k, a |-> a, res |-> Void]

Dispatch(e) == LET k == e.k  a == e.a IN
    \/ e.op = "Reset"           /\ TReset(e)
    \/ e.op = "Seat"            /\ Seat(a.p, a.q, a.via)
    \/ e.op = "PreInc"          /\ PreInc(k)
    \/ e.op = "PostInc"         /\ PostInc(k)
    \/ e.op = "PreDec"          /\ PreDec(k)
    \/ e.op = "PostDec"         /\ PostDec(k)
    \/ e.op = "Deref"           /\ Deref(k)
    \/ e.op = "Arrow"           /\ Arrow(k)
    \/ e.op = "Eq"              /\ Eq(k)
    \/ e.op = "Ne"              /\ Ne(k)
    \/ e.op = "Assign"          /\ Assign(k)
    \/ e.op = "AddAssign"       /\ AddAssign(k, a.k)
    \/ e.op = "SubAssign"       /\ SubAssign(k, a.k)
    \/ e.op = "Plus"            /\ Plus(k, a.k)
    \/ e.op = "PlusLeft"        /\ PlusLeft(k, a.k)
    \/ e.op = "Minus"           /\ Minus(k, a.k)
    \/ e.op = "Index"           /\ Index(k, a.k)
    \/ e.op = "Diff"            /\ Diff(k)
    \/ e.op = "Lt"              /\ Lt(k)
    \/ e.op = "Le"              /\ Le(k)
    \/ e.op = "Gt"              /\ Gt(k)
    \/ e.op = "Ge"              /\ Ge(k)
    \/ e.op = "PlusU"           /\ PlusU(k, a.k)
    \/ e.op = "PlusLeftU"       /\ PlusLeftU(k, a.k)
    \/ e.op = "MinusU"          /\ MinusU(k, a.k)
    \/ e.op = "IndexU"          /\ IndexU(k, a.k)
    \/ e.op = "StdAdvance"      /\ StdAdvance(k, a.k)
    \/ e.op = "StdDistance"     /\ StdDistance(k)
    \/ e.op = "StdNext"         /\ StdNext(k, a.k)
    \/ e.op = "StdPrev"         /\ StdPrev(k, a.k)
    \/ e.op = "Write"           /\ Write(k, a.v)
    \/ e.op = "IndexWrite"      /\ IndexWrite(k, a.k, a.v)
    \/ e.op = "TraverseForward" /\ TraverseForward(a.how)
    \/ e.op = "TraverseReverse" /\ TraverseReverse(a.how)
    \/ e.op = "StdCopy"         /\ StdCopy(k)
    \/ e.op = "StdCopyBackward" /\ StdCopyBackward(k)
    \/ e.op = "StdReverseCopy"  /\ StdReverseCopy(k)
    \/ e.op = "StdFind"         /\ StdFind(k, a.v)
    \/ e.op = "StdCount"        /\ StdCount(k, a.v)
    \/ e.op = "StdEqual"        /\ StdEqual(k, a.j)
    \/ e.op = "StdLowerBound"   /\ StdLowerBound(k, a.v)
    \/ e.op = "StdFill"         /\ StdFill(k, a.v)
    \/ e.op = "StdReverse"      /\ StdReverse(k)
    \/ e.op = "StdSort"         /\ StdSort(k)
    \/ e.op = "ValueInit"       /\ ValueInit(a.o)
    \/ e.op = "EqualM"          /\ EqualM(k)
    \/ e.op = "LessThanM"       /\ LessThanM(k)
    \/ e.op = "PostIncDeref"    /\ PostIncDeref(k)
    \/ e.op = "PostDecDeref"    /\ PostDecDeref(k)
    \/ e.op = "DcAssign"        /\ DcAssign(k)
    \/ e.op = "MultiPass"       /\ MultiPass(k, a.m)
    \/ e.op = "StdRotate"       /\ StdRotate(k, a.m)
    \/ e.op = "StdMinElement"   /\ StdMinElement(k)
    \/ e.op = "StdCopyWithin"   /\ StdCopyWithin(k, a.j)
    \/ e.op = "ToConst"         /\ ToConst(k)
    \/ e.op = "MixedCmp"        /\ MixedCmp(k, a.o)

TNext ==
    /\ l <= Len(JsonTrace)
    /\ LET e == JsonTrace[l] IN
        /\ Dispatch(e)
        /\ IF l = ExplainAt
             THEN PrintT(<<"EXPECTED", last'.res, ProjAll'>>)
             ELSE /\ last'.res = e.res
                  /\ ProjAll' = e.st
    /\ l' = l + 1

TSpec == TInit /\ [][TNext]_<<vars, l>>
TraceAccepted == TLCGet("stats").diameter - 1 = Len(JsonTrace)
=============================================================================

SPECIFICATION Spec
CONSTANTS
  W = 2
  MaxBits = 4
  MaxShift = 5
  MoveKeepsSize = FALSE
  ObserveMoved = TRUE
  Targets <- Both
  SplitNext = FALSE
  OtherSeqs <- NoOther
CONSTRAINT SizeBound
VIEW absview
INVARIANTS RepInv ObserversAgree
PROPERTIES Refines

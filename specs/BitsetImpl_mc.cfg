SPECIFICATION Spec
CONSTANTS
  W = 2
  MaxBits = 4
  MaxShift = 5
CONSTRAINT SizeBound
VIEW absview
INVARIANTS RepInv ObserversAgree
PROPERTIES Refines

---------------------------- MODULE VariantImpl ----------------------------
(***************************************************************************)
(* L2 representation specification for C05, transcribed from               *)
(* include/xtl/xvariant_impl.hpp (mpark::variant): per variant the field   *)
(* index_ and the union data_ ("cell"), and the algorithms at the          *)
(* granularity of single element operations:                               *)
(*   destructor::destroy()          destroy the alternative, index_ = -1   *)
(*   constructor::generic_construct destroy; if rhs holds: construct_alt;  *)
(*                                  then publish index_                    *)
(*   assignment::emplace<I>         destroy; construct_alt; index_ = I     *)
(*   assignment::assign_alt         same index: assign; otherwise emplace  *)
(*                                  directly or through a temporary T(arg) *)
(*   assignment::generic_assign     both valueless / rhs valueless / else  *)
(*   impl::swap                     same index: std::swap of the values;   *)
(*                                  else tmp(move(rhs)), rhs <- lhs with   *)
(*                                  rollback from tmp, lhs <- tmp          *)
(* A public call is compiled (at Begin) into a sequence of micro-operations *)
(* which are executed one per step; a throwing-capable element operation    *)
(* throws when the fault fuse reaches it, and control continues with the    *)
(* micro-operation's unwinding sequence `un` (destructors of locals, the    *)
(* catch block of swap).  Slot 3 is swap's local `impl tmp`.                *)
(*                                                                          *)
(* TLC checks that every step is a step of Variant (L1) for the same event  *)
(* (refinement), i.e. that mpark's algorithm keeps the property for every   *)
(* reachable state x call x fuse position, plus representation invariants.  *)
(***************************************************************************)
EXTENDS VariantLifetime, VariantCalls, Sequences, TLC, Json

CONSTANTS Strict, Vals, MaxFuse, MaxEv, CallSet,   \* as in Variant (L1)
          EmitOn                                   \* S->C: write every call transition as a JSON line

VARIABLES idx,     \* idx[w]: index_ of slot w (1, 2: the variants; 3: swap's tmp); -1 valueless, -2 no object
          cell,    \* cell[w] = [id, val]: what the union holds: id of the payload object, or the int value
          argid,   \* the argument object the harness built for this call (0: none)
          tmpid,   \* the temporary T(arg) of assign_alt / the local of std::swap (0: none)
          prog,    \* micro-operations still to run
          fin,     \* finalisers (run after prog, also when unwinding): the harness destroys its argument
          exc,     \* an exception is propagating out of the call
          fuse,    \* countdown of the fault fuse (0: disarmed)
          evs,     \* ghost: compact element events of the open call (for the S->C drift comparison)
          ev,      \* the event this step produced ([op |-> "tau"] for a silent step)
          v, call, thrown, last    \* L1's call-level ghosts, maintained alongside

ivars == <<idx, cell, argid, tmpid, prog, fin, exc, fuse, evs, ev, v, call, thrown, last, nid, live, obj>>

A == INSTANCE Variant

Tr(a) == a \in TrackedAlts
Home(w) == IF w = 3 THEN TEMP ELSE w
EmptyCell == [id |-> 0, val |-> 0]
(* operand references of micro-operations: a slot 1..3, or *)
NONE == 0     \* no source object (value construction)
ARG  == 4     \* the argument object built by the harness
TMPO == 5     \* the temporary T(arg) / the local of std::swap

----------------------------------------------------------------------------
(* micro-operations *)
OpArgCtor(alt, val) == [m |-> "argctor", alt |-> alt, val |-> val]
OpArgDtor           == [m |-> "argdtor"]
OpTmpCtor(alt, kind, src, val, un) == [m |-> "tmpctor", alt |-> alt, kind |-> kind, src |-> src, val |-> val, un |-> un]
OpTmpDtor           == [m |-> "tmpdtor"]
OpDestroy(w)        == [m |-> "destroy", w |-> w]
OpCtor(w, alt, kind, src, val, un) == [m |-> "ctor", w |-> w, alt |-> alt, kind |-> kind, src |-> src, val |-> val, un |-> un]
OpGCtor(w, src, kind, un) == [m |-> "gctor", w |-> w, src |-> src, kind |-> kind, un |-> un]
OpSet(w, i)         == [m |-> "setidx", w |-> w, i |-> i]
OpGSet(w, src)      == [m |-> "gsetidx", w |-> w, src |-> src]
OpAssign(w, alt, kind, src, val, un) == [m |-> "assign", w |-> w, alt |-> alt, kind |-> kind, src |-> src, val |-> val, un |-> un]
OpSwapInt(w1, w2)   == [m |-> "swapint", w |-> w1, w2 |-> w2]
OpRollback(w)       == [m |-> "rollback", w |-> w]

(* std::is_nothrow_constructible<T, Arg>: int from anything; a payload only from T&& when its move is noexcept *)
(* (round 4) an alternative WITHOUT lifetime events whose value constructor may throw (UntrackedThrowAlts: Tv3 of set triv) is not *)
(* nothrow-constructible from its argument, but it is nothrow-movable: assign_alt builds the temporary first                          *)
UThrow(alt, kind) == ~Tr(alt) /\ CanThrow(alt, kind)
NothrowCtorFrom(alt, kind) == (~Tr(alt) /\ ~UThrow(alt, kind)) \/ (Tr(alt) /\ kind = "move" /\ NoThrowMove(alt))

(* assignment::emplace<I>(args) *)
PEmplace(w, alt, kind, src, val, un) == <<OpDestroy(w), OpCtor(w, alt, kind, src, val, un), OpSet(w, alt)>>

(* assignment::assign_alt(alt I of slot w, arg) *)
PAssignAlt(w, alt, kind, src, val, un) ==
    IF idx[w] = alt
    THEN <<OpAssign(w, alt, kind, src, val, un)>>
    ELSE IF NothrowCtorFrom(alt, kind) \/ ~NoThrowMove(alt)
    THEN PEmplace(w, alt, kind, src, val, un)                                   \* emplace<I>(forward<Arg>(arg))
    ELSE IF ~Tr(alt)                                                            \* a trivial temporary: no events, its value is val
    THEN <<OpTmpCtor(alt, kind, src, val, un)>> \o PEmplace(w, alt, "move", NONE, val, un)
    ELSE <<OpTmpCtor(alt, kind, src, val, un)>>                                 \* emplace<I>(T(forward<Arg>(arg)))
           \o PEmplace(w, alt, "move", TMPO, 0, <<OpTmpDtor>> \o un) \o <<OpTmpDtor>>

(* constructor::generic_construct(lhs, rhs) *)
PGenericConstruct(lhs, rhs, kind, un) == <<OpDestroy(lhs), OpGCtor(lhs, rhs, kind, un), OpGSet(lhs, rhs)>>

(* assignment::generic_assign(that) *)
PGenericAssign(k, o, kind) ==
    IF idx[k] = -1 /\ idx[o] = -1 THEN <<>>
    ELSE IF idx[o] = -1 THEN <<OpDestroy(k)>>
    ELSE PAssignAlt(k, idx[o], kind, o, 0, <<>>)

(* impl::swap(that) *)
MoveNothrow(w) == idx[w] = -1 \/ NoThrowMove(idx[w])
DropTmp == <<OpDestroy(3), OpSet(3, -2)>>          \* ~impl() of the local tmp
PSwap(k, o) ==
    IF idx[k] = -1 /\ idx[o] = -1 THEN <<>>
    ELSE IF idx[k] = idx[o]
    THEN (IF ~Tr(idx[k]) THEN <<OpSwapInt(k, o)>>
          ELSE LET j == idx[k] IN                                               \* std::swap(this_alt.value, that_alt.value)
               <<OpTmpCtor(j, "move", k, 0, <<>>),
                 OpAssign(k, j, IF k = o THEN "self" ELSE "move", o, 0, <<OpTmpDtor>>),
                 OpAssign(o, j, "move", TMPO, 0, <<OpTmpDtor>>),
                 OpTmpDtor>>)
    ELSE LET sw == MoveNothrow(k) /\ ~MoveNothrow(o)
             L == IF sw THEN o ELSE k
             R == IF sw THEN k ELSE o IN
         <<OpSet(3, -1)>> \o PGenericConstruct(3, R, "move", <<OpSet(3, -2)>>)       \* impl tmp(move(*rhs))
           \o PGenericConstruct(R, L, "move", <<OpRollback(R)>> \o DropTmp)          \* try { rhs <- move(*lhs) } catch { rollback; throw }
           \o PGenericConstruct(L, 3, "move", DropTmp)                               \* lhs <- move(tmp)
           \o DropTmp

Kind(ak) == IF ak \in {"ilist", "multi"} THEN "value" ELSE ak
HasArg(alt, ak) == Tr(alt) /\ ak \in {"copy", "move"}
ArgSrc(alt, ak) == IF HasArg(alt, ak) THEN ARG ELSE NONE
ArgPre(alt, ak, val) == IF HasArg(alt, ak) THEN <<OpArgCtor(alt, val)>> ELSE <<>>
ArgFin(alt, ak) == IF HasArg(alt, ak) THEN <<OpArgDtor>> ELSE <<>>

(* the whole call: [body, fin] *)
Plan(c, a) ==
    CASE c = "CtorDefault" -> [body |-> <<OpCtor(a.k, 0, "value", NONE, 0, <<>>), OpSet(a.k, 0)>>, fin |-> <<>>]
      [] c = "CtorValue"   -> [body |-> ArgPre(a.alt, a.ak, a.val)
                                          \o <<OpCtor(a.k, a.alt, Kind(a.ak), ArgSrc(a.alt, a.ak), a.val, <<>>), OpSet(a.k, a.alt)>>,
                               fin |-> ArgFin(a.alt, a.ak)]
      [] c \in {"CtorCopy", "CtorMove"} ->                                    \* copy_constructor(valueless_t{}) then generic_construct
            [body |-> <<OpSet(a.k, -1)>> \o PGenericConstruct(a.k, a.o, IF c = "CtorCopy" THEN "copy" ELSE "move", <<OpSet(a.k, -2)>>),
             fin |-> <<>>]
      [] c = "Destroy"     -> [body |-> <<OpDestroy(a.k), OpSet(a.k, -2)>>, fin |-> <<>>]
      [] c = "Emplace"     -> [body |-> ArgPre(a.alt, a.ak, a.val) \o PEmplace(a.k, a.alt, Kind(a.ak), ArgSrc(a.alt, a.ak), a.val, <<>>),
                               fin |-> ArgFin(a.alt, a.ak)]
      [] c = "ConvAssign"  -> [body |-> ArgPre(a.alt, a.ak, a.val) \o PAssignAlt(a.k, a.alt, Kind(a.ak), ArgSrc(a.alt, a.ak), a.val, <<>>),
                               fin |-> ArgFin(a.alt, a.ak)]
      [] c = "CopyAssign"  -> [body |-> PGenericAssign(a.k, a.o, "copy"), fin |-> <<>>]
      [] c = "MoveAssign"  -> [body |-> PGenericAssign(a.k, a.o, "move"), fin |-> <<>>]
      [] c = "Swap"        -> [body |-> PSwap(a.k, a.o), fin |-> <<>>]
      [] c = "Nest" /\ Tr(a.alt) ->                                          \* W = variant<int, V>: w1 holds an inner V holding (alt, val)
            [body |-> <<OpArgCtor(a.alt, a.val)>>                              \* W w1(in_place_index<1>, in_place_index<alt>, val)
                      \o (CASE a.mode = "copy" -> <<OpTmpCtor(a.alt, "copy", ARG, 0, <<>>), OpTmpDtor, OpArgDtor>>   \* W w2(w1); ~w2; ~w1
                            [] a.mode = "move" -> <<OpTmpCtor(a.alt, "move", ARG, 0, <<>>), OpTmpDtor, OpArgDtor>>   \* W w2(move(w1))
                            [] a.mode = "swap" -> <<OpTmpCtor(a.alt, "move", ARG, 0, <<>>), OpArgDtor, OpTmpDtor>>   \* W w2(7); w1.swap(w2): w2 <- move(w1), w1.destroy()
                            [] OTHER -> <<OpArgDtor>>),                                                            \* nested visit
             fin |-> <<>>]
      [] OTHER             -> [body |-> <<>>, fin |-> <<>>]                  \* observers run no element operation

----------------------------------------------------------------------------
(* effect of one micro-operation *)
SrcId(src) == IF src = ARG THEN argid ELSE IF src = TMPO THEN tmpid ELSE IF src = NONE THEN 0 ELSE cell[src].id
ValOfId(i) == IF i \in live THEN obj[i].val ELSE -99
IntFrom(src, val) == IF src = NONE THEN val ELSE cell[src].val
Fires(alt, kind) == CanThrow(alt, kind) /\ fuse = 1
FuseAfter(alt, kind) == IF CanThrow(alt, kind) /\ fuse > 0 THEN fuse - 1 ELSE fuse

Tau == [op |-> "tau"]
ECtorEv(alt, kind, src, home, val) ==
    [op |-> "ECtor", id |-> nid + 1, alt |-> alt, kind |-> kind, src |-> SrcId(src), home |-> home,
     val |-> IF kind = "value" THEN val ELSE ValOfId(SrcId(src))]
EThrowEv(at, alt, kind) == [op |-> "EThrow", at |-> at, alt |-> alt, kind |-> IF kind = "self" THEN "move" ELSE kind]

NoEff == [idx |-> idx, cell |-> cell, argid |-> argid, tmpid |-> tmpid, fuse |-> fuse, e |-> Tau, expand |-> <<>>]

CtorEff(w, alt, kind, src, val) ==         \* construct_alt into slot w
    IF UThrow(alt, kind) /\ Fires(alt, kind) THEN [NoEff EXCEPT !.e = EThrowEv("ctor", alt, kind), !.fuse = 0]   \* (after scribbling over the storage of slot w)
    ELSE IF ~Tr(alt) THEN [NoEff EXCEPT !.cell = [cell EXCEPT ![w] = [id |-> 0, val |-> IntFrom(src, val)]], !.fuse = FuseAfter(alt, kind)]
    ELSE IF Fires(alt, kind) THEN [NoEff EXCEPT !.e = EThrowEv("ctor", alt, kind), !.fuse = 0]
    ELSE [NoEff EXCEPT !.e = ECtorEv(alt, kind, src, Home(w), val),
                       !.cell = [cell EXCEPT ![w] = [id |-> nid + 1, val |-> 0]],
                       !.fuse = FuseAfter(alt, kind)]

Eff(op) ==
    CASE op.m = "argctor" -> [NoEff EXCEPT !.e = ECtorEv(op.alt, "value", NONE, TEMP, op.val), !.argid = nid + 1]
      [] op.m = "argdtor" -> [NoEff EXCEPT !.e = [op |-> "EDtor", id |-> argid], !.argid = 0]
      [] op.m = "tmpctor" ->
            IF ~Tr(op.alt) /\ ~Fires(op.alt, op.kind) THEN [NoEff EXCEPT !.fuse = FuseAfter(op.alt, op.kind)]
            ELSE IF Fires(op.alt, op.kind) THEN [NoEff EXCEPT !.e = EThrowEv("ctor", op.alt, op.kind), !.fuse = 0]
            ELSE [NoEff EXCEPT !.e = ECtorEv(op.alt, op.kind, op.src, TEMP, op.val), !.tmpid = nid + 1,
                               !.fuse = FuseAfter(op.alt, op.kind)]
      [] op.m = "tmpdtor" -> [NoEff EXCEPT !.e = [op |-> "EDtor", id |-> tmpid], !.tmpid = 0]
      [] op.m = "destroy" ->                                                   \* destroy(): visit_alt(dtor); index_ = -1
            [NoEff EXCEPT !.e = IF Tr(idx[op.w]) THEN [op |-> "EDtor", id |-> cell[op.w].id] ELSE Tau,
                          !.idx = [idx EXCEPT ![op.w] = -1],
                          !.cell = [cell EXCEPT ![op.w] = EmptyCell]]
      [] op.m = "ctor"    -> CtorEff(op.w, op.alt, op.kind, op.src, op.val)
      [] op.m = "gctor"   -> IF idx[op.src] = -1 THEN NoEff ELSE CtorEff(op.w, idx[op.src], op.kind, op.src, 0)
      [] op.m = "setidx"  -> [NoEff EXCEPT !.idx = [idx EXCEPT ![op.w] = op.i]]
      [] op.m = "gsetidx" -> IF idx[op.src] = -1 THEN NoEff ELSE [NoEff EXCEPT !.idx = [idx EXCEPT ![op.w] = idx[op.src]]]
      [] op.m = "assign"  ->
            IF UThrow(op.alt, op.kind) /\ Fires(op.alt, op.kind) THEN [NoEff EXCEPT !.e = EThrowEv("assign", op.alt, op.kind), !.fuse = 0]
            ELSE IF ~Tr(op.alt) THEN [NoEff EXCEPT !.cell = [cell EXCEPT ![op.w].val = IntFrom(op.src, op.val)], !.fuse = FuseAfter(op.alt, op.kind)]
            ELSE IF Fires(op.alt, op.kind) THEN [NoEff EXCEPT !.e = EThrowEv("assign", op.alt, op.kind), !.fuse = 0]
            ELSE [NoEff EXCEPT !.e = [op |-> "EAssign", dst |-> cell[op.w].id, src |-> SrcId(op.src), kind |-> op.kind,
                                      val |-> IF op.kind = "value" THEN op.val ELSE ValOfId(SrcId(op.src))],
                               !.fuse = FuseAfter(op.alt, op.kind)]
      [] op.m = "swapint" -> [NoEff EXCEPT !.cell = [cell EXCEPT ![op.w] = cell[op.w2], ![op.w2] = cell[op.w]]]
      [] op.m = "rollback" ->                                                  \* catch (...) { if (tmp.move_nothrow()) rhs <- move(tmp); throw; }
            [NoEff EXCEPT !.expand = IF MoveNothrow(3) THEN PGenericConstruct(op.w, 3, "move", <<>>) ELSE <<>>]

(* L2's own lifetime bookkeeping for an event *)
LiveAfter(e) == CASE e.op = "ECtor" -> live \cup {e.id} [] e.op = "EDtor" -> live \ {e.id} [] OTHER -> live
ObjAfter(e) ==
    CASE e.op = "ECtor" ->
            LET o1 == Put(obj, e.id, [alt |-> e.alt, val |-> e.val, home |-> e.home])
            IN IF e.kind = "move" THEN [o1 EXCEPT ![e.src].val = MOVED] ELSE o1
      [] e.op = "EDtor" -> Drop(obj, e.id)
      [] e.op = "EAssign" ->
            LET o1 == [obj EXCEPT ![e.dst].val = e.val]
            IN IF e.kind = "move" THEN [o1 EXCEPT ![e.src].val = MOVED] ELSE o1
      [] OTHER -> obj

(* compact form of an element event, independent of identities (S->C drift comparison) *)
Compact(e) ==
    CASE e.op = "ECtor"   -> <<"C", e.alt, e.kind, e.home, e.val>>
      [] e.op = "EDtor"   -> <<"D", obj[e.id].alt, obj[e.id].home, obj[e.id].val>>
      [] e.op = "EAssign" -> <<"A", obj[e.dst].alt, e.kind, obj[e.dst].home, e.val>>
      [] e.op = "EThrow"  -> <<"T", e.at, e.alt, e.kind>>

----------------------------------------------------------------------------
(* what the observers return, computed on the representation *)
Index(w) == idx[w]                               \* index(): valueless ? npos : index_   (npos written -1)
HoldsI(w, i) == Index(w) = i                     \* holds_alternative<I>
ValIn(w) == IF ~Tr(idx[w]) THEN cell[w].val ELSE ValOfId(cell[w].id)
B(x) == IF x THEN 1 ELSE 0
HoldsMask(w) == B(HoldsI(w, 0)) + 2 * B(HoldsI(w, 1)) + 4 * B(HoldsI(w, 2)) + 8 * B(HoldsI(w, 3))
AbsSlot(w) ==
    IF idx[w] = -2 THEN A!Absent
    ELSE IF idx[w] = -1 THEN A!Valueless
    ELSE A!Holds(idx[w], ValIn(w), cell[w].id)
StRep(w) ==
    IF idx[w] = -2 THEN A!StOf(A!Absent)
    ELSE [p |-> TRUE, index |-> Index(w), vbe |-> idx[w] = -1,
          hi |-> HoldsMask(w), ht |-> HoldsMask(w), gi |-> HoldsMask(w), gt |-> HoldsMask(w),
          val |-> IF idx[w] >= 0 THEN ValIn(w) ELSE 0, id |-> IF idx[w] >= 0 THEN cell[w].id ELSE 0]

PayloadRel(rel, a, b) ==                          \* the operators of the payload fixtures (driver.cpp: P<A,N>, Tv<A>; int never holds UNORD)
    LET un == a = UNORD \/ b = UNORD IN
    CASE rel = "eq" -> ~un /\ a = b  [] rel = "ne" -> un \/ a # b  [] rel = "lt" -> ~un /\ a < b
      [] rel = "gt" -> ~un /\ a > b  [] rel = "le" -> ~un /\ a <= b [] rel = "ge" -> ~un /\ a >= b
IRel(rel, x, y) ==                                \* operator== ... operator>= as written in the header
    \* visit_value_at(index, op{}, lhs, rhs): the held alternative's OWN operator of the same name (PayloadRel: the fixtures' operators,
    \* a partial order - the value UNORD is unordered with everything)
    LET vx == idx[x] = -1  vy == idx[y] = -1  ix == idx[x]  iy == idx[y]  a == ValIn(x)  b == ValIn(y) IN
    CASE rel = "eq" -> IF ix # iy THEN FALSE ELSE IF vx THEN TRUE ELSE PayloadRel("eq", a, b)
      [] rel = "ne" -> IF ix # iy THEN TRUE ELSE IF vx THEN FALSE ELSE PayloadRel("ne", a, b)
      [] rel = "lt" -> IF vy THEN FALSE ELSE IF vx THEN TRUE ELSE IF ix < iy THEN TRUE ELSE IF ix > iy THEN FALSE ELSE PayloadRel("lt", a, b)
      [] rel = "gt" -> IF vx THEN FALSE ELSE IF vy THEN TRUE ELSE IF ix > iy THEN TRUE ELSE IF ix < iy THEN FALSE ELSE PayloadRel("gt", a, b)
      [] rel = "le" -> IF vx THEN TRUE ELSE IF vy THEN FALSE ELSE IF ix < iy THEN TRUE ELSE IF ix > iy THEN FALSE ELSE PayloadRel("le", a, b)
      [] rel = "ge" -> IF vy THEN TRUE ELSE IF vx THEN FALSE ELSE IF ix > iy THEN TRUE ELSE IF ix < iy THEN FALSE ELSE PayloadRel("ge", a, b)

IObsRes(c, a) ==
    CASE c \in {"Get", "XGet"} ->
            IF HoldsI(a.k, a.alt) THEN A!Ok([id |-> cell[a.k].id, val |-> ValIn(a.k)]) ELSE A!Exc("bad_variant_access")
      [] c = "GetIf" ->
            IF a.null = 0 /\ HoldsI(a.k, a.alt) THEN A!Ok([nonnull |-> TRUE, id |-> cell[a.k].id, val |-> ValIn(a.k)])
            ELSE A!Ok([nonnull |-> FALSE, id |-> 0, val |-> 0])
      [] c = "Rel" -> A!Ok([b |-> IRel(a.rel, a.k, a.o)])
      [] c = "Visit" ->
            IF \E i \in 1..Len(a.ks) : idx[a.ks[i]] = -1 THEN A!Exc("bad_variant_access")
            ELSE LET alts == [i \in 1..Len(a.ks) |-> idx[a.ks[i]]] IN
                 A!Ok([alts |-> alts, vals |-> [i \in 1..Len(a.ks) |-> ValIn(a.ks[i])],
                       ids |-> [i \in 1..Len(a.ks) |-> cell[a.ks[i]].id],
                       rv |-> [i \in 1..Len(a.ks) |-> a.rv], alias |-> a.r = 1,
                       ret |-> IF a.r = 1 THEN ValIn(a.ks[1]) ELSE Len(a.ks) + A!SumSeq(alts)])
      [] c = "XRef" ->      \* xgetter<T&> reads closure<T&>; xgetter<const T&> reads closure<const T&> if the list has it, else closure<T&>
            LET target == IF a.want = "ref" THEN "ref" ELSE IF a.list \in {3, 4} THEN "cref" ELSE "ref" IN
            IF a.held = target THEN A!Ok([alias |-> TRUE, val |-> a.val, after |-> a.val + a.w]) ELSE A!Exc("bad_variant_access")
      [] c = "Hash" ->     \* hash_combine(hash(value), hash(index())), 299792458 for valueless: equal iff index and value are equal (element hashes are injective here)
            A!Ok([same |-> (idx[a.k] = idx[a.o] /\ (idx[a.k] = -1 \/ ValIn(a.k) = ValIn(a.o)))])
      [] c = "Mono" -> A!Ok([b |-> a.q \in {"eq", "le", "ge", "hash", "default"}])
      [] c = "Nest" -> A!Ok(A!NestRes(a))
      [] c = "Up" -> A!ObsRes(c, a)            \* no representation of its own: a scenario on local variants of builtin / std types

----------------------------------------------------------------------------
Init ==
    /\ idx = [w \in 1..3 |-> -2]
    /\ cell = [w \in 1..3 |-> EmptyCell]
    /\ argid = 0 /\ tmpid = 0
    /\ prog = <<>> /\ fin = <<>> /\ exc = FALSE /\ fuse = 0
    /\ evs = <<>>
    /\ ev = [op |-> "Init"]
    /\ v = [k \in K |-> A!Absent]
    /\ call = A!NoCall
    /\ thrown = FALSE
    /\ last = [op |-> "Init"]
    /\ LInit

IBegin(c, a, f) ==
    /\ call = A!NoCall
    /\ A!Pre(c, a)
    /\ (c \in A!Observers \/ c = "Destroy") => f = 0
    /\ prog' = Plan(c, a).body
    /\ fin' = Plan(c, a).fin
    /\ exc' = FALSE
    /\ fuse' = f
    /\ evs' = <<>>
    /\ call' = [c |-> c, a |-> a, fuse |-> f, n |-> 0]
    /\ thrown' = FALSE
    /\ last' = [op |-> "Begin", c |-> c, a |-> a, fuse |-> f]
    /\ ev' = last'
    /\ UNCHANGED <<idx, cell, argid, tmpid, v, nid, live, obj>>

IStep ==
    /\ call # A!NoCall
    /\ prog # <<>> \/ fin # <<>>
    /\ LET inprog == prog # <<>>
           op == IF inprog THEN Head(prog) ELSE Head(fin)
           r  == Eff(op)
           e  == r.e
           throws == e.op = "EThrow" IN
       /\ idx' = r.idx /\ cell' = r.cell /\ argid' = r.argid /\ tmpid' = r.tmpid /\ fuse' = r.fuse
       /\ prog' = IF throws THEN op.un ELSE IF inprog THEN r.expand \o Tail(prog) ELSE prog
       /\ fin' = IF inprog THEN fin ELSE Tail(fin)
       /\ exc' = (exc \/ throws)
       /\ ev' = e
       /\ IF e.op = "tau"
          THEN UNCHANGED <<evs, call, thrown, last, nid, live, obj>>
          ELSE /\ evs' = Append(evs, Compact(e))
               /\ call' = [call EXCEPT !.n = @ + 1]
               /\ thrown' = (thrown \/ throws)
               /\ last' = e
               /\ nid' = IF e.op = "ECtor" THEN e.id ELSE nid
               /\ live' = LiveAfter(e)
               /\ obj' = ObjAfter(e)
       /\ UNCHANGED v

IEnd ==
    /\ call # A!NoCall
    /\ prog = <<>> /\ fin = <<>>
    /\ LET c == call.c  a == call.a
           res == IF exc THEN A!Exc("injected")
                  ELSE IF c \in A!Observers THEN IObsRes(c, a)
                  ELSE IF c = "Emplace" THEN A!Ok([id |-> cell[a.k].id, val |-> ValIn(a.k)])
                  ELSE A!Void
           st == <<StRep(1), StRep(2)>> IN
       /\ last' = [op |-> "End", res |-> res, st |-> st]
       /\ ev' = last'
       /\ v' = [k \in K |-> AbsSlot(k)]
    /\ call' = A!NoCall
    /\ thrown' = FALSE
    /\ exc' = FALSE
    /\ fuse' = 0
    /\ UNCHANGED <<idx, cell, argid, tmpid, prog, fin, evs, nid, live, obj>>

Next == (\E cl \in CallSet, f \in 0..MaxFuse : IBegin(cl.c, cl.a, f)) \/ IStep \/ IEnd
Spec == Init /\ [][Next]_ivars

----------------------------------------------------------------------------
(* what TLC checks *)

(* every L2 step is the L1 step for the same event; silent steps change nothing L1 sees *)
StepRefines ==
    LET e == ev' IN
    CASE e.op = "tau"     -> UNCHANGED <<v, call, thrown, last, nid, live, obj>>
      [] e.op = "Begin"   -> A!Begin(e.c, e.a, e.fuse)
      [] e.op = "ECtor"   -> A!ECtor(e.id, e.alt, e.kind, e.src, e.home, e.val)
      [] e.op = "EDtor"   -> A!EDtor(e.id)
      [] e.op = "EAssign" -> A!EAssign(e.dst, e.src, e.kind, e.val)
      [] e.op = "EThrow"  -> A!EThrow(e.at, e.alt, e.kind)
      [] e.op = "End"     -> A!End(e.res, e.st)
Refines == [][StepRefines]_ivars

(* representation invariants *)
RepInv ==
    /\ \A w \in 1..3 : idx[w] \in -2..3
    /\ \A w \in 1..3 : Tr(idx[w]) => /\ cell[w].id \in live
                                     /\ obj[cell[w].id].alt = idx[w]
                                     /\ obj[cell[w].id].home = Home(w)
    /\ call = A!NoCall => /\ idx[3] = -2 /\ argid = 0 /\ tmpid = 0 /\ prog = <<>> /\ fin = <<>> /\ ~exc
                          /\ \A k \in K : v[k] = AbsSlot(k)
                          /\ Cardinality(live) = Cardinality({k \in K : Tr(idx[k])})
(* destroy() marks the variant valueless before anything is rebuilt; the index is published after construction *)
PublishAfterConstruct == [][(ev'.op = "ECtor" /\ ev'.home \in K) => idx[ev'.home] < 0]_ivars

(* identities only matter up to order: states that differ by a renaming of ids are explored once *)
Rank(i) == IF i \in live THEN Cardinality({j \in live : j <= i}) ELSE 0
iview == <<idx, [w \in 1..3 |-> [id |-> Rank(cell[w].id), val |-> cell[w].val]],
           {<<Rank(i), obj[i]>> : i \in live}, Rank(argid), Rank(tmpid), prog, fin, exc, fuse,
           [k \in K |-> [v[k] EXCEPT !.id = Rank(@)]], [call EXCEPT !.n = 0], thrown>>

(* S->C: one JSON line per call transition (abstract pre-state, call, fuse, post-state, outcome, element events) *)
Emit ==
    (EmitOn /\ ev'.op = "End") =>
        PrintT("@E@" \o ToJson([p |-> [k \in K |-> A!NoId(v[k])], c |-> call.c, a |-> call.a, f |-> call.fuse,
                                q |-> [k \in K |-> A!NoId(v'[k])], r |-> ev'.res.exc, ev |-> evs]))

MCCalls == MCCallsOver(Vals, TrackedAlts)
=============================================================================

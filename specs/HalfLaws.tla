------------------------------ MODULE HalfLaws ------------------------------
(* TLC checks the oracle Half.tla against laws that IEEE 754 / C imply and     *)
(* that are computed by a different route than the operator they test (TLA+'s  *)
(* own integer %, squaring instead of root extraction, a second operator).     *)
(* A failure here is a bug of the oracle and is reported as a machinery error, *)
(* never as a violation of xtl.                                                *)
(*                                                                             *)
(* State space: x runs over all 65 536 halves (in blocks, so that TLC workers  *)
(* share the work); inside a state the two-operand laws quantify over the      *)
(* constant sequence YS of second operands.                                    *)
EXTENDS HalfTrans

CONSTANTS YS,         \* sequence of halves used as second operands
          Stride      \* sampling of x in the two-operand laws (1 = all halves)
VARIABLES x

Block == 256

Init == x \in {k * Block : k \in 0..(65536 \div Block - 1)}
Next == /\ (x + 1) % Block # 0
        /\ x' = x + 1
Spec == Init /\ [][Next]_x

Two    == 16384     \* 0x4000
HalfC  == 14336     \* 0x3800 = 0.5
MinSub == 1

(* ---- second operands ---------------------------------------------------- *)
YQuick == << 1, 15361, 48128 (* -1 *), 16896 (* 3 *), 31743, 64512 (* -inf *), 13653, 51456 (* -10 *) >>
YMore  == << 0, 32768, 32769, 1023, 1024, 1025, 15360, 14336, 16384, 64511, 31744, 32256, 22222, 2047, 27648,
             50000, 11264, 18176 (* 7 *), 25600 (* 1024 *), 21504 (* 72 *), 513, 33791, 1536, 30720, 63488,
             12345, 45678, 23456, 56789, 5, 31, 17408 (* 24 *) >>
YThorough == YQuick \o YMore

(* ---- pi ----------------------------------------------------------------- *)
(* 3.14159 < pi < 3.14160.  value(PiH) = 1608/512 and its upper rounding        *)
(* boundary is 3217/1024, lower 3215/1024; pi/2 and pi/4 scale by powers of two *)
(* (same significand 1608); 3pi/4 has significand 1206 at the exponent of pi.   *)
PiBounds ==
    /\ 314160 * 1024 < 3217 * 100000
    /\ 314159 * 1024 > 3215 * 100000
    /\ 3 * 314160 * 1024 < 4 * 2413 * 100000
    /\ 3 * 314159 * 1024 > 4 * 2411 * 100000
    /\ Mant(PiH) = 1608 /\ Exp(PiH) = -9
    /\ Mant(PiOver2H) = 1608 /\ Exp(PiOver2H) = -10
    /\ Mant(PiOver4H) = 1608 /\ Exp(PiOver4H) = -11
    /\ Mant(Pi3Over4H) = 1206 /\ Exp(Pi3Over4H) = -9
ASSUME PiBounds

(* ---- unary laws ---------------------------------------------------------- *)
DecodeEncode(h) == IsFinite(h) => RoundPack(SignOf(h), Mant(h), Exp(h), FALSE) = h

FloatRoundTrip(h) ==
    LET f == ToFloat(h)  d == ToDouble(h) IN
    /\ SameH(FromFloat(f.s, f.e, f.f), h)
    /\ SameH(FromDouble(d.s, d.e, d.fhi, 0, 0), h)
    /\ (~IsNaN(h) => FromFloat(f.s, f.e, f.f) = h)
    \* one binary32 ulp above an exactly representable value still rounds to it (except at overflow: never up)
    /\ (IsFinite(h) /\ ~IsZero(h) => FromFloat(f.s, f.e, f.f + 1) = h)
    /\ (IsFinite(h) /\ ~IsZero(h) => FromDouble(d.s, d.e, d.fhi, 0, 1) = h)

(* the midpoint between h and its successor rounds to the one with even fraction *)
MidpointLaw(h) ==
    (IsFinite(h) /\ SignOf(h) = 0 /\ h # MaxFinite) =>
        LET up  == h + 1
            \* midpoint = (2*Mant(h)+1) * 2^(Exp(h)-1)
            r   == RoundPack(0, 2 * Mant(h) + 1, Exp(h) - 1, FALSE)
            rlo == RoundPack(0, 4 * Mant(h) + 1, Exp(h) - 2, FALSE)       \* a quarter above h
            rhi == RoundPack(0, 4 * Mant(h) + 3, Exp(h) - 2, FALSE)       \* a quarter below up
            rst == RoundPack(0, 2 * Mant(h) * 4096 + 4096, Exp(h) - 13, TRUE)  \* just above the midpoint
        IN  /\ r = (IF h % 2 = 0 THEN h ELSE up)
            /\ rlo = h /\ rhi = up /\ rst = up

AddLaws1(h) ==
    /\ (IsFinite(h) => Add(h, Neg(h)) = PosZero)
    /\ (IsFinite(h) => Sub(h, h) = PosZero)
    /\ SameH(Add(h, NegZero), h)
    /\ (~IsNaN(h) /\ ~IsZero(h) => Add(h, PosZero) = h)
    /\ SameH(Add(h, h), Mul(h, Two))
    /\ SameH(Add(h, h), Ldexp(h, 1))

MulDivLaws1(h) ==
    /\ SameH(Mul(h, One), h)
    /\ SameH(Div(h, One), h)
    /\ SameH(Mul(h, Neg(One)), Neg(h))
    /\ (IsFinite(h) /\ ~IsZero(h) => Div(h, h) = One)
    /\ SameH(Div(h, Two), Mul(h, HalfC))
    /\ SameH(Div(h, Two), Ldexp(h, -1))
    /\ SameH(Mul(h, MinSub), Ldexp(h, -24))
    /\ SameH(Fma(h, One, NegZero), h)

(* Sqrt verified by squaring: for r = Sqrt(h) the neighbours' midpoints bracket h.  *)
(* r = Mr*2^Er; lower boundary (2Mr-1)*2^(Er-1), upper (2Mr+1)*2^(Er-1).            *)
(* Squares are compared with Mh*2^Eh after scaling both to the exponent 2Er-2.      *)
SqrtLaw(h) ==
    IF IsNaN(h) \/ SignOf(h) = 1 \/ IsInf(h) \/ IsZero(h)
      THEN SameH(Sqrt(h), IF IsNaN(h) THEN QNaN ELSE IF IsZero(h) THEN h ELSE IF SignOf(h) = 1 THEN QNaN ELSE h)
      ELSE LET r   == Sqrt(h)
               Mr  == NMant(r)  Er == NExp(r)
               lo2 == (2 * Mr - 1) * (2 * Mr - 1)          \* < 2^24
               hi2 == (2 * Mr + 1) * (2 * Mr + 1)
               sh  == NExp(h) - (2 * Er - 2)                \* h = NMant(h) * 2^sh in units of 2^(2Er-2)
           IN  /\ IsFinite(r) /\ IsNormal(r) /\ SignOf(r) = 0
               /\ sh >= 0 /\ sh <= 16
               /\ lo2 <= NMant(h) * Pow2(sh)
               /\ NMant(h) * Pow2(sh) <= hi2
               \* a tie cannot occur (a midpoint squared has an odd last bit beyond h's precision)
               /\ lo2 # NMant(h) * Pow2(sh) /\ hi2 # NMant(h) * Pow2(sh)

RoundLaws(h) ==
    LET c == Ceil(h)  f == Floor(h)  t == Trunc(h)  r == Round(h)  e == Rint(h) IN
    IF IsNaN(h) THEN IsNaN(c) /\ IsNaN(f) /\ IsNaN(t) /\ IsNaN(r) /\ IsNaN(e)
    ELSE /\ Le(f, h) /\ Le(h, c)
         /\ c = Neg(Floor(Neg(h)))
         /\ t = (IF SignOf(h) = 1 THEN c ELSE f)
         /\ (IsFinite(h) => IsInteger(c) /\ IsInteger(f) /\ IsInteger(r) /\ IsInteger(e))
         /\ (IsFinite(h) => Sub(c, f) \in {PosZero, One})
         /\ r \in {c, f} /\ e \in {c, f}
         /\ SignOf(c) = SignOf(h) /\ SignOf(f) = SignOf(h) /\ SignOf(r) = SignOf(h) /\ SignOf(e) = SignOf(h)
         /\ (IsFinite(h) => Le(Fabs(Sub(h, e)), HalfC) /\ Le(Fabs(Sub(h, r)), HalfC))
         \* ties: round goes away from zero, rint to even
         /\ (IsFinite(h) /\ Fabs(Sub(h, t)) = HalfC => r = (IF SignOf(h) = 1 THEN f ELSE c) /\ IntMag(e, "trunc") % 2 = 0)
         /\ (IsFinite(h) => IntVal(h, "even") = IntVal(e, "trunc") /\ IntVal(h, "round") = IntVal(r, "trunc"))
         /\ (IsFinite(h) => FromInt(IntVal(h, "ceil")) = (IF IsZero(c) THEN PosZero ELSE c))

ManipLaws(h) ==
    LET fr == Frexp(h)  md == Modf(h)  il == Ilogb(h) IN
    /\ (IsFinite(h) => Ldexp(fr.f, fr.e) = h)
    /\ (IsFinite(h) /\ ~IsZero(h) => Le(HalfC, Fabs(fr.f)) /\ Lt(Fabs(fr.f), One) /\ il.v = fr.e - 1)
    /\ (IsFinite(h) => Add(md.frac, md.int) = h)
    /\ (~IsNaN(h) => md.int = Trunc(h) /\ SignOf(md.frac) = SignOf(h))
    /\ (IsFinite(h) /\ ~IsZero(h) => Lt(Fabs(md.frac), One))
    /\ (IsFinite(h) /\ ~IsZero(h) => Logb(h) = FromInt(il.v))
    /\ (IsFinite(h) /\ ~IsZero(h) => Le(Ldexp(One, il.v), Fabs(h)) /\ Lt(Fabs(h), Ldexp(One, il.v + 1)))
    /\ (~IsNaN(h) /\ h # PosInf => Lt(h, NextUp(h)))
    /\ (~IsNaN(h) /\ h # NegInf => Lt(NextDown(h), h))
    /\ (~IsNaN(h) /\ h # PosInf => SameValue(NextDown(NextUp(h)), h))
    /\ (IsFinite(h) /\ h # MaxFinite /\ SignOf(h) = 0 => NextUp(h) = h + 1)

SpecialLaws(h) ==
    \* the exact points claimed for exp2/log2/cbrt are consistent with Mul/Ldexp
    /\ (IsPow2H(h) => Ldexp(One, Log2OfPow2(h)) = h)
    /\ (IsFinite(h) /\ ~IsZero(h) /\ CbrtExact(h).exact =>
            LET c == RoundPack(SignOf(h), CbrtExact(h).root, CbrtExact(h).e, FALSE) IN
            Mul(Mul(c, c), c) = h)
    /\ (IsFinite(h) => Hypot(h, PosZero) = Fabs(h))
    \* 3-4-5 triangles whose sides are exact
    /\ (IsFinite(h) /\ Mant(h) * 5 < 2048 /\ Exp(h) < 3 =>
            Hypot(Mul(h, FromInt(3)), Mul(h, FromInt(4))) = Mul(Fabs(h), FromInt(5)))

(* cbrt verified by cubing: the rounding boundaries of r = Cbrt(h) bracket h.        *)
(* r = Mr*2^Er; boundaries (2Mr -+ 1)*2^(Er-1); cubes compared at the exponent 3Er-3. *)
CbrtLaw(h) ==
    IF IsNaN(h) \/ IsInf(h) \/ IsZero(h) THEN SameH(Cbrt(h), h)
    ELSE LET r  == Cbrt(h)
             Mr == NMant(r)  Er == NExp(r)
             sh == NExp(h) - (3 * Er - 3)
             H  == WShl(WFromNat(NMant(h)), sh)
             ce == CbrtExact(h)
         IN  /\ IsNormal(r) /\ SignOf(r) = SignOf(h)
             /\ sh >= 1 /\ sh <= 40
             /\ WCmp(WCube(2 * Mr - 1), H) < 0             \* a tie is impossible: an odd cube against an even number
             /\ WCmp(H, WCube(2 * Mr + 1)) < 0
             /\ (ce.exact => r = RoundPack(SignOf(h), ce.root, ce.e, FALSE))
             /\ Cbrt(Neg(h)) = Neg(r)

(* 2-3-6-7: 4 + 9 + 36 = 49 *)
Hypot3Law(h) ==
    /\ (IsFinite(h) /\ Mant(h) * 7 < 2048 /\ Exp(h) < 3 =>
            HypotFinite3(Mul(h, FromInt(2)), Mul(h, FromInt(6)), Mul(h, FromInt(3))) = Mul(Fabs(h), FromInt(7)))
    /\ (IsFinite(h) => HypotFinite3(h, PosZero, NegZero) = Fabs(h) /\ HypotFinite3(NegZero, h, PosZero) = Fabs(h))
    /\ Hypot3OK(h, PosInf, QNaN, PosInf) /\ Hypot3OK(h, PosInf, QNaN, QNaN)
    /\ (IsFinite(h) => Hypot3OK(h, NegInf, One, PosInf))

(* the numeric_limits parameters follow from the encoding *)
LimitsLaw ==
    /\ LimDigits = 11 /\ LimDigits10 = 3 /\ LimMaxDigits10 = 5
    /\ LimMinExp = -13 /\ LimMaxExp = 16 /\ LimMinExp10 = -4 /\ LimMaxExp10 = 4
    /\ LimMax = MaxFinite /\ LimLowest = 64511 /\ LimMin = 1024 /\ LimDenormMin = 1
    /\ LimEpsilon = 5120 /\ LimRoundError = HalfC
    /\ Ldexp(One, LimMinExp - 1) = LimMin /\ Ldexp(One, 1 - LimDigits) = LimEpsilon
    /\ IntMag(LimMax, "trunc") = 65504
    /\ Add(LimMax, Ldexp(One, LimMaxExp - 1 - LimDigits)) = PosInf              \* max + half an ulp: the tie goes to the even neighbour 2^16
    /\ Add(LimMax, NextDown(Ldexp(One, LimMaxExp - 1 - LimDigits))) = LimMax
    /\ IsQuietNaN(QNaN) /\ ~IsSignallingNaN(QNaN) /\ IsSignallingNaN(32000)
ASSUME LimitsLaw

(* ---- binary laws ---------------------------------------------------------- *)
(* fmod / remainder / remquo against TLA+'s own integer arithmetic on the values, *)
(* for integer-valued operands (all halves >= 1024 in magnitude are integers)      *)
ModIntLaw(a, b) ==
    (IsFinite(a) /\ IsFinite(b) /\ IsInteger(a) /\ IsInteger(b) /\ ~IsZero(b)) =>
        LET va == IntMag(a, "trunc")  vb == IntMag(b, "trunc")
            rm == va % vb
            q  == va \div vb
            up == 2 * rm > vb \/ (2 * rm = vb /\ q % 2 = 1)
            n  == IF up THEN q + 1 ELSE q
            rr == IF up THEN rm - vb ELSE rm                         \* signed, for |a|, |b|
            sa == SignOf(a)
        IN  /\ Fmod(a, b) = (IF rm = 0 THEN Zero(sa) ELSE FromInt(IF sa = 1 THEN -rm ELSE rm))
            /\ Remainder(a, b) = (IF rr = 0 THEN Zero(sa) ELSE FromInt(IF sa = 1 THEN -rr ELSE rr))
            /\ RemquoQuo(a, b).q8 = n % 8
            /\ QuoOK(a, b, IF SignOf(a) # SignOf(b) THEN -n ELSE n)
            /\ QuoOK(a, b, IF SignOf(a) # SignOf(b) THEN -(n % 8) ELSE n % 8)

ModLaws(a, b) ==
    LET fm == Fmod(a, b)  rm == Remainder(a, b) IN
    /\ ModIntLaw(a, b)
    /\ SameH(fm, IF Unordered(a, b) \/ IsInf(a) \/ IsZero(b) THEN QNaN ELSE fm)
    /\ (IsFinite(a) /\ IsFinite(b) /\ ~IsZero(b) =>
            /\ Lt(Fabs(fm), Fabs(b)) /\ SignOf(fm) = SignOf(a)
            /\ Le(Add(Fabs(rm), Fabs(rm)), Fabs(b))
            /\ Fmod(fm, b) = fm
            \* remainder is fmod or fmod -+ |b|
            /\ (rm = fm \/ (IsZero(rm) /\ IsZero(fm)) \/ SameValue(rm, Sub(fm, CopySign(b, a))))
            \* scaling by a power of two commutes (when nothing leaves the format)
            /\ (Exp(a) < 4 /\ Exp(b) < 4 /\ ExpOf(a) > 0 /\ ExpOf(b) > 0 =>
                    Fmod(Ldexp(a, 1), Ldexp(b, 1)) = Ldexp(fm, 1) /\ Remainder(Ldexp(a, 1), Ldexp(b, 1)) = Ldexp(rm, 1)))

ArithLaws(a, b) ==
    /\ SameH(Add(a, b), Add(b, a))
    /\ SameH(Mul(a, b), Mul(b, a))
    /\ SameH(Sub(a, b), Add(a, Neg(b)))
    /\ SameH(Neg(Sub(a, b)), IF Sub(a, b) = PosZero /\ Sub(b, a) = PosZero THEN NegZero ELSE Sub(b, a))
    /\ SameH(Mul(Neg(a), b), Neg(Mul(a, b)))
    /\ SameH(Div(Neg(a), b), Neg(Div(a, b)))
    /\ SameH(Fma(a, b, NegZero), Mul(a, b))
    /\ SameH(Fma(a, One, b), Add(a, b))
    /\ SameH(Fma(One, a, b), Add(a, b))
    /\ SameH(Fma(a, b, PosZero), IF Mul(a, b) = NegZero /\ (IsZero(a) \/ IsZero(b)) THEN PosZero ELSE Mul(a, b))
    \* fma with an exactly representable product is the plain sum
    /\ (IsFinite(a) /\ IsPow2H(b) /\ ExpOf(b) >= 15 /\ IsFinite(Mul(a, b)) => SameH(Fma(a, b, b), Add(Mul(a, b), b)))
    \* division by a power of two is multiplication by its reciprocal
    /\ (IsPow2H(b) /\ IsNormal(b) /\ ExpOf(b) < 30 => SameH(Div(a, b), Mul(a, Div(One, b))))
    \* order laws
    /\ (Lt(a, b) <=> Gt(b, a)) /\ (Le(a, b) <=> Ge(b, a)) /\ (Eq(a, b) <=> Eq(b, a))
    /\ (~Unordered(a, b) => (Lt(a, b) \/ Eq(a, b) \/ Gt(a, b)))
    /\ (Le(a, b) <=> (Lt(a, b) \/ Eq(a, b)))
    /\ (Ne(a, b) <=> ~Eq(a, b))
    \* monotonicity of addition and of multiplication by a non-negative factor (rounding is monotone)
    /\ (~IsNaN(a) /\ a # PosInf /\ ~IsNaN(b) /\ ~IsNaN(Add(a, b)) /\ ~IsNaN(Add(NextUp(a), b)) => Le(Add(a, b), Add(NextUp(a), b)))
    /\ (~IsNaN(a) /\ a # PosInf /\ ~IsNaN(b) /\ SignOf(b) = 0 /\ ~IsNaN(Mul(a, b)) /\ ~IsNaN(Mul(NextUp(a), b)) => Le(Mul(a, b), Mul(NextUp(a), b)))
    /\ (~IsNaN(a) /\ a # PosInf /\ IsPositive(b) /\ ~IsNaN(Div(a, b)) /\ ~IsNaN(Div(NextUp(a), b)) => Le(Div(a, b), Div(NextUp(a), b)))
    \* the error of a sum is itself representable when no overflow (Sterbenz/Dekker): (a+b)-a-b exact => checks Add against itself
    /\ (IsFinite(a) /\ IsFinite(b) /\ IsFinite(Add(a, b)) /\ Ge(Fabs(a), Fabs(b)) =>
            LET s == Add(a, b)  bb == Sub(s, a)  err == Sub(b, bb) IN
            \* FastTwoSum: s + err = a + b exactly; then rounding s + err gives s again
            Add(s, err) = s \/ (IsZero(s) /\ IsZero(Add(s, err))))

MinMaxHypotLaws(a, b) ==
    /\ FmaxOK(a, b, IF Unordered(a, b) THEN (IF IsNaN(a) THEN b ELSE a) ELSE IF Ge(a, b) THEN a ELSE b)
    /\ (~Unordered(a, b) => SameH(Fdim(a, b), IF Gt(a, b) THEN Sub(a, b) ELSE PosZero))
    \* hypot (costly wide arithmetic: every 37th x)
    /\ (a % 37 = 0 =>
          /\ SameH(Hypot(a, b), Hypot(b, a)) /\ SameH(Hypot(a, b), Hypot(a, Neg(b)))
          /\ (~Unordered(a, b) => Ge(Hypot(a, b), Fabs(a)) /\ Ge(Hypot(a, b), Fabs(b)))
          /\ (IsFinite(a) /\ IsFinite(b) => Le(Hypot(a, b), Add(Fabs(a), Fabs(b))))
          \* against Sqrt(Fma) when the sum of squares is exact in binary16 terms: |b| = |a| => hypot = |a|*sqrt(2) = Sqrt(2a^2) if 2a^2 exact
          /\ (IsFinite(a) /\ Mant(a) % 64 = 0 /\ ExpOf(a) > 8 /\ ExpOf(a) < 22 => Hypot(a, a) = Sqrt(Ldexp(Mul(a, a), 1)))
          \* the general wide-radicand route (used for three arguments) agrees with the two-argument definition
          /\ SameH(Hypot2ViaWide(a, b), Hypot(a, b))
          /\ (IsFinite(a) /\ IsFinite(b) =>
                /\ HypotFinite3(a, b, b) = HypotFinite3(b, a, Neg(b)) /\ HypotFinite3(a, b, b) = HypotFinite3(b, b, a)
                /\ Ge(HypotFinite3(a, b, One), Hypot(a, b)) /\ Ge(HypotFinite3(a, b, One), One)))

(* RoundPack is monotone in m, with and without sticky, at every exponent that matters: *)
(* m = x (16 bits) and m + 1/2 -+ epsilon at the exponents -40..7                        *)
RoundPackMonotone(m, e) ==
    LET a == RoundPack(0, m, e, FALSE)
        b == RoundPack(0, m + 1, e, FALSE)
        W == m * 8192 + 4096                         \* m + 1/2 with 13 extra bits (< 2^30)
        c == RoundPack(0, W, e - 13, FALSE)          \* exactly m + 1/2
        d == RoundPack(0, W, e - 13, TRUE)           \* a little more than m + 1/2
        g == RoundPack(0, W - 1, e - 13, TRUE)       \* a little less than m + 1/2
    IN  /\ Le(a, b) /\ Le(a, g) /\ Le(g, c) /\ Le(c, d) /\ Le(d, b)

(* which x take part in the (costlier) two-operand laws: every Stride-th half and *)
(* all halves whose fraction field is at a boundary                                *)
Sel(h) == h % Stride = 0 \/ FracOf(h) \in {0, 1, 2, 511, 512, 513, 1022, 1023}

Unary08(h) == DecodeEncode(h) /\ FloatRoundTrip(h) /\ MidpointLaw(h) /\ AddLaws1(h) /\ MulDivLaws1(h) /\ SqrtLaw(h)
Unary09(h) == RoundLaws(h) /\ ManipLaws(h) /\ SpecialLaws(h) /\ CbrtLaw(h) /\ Hypot3Law(h)

(* C08: conversions, + - * / fma sqrt, comparisons *)
Laws08 ==
    /\ Unary08(x)
    /\ (Sel(x) => \A i \in 1..Len(YS) : ArithLaws(x, YS[i]))
    /\ \A e \in {-37, -25, -14} : RoundPackMonotone(x, e)
    /\ (Sel(x) => \A e \in -40..7 : RoundPackMonotone(x, e))

(* ---- the ball arithmetic and the kernels of the real functions (HalfReal.tla, HalfTrans.tla) ------------ *)
(* two balls that enclose the same real number overlap *)
BOverlap(a, b) == LET d == BSub(a, b) IN NCmp(d.m, NFromInt(d.r)) <= 0
DecidedAs(R, v) == LET d == Decide(R) IN ~d.und /\ d.lo = v /\ d.hi = v

(* constants and primitives, each against a second route *)
RealConstLaws(n) ==
    /\ BOverlap(BMulSmall(AtanEighth(8, n), 4), Pi(n))                         \* the table recursion reaches atan 1 = pi/4 (Machin)
    /\ NCmp(NSub(Pi(n).m, NFromInt(Pi(n).r)), BRat(314159, 100000, n).m) > 0   \* 3.14159 < pi < 3.14160
    /\ NCmp(NAdd(Pi(n).m, NFromInt(Pi(n).r)), BRat(314160, 100000, n).m) < 0
    /\ Pi(n).r <= 8 /\ Ln2(n).r <= 8 /\ Ln10(n).r <= 8 /\ TwoOverPiX(n).r <= 8
    /\ BOverlap(ExpSeries(Ln2(n), n), BInt(2, n))                              \* e^(log 2) = 2
    /\ BOverlap(LnNat(10, n), Ln10(n)) /\ BOverlap(LnNat(1000, n), BMulSmall(Ln10(n), 3))
    /\ BOverlap(LnNat(1024, n), BMulSmall(Ln2(n), 10))
    /\ BOverlap(BMul(BRecip(BInt(3, n), n), BInt(3, n), n), BOne(n))
    /\ BOverlap(BMul(InvLn2(n), Ln2(n), n), BOne(n)) /\ BOverlap(BMul(InvLn10(n), Ln10(n), n), BOne(n))
    /\ BOverlap(BMul(BShr(TwoOverPiX(n), 1), PiAt(n + 1), n + 1), BOne(n + 1))
    /\ (LET s == BSqrt(BInt(2, n), n) IN BOverlap(BMul(s, s, n), BInt(2, n)))
    /\ (LET s == BSqrt(BRat(1, 1000, n), n) IN BOverlap(BMulSmall(BMul(s, s, n), 1000), BOne(n)))
    /\ BOverlap(LnBall(BRat(5, 2, n), n), BSub(LnNat(5, n), Ln2(n)))
    /\ BOverlap(AtanBall01(BRat(3, 7, n), n), AtanRatio(3, 7, n))
    \* known values: atan 1 = pi/4, asin 1 = acos 0 = pi/2, acos -1 = pi round to the constants Half.tla states (PiBounds)
    /\ DecidedAs(Eval("atan", One, n), PiOver4H) /\ DecidedAs(Eval("asin", One, n), PiOver2H) /\ DecidedAs(Eval("asin", Neg(One), n), Neg(PiOver2H))
    /\ DecidedAs(Eval("acos", PosZero, n), PiOver2H) /\ DecidedAs(Eval("acos", Neg(One), n), PiH)
    \* results that are exactly representable, reached through the general kernels: 2^3, log2 8, log10 1000, e^0+, cosh of the least subnormal
    /\ DecidedAs(Exp2Eval(FromInt(3), n), FromInt(8)) /\ DecidedAs(Exp2Eval(FromInt(-3), n), RoundPack(0, 1, -3, FALSE))
    /\ DecidedAs(LogEval("log2", FromInt(8), n), FromInt(3)) /\ DecidedAs(LogEval("log10", FromInt(1000), n), FromInt(3))
    /\ DecidedAs(Eval("cosh", 1, n), One) /\ DecidedAs(Eval("exp", 1, n), One) /\ DecidedAs(Eval("sin", 1, n), 1) /\ DecidedAs(Eval("tanh", 1, n), 1)
ASSUME RealConstLaws(NLo)
ASSUME RealConstLaws(NHi)

RealFns == << "exp", "exp2", "expm1", "log", "log10", "log2", "log1p", "sin", "cos", "tan", "asin", "acos", "atan", "sinh", "cosh", "tanh", "asinh", "acosh", "atanh" >>
OddFns  == {"expm1_no", "sin", "tan", "asin", "atan", "sinh", "tanh", "asinh", "atanh"}
EvenFns == {"cos", "cosh"}
IncreasingFns == {"exp", "exp2", "expm1", "log", "log10", "log2", "log1p", "asin", "atan", "sinh", "tanh", "asinh", "acosh", "atanh"}
InDomain(f, h) == Special1(f, h).k = "any"
OrdLo(d) == Min(Ord(d.lo), Ord(d.hi))
OrdHi(d) == Max(Ord(d.lo), Ord(d.hi))

(* for one function per x (rotating): the 70-bit enclosure decides up to two adjacent halves, contains what the 42-bit one decided, *)
(* respects the function's symmetry and monotonicity; sin^2 + cos^2 encloses 1                                                  *)
RealLaw(h) ==
    LET f == RealFns[((h \div 8) % Len(RealFns)) + 1] IN
    InDomain(f, h) =>
        LET d1 == Decide(Eval(f, h, NLo))
            d2 == Decide(Eval(f, h, NHi))
            up == NextUp(h)
        IN  /\ ~d2.und /\ OrdHi(d2) - OrdLo(d2) <= 1
            /\ (Decided(d1) => OrdLo(d2) <= Ord(d1.lo) /\ Ord(d1.lo) <= OrdHi(d2))
            /\ (f \in OddFns /\ InDomain(f, Neg(h)) => LET dn == Decide(Eval(f, Neg(h), NHi)) IN dn.lo = Neg(d2.lo) /\ dn.hi = Neg(d2.hi))
            /\ (f \in EvenFns => Decide(Eval(f, Neg(h), NHi)) = d2)
            /\ (f \in IncreasingFns /\ InDomain(f, up) => OrdLo(d2) <= OrdHi(Decide(Eval(f, up, NHi))))
            /\ (f = "acos" /\ InDomain(f, up) => OrdHi(d2) >= OrdLo(Decide(Eval(f, up, NHi))))
            /\ (f = "sin" => LET sn == Eval("sin", h, NHi)  cs == Eval("cos", h, NHi) IN
                              sn.e = -14 * NHi /\ cs.e = -14 * NHi => BOverlap(BAdd(BMul(sn.b, sn.b, NHi), BMul(cs.b, cs.b, NHi)), BOne(NHi)))
            /\ (f = "cosh" => LET c == Eval("cosh", h, NHi)  sh == Eval("sinh", h, NHi) IN          \* cosh^2 - sinh^2 = 1 where both are moderate
                              c.t = "ball" /\ sh.t = "ball" /\ c.e = sh.e /\ c.e + 14 * NHi \in 0..3 =>
                                  BOverlap(BSub(BMul(c.b, c.b, NHi), BMul(sh.b, sh.b, NHi)), BScale2(BOne(NHi), -2 * (c.e + 14 * NHi))))
RSel(h) == h % (8 * Stride) = 5

(* C09: rounding to integers, frexp/ldexp/modf/ilogb/logb/nextafter, fmod family, fdim/fmax/fmin, hypot, exact points *)
Laws09 ==
    /\ Unary09(x)
    /\ (RSel(x) => RealLaw(x))
    /\ (Sel(x) => \A i \in 1..Len(YS) : ModLaws(x, YS[i]) /\ MinMaxHypotLaws(x, YS[i]))

=============================================================================

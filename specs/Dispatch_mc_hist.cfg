SPECIFICATION Spec
CONSTANTS
  Kinds <- KMapDyn
  Arities = {2}
  NXs = {0}
  K = 2
  MaxHist = 4
  MaxCells = 9
  OpClasses <- OpsTable
  EmitMode <- ModeNone
CONSTRAINT Bound
VIEW histvars
INVARIANTS TypeOK RegIsHistory DispatchExact

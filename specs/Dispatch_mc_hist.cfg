\* L1 history theorems: the tables are the last registration per tuple / the replayed lineage of copies
SPECIFICATION Spec
CONSTANTS
  Kinds <- KMapFast
  Arities = {1, 2}
  NXs = {0}
  K = 2
  MaxHist = 3
  MaxCells = 9
  OpClasses <- OpsHistTable
  EmitMode <- ModeNone
  Plans <- NoPlans
CONSTRAINT Bound
VIEW histvars
INVARIANTS TypeOK RegIsHistory TablesAreHistory DispatchExact

SPECIFICATION Spec
CONSTANTS
  ByteReps <- BoundaryBytes
  MaxLen = 1
  TextReps <- BoundaryText
  MaxText = 3
  IndexMode = "size_t_of_char"
  ReadMode = "forward"
INVARIANTS IndexInTable

SPECIFICATION Spec
CONSTANTS
  Strict = TRUE
  Vals = {1}
  MaxFuse = 3
  MaxEv = 0
  CallSet <- MCCalls
  EmitOn = TRUE
VIEW iview
ACTION_CONSTRAINT Emit

SPECIFICATION Spec
CONSTANTS
  TrackedAlts = {1, 2, 3}
  NTMAlts = {0, 1}
  Strict = TRUE
  Vals = {1}
  MaxFuse = 3
  MaxEv = 0
  CallSet <- MCCalls
  EmitOn = TRUE
VIEW iview
ACTION_CONSTRAINT Emit

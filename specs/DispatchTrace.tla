---------------------------- MODULE DispatchTrace ----------------------------
(* Trace validation for C17: every line of the ndjson trace recorded from the real xtl      *)
(* dispatchers and visitors must be a step of Dispatch (L1) with the logged arguments, and  *)
(* the logged outcome and the probed dispatch table must be the spec's.                     *)
EXTENDS Dispatch, IOUtils

VARIABLE l     \* next line of the trace to be explained

JsonTrace == ndJsonDeserialize(IOEnv.TRACE)
ExplainAt == atoi(IOEnv.EXPLAIN)

NoCfg == [kind |-> "none", ar |-> 1, nx |-> 0, k |-> 1]

TInit ==
    /\ l = 1
    /\ cfg = NoCfg
    /\ reg = ZeroReg(1, 1)
    /\ hist = <<>>
    /\ last = [op |-> "Init", a |-> NoArg, res |-> Void]
    /\ pre = [reg |-> ZeroReg(1, 1)]

(* a new execution: a fresh dispatcher of the given kind over fresh class indices *)
TReset(e) ==
    /\ e.a.kind \in FunctorKinds \cup {"none"}
    /\ cfg' = [kind |-> e.a.kind, ar |-> e.a.ar, nx |-> e.a.nx, k |-> e.a.k]
    /\ reg' = ZeroReg(e.a.ar, e.a.k)
    /\ hist' = <<>>
    /\ pre' = [reg |-> reg]
    /\ last' = [op |-> "Reset", a |-> e.a, res |-> Void]

Apply(e) == LET a == e.a IN
    \/ e.op = "Reset"     /\ TReset(e)
    \/ e.op = "Insert"    /\ Insert(a.t, a.h)
    \/ e.op = "Erase"     /\ Erase(a.t)
    \/ e.op = "Dispatch"  /\ Dispatch(a.os, a.xs)
    \/ e.op = "Static"    /\ Static(a.lhs, a.rhs, a.cst, a.os[1], a.os[2])
    \/ e.op = "StaticSym" /\ a.lhs = a.rhs /\ StaticSym(a.lhs, a.cst, a.os[1], a.os[2])
    \/ e.op = "Accept"    /\ Accept(a.v, a.vis, a.o)
    \/ e.op = "Cyclic"    /\ Cyclic(a.cst, a.o)

TNext ==
    /\ l <= Len(JsonTrace)
    /\ LET e == JsonTrace[l] IN
        /\ Apply(e)
        /\ IF l = ExplainAt
             THEN PrintT(<<"EXPECTED", last'.res, ProjAll'>>)
             ELSE /\ last'.res = e.res
                  /\ ProjAll' = e.st
    /\ l' = l + 1

TSpec == TInit /\ [][TNext]_<<vars, l>>
TraceAccepted == TLCGet("stats").diameter - 1 = Len(JsonTrace)
=============================================================================

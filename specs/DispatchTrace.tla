---------------------------- MODULE DispatchTrace ----------------------------
(* Trace validation for C17: every line of the ndjson trace recorded from the real xtl      *)
(* dispatchers and visitors must be a step of Dispatch (L1) with the logged arguments, and  *)
(* the logged outcome and the probed dispatch tables must be the spec's.                    *)
(* An event whose op is Crash or Desync (the driver died, exceeded its CPU limit, or could  *)
(* not follow the script) matches no action: the trace is rejected there.                   *)
EXTENDS Dispatch, IOUtils

VARIABLE l     \* next line of the trace to be explained

JsonTrace == ndJsonDeserialize(IOEnv.TRACE)
ExplainAt == atoi(IOEnv.EXPLAIN)

NoCfg == [kind |-> "none", ar |-> 1, nx |-> 0, k |-> 1, fl |-> "exc"]

TInit ==
    /\ l = 1
    /\ cfg = NoCfg
    /\ reg = ZeroReg(1, 1)
    /\ reg2 = ZeroReg(1, 1)
    /\ has2 = FALSE
    /\ seen = {}
    /\ hist = <<>>
    /\ last = [op |-> "Init", a |-> NoArg, res |-> Void]
    /\ pre = [reg |-> ZeroReg(1, 1), reg2 |-> ZeroReg(1, 1), has2 |-> FALSE]

Has(a, f) == f \in DOMAIN a
SlotOf(a) == IF Has(a, "d") THEN a.d ELSE 1
CvOf(a) == IF Has(a, "cv") THEN a.cv ELSE "same"

(* a new execution: fresh dispatcher object(s) of the given kind over fresh class indices *)
TReset(e) ==
    /\ e.a.kind \in FunctorKinds \cup {"none"}
    /\ LET c == [kind |-> e.a.kind, ar |-> e.a.ar, nx |-> e.a.nx, k |-> e.a.k,
                 fl |-> IF Has(e.a, "fl") THEN e.a.fl ELSE "exc"] IN
       /\ c.fl \in {"exc", "noexc"} /\ c.ar \in 1..3 /\ c.k \in 1..5 /\ CfgOK(c)
       /\ cfg' = c
       /\ reg' = ZeroReg(c.ar, c.k)
       /\ reg2' = ZeroReg(c.ar, c.k)
    /\ has2' = FALSE
    /\ seen' = {}
    /\ hist' = <<>>
    /\ pre' = [reg |-> reg, reg2 |-> reg2, has2 |-> has2]
    /\ last' = [op |-> "Reset", a |-> e.a, res |-> Void]

Apply(e) == LET a == e.a IN
    \/ e.op = "Reset"     /\ TReset(e)
    \/ e.op = "Insert"    /\ Insert(SlotOf(a), a.t, a.h)
    \/ e.op = "Erase"     /\ Erase(SlotOf(a), a.t)
    \/ e.op = "Dispatch"  /\ Dispatch(SlotOf(a), a.os, a.xs)
    \/ e.op = "Clone"     /\ Clone(a.how)
    \/ e.op = "Take"      /\ Take(a.how)
    \/ e.op = "Drop2"     /\ Drop2
    \/ e.op = "New2"      /\ New2
    \/ e.op = "Static"    /\ Static(a.lhs, a.rhs, a.cst, CvOf(a), a.os[1], a.os[2])
    \/ e.op = "StaticSym" /\ a.lhs = a.rhs /\ StaticSym(a.lhs, a.cst, CvOf(a), a.os[1], a.os[2])
    \/ e.op = "Accept"    /\ Accept(a.v, a.m, a.o)
    \/ e.op = "Cyclic"    /\ Cyclic(a.cst, a.rv, a.o)

TNext ==
    /\ l <= Len(JsonTrace)
    /\ LET e == JsonTrace[l] IN
        /\ Apply(e)
        /\ IF l = ExplainAt
             THEN PrintT(<<"EXPECTED", last'.res, ProjAll'>>)
             ELSE /\ last'.res = e.res
                  /\ ProjAll' = e.st
    /\ l' = l + 1

TSpec == TInit /\ [][TNext]_<<vars, l>>
TraceAccepted == TLCGet("stats").diameter - 1 = Len(JsonTrace)
=============================================================================

----------------------------- MODULE ComplexFnMC -----------------------------
(* S->C enumeration for ComplexFn: TLC enumerates (type, flag, function, operand) cases over a grid of special and    *)
(* dyadic component values and writes each as a JSON line; harness/complex/driver.cpp (mode "fn") evaluates them.    *)
EXTENDS ComplexFn, TLC, Json

CONSTANTS Ts, FnsOn, Grid    \* Grid: "few" | "many"
VARIABLE c

Signed(S) == S \cup {DNeg(d) : d \in S}
Specials  == {NaN, Inf(0), Inf(1), Zero(0), Zero(1)}
(* magnitudes relative to the format: 1, 1.5, a subnormal, the smallest normal, near the largest finite *)
MagsFew(t)  == {Num(3, 0 - 1), Num(1, EMinS(t) + 1), Num(7, EMax(t) - 2)}
MagsMany(t) == MagsFew(t) \cup {Num(1, 0), Num(5, 0 - 3), Num(1, EMinS(t)), Num(3, EMinN(t) - 2), Num(1, EMinN(t)), Num(1, EMax(t)),
                                Num(1, EMax(t) \div 2 + 1), Num(1, 5), Num(1, 0 - 30)}
Comp(t) == Specials \cup Signed(IF Grid = "few" THEN MagsFew(t) ELSE MagsMany(t))
(* second operands of pow / == / != : few *)
Seconds(t) == {<<Num(1, 1), Zero(0)>>, <<Num(1, 0 - 1), Zero(0)>>, <<Num(0 - 1, 0), Num(1, 0)>>, <<Zero(0), Zero(0)>>,
               <<Zero(1), Zero(1)>>, <<NaN, Num(1, 0)>>, <<Inf(0), Num(1, 0)>>, <<Num(3, 0 - 1), Num(0 - 3, 0 - 1)>>}
Scalars(t) == {<<Num(1, 1), Zero(0)>>, <<Num(1, 0 - 1), Zero(0)>>, <<Num(0 - 1, 0), Zero(0)>>, <<Zero(0), Zero(0)>>, <<Num(3, 0), Zero(0)>>,
               <<Inf(0), Zero(0)>>, <<NaN, Zero(0)>>}
Ints == {<<Num(1, 1), Zero(0)>>, <<Num(3, 0), Zero(0)>>, <<Zero(0), Zero(0)>>, <<Num(0 - 1, 0), Zero(0)>>}
YsOf(fn, t, x) == CASE fn \in OwnB -> Seconds(t) \cup {x}             \* also the operand itself (NaN == NaN is false)
                    [] fn = "pow_cc" -> Seconds(t)
                    [] fn \in {"pow_cs", "pow_sc"} -> Scalars(t)
                    [] fn = "pow_ci" -> Ints
                    [] OTHER -> {PZ}
AllTs == FloatTypes
QuickTs == {"float", "double"}
AllFns == Fns

Init == \E t \in Ts, b \in BOOLEAN, fn \in FnsOn :
         \E x1 \in Comp(t), x2 \in Comp(t) :
          \E y \in YsOf(fn, t, <<x1, x2>>) :
            /\ CaseOK([t |-> t, b |-> b, fn |-> fn, x |-> <<x1, x2>>, y |-> y])
            /\ c = [t |-> t, b |-> b, fn |-> fn, x |-> <<x1, x2>>, y |-> y]
            /\ PrintT("@X@" \o ToJson(c))
Next == UNCHANGED c
Spec == Init /\ [][Next]_c

(* theorems of the specification on every enumerated case *)
FnLaws ==
    /\ DNeg(DNeg(c.x[1])) = c.x[1]
    /\ (c.x[1].k # "nan" => DEq(c.x[1], c.x[1])) /\ (c.x[1].k = "nan" => ~DEq(c.x[1], c.x[1]))
    /\ DEq(c.x[1], c.y[1]) = DEq(c.y[1], c.x[1])
    /\ (IsOwn(c.fn) /\ c.fn \notin OwnB => ResSame(Own(c.fn, c.x, c.y), Own(c.fn, c.x, c.y)))
    /\ (c.fn \in OwnB => Own("eq", c.x, c.y)[1] # Own("ne", c.x, c.y)[1])
    /\ Own("neg", <<Zero(0), Num(3, 1)>>, PZ) = <<[k |-> "zero", s |-> 1], Fp(0 - 3, 1)>>
    /\ Own("conj", <<Inf(1), Zero(1)>>, PZ) = <<[k |-> "inf", s |-> 1], [k |-> "zero", s |-> 0]>>
=============================================================================

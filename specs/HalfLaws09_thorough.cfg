SPECIFICATION Spec
CONSTANT YS <- YThorough
CONSTANT Stride = 16
INVARIANT Laws09
CHECK_DEADLOCK FALSE

SPECIFICATION Spec
INVARIANT Conforms

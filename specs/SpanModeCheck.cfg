SPECIFICATION CSpec
POSTCONDITION TraceAccepted
CHECK_DEADLOCK FALSE

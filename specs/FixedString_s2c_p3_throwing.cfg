SPECIFICATION Spec
CONSTANTS
  Caps = {3}
  Policies = {"throwing"}
  Layouts = {"packed"}
  Chars <- Chars012
  Lits <- LitsNul
  PosDom <- Pos3
  SubDom <- SubFew
  Targets = {1}
  OtherInit <- OtherOne
  Classes <- Unary
  EmitOps <- AllOps
CONSTRAINT OtherBound
ACTION_CONSTRAINT Emit
VIEW absvars
INVARIANTS TypeOK Laws
PROPERTIES FailedChangesNothing ObserversPure ReturnedIteratorInRange SilentNeverLengthError

SPECIFICATION Spec
CONSTANTS
  NReg = 2
  Vals <- ValsTiny
  MCKinds <- KindsMCDeep
  Classes <- AllClasses
  MCFuns <- FewFuns
  MCHows <- FewHows
  Canonical = FALSE
  AliasInit = FALSE
  EmitOn = FALSE
CONSTRAINT Tiny
VIEW absvars
INVARIANTS TypeOK EqualityLaws AliasCoherent
PROPERTIES Propagation NeverEvaluated DivTargetKept SelectLaw ValueOrLaw OperandsKept OwnersKept

\* S->C, random walks (tlc -simulate file=...,num=N -depth D) over 5 classes.
\* Reference instance of what checks/c17.py generates per kind (gen_cfg).
SPECIFICATION Spec
CONSTANTS
  Kinds <- KMapDyn
  Arities = {1, 2}
  NXs = {0, 1, 2, 3}
  K = 5
  MaxHist = 999
  MaxCells = 999
  OpClasses <- OpsSimInsEr
  EmitMode <- ModeNone
  Plans <- NoPlans
CONSTRAINT Bound

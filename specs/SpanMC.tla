------------------------------- MODULE SpanMC -------------------------------
(* Model-checking instances of Span: argument domains that cannot be written in a .cfg *)
EXTENDS Span
ThreeModes == {"unchecked", "throwing", "terminate"}
BothModes  == {"unchecked", "throwing"}
Unchecked  == {"unchecked"}
ThrowingM  == {"throwing"}
AllKinds   == {"heap", "carray", "stdarray", "vector", "box"}
HeapOnly   == {"heap"}
AllClasses == {"mem", "ctor", "copy", "sub", "subs", "elem", "write", "cmp"}
NoEmit     == {}
AllOps     == {"FromPtrCount", "FromPtrPair", "FromArray", "FromStdArray", "FromContainer", "MakeSpan", "Deduce", "Default",
               "Copy", "Convert", "First", "Last", "Subspan", "Subspan1", "Nm", "FirstS", "LastS", "SubspanS", "NmS",
               "Index", "At", "Front", "Back", "Bind", "Write", "Cmp", "AsBytes"}
=============================================================================

------------------------------- MODULE SpanMC -------------------------------
(* Model-checking instances of Span: argument domains that cannot be written in a .cfg *)
EXTENDS Span
BothModes  == {"unchecked", "throwing"}
Unchecked  == {"unchecked"}
ThrowingM  == {"throwing"}
AllKinds   == {"heap", "carray", "stdarray", "vector"}
HeapOnly   == {"heap"}
AllClasses == {"mem", "ctor", "copy", "sub", "subs", "elem", "write", "cmp"}
NoEmit     == {}
AllOps     == {"FromPtrCount", "FromPtrPair", "FromArray", "FromStdArray", "FromContainer", "MakeSpan", "Default", "ConstFrom",
               "Copy", "Convert", "First", "Last", "Subspan", "Subspan1", "Nm", "FirstS", "LastS", "SubspanS",
               "Index", "At", "Front", "Back", "Write", "Cmp", "AsBytes"}
=============================================================================

------------------------------ MODULE Base64MC ------------------------------
(* Model-checking instance for Base64.tla: every string of a finite universe *)
(* is one TLC state; the laws of Base64.tla are the invariant.               *)
EXTENDS Base64, TLC

CONSTANTS ByteReps,   \* byte values used for encode / round-trip laws
          MaxLen,     \* longest byte string
          TextReps,   \* character codes used for decode laws (alphabet and hostile ones)
          MaxText     \* longest text

VARIABLES kind, s
vars == <<kind, s>>

StringsUpTo(A, n) == UNION {[1..k -> A] : k \in 0..n}

Init == \/ kind = "bytes"   /\ s \in StringsUpTo(ByteReps, MaxLen)
        \/ kind = "text"    /\ s \in StringsUpTo(TextReps, MaxText)
        \/ kind = "vectors" /\ s = <<>>
Next == UNCHANGED vars
Spec == Init /\ [][Next]_vars

Laws == CASE kind = "bytes"   -> EncodeLaws(s)
          [] kind = "text"    -> DecodeLaws(s)
          [] kind = "vectors" -> RFCVectors /\ AlphabetLaw

BoundaryBytes == {0, 1, 63, 64, 127, 128, 191, 192, 254, 255}
(* 'A' '/' '+' 'z' '9' and the hostile ones: '=' ' ' 0x80 0xFF NUL *)
BoundaryText  == {65, 47, 43, 122, 57, 61, 32, 128, 255, 0}
=============================================================================

SPECIFICATION Spec
CONSTANTS
  Anys = {1, 2, 3, 4}
  Types = {"Small", "Big", "Sp"}
  Vals = {1}
  Fuses = {0, 1}
  AFuses = {0}
  MCCastForms <- FewCastForms
  CountOps = FALSE
VIEW absvars
INVARIANTS TypeOK IsCanon NoLeakNoDangling Independent
PROPERTIES ObserversPure NoexceptNeverThrow ThrowChangesNothing OthersUntouched CopyCopies SwapSwaps ObserversAgree NonRvalueSourceCopies RvalueMoves

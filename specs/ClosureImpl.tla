----------------------------- MODULE ClosureImpl -----------------------------
(***************************************************************************)
(* L2 for C07: the storage model of xclosure_wrapper, xclosure_pointer and  *)
(* xproxy_wrapper_impl, transcribed from the code (include/xtl/xclosure.hpp *)
(* 39-63 closure_type / const_closure_type, 99-171 + 219-366 the wrapper,   *)
(* 181-213 + 372-400 the pointer, xproxy_wrapper.hpp 17-45).                *)
(*                                                                          *)
(*   xclosure_wrapper<CT>:  storing_type = ptr_closure_type_t<CT>           *)
(*        CT = T&  (lvalue closure): a POINTER to the caller's object       *)
(*        CT = T   (value closure):  the VALUE, inline in the wrapper       *)
(*        get_storage_init: &e / std::forward(e);  deref: *p / the member   *)
(*        operator=(const self&): deref = deref(rhs)                        *)
(*        operator=(self&&):      swap(rhs)   (std::swap of the referents)  *)
(*        copy/move construction: defaulted (copies the pointer, or copies/ *)
(*        moves the inline value)                                           *)
(*   xclosure_pointer<CT>:  storing_type = closure_type_t<CT> = CT itself:  *)
(*        a reference member (bound once) or an inline value                *)
(*   xproxy_wrapper_impl<P>: derives from P; operator& & points at itself,  *)
(*        operator& && move-constructs a pointer-owned copy                 *)
(*                                                                          *)
(* Addresses are the cell names of L1 (x1.., o<k>_1, t1..).  The payload    *)
(* classes of the harness set a moved-from object to MOVED; int is copied.  *)
(* TLC checks that every L2 step is the L1 step of the same call            *)
(* (Refines) and representation invariants.  L2 is advisory: a mismatch     *)
(* with the code or with L1 is reported as MODEL-DRIFT, never as a verdict. *)
(***************************************************************************)
EXTENDS Naturals, Sequences, FiniteSets, TLC

CONSTANTS NX, NF, NB, NS, NW, NT, Vals, Kinds, Payloads, FeatSets, Cats, MCVars, Depth,
          Mutation          \* "none", or the name of a deliberately wrong transcription (self-test of the refinement check)

VARIABLES payload, feat,
          mem,      \* address -> [val, live]
          rep,      \* slot -> NoRep or the representation of the wrapper
          last,     \* ghost: the call and L1's expected result for it
          hist,     \* ghost: calls so far
          xres      \* what the code returns, exactly: << [t, v] >>, and the payload constructions it performs [copies, moves]

ivars == <<payload, feat, mem, rep, last, hist, xres>>
implview == <<payload, feat, mem, rep, Len(hist)>>

NoRep == [kind |-> "none", cls |-> "none", lref |-> FALSE, cst |-> FALSE, at |-> "none"]
AbsWrapper(r) == IF r = NoRep THEN [kind |-> "none", c |-> <<>>]
                 ELSE [kind |-> r.kind, c |-> <<[m |-> IF r.lref THEN "ref" ELSE "own", id |-> r.at, wr |-> ~r.cst]>>]
AbsW == [k \in 1..NW |-> AbsWrapper(rep[k])]

A == INSTANCE Closure WITH Classes <- {}, Havoc <- TRUE, Staged <- FALSE, Ops <- 0,
                           EmitOn <- FALSE, cell <- mem, w <- AbsW

MOVED == A!MOVED
MovedVal(v) == IF payload = "int" THEN v ELSE MOVED      \* a moved-from int keeps its value
Val(id) == mem[id].val
Own(k) == A!OId(k, 1)
NoCount == [copies |-> 0, moves |-> 0]
XR(val, copies, moves) == [val |-> val, copies |-> copies, moves |-> moves]
XVoid == XR(<<>>, 0, 0)

----------------------------------------------------------------------------
(* the closure type CT the factory deduces for a source: [lref, cst] (xclosure.hpp:39-63) *)
SrcIsLvalue(src) == src.cat \in {"lv", "clv"}
SrcIsConst(src)  == src.cat \in {"clv", "cxvar"}
ClosureTypeOf(src)      == [lref |-> SrcIsLvalue(src), cst |-> SrcIsConst(src)]                   \* closure_type<S>
ConstClosureTypeOf(src) == [lref |-> SrcIsLvalue(src), cst |-> SrcIsLvalue(src)]                  \* const_closure_type<S>: add_const for lvalues, decay otherwise
CTOf(via, src) == IF via = "const_closure"
                    THEN (IF Mutation = "const_closure_not_const" THEN [lref |-> SrcIsLvalue(src), cst |-> FALSE] ELSE ConstClosureTypeOf(src))
                    ELSE ClosureTypeOf(src)
ClsOf(kind, src) == CASE kind = "cw" -> "wrapper"
                      [] kind = "cp" -> "pointer"
                      [] kind = "pw" -> IF SrcIsLvalue(src) \/ payload = "int" THEN "wrapper" ELSE "proxy"   \* xproxy_wrapper<P>: is_class<P> ? impl : xclosure_wrapper

----------------------------------------------------------------------------
Step(op, k, a, l1res, x, newmem, newrep) ==
    /\ mem' = newmem
    /\ rep' = newrep
    /\ last' = [op |-> op, k |-> k, a |-> a, res |-> l1res]
    /\ hist' = Append(hist, [op |-> op, k |-> k, a |-> a])
    /\ xres' = x
    /\ UNCHANGED <<payload, feat>>

(* construction: get_storage_init / member initialisation *)
Make(k, kind, via, src) ==
    /\ kind \in {"cw", "cp", "pw"} /\ via \in A!Vias(kind)
    /\ A!SrcOK(kind, via, 1, src)
    /\ (src.cat = "xtemp") => A!FreeT # {}
    /\ LET ct   == CTOf(via, src)
           cls  == ClsOf(kind, src)
           sid  == IF src.cat \in A!VarCats THEN A!VId("x", src.i) ELSE "none"
           sval == IF src.cat \in A!VarCats THEN Val(sid) ELSE src.v
           m0   == A!KillOwn(mem, k)
           (* pointer storage: the address of the argument (return &e; / reference member bound to e) *)
           r    == IF ct.lref /\ Mutation # "lvalue_copied" THEN [kind |-> kind, cls |-> cls, lref |-> TRUE, cst |-> ct.cst, at |-> sid]
                   ELSE [kind |-> kind, cls |-> cls, lref |-> FALSE, cst |-> ct.cst, at |-> Own(k)]
           (* value storage: constructed from std::forward(e): moved from a non-const rvalue, copied from a const one *)
           moves == ~r.lref /\ ~SrcIsConst(src) /\ ~SrcIsLvalue(src)
           m1   == IF r.lref THEN m0 ELSE [m0 EXCEPT ![Own(k)] = A!Obj(sval)]
           m2   == IF moves /\ src.cat = "xvar" THEN [m1 EXCEPT ![sid].val = MovedVal(sval)] ELSE m1
           m3   == IF src.cat = "xtemp" THEN [m2 EXCEPT ![A!TId(A!MinOf(A!FreeT))] = A!Obj(src.v)] ELSE m2     \* (a temporary's value is not observed)
       IN Step("Make", k, [kind |-> kind, via |-> via, s |-> <<src>>],
               A!Res(IF r.lref THEN "none" ELSE "any", "na", <<>>),
               XR(<<>>, IF r.lref \/ moves THEN 0 ELSE 1, IF moves THEN 1 ELSE 0),
               m3, [rep EXCEPT ![k] = r])

Destroy(k) ==
    /\ rep[k] # NoRep
    /\ Step("Destroy", k, A!NoArg, A!Res(IF rep[k].lref THEN "none" ELSE "any", "na", <<>>), XVoid,
            A!KillOwn(mem, k), [rep EXCEPT ![k] = NoRep])
EndTemps == Step("EndTemps", 0, A!NoArg, A!Void, XVoid, A!Kill(mem, A!TmpIds), rep)
WriteVar(cls, i, v) ==
    /\ cls \in A!VarClasses /\ i \in 1..A!NVar(cls) /\ v \in Nat
    /\ Step("WriteVar", 0, [cls |-> cls, i |-> i, v |-> v], A!Void, XVoid, [mem EXCEPT ![A!VId(cls, i)].val = v], rep)

(* deref(m_wrappee): *p for pointer storage, the member itself otherwise.  The by-value access paths  *)
(* (get() &&, the conversion operators of a value closure) copy the stored value: `return deref(..)` *)
(* returns an lvalue, so nothing is moved out of the wrapper                                          *)
Read(k, form) ==
    /\ rep[k] # NoRep /\ form \in A!FormsOf(AbsW[k])
    /\ (~rep[k].lref /\ form \in A!ByValForms) => payload # "moveonly"
    /\ LET r == rep[k]
           byval == ~r.lref /\ form \in (A!ByValForms \ {"crget"})     \* get() const & on a const rvalue: a reference to the member
       IN Step("Read", k, [form |-> form], A!Res("any", "na", <<A!ReadItem(AbsW[k], 1, form)>>),
               XR(<<[t |-> IF r.lref THEN r.at ELSE IF byval THEN "value" ELSE "self", v |-> Val(r.at)]>>, IF byval THEN 1 ELSE 0, 0),
               mem, rep)

(* operator=(T&&): deref(m_wrappee) = std::forward<T>(t) *)
Assign(k, v, cat) ==
    /\ rep[k] # NoRep /\ ~rep[k].cst /\ cat \in {"lv", "rv"} /\ v \in Vals
    /\ (cat = "lv") => payload # "moveonly"
    /\ Step("Assign", k, [v |-> v, cat |-> cat], A!Void, XR(<<>>, 0, 0), [mem EXCEPT ![rep[k].at].val = v], rep)

(* defaulted copy / move construction of the wrapper object *)
Clone(k, j, move, form) ==
    /\ k # j /\ rep[j] # NoRep
    /\ (~rep[j].lref /\ (~move \/ rep[j].cst)) => payload # "moveonly"
    /\ LET J  == rep[j]
           m0 == A!KillOwn(mem, k)
           really == move /\ ~J.cst                              \* a const member is copied even by the move constructor
           shares == J.lref /\ Mutation # "copy_reseats_self"
           r  == IF shares THEN J ELSE [J EXCEPT !.at = Own(k), !.lref = FALSE]
           m1 == IF shares THEN m0 ELSE [m0 EXCEPT ![Own(k)] = A!Obj(Val(J.at))]
           m2 == IF ~J.lref /\ really THEN [m1 EXCEPT ![J.at].val = MovedVal(Val(J.at))] ELSE m1
       IN Step(IF move THEN "MoveW" ELSE "CopyW", k, IF move THEN [j |-> j] ELSE [j |-> j, form |-> form],
               A!Res(IF J.lref THEN "none" ELSE "any", "na", <<>>),
               XR(<<>>, IF J.lref \/ really THEN 0 ELSE 1, IF ~J.lref /\ really THEN 1 ELSE 0),
               m2, [rep EXCEPT ![k] = r])

(* std::swap(a, b) on the harness payloads: T tmp(std::move(a)); a = std::move(b); b = std::move(tmp); *)
(* (self-move-assignment is guarded), one move construction                                            *)
StdSwap(m, a, b) == IF a = b THEN m ELSE [m EXCEPT ![a].val = m[b].val, ![b].val = m[a].val]

AssignW(k, j, mv) ==
    /\ k # j /\ rep[k] # NoRep /\ rep[j] # NoRep /\ mv \in {0, 1}
    /\ A!AssignWOK(AbsW[k], AbsW[j], mv)
    /\ LET K == rep[k]
           J == rep[j]
           swapped == IF Mutation = "move_assign_rebinds" THEN mem ELSE StdSwap(mem, K.at, J.at)
           m1 == IF K.cls = "proxy"
                   (* the implicitly defined assignment of the derived class: P::operator= *)
                   THEN IF mv = 0 THEN [mem EXCEPT ![K.at].val = Val(J.at)]
                        ELSE [mem EXCEPT ![K.at].val = Val(J.at), ![J.at].val = MovedVal(Val(J.at))]
                   (* operator=(const self&): deref = deref(rhs);  operator=(self&&): swap(rhs) *)
                   ELSE IF mv = 0 THEN [mem EXCEPT ![K.at].val = Val(J.at)] ELSE swapped
           newrep == IF Mutation = "move_assign_rebinds" /\ mv = 1 /\ K.cls # "proxy" THEN [rep EXCEPT ![k] = [K EXCEPT !.at = J.at], ![j] = [J EXCEPT !.at = K.at]] ELSE rep
       IN Step("AssignW", k, [j |-> j, mv |-> mv], A!Void, XR(<<>>, 0, IF mv = 1 /\ K.cls # "proxy" THEN 1 ELSE 0), m1, newrep)

(* swap(rhs): using std::swap; swap(deref(m_wrappee), deref(rhs.m_wrappee)) *)
Swap(k, j, how) ==
    /\ k # j /\ rep[k] # NoRep /\ rep[j] # NoRep
    /\ rep[k].cls = "wrapper" /\ rep[j].cls = "wrapper" /\ rep[k].kind = rep[j].kind
    /\ A!Shape(AbsW[k]) = A!Shape(AbsW[j]) /\ ~rep[k].cst /\ how \in {"member", "adl"}
    /\ (rep[k].kind = "pw") => rep[k].lref
    /\ Step("Swap", k, [j |-> j, how |-> how], A!Void, XR(<<>>, 0, 1), StdSwap(mem, rep[k].at, rep[j].at), rep)

Equal(k, j) ==
    /\ rep[k] # NoRep /\ rep[j] # NoRep /\ rep[k].kind = "cw" /\ rep[j].kind = "cw" /\ A!Shape(AbsW[k]) = A!Shape(AbsW[j])
    /\ LET e == IF Val(rep[k].at) = Val(rep[j].at) THEN 1 ELSE 0
       IN Step("Equal", k, [j |-> j], A!Res("any", "na", <<[ts |-> {"value"}, v |-> e]>>), XR(<<[t |-> "value", v |-> e]>>, 0, 0), mem, rep)

(* operator&: get_pointer (the stored pointer, or the address of the inline value); for the proxy  *)
(* lv_pointer(this object) designates the proxy itself, rv_pointer(std::move(this object)) owns a moved copy   *)
AddrOf(k, form, wr) ==
    /\ rep[k] # NoRep /\ form \in A!AddrForms(AbsW[k])
    /\ (wr # A!NoWrite) => (wr \in Vals /\ ~rep[k].cst /\ form # "clv")
    /\ (form = "rv" /\ ~rep[k].lref /\ rep[k].cst) => payload # "moveonly"
    /\ LET r == rep[k]
           owncopy == form = "rv" /\ r.cls = "proxy"
           really  == owncopy /\ ~r.cst
           m1 == IF owncopy THEN (IF really THEN [mem EXCEPT ![r.at].val = MovedVal(Val(r.at))] ELSE mem)
                 ELSE IF wr = A!NoWrite THEN mem ELSE [mem EXCEPT ![r.at].val = wr]
       IN Step("AddrOf", k, [form |-> form, wr |-> wr], A!Res("any", "na", <<A!AddrItem(AbsW[k], 1, form)>>),
               XR(<<[t |-> IF r.lref THEN r.at ELSE IF owncopy THEN "value" ELSE "self", v |-> Val(r.at)]>>,
                  IF owncopy /\ ~really THEN 1 ELSE 0, IF really THEN 1 ELSE 0),
               m1, rep)

----------------------------------------------------------------------------
Init ==
    /\ payload \in Payloads /\ feat \in FeatSets
    /\ mem = A!InitCell
    /\ rep = [k \in 1..NW |-> NoRep]
    /\ last = [op |-> "Init", k |-> 0, a |-> A!NoArg, res |-> A!Void]
    /\ hist = <<>>
    /\ xres = XVoid

Bound == Len(hist) <= Depth
(* one named action per call family, so that TLC's coverage reports each of them *)
LMake     == Bound /\ \E k \in 1..NW, kind \in Kinds : \E via \in A!Vias(kind), s \in A!SrcsFor(kind, 1) : Make(k, kind, via, s)
LDestroy  == Bound /\ \E k \in 1..NW : Destroy(k)
LEndTemps == Bound /\ EndTemps
LWriteVar == Bound /\ \E i \in 1..MCVars : i <= NX /\ WriteVar("x", i, 0)
LRead     == Bound /\ \E k \in 1..NW, form \in A!AllForms : Read(k, form)
LAssign   == Bound /\ \E k \in 1..NW, v \in Vals, cat \in {"lv", "rv"} : Assign(k, v, cat)
LCopyW    == Bound /\ \E k, j \in 1..NW, form \in {"clv", "lv"} : Clone(k, j, FALSE, form)
LMoveW    == Bound /\ \E k, j \in 1..NW : Clone(k, j, TRUE, "xv")
LAssignW  == Bound /\ \E k, j \in 1..NW, mv \in {0, 1} : AssignW(k, j, mv)
LSwap     == Bound /\ \E k, j \in 1..NW, how \in {"member", "adl"} : Swap(k, j, how)
LEqual    == Bound /\ \E k, j \in 1..NW : Equal(k, j)
LAddrOf   == Bound /\ \E k \in 1..NW, form \in {"lv", "rv"}, wr \in {A!NoWrite} \cup Vals : AddrOf(k, form, wr)
Next == LMake \/ LDestroy \/ LEndTemps \/ LWriteVar \/ LRead \/ LAssign \/ LCopyW \/ LMoveW \/ LAssignW \/ LSwap \/ LEqual \/ LAddrOf
Spec == Init /\ [][Next]_ivars

----------------------------------------------------------------------------
(* every L2 step is the L1 step of the same call with the same arguments *)
StepRefines == LET k == last'.k  a == last'.a  o == last'.op IN
    \/ o = "Make"     /\ A!Make(k, a.kind, a.via, a.s)
    \/ o = "Destroy"  /\ A!Destroy(k)
    \/ o = "EndTemps" /\ A!EndTemps
    \/ o = "WriteVar" /\ A!WriteVar(a.cls, a.i, a.v)
    \/ o = "Read"     /\ A!Read(k, a.form)
    \/ o = "Assign"   /\ A!Assign(k, a.v, a.cat)
    \/ o = "CopyW"    /\ A!CopyW(k, a.j, a.form)
    \/ o = "MoveW"    /\ A!MoveW(k, a.j)
    \/ o = "AssignW"  /\ A!AssignW(k, a.j, a.mv)
    \/ o = "Swap"     /\ A!Swap(k, a.j, a.how)
    \/ o = "Equal"    /\ A!Equal(k, a.j)
    \/ o = "AddrOf"   /\ A!AddrOf(k, a.form, a.wr)
Refines == [][StepRefines]_ivars

(* what the code returns is one of the results L1 allows *)
ResultAllowed ==
    /\ Len(xres.val) = Len(last.res.val)
    /\ \A i \in 1..Len(xres.val) : xres.val[i].t \in last.res.val[i].ts /\ xres.val[i].v = last.res.val[i].v
    /\ (last.res.ctor = "none") => (xres.copies = 0 /\ xres.moves = 0)

(* representation invariants *)
RepOK == \A k \in 1..NW : rep[k] = NoRep \/
    /\ rep[k].kind \in {"cw", "cp", "pw"} /\ rep[k].cls \in {"wrapper", "pointer", "proxy"}
    /\ (rep[k].cls = "proxy") => ~rep[k].lref
    /\ mem[rep[k].at].live                                         \* the pointer / reference member never dangles
    /\ rep[k].lref => rep[k].at \in A!VarIds                       \* pointer storage only ever holds the address of a caller's object
    /\ ~rep[k].lref <=> rep[k].at = Own(k)                         \* value storage is inline
AbsInvariants == A!TypeOK /\ A!NoDangling /\ A!Lifetimes
=============================================================================

------------------------------ MODULE ComplexFn ------------------------------
(***************************************************************************)
(* L1 property specification for C10, fourth decidable part: "==/!= compare *)
(* both parts, and unary minus, conj, real/imag and the forwarded           *)
(* elementary functions are equal to std::complex's" - on operands with     *)
(* NaNs, infinities, zeros of both signs, subnormal, tiny, huge and dyadic  *)
(* finite parts, for value, T& and const T& closures.                       *)
(*                                                                          *)
(* A component is described by a record [k, n, e]:                          *)
(*    k = "num" : the finite non-zero number n * 2^e (n odd)                *)
(*    k = "zero" | "inf" : n is the sign bit                                *)
(*    k = "nan"                                                             *)
(* For the operations whose result is a matter of IEEE 754 alone (unary     *)
(* minus and plus, conj, real, imag, ==, !=) the expected result is defined *)
(* here; for the forwarded functions L1 cannot compute the value and says   *)
(* what the property says: the result is the one the same function of       *)
(* <complex> gives for std::complex<T> with the same parts (the harness     *)
(* logs both, bit for bit).  Operator-only module.                          *)
(***************************************************************************)
EXTENDS ComplexExact

Num(n, e)  == [k |-> "num", n |-> n, e |-> e]
Zero(s)    == [k |-> "zero", n |-> s, e |-> 0]
Inf(s)     == [k |-> "inf", n |-> s, e |-> 0]
NaN        == [k |-> "nan", n |-> 0, e |-> 0]
PZ         == <<Zero(0), Zero(0)>>

DNeg(d) == CASE d.k = "num" -> [d EXCEPT !.n = 0 - d.n]
             [] d.k \in {"zero", "inf"} -> [d EXCEPT !.n = 1 - d.n]
             [] OTHER -> d
(* IEEE equality of two components (descriptors are normalised: n odd) *)
DEq(a, b) == CASE a.k = "nan" \/ b.k = "nan" -> FALSE
               [] a.k = "zero" -> b.k = "zero"
               [] OTHER -> a = b

(* a component as the harness logs it (see ComplexExact: Fp) *)
FpOf(d) == CASE d.k = "num" -> Fp(d.n, d.e)
             [] OTHER -> [k |-> d.k, s |-> d.n]
(* bit-for-bit, except that the sign and payload of a NaN are not compared *)
FpSame(exp, got) == IF exp.k = "nan" THEN got.k = "nan" ELSE got = exp
ResSame(exp, got) == Len(exp) = Len(got) /\ \A i \in 1..Len(exp) : FpSame(exp[i], got[i])

OwnC  == {"neg", "pos", "conj"}                  \* complex results defined here
OwnR  == {"real", "imag", "rreal", "rimag"}      \* real results (member accessors on lvalues; the same on an rvalue copy)
OwnB  == {"eq", "ne"}                            \* boolean results
Fwd1C == {"proj", "exp", "log", "log10", "sqrt", "sin", "cos", "tan", "asin", "acos", "atan",
          "sinh", "cosh", "tanh", "asinh", "acosh", "atanh"}
Fwd1R == {"abs", "arg", "norm"}
Fwd2  == {"pow_cc", "pow_cs", "pow_sc", "pow_ci"}        \* complex^complex, complex^T, T^complex, complex^int
Fns   == OwnC \cup OwnR \cup OwnB \cup Fwd1C \cup Fwd1R \cup Fwd2
Binary == OwnB \cup Fwd2
Variants == {"val", "ref", "cref"}

(* the expected result (a sequence of logged components, or <<TRUE>> / <<FALSE>>), where L1 defines it *)
Own(fn, x, y) ==
    CASE fn = "neg"  -> <<FpOf(DNeg(x[1])), FpOf(DNeg(x[2]))>>
      [] fn = "pos"  -> <<FpOf(x[1]), FpOf(x[2])>>
      [] fn = "conj" -> <<FpOf(x[1]), FpOf(DNeg(x[2]))>>
      [] fn \in {"real", "rreal"} -> <<FpOf(x[1])>>
      [] fn \in {"imag", "rimag"} -> <<FpOf(x[2])>>
      [] fn = "eq"   -> <<DEq(x[1], y[1]) /\ DEq(x[2], y[2])>>
      [] fn = "ne"   -> <<~(DEq(x[1], y[1]) /\ DEq(x[2], y[2]))>>
IsOwn(fn) == fn \in OwnC \cup OwnR \cup OwnB
BoolSame(exp, got) == got = exp

(* a well-formed case: the parts are values of the element type *)
DOK(d, t) == IF d.k = "num" THEN d.n % 2 # 0 /\ Rep(d.n, d.e, t) ELSE d.n \in {0, 1} /\ d.e = 0
CaseOK(c) == /\ c.t \in FloatTypes /\ c.fn \in Fns /\ c.b \in BOOLEAN
             /\ DOK(c.x[1], c.t) /\ DOK(c.x[2], c.t) /\ DOK(c.y[1], c.t) /\ DOK(c.y[2], c.t)
             /\ (c.fn \notin Binary => c.y = PZ)
             /\ (c.fn \in {"pow_cs", "pow_sc", "pow_ci"} => c.y[2] = Zero(0))
             /\ (c.fn = "pow_ci" => c.y[1].k \in {"num", "zero"} /\ (c.y[1].k = "num" => c.y[1].e \in 0..4) /\ (c.y[1].k = "zero" => c.y[1].n = 0))
=============================================================================

SPECIFICATION Spec
CONSTANTS
  NReg = 3
  Vals <- ValsDNum
  MCKinds <- KindsDouble
  Classes <- DNumClasses
  MCFuns <- EveryFun
  MCHows <- EveryHow
  Canonical = TRUE
  AliasInit = FALSE
  EmitOn = TRUE
ACTION_CONSTRAINT Emit

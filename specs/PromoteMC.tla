------------------------------ MODULE PromoteMC ------------------------------
(* Model-checking instances of Promote.  The platform of the emitted table is the one *)
(* the runner measured (a JSON record written by harness/promote/platform_probe.cpp);  *)
(* the theorems of the spec are also checked for the other common data models.        *)
EXTENDS Promote, IOUtils

Measured == ndJsonDeserialize(IOEnv.PLATFORM)[1]

Model(charSigned, wcharSigned, wcharBits, intBits, longBits) ==
    [signed |-> [bool |-> FALSE, char |-> charSigned, schar |-> TRUE, uchar |-> FALSE, wchar_t |-> wcharSigned,
                 char16_t |-> FALSE, char32_t |-> FALSE, short |-> TRUE, ushort |-> FALSE, int |-> TRUE, uint |-> FALSE,
                 long |-> TRUE, ulong |-> FALSE, llong |-> TRUE, ullong |-> FALSE,
                 float |-> TRUE, double |-> TRUE, ldouble |-> TRUE],
     digits |-> [bool |-> 1, char |-> IF charSigned THEN 7 ELSE 8, schar |-> 7, uchar |-> 8,
                 wchar_t |-> IF wcharSigned THEN wcharBits - 1 ELSE wcharBits,
                 char16_t |-> 16, char32_t |-> 32, short |-> 15, ushort |-> 16, int |-> intBits - 1, uint |-> intBits,
                 long |-> longBits - 1, ulong |-> longBits, llong |-> 63, ullong |-> 64,
                 float |-> 24, double |-> 53, ldouble |-> 64]]
LP64      == Model(TRUE, TRUE, 32, 32, 64)      \* Linux x86-64
LP64arm   == Model(FALSE, FALSE, 32, 32, 64)    \* Linux aarch64: plain char and wchar_t unsigned
ILP32     == Model(TRUE, TRUE, 32, 32, 32)      \* 32-bit Unix
LLP64     == Model(TRUE, FALSE, 16, 32, 32)     \* Windows x64: wchar_t is unsigned 16 bit
IP16      == Model(TRUE, TRUE, 16, 16, 32)      \* 16-bit int: unsigned short promotes to unsigned int

ASSUME Laws
=============================================================================

----------------------------- MODULE MurmurCheck -----------------------------
(***************************************************************************)
(* C14 conformance (C->S): validates a table recorded from the real         *)
(* xtl::murmur2_x86 / murmur2_x64 / hash_bytes against Murmur.tla.          *)
(*                                                                          *)
(* Table line (ndjson, env TRACE):                                          *)
(*  {"op":"H","szt":8,"gen":0|1,"c":[[bytes, seed, [obs, ...]], ...]}       *)
(*    bytes: the key; seed: four 16-bit limbs (least significant first);    *)
(*    obs = [kind, align, fill, x86[2 limbs], x64[4], hash_bytes[4],        *)
(*           generic[4]]: one call of each function with the key placed at  *)
(*    that alignment in a buffer of that kind with that surrounding fill.   *)
(*  {"op":"Reset","c":[[0]]}: forget the keys seen so far.                  *)
(*                                                                          *)
(* One key (with all its placements) is one TLC state <<l, j, seen>>.       *)
(* A case is accepted iff                                                   *)
(*   (1) every observation equals the reference value (Murmur.tla) of       *)
(*       (bytes, seed) - the placement does not occur in the reference;     *)
(*   (2) independently of the reference: all observations of the case are   *)
(*       equal to each other, and equal to what the map `seen` recorded     *)
(*       when the same (bytes, seed) occurred earlier in the table.         *)
(* The generic fallback detail::murmur_hash<N> is compared with Poly131     *)
(* for short keys when the driver was built with it (gen = 1); a mismatch   *)
(* there is printed as DRIFT (advisory).                                    *)
(***************************************************************************)
EXTENDS Murmur, Json, IOUtils, TLC

VARIABLES l, j, seen

Table == ndJsonDeserialize(IOEnv.TRACE)

Reference(e, c) == LET seed == FromLimbs16(c[2]) IN
    <<Limbs16(Murmur2X86(c[1], seed)), Limbs16(Murmur2X64(c[1], seed)), Limbs16(HashBytes(c[1], seed, e.szt))>>
Observed(o) == <<o[4], o[5], o[6]>>

TInit == l = 1 /\ j = 1 /\ seen = << >>

(* ---- ILP32 (szt = 4): the driver built with -m32 (harness/hash/driver32.cpp).  murmur2_x86 and hash_bytes     *)
(* (= MurmurHash2 there) are compared with the reference like everywhere else; all three functions must be        *)
(* independent of the placement and of history.  The VALUE of murmur2_x64 on such a platform is what the          *)
(* unchanged header's 32-bit branch computes (MurmurHash2A of the low half of the seed, see MurmurImpl32.tla),    *)
(* not MurmurHash64A as the statement says: proposed fix C14-01.  Until that is committed the comparison with     *)
(* MurmurHash64A is ADVISORY (a DRIFT line with a constant text, printed for the first key after a Reset only);   *)
(* with the environment variable ILP32_X64=verdict it is part of the verdict.  Independently, a value that is     *)
(* neither MurmurHash64A nor the L2 description is reported as DRIFT (L2 no longer describes the code).           *)
X64IsVerdict(szt) == szt = 8 \/ ("ILP32_X64" \in DOMAIN IOEnv /\ IOEnv.ILP32_X64 = "verdict")

(* ref, key, first, poly are operator parameters so that TLC evaluates each of them once per case *)
CaseOK(c, key, ref, first, szt) ==
    /\ \A k \in 1..Len(c[3]) : LET o == Observed(c[3][k]) IN
                                 o[1] = ref[1] /\ o[3] = ref[3] /\ (X64IsVerdict(szt) => o[2] = ref[2])   \* (1) equals the reference
    /\ \A k \in 1..Len(c[3]) : Observed(c[3][k]) = first              \* (2) independent of the placement ...
    /\ key \in DOMAIN seen => seen[key] = first                       \*     ... and of what was hashed before

FallbackDrift(c, poly) == \E k \in 1..Len(c[3]) : c[3][k][7] # poly

ILP32Advisory(c, ref, first, l2) ==
    /\ IF first[2] # ref[2] /\ first[2] # l2
         THEN PrintT(<<"DRIFT", "ILP32: murmur2_x64 returns neither MurmurHash64A nor what MurmurImpl32.tla describes (MurmurHash2A of the low seed half); key/seed", c[1], c[2], "observed", first[2], "L2", l2>>)
         ELSE TRUE
    /\ IF first[2] # ref[2] /\ seen = << >>
         THEN PrintT(<<"DRIFT", "ADVISORY ILP32 (sizeof(std::size_t) = 4, the header's INTPTR_MAX == INT32_MAX branch): murmur2_x64 does not return MurmurHash64A - it returns 32-bit MurmurHash2A of the low half of the seed, zero-extended (proposed fix C14-01)">>)
         ELSE TRUE

HashCase(c, key, ref, first, gen, szt) ==
    /\ IF CaseOK(c, key, ref, first, szt) THEN TRUE
       ELSE PrintT(<<"REJECT", l, j, [x86 |-> ref[1], x64 |-> ref[2], hash_bytes |-> ref[3],
                                     seen_before |-> IF key \in DOMAIN seen THEN seen[key] ELSE <<>>]>>) /\ FALSE
    /\ seen' = IF key \in DOMAIN seen THEN seen ELSE (key :> first) @@ seen
    /\ IF gen = 1 /\ Len(c[1]) <= 48 /\ FallbackDrift(c, Limbs16(Poly131(c[1], FromLimbs16(c[2]))))
         THEN PrintT(<<"DRIFT", "detail::murmur_hash<N> fallback differs from Poly131 at line/case", l, j>>)
         ELSE TRUE
    /\ IF szt = 4 /\ ~X64IsVerdict(szt) THEN ILP32Advisory(c, ref, first, Limbs16(X64OnILP32(c[1], FromLimbs16(c[2])))) ELSE TRUE

TNext ==
    /\ l <= Len(Table)
    /\ LET e == Table[l] IN
        /\ \/ /\ e.op = "Reset"
              /\ seen' = << >>
           \/ /\ e.op = "H"
              /\ HashCase(e.c[j], <<e.c[j][1], e.c[j][2]>>, Reference(e, e.c[j]), Observed(e.c[j][3][1]), e.gen, e.szt)
           \/ /\ e.op \notin {"H", "Reset"}
              /\ PrintT(<<"REJECT", l, j, [no_such_op |-> e.op]>>) /\ FALSE
              /\ UNCHANGED seen
        /\ IF j < Len(e.c) THEN l' = l /\ j' = j + 1
                           ELSE l' = l + 1 /\ j' = 1

TSpec == TInit /\ [][TNext]_<<l, j, seen>>
=============================================================================

SPECIFICATION Spec
CONSTANTS
  Caps = {2}
  Policies = {"silent", "throwing"}
  Layouts = {"packed", "strlen"}
  Chars <- Chars012
  Lits <- LitsNul
  PosDom <- Pos2
  SubDom <- SubFew
  Targets = {1, 2}
  OtherInit <- NoOther
  Classes <- AllClassesOv
  EmitOps <- NoEmit
VIEW absvars
INVARIANTS TypeOK Laws
PROPERTIES FailedChangesNothing ObserversPure ReturnedIteratorInRange SilentNeverLengthError

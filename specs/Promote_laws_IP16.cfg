SPECIFICATION Spec
CONSTANTS
  P <- IP16
  MaxPack = 2
  MaxArgs = 3
INVARIANT TypeOK

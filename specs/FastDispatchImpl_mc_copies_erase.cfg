SPECIFICATION Spec
CONSTANTS
  Kinds = {"fast_dyn"}
  Arities = {2}
  NXs = {0}
  K = 2
  MaxHist = 4
  HasErase = TRUE
  Copies = TRUE
  Mutation = "none"
CONSTRAINT Bound
VIEW repview
INVARIANTS RepInv CellExact
PROPERTIES Refines

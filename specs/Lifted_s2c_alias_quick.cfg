SPECIFICATION Spec
CONSTANTS
  NReg = 2
  Vals <- ValsTiny
  MCKinds <- KindsRefQuick
  Classes <- AliasClassesQuick
  MCFuns <- FewerFuns
  MCHows <- EveryHow
  Canonical = FALSE
  AliasInit = TRUE
  EmitOn = TRUE
ACTION_CONSTRAINT Emit

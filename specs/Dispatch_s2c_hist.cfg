\* S->C, complete histories: one TLC state per history (VIEW histvars); Emit writes every history of
\* length MaxHist as one "@H@{cfg, hist}" line.  Reference instance: checks/c17.py generates the same
\* file per dispatcher kind / arity / number of extras / bound into .work/C17/cfg/ (gen_cfg); the
\* operation classes with "clone" add the copy / move / swap / destroy calls on a second object.
SPECIFICATION Spec
CONSTANTS
  Kinds <- KFastStatic
  Arities = {2}
  NXs = {1}
  K = 3
  MaxHist = 4
  MaxCells = 999
  OpClasses <- OpsHistIns
  EmitMode <- ModeHist
  Plans <- NoPlans
CONSTRAINT Bound
ACTION_CONSTRAINT Emit
VIEW histvars

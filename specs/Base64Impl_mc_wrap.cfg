SPECIFICATION FairSpec
CONSTANTS
  ByteReps <- WrapBytes
  MaxLen = 6
  TextReps <- WrapText
  MaxText = 8
  IndexMode = "uchar"
INVARIANTS Refines Progress IndexInTable WindowInv
PROPERTY Terminates

SPECIFICATION FairSpec
CONSTANTS
  ByteReps <- WrapBytes
  MaxLen = 5
  TextReps <- WrapText
  MaxText = 7
  IndexMode = "uchar"
  ReadMode = "forward"
INVARIANTS Refines Progress IndexInTable WindowInv ReadsInInput ReadsPrefix
PROPERTY Terminates

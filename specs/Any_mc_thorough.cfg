SPECIFICATION Spec
CONSTANTS
  Anys = {1, 2, 3}
  Types = {"Small", "Big", "STM", "NC"}
  Vals = {1, 2}
  Fuses = {0, 1}
  AFuses = {0, 1}
  MCCastForms <- AllCastForms
  CountOps = TRUE
ACTION_CONSTRAINT EmitOp
VIEW absvars
INVARIANTS TypeOK IsCanon NoLeakNoDangling Independent
PROPERTIES ObserversPure NoexceptNeverThrow ThrowChangesNothing OthersUntouched CopyCopies SwapSwaps ObserversAgree NonRvalueSourceCopies RvalueMoves

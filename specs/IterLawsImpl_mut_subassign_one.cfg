SPECIFICATION Spec
CONSTANTS
  MaxN = 3
  Steps = {1}
  Impls <- PairOnly
  W = 3
  Mutant = "subassign_one"
VIEW absview
INVARIANTS RepInv ObserversAgree
PROPERTIES Refines

------------------------------ MODULE BitsetMC ------------------------------
(* Model-checking instances of Bitset: argument domains that cannot be written in a .cfg *)
EXTENDS Bitset
AllIL      == BitSeqs(MaxBits)
NoOther    == {}
AllLimbs   == 0..65535
(* S->C at block width 8: representative operands for the second object and for list/block arguments *)
RepIL      == {<<>>, <<1>>, <<0, 1>>, <<1, 1, 1, 1, 1, 1, 1>>, <<1, 0, 1, 0, 1, 0, 1, 1>>,
               <<0, 1, 1, 0, 0, 0, 0, 1, 1>>, <<1, 1, 1, 1, 1, 1, 1, 1, 1>>, <<0, 0, 0, 0, 0, 0, 0, 0, 1, 0>>}
RepOther   == {s \in RepIL : Len(s) <= MaxBits}
RepILB     == {s \in RepIL : Len(s) <= MaxBits}
RepOtherV  == UNION {{Fill(n, 1), [i \in 1..n |-> i % 2], [i \in 1..n |-> IF i = n THEN 1 ELSE 0]} : n \in {0, 3, 8, 9}}
RepLimbs   == {0, 255, 165, 129}
AllClasses == {"algo", "pair", "move", "cap", "fill", "ctor", "size", "view", "push", "bit", "shift", "binary", "at", "read", "write"}
RefPairMC  == {"il", "view", "refpair"}
RefPairAll == {"il", "view", "refpairall"}
SimClasses == AllClasses \cup {"refpairfew", "refpairbin"}
UnaryFew   == {"refpairfew", "algofew", "ctor", "size", "view", "push", "bit", "shift", "at", "read", "writefew", "cap", "fill"}
BinaryNav  == {"il0", "other0", "view", "binary", "pair", "move"}
(* an owning target with the second object an owning bitset or a VIEW (operands of &=, |=, ^=, &, |, ^, copy) *)
BinaryNavA == BinaryNav \cup {"algopair", "refpairbin"}
BinaryOV   == {"refpairbin", "algopair", "il0", "other0", "otherview", "binary", "copy"}
PairOps    == {"RefPair", "Algo", "AndEq", "OrEq", "XorEq", "And", "Or", "Xor", "CtorCopy", "CopyAssign", "Swap", "CtorMove", "MoveAssign"}
RepSeqsC   == RepSeqs
NoEmit     == {}
BinaryOps  == {"AndEq", "OrEq", "XorEq", "And", "Or", "Xor"}
AllOps     == {"RefPair", "Algo", "CtorAlloc", "CtorMove", "MoveAssign", "Reserve", "MaxSize", "Fill", "CtorDefault", "CtorN", "CtorNV", "CtorIL", "CtorBlocks", "CtorCopy", "CtorView", "AssignNV", "AssignIL",
               "AssignBlocks", "CopyAssign", "Resize", "Resize1", "ResizeView", "Clear", "PushBack", "PopBack", "SetAll",
               "ResetAll", "FlipAll", "Set", "Set1", "ResetBit", "Flip", "ShlEq", "ShrEq", "AndEq", "OrEq", "XorEq", "Not",
               "And", "Or", "Xor", "Shl", "Shr", "Swap", "At", "Read", "RefWrite"}
=============================================================================

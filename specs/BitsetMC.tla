------------------------------ MODULE BitsetMC ------------------------------
(* Model-checking instances of Bitset: argument domains that cannot be written in a .cfg *)
EXTENDS Bitset
AllIL      == BitSeqs(MaxBits)
NoOther    == {}
AllLimbs   == 0..65535
(* S->C at block width 8: representative operands for the second object and for list/block arguments *)
RepIL      == {<<>>, <<1>>, <<0, 1>>, <<1, 1, 1, 1, 1, 1, 1>>, <<1, 0, 1, 0, 1, 0, 1, 1>>,
               <<0, 1, 1, 0, 0, 0, 0, 1, 1>>, <<1, 1, 1, 1, 1, 1, 1, 1, 1>>, <<0, 0, 0, 0, 0, 0, 0, 0, 1, 0>>}
RepOther   == {s \in RepIL : Len(s) <= MaxBits}
RepILB     == {s \in RepIL : Len(s) <= MaxBits}
RepLimbs   == {0, 255, 165, 129}
AllClasses == {"pair", "ctor", "size", "view", "push", "bit", "shift", "binary", "at", "read", "write"}
UnaryFew   == {"ctor", "size", "view", "push", "bit", "shift", "at", "read", "writefew"}
BinaryNav  == {"il", "view", "binary", "pair"}
PairOps    == {"AndEq", "OrEq", "XorEq", "And", "Or", "Xor", "CtorCopy", "CopyAssign", "Swap"}
RepSeqsC   == RepSeqs
NoEmit     == {}
BinaryOps  == {"AndEq", "OrEq", "XorEq", "And", "Or", "Xor"}
AllOps     == {"CtorDefault", "CtorN", "CtorNV", "CtorIL", "CtorBlocks", "CtorCopy", "CtorView", "AssignNV", "AssignIL",
               "AssignBlocks", "CopyAssign", "Resize", "Resize1", "ResizeView", "Clear", "PushBack", "PopBack", "SetAll",
               "ResetAll", "FlipAll", "Set", "Set1", "ResetBit", "Flip", "ShlEq", "ShrEq", "AndEq", "OrEq", "XorEq", "Not",
               "And", "Or", "Xor", "Shl", "Shr", "Swap", "At", "Read", "RefWrite"}
=============================================================================

SPECIFICATION Spec
CONSTANTS
  TrackedAlts = {0, 1, 2}
  NTMAlts = {1, 3}
  Strict = TRUE
  Vals = {1, 2}
  MaxFuse = 4
  MaxEv = 0
  CallSet <- MCCalls
  EmitOn = TRUE
VIEW iview
ACTION_CONSTRAINT Emit

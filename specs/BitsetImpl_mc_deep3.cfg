SPECIFICATION Spec
CONSTANTS
  W = 3
  MaxBits = 7
  MaxShift = 8
  MoveKeepsSize = TRUE
  ObserveMoved = FALSE
  Targets <- OnlyFirst
  SplitNext = FALSE
  OtherSeqs <- RepOther
CONSTRAINT SizeBound
VIEW absview
INVARIANTS RepInv ObserversAgree
PROPERTIES Refines

SPECIFICATION Spec
CONSTANTS
  LimbReps <- Limbs4
  TripleLimbs <- Limbs4
  IntReps <- Ints
INVARIANT Laws

------------------------------- MODULE Base64 -------------------------------
(***************************************************************************)
(* L1 property specification for C13: base64 (xtl/xbase64.hpp).             *)
(*                                                                          *)
(* Written from RFC 4648 section 4 and the property statement, not from     *)
(* xtl's code.  Variable-free: the property is about two pure functions on  *)
(* byte strings.  A byte string / a text is a sequence over 0..255 (for a   *)
(* text the numbers are the character codes, i.e. the unsigned value of     *)
(* each char).                                                              *)
(*                                                                          *)
(*   Encode(s)        RFC 4648 standard alphabet, '=' padding               *)
(*   DecodePrefix(t)  what base64decode must return for ARBITRARY text:     *)
(*                    the longest leading run of alphabet characters is     *)
(*                    decoded, the first other character (padding,          *)
(*                    whitespace, NUL, any byte >= 0x80, ...) ends the      *)
(*                    input, and only whole bytes are returned              *)
(*                                                                          *)
(* Each function is defined twice, once arithmetically (24-bit quanta,      *)
(* \div and %) and once on explicit bit strings; TLC checks that the two    *)
(* definitions agree, the RFC 4648 section 10 test vectors, the round trip  *)
(* and the shape laws (Base64MC.tla).  These laws guard the oracle.         *)
(***************************************************************************)
EXTENDS Naturals, Sequences, FiniteSets
LOCAL INSTANCE SequencesExt          \* FoldLeft (evaluated iteratively by TLC: no deep recursion on long texts)

Byte == 0..255
Pad  == 61                                  \* '='

(* RFC 4648 Table 1, written out: value v is encoded as Alphabet[v + 1].    *)
Alphabet ==
  << 65, 66, 67, 68, 69, 70, 71, 72, 73, 74, 75, 76, 77,        \* A..M
     78, 79, 80, 81, 82, 83, 84, 85, 86, 87, 88, 89, 90,        \* N..Z
     97, 98, 99,100,101,102,103,104,105,106,107,108,109,        \* a..m
    110,111,112,113,114,115,116,117,118,119,120,121,122,        \* n..z
     48, 49, 50, 51, 52, 53, 54, 55, 56, 57,                    \* 0..9
     43, 47 >>                                                  \* + /

Char(v) == Alphabet[v + 1]

(* The same table as arithmetic on character codes (cheap to evaluate).     *)
IsAlpha(c) == \/ (65 <= c /\ c <= 90)
              \/ (97 <= c /\ c <= 122)
              \/ (48 <= c /\ c <= 57)
              \/ c = 43
              \/ c = 47
ValueOf(c) == IF 65 <= c /\ c <= 90  THEN c - 65
              ELSE IF 97 <= c /\ c <= 122 THEN c - 71
              ELSE IF 48 <= c /\ c <= 57  THEN c + 4
              ELSE IF c = 43 THEN 62 ELSE 63          \* only meaningful when IsAlpha(c)

AlphabetLaw ==
    /\ Len(Alphabet) = 64
    /\ \A v \in 0..63 : IsAlpha(Char(v)) /\ ValueOf(Char(v)) = v
    /\ Cardinality({c \in Byte : IsAlpha(c)}) = 64
    /\ ~IsAlpha(Pad)

----------------------------------------------------------------------------
(* Encode, arithmetic definition.  Output character i (1-based) belongs to  *)
(* group q = (i-1) \div 4, position p = (i-1) % 4.  A group is the 24-bit   *)
(* quantum of up to three input bytes (missing bytes count as zero bits);   *)
(* a final group of 1 byte yields 2 characters + "==", of 2 bytes 3 + "=".  *)

ByteOr0(s, k) == IF k <= Len(s) THEN s[k] ELSE 0
EncLen(n) == 4 * ((n + 2) \div 3)
Pow64(k) == IF k = 0 THEN 1 ELSE IF k = 1 THEN 64 ELSE IF k = 2 THEN 4096 ELSE 262144

Encode(s) ==
    [i \in 1..EncLen(Len(s)) |->
        LET q    == (i - 1) \div 4
            p    == (i - 1) % 4
            g    == ByteOr0(s, 3 * q + 1) * 65536 + ByteOr0(s, 3 * q + 2) * 256 + ByteOr0(s, 3 * q + 3)
            have == Len(s) - 3 * q                     \* input bytes in this group (>= 1)
            nch  == IF have >= 3 THEN 4 ELSE have + 1  \* data characters in this group
        IN IF p < nch THEN Char((g \div Pow64(3 - p)) % 64) ELSE Pad]

(* Encode, bit-string definition (RFC 4648: "the input is treated as a      *)
(* stream of bits, left to right; when fewer than 24 bits remain, zero bits *)
(* are added on the right to form an integral number of 6-bit groups").     *)

Pow2(k) == 2 ^ k
BitsOf(x, w)  == [b \in 1..w |-> (x \div Pow2(w - b)) % 2]          \* most significant bit first
BitStream(s, w) == [b \in 1..(w * Len(s)) |-> BitsOf(s[((b - 1) \div w) + 1], w)[((b - 1) % w) + 1]]
RECURSIVE ValOfBits(_)
ValOfBits(bs) == IF Len(bs) = 0 THEN 0 ELSE 2 * ValOfBits(SubSeq(bs, 1, Len(bs) - 1)) + bs[Len(bs)]
BitOr0(bs, k) == IF k <= Len(bs) THEN bs[k] ELSE 0

EncodeBits(s) ==
    LET bs   == BitStream(s, 8)
        nsex == (Len(bs) + 5) \div 6
        data == [k \in 1..nsex |-> Char(ValOfBits([b \in 1..6 |-> BitOr0(bs, 6 * (k - 1) + b)]))]
        npad == (4 - (nsex % 4)) % 4
    IN data \o [k \in 1..npad |-> Pad]

----------------------------------------------------------------------------
(* DecodePrefix.                                                            *)

(* length of the longest leading run of alphabet characters: a left fold with accumulator <<length so far, still  *)
(* inside the run>> (texts of many thousand characters are checked, a recursive definition would exhaust TLC's     *)
(* stack); AlphaRunRec is the same thing written recursively, DecodeLaws has TLC check that they agree.             *)
AlphaRun(t) == FoldLeft(LAMBDA acc, c : IF acc[2] /\ IsAlpha(c) THEN <<acc[1] + 1, TRUE>> ELSE <<acc[1], FALSE>>,
                        <<0, TRUE>>, t)[1]
RECURSIVE RunFrom(_, _)
RunFrom(t, i) == IF i > Len(t) \/ ~IsAlpha(t[i]) THEN i - 1 ELSE RunFrom(t, i + 1)
AlphaRunRec(t) == RunFrom(t, 1)

DecLen(n) == (6 * n) \div 8                     \* whole bytes carried by n alphabet characters

(* arithmetic: byte k (1-based) is bits 8(k-1) .. 8(k-1)+7 of the sextet    *)
(* stream; they lie inside the two sextets q+1, q+2 with q = 8(k-1) \div 6. *)
DecodePrefix(t) ==
    [k \in 1..DecLen(AlphaRun(t)) |->
        LET bit == 8 * (k - 1)
            q   == bit \div 6
            r   == bit % 6                      \* 0, 2 or 4
            w   == ValueOf(t[q + 1]) * 64 + ValueOf(t[q + 2])
        IN (w \div Pow2(4 - r)) % 256]

(* bit strings: concatenate the 6-bit values of the run, cut into octets,   *)
(* drop the incomplete last one.                                            *)
DecodePrefixBits(t) ==
    LET n  == AlphaRun(t)
        bs == BitStream([k \in 1..n |-> ValueOf(t[k])], 6)
    IN [k \in 1..(Len(bs) \div 8) |-> ValOfBits(SubSeq(bs, 8 * (k - 1) + 1, 8 * k))]

----------------------------------------------------------------------------
(* Laws (theorems about the definitions above; TLC checks them on every     *)
(* string of Base64MC's finite universe).                                   *)

LeadsOff(a, b) == Len(a) <= Len(b) /\ \A i \in 1..Len(a) : a[i] = b[i]

EncodeLaws(s) ==
    LET e == Encode(s) IN
    /\ e = EncodeBits(s)                                       \* the two definitions agree
    /\ Len(e) = 4 * ((Len(s) + 2) \div 3)
    /\ \A i \in 1..Len(e) : IsAlpha(e[i]) \/ e[i] = Pad
    /\ \A i \in 1..Len(e) : e[i] = Pad => i > Len(e) - 2 /\ (i < Len(e) => e[i + 1] = Pad)   \* '=' only as the last 1 or 2
    /\ AlphaRun(e) = Len(e) - ((3 - (Len(s) % 3)) % 3)
    /\ DecodePrefix(e) = s                                     \* round trip (the property's first sentence)

DecodeLaws(t) ==
    LET d == DecodePrefix(t)
        n == AlphaRun(t) IN
    /\ d = DecodePrefixBits(t)                                 \* the two definitions agree
    /\ n = AlphaRunRec(t)
    /\ n <= Len(t) /\ (n < Len(t) => ~IsAlpha(t[n + 1])) /\ \A i \in 1..n : IsAlpha(t[i])
    /\ Len(d) = (6 * n) \div 8
    /\ d = DecodePrefix(SubSeq(t, 1, n))                       \* nothing after the run matters
    /\ \A m \in 0..n : LeadsOff(DecodePrefix(SubSeq(t, 1, m)), d)   \* decoding is monotone in the run
    /\ (n % 4 = 0 => Encode(d) = SubSeq(t, 1, n))              \* complete groups re-encode to themselves

(* round 4 - laws of COMPOSED calls (each is executed on the real functions: ops "X" and "R" of Base64Check.tla)     *)
(* concatenation: encodings of whole 24-bit groups concatenate; a padded encoding ends the decodable run            *)
ConcatLaws(a, b) ==
    LET ea == Encode(a)
        eb == Encode(b) IN
    /\ DecodePrefix(ea \o eb) = IF Len(a) % 3 = 0 THEN a \o b ELSE a
    /\ Len(a) % 3 = 0 => Encode(a \o b) = ea \o eb
    /\ Len(Encode(a \o b)) <= Len(ea) + Len(eb)
(* re-encoding what was decoded from ARBITRARY text: decode . encode . decode = decode; the characters of the text   *)
(* that are made of decoded bits only come back unchanged; a run of whole groups comes back entirely                *)
ReencodeLaws(t) ==
    LET d == DecodePrefix(t)
        n == AlphaRun(t)
        r == Encode(d) IN
    /\ DecodePrefix(r) = d
    /\ Len(r) = 4 * ((DecLen(n) + 2) \div 3)
    /\ \A i \in 1..((8 * Len(d)) \div 6) : r[i] = t[i]
    /\ n % 4 = 0 => r = SubSeq(t, 1, n)

(* RFC 4648 section 10 *)
Str_f == <<102>>
Str_fo == <<102, 111>>
Str_foo == <<102, 111, 111>>
Str_foob == <<102, 111, 111, 98>>
Str_fooba == <<102, 111, 111, 98, 97>>
Str_foobar == <<102, 111, 111, 98, 97, 114>>
RFCVectors ==
    /\ Encode(<<>>) = <<>>
    /\ Encode(Str_f) = <<90, 103, 61, 61>>                       \* "Zg=="
    /\ Encode(Str_fo) = <<90, 109, 56, 61>>                      \* "Zm8="
    /\ Encode(Str_foo) = <<90, 109, 57, 118>>                    \* "Zm9v"
    /\ Encode(Str_foob) = <<90, 109, 57, 118, 89, 103, 61, 61>>  \* "Zm9vYg=="
    /\ Encode(Str_fooba) = <<90, 109, 57, 118, 89, 109, 69, 61>> \* "Zm9vYmE="
    /\ Encode(Str_foobar) = <<90, 109, 57, 118, 89, 109, 70, 121>>  \* "Zm9vYmFy"
    /\ Encode(<<0, 0, 0>>) = <<65, 65, 65, 65>>
    /\ Encode(<<255, 255, 255>>) = <<47, 47, 47, 47>>            \* "////"
    /\ Encode(<<251, 255>>) = <<43, 47, 56, 61>>                 \* "+/8="
    /\ DecodePrefix(<<90, 103, 61, 61>>) = Str_f
    /\ DecodePrefix(<<90, 109, 57, 118, 89, 109, 69, 61>>) = Str_fooba
    /\ DecodePrefix(<<90>>) = <<>>                               \* 6 bits: no whole byte
    /\ DecodePrefix(<<90, 103, 32, 90, 103>>) = Str_f            \* stops at the blank
    /\ DecodePrefix(<<90, 128, 103>>) = <<>>                     \* stops at a byte >= 0x80
    /\ DecodePrefix(<<61, 90, 103>>) = <<>>
=============================================================================

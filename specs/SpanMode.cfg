SPECIFICATION Spec
INVARIANTS HeaderRefinesL1 HeaderAsDocumented ExplicitIndependent EveryModeReachable EmitTable

SPECIFICATION Spec
INVARIANTS HeaderRefinesL1 HeaderAsDocumented ExplicitIndependent EveryModeReachable EmitTable NxHeaderRefinesVerdict NxExplicitIndependent EmitNx

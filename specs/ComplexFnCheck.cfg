SPECIFICATION Spec
INVARIANT Conforms

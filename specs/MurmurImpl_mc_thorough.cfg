SPECIFICATION FairSpec
CONSTANTS
  Keys <- KeysT
  Seeds <- SeedsT
INVARIANTS Refines ReadsInside LoadIsLittleEndian
PROPERTY Terminates

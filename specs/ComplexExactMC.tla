--------------------------- MODULE ComplexExactMC ---------------------------
(* S->C enumeration for ComplexExact: TLC enumerates the admissible cases inside the constants and writes each one  *)
(* as a JSON line; the harness evaluates exactly these cases on the real xcomplex objects (harness/complex/driver.cpp *)
(* mode "exact").  The invariant checks theorems of the specification itself on every enumerated case.               *)
EXTENDS ComplexExact, TLC, Json

CONSTANTS Ts,        \* element types
          FormsOn,   \* forms enumerated
          XVals,     \* components of the xcomplex operand x
          CYs,       \* second operands of the complex forms (pairs)
          SYs,       \* scalar operands (integers)
          STs,       \* scalar C++ types
          ScaleSet   \* which family of exponent pairs <<m, k>>: "few" | "many"

VARIABLE c

(* exponent pairs, relative to the format: moderate, both operands subnormal, subnormal x normal, near the ends *)
ScalesFew(t) == {<<0, 0>>, <<3, 0 - 2>>, <<0 - 5, 4>>, <<2, 1>>,
                 <<EMinS(t) + 2, EMinS(t) + 5>>, <<EMinS(t) + 3, 4>>, <<EMinN(t), 1>>,
                 <<(EMax(t) \div 2) - 6, (EMax(t) \div 2) - 8>>, <<EMax(t) - 8, 20 - EMax(t)>>, <<0 - 40, 38>>}
ScalesMany(t) == ScalesFew(t) \cup {<<1, 0 - 1>>, <<0, 10>>, <<0 - 7, 0 - 7>>, <<12, 9>>, <<EMinS(t), EMinS(t)>>, <<EMinS(t) + 1, 0>>,
                 <<EMinN(t) + 1, EMinN(t) - 3>>, <<EMax(t) - 4, EMax(t) - 9>>, <<EMax(t) - 5, 0>>, <<0 - 30, 0 - 33>>,
                 <<EMinN(t) \div 2, EMinN(t) \div 2>>, <<60, 0 - 61>>}
Scales(t) == IF ScaleSet = "few" THEN ScalesFew(t) ELSE ScalesMany(t)

CYsQuick == {<<1, 0>>, <<0, 1>>, <<0 - 1, 1>>, <<2, 0 - 2>>, <<1, 2>>, <<0 - 2, 1>>, <<3, 0>>, <<0, 0 - 5>>, <<4, 0 - 1>>, <<0, 0>>}
CYsAll   == CYsQuick \cup {<<0 - 1, 0>>, <<1, 1>>, <<0, 2>>, <<2, 1>>, <<0 - 1, 0 - 2>>, <<3, 3>>, <<0 - 3, 3>>, <<1, 0 - 4>>, <<5, 0>>, <<0 - 7, 0>>, <<6, 3>>, <<2, 4>>}
XQuick   == {0 - 3, 1, 2}
XAll     == {0 - 5, 0 - 1, 0, 2, 7}
SYsQuick == {0 - 3, 2, 5}
SYsAll   == {0 - 6, 0 - 1, 0, 2, 5, 7}
AllSTs   == {"T", "int", "long", "float", "double", "ldouble"}
FewSTs   == {"T", "int"}
AllTs    == FloatTypes
AllForms == Forms

Init == \E t \in Ts, b \in BOOLEAN, f \in FormsOn, x1 \in XVals, x2 \in XVals :
         \E sc \in Scales(t) :
          \E y \in (IF f \in CForms THEN CYs ELSE {<<s, 0>> : s \in SYs}), st \in (IF f \in CForms THEN {"T"} ELSE STs) :
            /\ Admissible([t |-> t, b |-> b, f |-> f, x |-> <<x1, x2>>, m |-> sc[1], y |-> y, k |-> sc[2], st |-> st])
            /\ c = [t |-> t, b |-> b, f |-> f, x |-> <<x1, x2>>, m |-> sc[1], y |-> y, k |-> sc[2], st |-> st]
            /\ PrintT("@X@" \o ToJson(c))
Next == UNCHANGED c
Spec == Init /\ [][Next]_c

(* theorems of the specification on every enumerated case *)
Swap(cc) == [cc EXCEPT !.x = cc.y, !.y = cc.x, !.m = cc.k, !.k = cc.m]
ExactLaws ==
    LET r == ResultOf(c)  e == Expected(c) IN
    /\ Matches(c, e)                                                     \* the exact result is accepted
    /\ \A i \in 1..2 : e[i].k = "num" => (e[i].f[1] \in 0..65535 /\ e[i].s \in {0, 1})
    /\ (c.f \in {"add", "mul"} /\ Admissible(Swap(c)) => Expected(Swap(c)) = e)      \* commutative
    /\ (CoreOf(c.f) = "div" => LET R == RightOf(c) IN                     \* quotient * divisor = dividend
            GMul(r.v, R.v) = GScale(LeftOf(c).v, IF r.tol THEN 1 ELSE GNorm(R.v)))
    /\ (r.tol => \A i \in 1..2 : e[i].k = "num" =>                        \* neighbours are well-formed and distinct
            /\ Cardinality(Near(e[i], c.t)) = 2 * Ulps + 1
            /\ \A g \in Near(e[i], c.t) : \A j \in 1..4 : g.f[j] \in 0..65535)
    /\ Fp(1, 0) = [k |-> "num", s |-> 0, e |-> 0, f |-> <<0, 0, 0, 0>>]
    /\ Fp(0 - 3, 2) = [k |-> "num", s |-> 1, e |-> 3, f |-> <<32768, 0, 0, 0>>]
    /\ Below(Fp(1, 0), "double", 1) = [k |-> "num", s |-> 0, e |-> 0 - 1, f |-> <<65535, 65535, 65535, 61440>>]
    /\ Above(Fp(3, 0), "float", 2) = [k |-> "num", s |-> 0, e |-> 1, f |-> <<32768, 1024, 0, 0>>]
=============================================================================

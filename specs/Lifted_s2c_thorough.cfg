SPECIFICATION Spec
CONSTANTS
  NReg = 3
  Vals <- ValsThorough
  MCKinds <- KindsCore
  Classes <- LiftedClasses
  MCFuns <- EveryFun
  MCHows <- EveryHow
  Canonical = TRUE
  AliasInit = FALSE
  EmitOn = TRUE
ACTION_CONSTRAINT Emit

SPECIFICATION Spec
CONSTANTS
  NReg = 3
  Vals <- ValsThorough
  MCKinds <- KindsCore
  Classes <- LiftedClasses
  MCFuns <- EveryFun
  Canonical = TRUE
  EmitOn = TRUE
ACTION_CONSTRAINT Emit

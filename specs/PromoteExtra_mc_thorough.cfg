SPECIFICATION XSpec
CONSTANTS
  P <- Measured
  MaxPack = 3
  MaxArgs = 0
INVARIANT TypeOK
ACTION_CONSTRAINT Emit

SPECIFICATION Spec
CONSTANTS
  Ts <- AllTs
  FormsOn <- AllForms
  XVals <- XAll
  CYs <- CYsAll
  SYs <- SYsAll
  STs <- AllSTs
  ScaleSet = "many"
INVARIANTS ExactLaws

SPECIFICATION ISpec
CONSTANTS
  Alphabet = {"a", ".", "p"}
  MaxDepthI = 3
  MaxCompI = 2
  BufSizes = {1, 4, 8}
  Base = 0
  Depths = {}
  Totals = {}
  Extras = {}
  Patterns = {}
  Vias = {}
  NameMax = 255
  PathMax = 4095
INVARIANTS Agrees BufferBound
PROPERTY Terminates

SPECIFICATION TSpec
CONSTANTS
  Cfgs = {}
  MaxLen = 0
  Vals = {}
  Targets = {1, 2}
  OtherInit = {}
  ILArgs = {}
  Classes = {}
  EmitOps = {}
POSTCONDITION TraceAccepted
CHECK_DEADLOCK FALSE

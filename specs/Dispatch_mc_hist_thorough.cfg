SPECIFICATION Spec
CONSTANTS
  Kinds <- KMapFast
  Arities = {1, 2}
  NXs = {0}
  K = 2
  MaxHist = 4
  MaxCells = 9
  OpClasses <- OpsHistTable
  EmitMode <- ModeNone
  Plans <- NoPlans
CONSTRAINT Bound
VIEW histvars
INVARIANTS TypeOK RegIsHistory TablesAreHistory DispatchExact

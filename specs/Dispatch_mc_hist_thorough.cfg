SPECIFICATION Spec
CONSTANTS
  Kinds <- KMapDyn
  Arities = {1, 2}
  NXs = {0}
  K = 3
  MaxHist = 3
  MaxCells = 9
  OpClasses <- OpsTable
  EmitMode <- ModeNone
CONSTRAINT Bound
VIEW histvars
INVARIANTS TypeOK RegIsHistory DispatchExact

SPECIFICATION SpecP
CONSTANTS
  MaxN = 6
  Steps = {1, 2, 3}
  Cfgs <- KindCfgs
  WriteVals <- OneVal
  EmitOps <- CallOps
ACTION_CONSTRAINT Emit
VIEW absvars

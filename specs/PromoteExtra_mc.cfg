SPECIFICATION XSpec
CONSTANTS
  P <- Measured
  MaxPack = 2
  MaxArgs = 0
INVARIANT TypeOK
ACTION_CONSTRAINT Emit

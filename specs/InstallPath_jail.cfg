SPECIFICATION Spec
CONSTANTS
  Base <- NoBase
  Depths <- D123
  Totals <- TotalsJail
  Extras = {0}
  Patterns <- PatJail
  Vias <- ViaJail
  NameMax = 255
  PathMax = 4095
INVARIANT TypeOK
ACTION_CONSTRAINT Emit

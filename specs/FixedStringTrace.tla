-------------------------- MODULE FixedStringTrace --------------------------
(* Trace validation for C01 / C02 / C14: every line of the ndjson trace recorded from the real   *)
(* xbasic_fixed_string objects must be a step of FixedString (L1) with the logged arguments, and  *)
(* the logged result and the full projection of both objects must be the spec's.                  *)
(* In addition (C14, fixed-string clause) the logged std::hash values must be a function of the   *)
(* character width and the abstract string alone: hmap remembers the first hash seen for every    *)
(* string, across executions, layouts, capacities and histories, and a conflict is a rejection.   *)
EXTENDS FixedString, IOUtils

VARIABLES l,     \* next line of the trace to be explained
          hmap   \* <<character width, string>> -> hash limbs first seen

JsonTrace == ndJsonDeserialize(IOEnv.TRACE)
ExplainAt == atoi(IOEnv.EXPLAIN)

TInit ==
    /\ l = 1
    /\ hmap = <<>>
    /\ cf = [n |-> 0, policy |-> "silent", layout |-> "packed", cw |-> 1, ct |-> ""]
    /\ obj = <<<<>>, <<>>>>
    /\ last = [op |-> "Init", k |-> 0, a |-> NoArg, res |-> Void]
    /\ pre = [obj |-> <<<<>>, <<>>>>]

(* a new execution: fresh default-constructed objects of the configuration named in the event *)
TReset(e) ==
    /\ cf' = [n |-> e.a.n, policy |-> e.a.policy, layout |-> e.a.layout, cw |-> e.a.cw,
              ct |-> IF "ct" \in DOMAIN e.a THEN e.a.ct ELSE ""]
    /\ obj' = <<<<>>, <<>>>>
    /\ pre' = [obj |-> obj]
    /\ last' = [op |-> "Reset", k |-> 1, a |-> e.a, res |-> Void]

Dispatch(e) ==
    LET k  == e.k
        a  == e.a
        v  == IF "sk" \in DOMAIN a /\ a.sk \in {"obj", "objm"} THEN obj[Other(k)] ELSE a.src   \* the source characters
        mk == e.st.o[k].chars             \* what an object passed as an rvalue holds afterwards: unspecified,
        mo == e.st.o[Other(k)].chars      \* so the logged value is taken (it must still be a valid string)
    IN
    \/ e.op = "Reset"         /\ TReset(e)
    \/ e.op = "CtorDefault"   /\ CtorDefault(k)
    \/ e.op = "CtorFill"      /\ CtorFill(k, a.n, a.ch)
    \/ e.op = "CtorSub"       /\ CtorSub(k, a.sk, v, a.pos, a.n)
    \/ e.op = "CtorSeq"       /\ CtorSeq(k, a.sk, v, mo)
    \/ e.op = "Overlay"       /\ Overlay(k, a.cells)
    \/ e.op = "AssignFill"    /\ AssignFill(k, a.ov, a.n, a.ch)
    \/ e.op = "AssignSub"     /\ AssignSub(k, a.sk, v, a.pos, a.n)
    \/ e.op = "AssignSeq"     /\ AssignSeq(k, a.ov, a.sk, v, mo)
    \/ e.op = "At"            /\ At(k, a.c, a.i)
    \/ e.op = "Index"         /\ Index(k, a.c, a.i)
    \/ e.op = "Front"         /\ Front(k, a.c)
    \/ e.op = "Back"          /\ Back(k, a.c)
    \/ e.op = "Write"         /\ Write(k, a.path, a.i, a.ch)
    \/ e.op = "Iterate"       /\ Iterate(k, a.kind)
    \/ e.op = "Clear"         /\ Clear(k)
    \/ e.op = "PushBack"      /\ PushBack(k, a.ov, a.ch)
    \/ e.op = "PopBack"       /\ PopBack(k)
    \/ e.op = "Substr"        /\ Substr(k, a.pos, a.n)
    \/ e.op = "Copy"          /\ Copy(k, a.n, a.pos, a.dn, a.fill)
    \/ e.op = "Resize1"       /\ Resize1(k, a.n)
    \/ e.op = "Resize2"       /\ Resize2(k, a.n, a.ch)
    \/ e.op = "Swap"          /\ Swap(k, a.ov)
    \/ e.op = "InsertFill"    /\ InsertFill(k, a.idx, a.n, a.ch)
    \/ e.op = "InsertSeq"     /\ InsertSeq(k, a.idx, a.sk, v)
    \/ e.op = "InsertSub"     /\ InsertSub(k, a.idx, a.sk, v, a.pos, a.n)
    \/ e.op = "InsertIt"      /\ InsertIt(k, a.ov, a.it, a.n, a.ch)
    \/ e.op = "InsertItSeq"   /\ InsertItSeq(k, a.it, a.sk, v)
    \/ e.op = "Erase"         /\ Erase(k, a.idx, a.n)
    \/ e.op = "EraseIt"       /\ EraseIt(k, a.it)
    \/ e.op = "EraseRange"    /\ EraseRange(k, a.f, a.l)
    \/ e.op = "AppendFill"    /\ AppendFill(k, a.n, a.ch)
    \/ e.op = "AppendSeq"     /\ AppendSeq(k, a.ov, a.sk, v)
    \/ e.op = "AppendSub"     /\ AppendSub(k, a.sk, v, a.pos, a.n)
    \/ e.op = "Compare"       /\ Compare(k, a.sk, v)
    \/ e.op = "Compare1"      /\ Compare1(k, a.pos1, a.n1, a.sk, v)
    \/ e.op = "Compare2"      /\ Compare2(k, a.pos1, a.n1, a.sk, v, a.pos2, a.n2)
    \/ e.op = "Replace"       /\ Replace(k, a.pos, a.n, a.sk, v)
    \/ e.op = "ReplaceSub"    /\ ReplaceSub(k, a.pos, a.n, a.sk, v, a.pos2, a.n2)
    \/ e.op = "ReplaceFill"   /\ ReplaceFill(k, a.pos, a.n, a.n2, a.ch)
    \/ e.op = "ReplaceIt"     /\ ReplaceIt(k, a.f, a.l, a.sk, v)
    \/ e.op = "ReplaceItFill" /\ ReplaceItFill(k, a.f, a.l, a.n2, a.ch)
    \/ e.op = "Find"          /\ Find(k, a.fam, a.sk, v, a.pos)
    \/ e.op = "Rel"           /\ Rel(k, a.rop, a.sk, v)
    \/ e.op = "Concat"        /\ Concat(k, a.lk, a.rk, a.src, mk, mo)
    \/ e.op = "ToStd"         /\ ToStd(k)
    \/ e.op = "StreamOut"     /\ StreamOut(k)
    \/ e.op = "StreamIn"      /\ StreamIn(k, a.text)
    \/ e.op = "GetLine"       /\ GetLine(k, a.text, a.delim, a.rv)
    (* round 3 (advisory stage); an observed value the standard leaves open is taken from the event, as for rvalues *)
    \/ e.op = "Extract"       /\ Extract(k, a.text, a.w, a.skip, a.ok, IF e.res.exc = "none" THEN e.res.val.eof ELSE FALSE)
    \/ e.op = "GetLineX"      /\ GetLineX(k, a.text, a.delim, a.ok)
    \/ e.op = "Put"           /\ Put(k, a.w, a.fill, a.adj)
    \/ e.op = "JsonOut"       /\ JsonOut(k)
    \/ e.op = "JsonIn"        /\ JsonIn(k, a.text)
    \/ e.op = "MapKey"        /\ MapKey(k, IF e.res.exc = "none" THEN e.res.val.heq ELSE TRUE)
    \/ e.op = "Payload"       /\ Payload(k, a.kind)
    \/ e.op = "CrossTo"       /\ CrossTo(k, a.dst, a.route)
    \/ e.op = "CrossFrom"     /\ CrossFrom(k, a.dst, a.route, a.src)

(* equal characters => equal hash, whatever the history, the stale cells, the layout, the capacity *)
HKey(k)   == <<cf'.cw, cf'.ct, obj'[k]>>
HKnown(k) == IF HKey(k) \in DOMAIN hmap THEN hmap[HKey(k)] ELSE "first-seen"
HashStep(e) ==
    IF "h" \notin DOMAIN e THEN hmap' = hmap
    ELSE LET m1 == IF HKey(1) \in DOMAIN hmap THEN hmap ELSE hmap @@ (HKey(1) :> e.h[1])
             m2 == IF HKey(2) \in DOMAIN m1 THEN m1 ELSE m1 @@ (HKey(2) :> e.h[2])
         IN /\ m1[HKey(1)] = e.h[1]
            /\ m2[HKey(2)] = e.h[2]
            /\ hmap' = m2

TNext ==
    /\ l <= Len(JsonTrace)
    /\ LET e == JsonTrace[l] IN
        /\ Dispatch(e)
        /\ IF l = ExplainAt
             THEN /\ PrintT(<<"EXPECTED", last'.res, ProjAll', "hash", HKnown(1), HKnown(2)>>)
                  /\ hmap' = hmap
             ELSE /\ IF e.res.exc = "terminated"      \* XTL_NO_EXCEPTIONS build: the failing check ended the program
                       THEN last'.res.exc \in {"length_error", "out_of_range"}
                       ELSE last'.res = e.res
                  /\ ProjAll' = e.st
                  /\ HashStep(e)
    /\ l' = l + 1

TSpec == TInit /\ [][TNext]_<<vars, l, hmap>>
TraceAccepted == TLCGet("stats").diameter - 1 = Len(JsonTrace)
=============================================================================

SPECIFICATION Spec
CONSTANTS
  ByteReps <- BoundaryBytes
  MaxLen = 4
  TextReps <- BoundaryText
  MaxText = 5
INVARIANT Laws

SPECIFICATION Spec
CONSTANTS
  MaxBits = 10
  Widths = {8}
  MaxShift = 11
  Targets = {1}
  OtherInit <- RepSeqsC
  ILArgs <- RepSeqsC
  LimbReps <- RepLimbs
  Classes <- BinaryNavA
  EmitOps <- PairOps
CONSTRAINT SizeBound
ACTION_CONSTRAINT Emit
VIEW absvars

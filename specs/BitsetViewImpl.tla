--------------------------- MODULE BitsetViewImpl ---------------------------
(***************************************************************************)
(* L2 representation specification for the VIEW half of C03:               *)
(* xdynamic_bitset_view<B> = a span over caller memory + m_size.           *)
(*                                                                         *)
(* BitsetImpl.tla describes each member function as a function from block  *)
(* sequences to block sequences, which cannot say anything about WHERE the *)
(* code reads and writes.  Here the caller's memory is explicit            *)
(*      mem = NG guard blocks | the span's blocks | NG guard blocks        *)
(* and every member function is transcribed as the code's own loop over    *)
(* block INDICES (include/xtl/xdynamic_bitset.hpp: zero_unused_bits with   *)
(* m_buffer.back(), the two shift loops with b[i + div], b[i - 1] and the  *)
(* two std::fill_n ranges, flip's and the compound operators' loops over   *)
(* block_count(), count's byte loop, all()'s mask on back()).  An access   *)
(* with an index outside 0..block_count()-1 sets the ghost `stray`; a      *)
(* write that lands in the caller's memory outside the span changes a      *)
(* guard block.  TLC checks, for every reachable state:                    *)
(*   NoStray       no call indexed outside the span                        *)
(*   GuardsIntact  the memory around the span is never written             *)
(*   RepInv        bits beyond m_size in the last block are zero           *)
(*   ObserversAgree / Refines   every step is the L1 step (Bitset.tla) of   *)
(*                 the same call on obj[1] = the bits the span covers      *)
(* The second object of L1 is kept abstract (a bit sequence `oth`, an      *)
(* owning bitset): it is the right-hand operand of &=, |=, ^=, == and the  *)
(* target of the copy construction from the view.                          *)
(***************************************************************************)
EXTENDS Integers, Sequences, FiniteSets, TLC

CONSTANTS W, MaxBits, MaxShift, NG,
          OthSeqs    \* contents the other (abstract, owning) object may be given

VARIABLES mem,    \* caller memory: sequence of blocks (a block is a function 1..W -> {0,1}, bit j-1 at index j)
          nblk,   \* length of the span (number of blocks the view refers to)
          msz,    \* m_size
          oth,    \* the other object: an abstract bit sequence (owning bitset)
          stray,  \* ghost: some call so far indexed the span outside 0..nblk-1
          last, pre

vvars == <<mem, nblk, msz, oth, stray, last, pre>>
Bit == {0, 1}

\* ---------------------------------------------------------------- block algebra (as in BitsetImpl)
BZero      == [j \in 1..W |-> 0]
BOnes      == [j \in 1..W |-> 1]
BShl(b, r) == [j \in 1..W |-> IF j > r THEN b[j - r] ELSE 0]
BShr(b, r) == [j \in 1..W |-> IF j + r <= W THEN b[j + r] ELSE 0]
BOrB(a, b)  == [j \in 1..W |-> IF a[j] = 1 \/ b[j] = 1 THEN 1 ELSE 0]
BAndB(a, b) == [j \in 1..W |-> IF a[j] = 1 /\ b[j] = 1 THEN 1 ELSE 0]
BXorB(a, b) == [j \in 1..W |-> IF a[j] # b[j] THEN 1 ELSE 0]
BNot(b)    == [j \in 1..W |-> 1 - b[j]]
MaskLow(e) == [j \in 1..W |-> IF j <= e THEN 1 ELSE 0]
BitMask(p) == [j \in 1..W |-> IF j = (p % W) + 1 THEN 1 ELSE 0]
PopCnt(b)  == Cardinality({j \in 1..W : b[j] = 1})
BlockCount(n) == n \div W + (IF n % W # 0 THEN 1 ELSE 0)
GuardBlk   == [j \in 1..W |-> j % 2]          \* the pattern the caller put around the view's blocks

\* ---------------------------------------------------------------- memory access through the span
\* A machine state while a member function runs: the memory and the stray flag.
\* Span index i (0-based, as in the C++ code) is memory cell NG + i + 1.
St(m, e)   == [m |-> m, e |-> e]
InSpan(i)  == i >= 0 /\ i < nblk
Cell(i)    == NG + i + 1
InMem(s, i) == Cell(i) >= 1 /\ Cell(i) <= Len(s.m)
\* reading b[i]: the value (whatever memory holds there; zero beyond the modelled memory)
Rd(s, i)   == IF InMem(s, i) THEN s.m[Cell(i)] ELSE BZero
\* the state after an access to b[i] (read or write) has been checked
Chk(s, i)  == IF InSpan(i) THEN s ELSE [s EXCEPT !.e = TRUE]
\* writing b[i] = v
Wr(s, i, v) == LET t == Chk(s, i) IN IF InMem(s, i) THEN [t EXCEPT !.m[Cell(i)] = v] ELSE t

\* ---------------------------------------------------------------- the code's loops
\* zero_unused_bits(): extra = m_size % W; if (extra != 0) m_buffer.back() &= ~(~0 << extra)
ZeroUnused(s, sz) ==
    LET e == sz % W IN
    IF e # 0 THEN Wr(Chk(s, nblk - 1), nblk - 1, BAndB(Rd(s, nblk - 1), MaskLow(e))) ELSE s

\* std::fill / std::fill_n over the block range [lo, hi)
RECURSIVE FillRange(_, _, _, _)
FillRange(s, lo, hi, v) == IF lo >= hi THEN s ELSE FillRange(Wr(s, lo, v), lo + 1, hi, v)

ResetAllP(s)    == FillRange(s, 0, nblk, BZero)
SetAllP(s, sz)  == ZeroUnused(FillRange(s, 0, nblk, BOnes), sz)
RECURSIVE FlipLoop(_, _)
FlipLoop(s, i)  == IF i >= nblk THEN s ELSE FlipLoop(Wr(Chk(s, i), i, BNot(Rd(s, i))), i + 1)
FlipAllP(s, sz) == ZeroUnused(FlipLoop(s, 0), sz)

SetPosP(s, p, x) ==
    LET bi == p \div W IN
    IF x = 1 THEN Wr(Chk(s, bi), bi, BOrB(Rd(s, bi), BitMask(p)))
             ELSE Wr(Chk(s, bi), bi, BAndB(Rd(s, bi), BNot(BitMask(p))))
FlipPosP(s, p) == LET bi == p \div W IN Wr(Chk(s, bi), bi, BXorB(Rd(s, bi), BitMask(p)))
BitAtP(s, p)   == Rd(s, p \div W)[(p % W) + 1]
ChkBit(s, p)   == Chk(s, p \div W)

\* operator<<=(pos), sub-block path: for (i = last - div; i > 0; --i) b[i + div] = (b[i] << r) | (b[i - 1] >> rs); b[div] = b[0] << r;
RECURSIVE ShlLoopR(_, _, _, _)
ShlLoopR(s, i, div, r) ==
    IF i > 0
      THEN ShlLoopR(Wr(Chk(Chk(s, i), i - 1), i + div, BOrB(BShl(Rd(s, i), r), BShr(Rd(s, i - 1), W - r))), i - 1, div, r)
      ELSE Wr(Chk(s, 0), div, BShl(Rd(s, 0), r))
\* whole-block path: for (i = last - div; i > 0; --i) b[i + div] = b[i]; b[div] = b[0];
RECURSIVE ShlLoop0(_, _, _)
ShlLoop0(s, i, div) ==
    IF i > 0 THEN ShlLoop0(Wr(Chk(s, i), i + div, Rd(s, i)), i - 1, div)
             ELSE Wr(Chk(s, 0), div, Rd(s, 0))
ShlP(s, sz, pos) ==
    IF pos >= sz THEN ResetAllP(s)
    ELSE IF pos = 0 THEN s
    ELSE LET lastb == nblk - 1
             div == pos \div W
             r == pos % W
             s1 == IF r # 0 THEN ShlLoopR(s, lastb - div, div, r) ELSE ShlLoop0(s, lastb - div, div)
             s2 == FillRange(s1, 0, div, BZero)                  \* std::fill_n(m_buffer.begin(), div, 0)
         IN ZeroUnused(s2, sz)

\* operator>>=(pos): for (i = div; i < last; ++i) b[i - div] = (b[i] >> r) | (b[i + 1] << ls); b[last - div] = b[last] >> r;
RECURSIVE ShrLoopR(_, _, _, _, _)
ShrLoopR(s, i, div, r, lastb) ==
    IF i < lastb
      THEN ShrLoopR(Wr(Chk(Chk(s, i), i + 1), i - div, BOrB(BShr(Rd(s, i), r), BShl(Rd(s, i + 1), W - r))), i + 1, div, r, lastb)
      ELSE Wr(Chk(s, lastb), lastb - div, BShr(Rd(s, lastb), r))
\* for (i = div; i <= last; ++i) b[i - div] = b[i];
RECURSIVE ShrLoop0(_, _, _, _)
ShrLoop0(s, i, div, lastb) ==
    IF i <= lastb THEN ShrLoop0(Wr(Chk(s, i), i - div, Rd(s, i)), i + 1, div, lastb) ELSE s
ShrP(s, sz, pos) ==
    IF pos >= sz THEN ResetAllP(s)
    ELSE IF pos = 0 THEN s
    ELSE LET lastb == nblk - 1
             div == pos \div W
             r == pos % W
             s1 == IF r # 0 THEN ShrLoopR(s, div, div, r, lastb) ELSE ShrLoop0(s, div, div, lastb)
         IN FillRange(s1, nblk - div, nblk, BZero)               \* std::fill_n(begin() + (block_count() - div), div, 0)

\* operator&=, |=, ^= : for (i = 0; i < block_count(); ++i) m_buffer[i] op= rhs.m_buffer[i]
\* rb: the right-hand operand's blocks (a sequence); reading rhs block i beyond its length is a stray access as well
Ap(opc, a, b) == CASE opc = "and" -> BAndB(a, b) [] opc = "or" -> BOrB(a, b) [] opc = "xor" -> BXorB(a, b)
RECURSIVE BinLoop(_, _, _, _)
BinLoop(opc, s, rb, i) ==
    IF i >= nblk THEN s
    ELSE LET ok == i + 1 <= Len(rb)
             rv == IF ok THEN rb[i + 1] ELSE BZero
             t  == IF ok THEN s ELSE [s EXCEPT !.e = TRUE]
         IN BinLoop(opc, Wr(Chk(t, i), i, Ap(opc, Rd(s, i), rv)), rb, i + 1)

\* observers (they only read; each returns <<value, stray?>>)
RECURSIVE CountLoop(_, _)
CountLoop(s, i) == IF i >= nblk THEN 0 ELSE PopCnt(Rd(s, i)) + CountLoop(s, i + 1)     \* byte loop over data()..data()+size*sizeof
AnyP(s)  == \E i \in 0..(nblk - 1) : Rd(s, i) # BZero
AllP(s, sz) ==
    IF sz = 0 THEN <<TRUE, FALSE>>
    ELSE LET e == sz % W
             n == IF e # 0 THEN nblk - 1 ELSE nblk
         IN <<(\A i \in 0..(n - 1) : Rd(s, i) = BOnes) /\ (e # 0 => Rd(s, nblk - 1) = MaskLow(e)),
              e # 0 /\ ~InSpan(nblk - 1)>>                        \* m_buffer.back()

\* ---------------------------------------------------------------- abstraction
Cur == St(mem, stray)
SpanBits(m, nb, sz) == [i \in 1..sz |-> m[NG + ((i - 1) \div W) + 1][((i - 1) % W) + 1]]
AbsView == SpanBits(mem, nblk, msz)
AbsObj  == <<AbsView, oth>>
\* the other object's blocks (an owning bitset keeps its unused bits zero)
OthBlocks == [j \in 1..BlockCount(Len(oth)) |-> [q \in 1..W |-> IF (j - 1) * W + q <= Len(oth) THEN oth[(j - 1) * W + q] ELSE 0]]
SpanBlocks == [j \in 1..nblk |-> mem[NG + j]]

Ok(v)  == [exc |-> "none", val |-> v]
Exc(e) == [exc |-> e, val |-> <<>>]
Void   == Ok(<<>>)
NoArg  == [z |-> 0]
Kinds  == <<"view", "own">>

\* a call on the view that runs program result state t (memory + stray) and leaves the size unchanged
Run(op, a, t, res) ==
    /\ pre'   = [obj |-> AbsObj, kind |-> Kinds]
    /\ mem'   = t.m
    /\ stray' = t.e
    /\ UNCHANGED <<nblk, msz, oth>>
    /\ last'  = [op |-> op, k |-> 1, a |-> a, res |-> res]

\* ---------------------------------------------------------------- actions (k = 1 is the view)
\* xdynamic_bitset_view(ptr, size): span(ptr, integer_ceil(size, W)); zero_unused_bits()
CtorView(bl, n) ==
    /\ BlockCount(n) = Len(bl)
    /\ LET m0 == [i \in 1..NG |-> GuardBlk] \o [i \in 1..Len(bl) |-> [j \in 1..W |-> (bl[i][1] \div (2 ^ (j - 1))) % 2]] \o [i \in 1..NG |-> GuardBlk]
           e  == n % W
           nb == Len(bl)
           \* zero_unused_bits on the fresh view (nblk is not yet nb in this state: written out)
           m1 == IF e # 0 THEN [m0 EXCEPT ![NG + nb] = BAndB(m0[NG + nb], MaskLow(e))] ELSE m0
       IN /\ pre'   = [obj |-> AbsObj, kind |-> Kinds]
          /\ mem'   = m1
          /\ nblk'  = nb
          /\ msz'   = n
          /\ stray' = (stray \/ (e # 0 /\ nb = 0))
          /\ UNCHANGED oth
          /\ last'  = [op |-> "CtorView", k |-> 1, a |-> [blocks |-> bl, n |-> n], res |-> Void]
ResizeView(n) == Run("ResizeView", [n |-> n], Cur, IF n # msz THEN Exc("runtime_error") ELSE Void)
SetAll        == Run("SetAll", NoArg, SetAllP(Cur, msz), Void)
ResetAll      == Run("ResetAll", NoArg, ResetAllP(Cur), Void)
FlipAll       == Run("FlipAll", NoArg, FlipAllP(Cur, msz), Void)
Set(i, v)     == i < msz /\ Run("Set", [i |-> i, v |-> v], SetPosP(Cur, i, v), Void)
Set1(i)       == i < msz /\ Run("Set1", [i |-> i], SetPosP(Cur, i, 1), Void)
ResetBit(i)   == i < msz /\ Run("ResetBit", [i |-> i], SetPosP(Cur, i, 0), Void)
Flip(i)       == i < msz /\ Run("Flip", [i |-> i], FlipPosP(Cur, i), Void)
ShlEq(p)      == Run("ShlEq", [p |-> p], ShlP(Cur, msz, p), Void)
ShrEq(p)      == Run("ShrEq", [p |-> p], ShrP(Cur, msz, p), Void)
RhsBlocks(sf) == IF sf = 1 THEN SpanBlocks ELSE OthBlocks
BinOK(sf)     == sf = 1 \/ Len(oth) = msz
AndEq(sf)     == BinOK(sf) /\ Run("AndEq", [self |-> sf], BinLoop("and", Cur, RhsBlocks(sf), 0), Void)
OrEq(sf)      == BinOK(sf) /\ Run("OrEq", [self |-> sf], BinLoop("or", Cur, RhsBlocks(sf), 0), Void)
XorEq(sf)     == BinOK(sf) /\ Run("XorEq", [self |-> sf], BinLoop("xor", Cur, RhsBlocks(sf), 0), Void)
\* at(i): if (i >= size()) throw; reference(m_buffer[i / W], i % W)
At(c, i) == IF i >= msz THEN Run("At", [c |-> c, i |-> i], Cur, Exc("out_of_range"))
                        ELSE Run("At", [c |-> c, i |-> i], ChkBit(Cur, i), Ok(<<BitAtP(Cur, i)>>))
ReadPaths == {"cindex", "front", "back", "iter", "riter", "neg", "data", "blockit"}
Read(path, i) ==
    /\ i < msz
    /\ path = "front" => i = 0
    /\ path = "back" => i = msz - 1
    /\ Run("Read", [path |-> path, i |-> i], ChkBit(Cur, i), Ok(<<IF path = "neg" THEN 1 - BitAtP(Cur, i) ELSE BitAtP(Cur, i)>>))
WritePaths == {"index", "front", "back"}
WriteKinds == {"assign", "and", "or", "xor", "flip", "aref", "ptr"}
RefWrite(path, i, wk, v, j) ==
    /\ i < msz /\ j < msz
    /\ path = "front" => i = 0
    /\ path = "back" => i = msz - 1
    /\ LET t == CASE wk \in {"assign", "ptr"} -> SetPosP(Cur, i, v)
                  [] wk = "and"    -> IF v = 0 THEN SetPosP(Cur, i, 0) ELSE ChkBit(Cur, i)
                  [] wk = "or"     -> IF v = 1 THEN SetPosP(Cur, i, 1) ELSE ChkBit(Cur, i)
                  [] wk = "xor"    -> IF v = 1 THEN FlipPosP(Cur, i) ELSE ChkBit(Cur, i)
                  [] wk = "flip"   -> FlipPosP(Cur, i)
                  [] wk = "aref"   -> SetPosP(ChkBit(Cur, j), i, BitAtP(Cur, j))
       IN Run("RefWrite", [path |-> path, i |-> i, wk |-> wk, v |-> v, j |-> j], t, Void)
RECURSIVE FillFrom(_, _, _, _)
FillFrom(s, i, j, x) == IF i >= j THEN s ELSE FillFrom(SetPosP(s, i, x), i + 1, j, x)
Fill(i, j, x) == i <= j /\ j <= msz /\ Run("Fill", [i |-> i, j |-> j, v |-> x], FillFrom(Cur, i, j, x), Void)

\* the other object: given a content directly (L1: CtorIL(2, b)), or copy-constructed from the view
\* (xdynamic_bitset(const xdynamic_bitset_base<Y>&): storage(rhs.block_begin(), rhs.block_end()), rhs.size())
SetOther(b) ==
    /\ pre' = [obj |-> AbsObj, kind |-> Kinds]
    /\ oth' = b
    /\ UNCHANGED <<mem, nblk, msz, stray>>
    /\ last' = [op |-> "CtorIL", k |-> 2, a |-> [bits |-> b], res |-> Void]
CopyOut ==
    /\ pre' = [obj |-> AbsObj, kind |-> Kinds]
    /\ oth' = SpanBits(mem, nblk, msz)
    /\ UNCHANGED <<mem, nblk, msz, stray>>
    /\ last' = [op |-> "CtorCopy", k |-> 2, a |-> NoArg, res |-> Void]

\* ---------------------------------------------------------------- next-state relation
Sizes == 0..MaxBits
BitSeqs(n) == UNION {[1..m -> Bit] : m \in 0..n}
LimbSeqs(n) == UNION {[1..m -> {<<x>> : x \in 0..(2 ^ W - 1)}] : m \in 0..n}
Idx == 0..(msz - 1)

AllOth == BitSeqs(MaxBits)
RepOth == UNION {{[i \in 1..n |-> 1], [i \in 1..n |-> i % 2], [i \in 1..n |-> IF i = n THEN 1 ELSE 0]} : n \in {0, MaxBits - W, MaxBits - 1, MaxBits}}
Init == /\ mem = [i \in 1..(2 * NG) |-> GuardBlk] /\ nblk = 0 /\ msz = 0 /\ oth = <<>> /\ stray = FALSE
        /\ last = [op |-> "Init", k |-> 0, a |-> NoArg, res |-> Void]
        /\ pre = [obj |-> <<<<>>, <<>>>>, kind |-> Kinds]

Next ==
    \/ \E bl \in LimbSeqs(BlockCount(MaxBits)), n \in Sizes : CtorView(bl, n)
    \/ \E n \in Sizes : ResizeView(n)
    \/ SetAll \/ ResetAll \/ FlipAll
    \/ OthSeqs = AllOth /\ CopyOut        \* (with a restricted operand set the copy would bring every content in)
    \/ \E i \in Idx : Set1(i) \/ ResetBit(i) \/ Flip(i) \/ (\E v \in Bit : Set(i, v))
    \/ \E p \in 0..MaxShift : ShlEq(p) \/ ShrEq(p)
    \/ \E sf \in {0, 1} : AndEq(sf) \/ OrEq(sf) \/ XorEq(sf)
    \/ \E i \in 0..(BlockCount(MaxBits) * W + 1), c \in {"c", "m"} : At(c, i)
    \/ \E i \in Idx, path \in ReadPaths : Read(path, i)
    \/ \E i \in Idx, path \in WritePaths, wk \in WriteKinds, v \in Bit, j \in Idx :
          /\ (wk \in {"flip", "aref"} => v = 0) /\ (wk # "aref" => j = 0)
          /\ RefWrite(path, i, wk, v, j)
    \/ \E i \in 0..msz, j \in 0..msz, v \in Bit : Fill(i, j, v)
    \/ \E b \in OthSeqs : SetOther(b)

Spec == Init /\ [][Next]_vvars
absview == <<mem, nblk, msz, oth, stray>>

\* ---------------------------------------------------------------- what TLC checks
NoStray == stray = FALSE
GuardsIntact == /\ Len(mem) = nblk + 2 * NG
                /\ \A i \in 1..NG : mem[i] = GuardBlk /\ mem[Len(mem) + 1 - i] = GuardBlk
RepInv == /\ nblk = BlockCount(msz)
          /\ \A i \in 1..nblk : \A j \in 1..W : ((i - 1) * W + j > msz) => mem[NG + i][j] = 0

A == INSTANCE Bitset WITH w <- W, obj <- AbsObj, kind <- Kinds, Widths <- {W}, Targets <- {1, 2}, OtherInit <- {}, ILArgs <- {},
                          LimbReps <- 0..(2 ^ W - 1), Classes <- {}, EmitOps <- {}, MaxBits <- MaxBits, MaxShift <- MaxShift
\* the read-only members, run as the code runs them, report what L1 says and never leave the span
ObserversAgree == LET s == AbsView  al == AllP(Cur, msz) IN
    /\ CountLoop(Cur, 0) = A!Count(s)
    /\ AnyP(Cur) = (\E i \in 1..Len(s) : s[i] = 1)
    /\ al[1] = (\A i \in 1..Len(s) : s[i] = 1) /\ al[2] = FALSE
    /\ (msz = Len(oth) /\ \A i \in 1..nblk : SpanBlocks[i] = OthBlocks[i]) = (s = oth)          \* operator==

StepRefines == LET a == last'.a  o == last'.op IN
    \/ o = "CtorView"     /\ A!CtorView(1, a.blocks, a.n)
    \/ o = "ResizeView"   /\ A!ResizeView(1, a.n)
    \/ o = "SetAll"       /\ A!SetAll(1)
    \/ o = "ResetAll"     /\ A!ResetAll(1)
    \/ o = "FlipAll"      /\ A!FlipAll(1)
    \/ o = "Set"          /\ A!Set(1, a.i, a.v)
    \/ o = "Set1"         /\ A!Set1(1, a.i)
    \/ o = "ResetBit"     /\ A!Reset(1, a.i)
    \/ o = "Flip"         /\ A!Flip(1, a.i)
    \/ o = "ShlEq"        /\ A!ShlEq(1, a.p)
    \/ o = "ShrEq"        /\ A!ShrEq(1, a.p)
    \/ o = "AndEq"        /\ A!AndEq(1, a.self)
    \/ o = "OrEq"         /\ A!OrEq(1, a.self)
    \/ o = "XorEq"        /\ A!XorEq(1, a.self)
    \/ o = "At"           /\ A!At(1, a.c, a.i)
    \/ o = "Read"         /\ A!Read(1, a.path, a.i)
    \/ o = "RefWrite"     /\ A!RefWrite(1, a.path, a.i, a.wk, a.v, a.j)
    \/ o = "Fill"         /\ A!Fill2(1, a.i, a.j, a.v)
    \/ o = "CtorIL"       /\ A!CtorIL(2, a.bits)
    \/ o = "CtorCopy"     /\ A!CtorCopy(2)
Refines == [][StepRefines]_vvars
SizeBound == msz <= MaxBits /\ Len(oth) <= MaxBits
=============================================================================

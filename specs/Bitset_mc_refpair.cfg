SPECIFICATION Spec
CONSTANTS
  MaxBits = 3
  Widths = {2}
  MaxShift = 1
  Targets = {1, 2}
  OtherInit <- NoOther
  ILArgs <- AllIL
  LimbReps <- AllLimbs
  Classes <- RefPairMC
  EmitOps <- NoEmit
CONSTRAINT SizeBound
VIEW absvars
INVARIANTS TypeOK PackRoundTrip UnusedZero
PROPERTIES RefPairLaw

------------------------------ MODULE ComplexMC ------------------------------
(* Model-checking instances of Complex: constant sets that cannot be written in a .cfg *)
EXTENDS Complex
AllClasses  == {"bin", "bins", "binstd", "cmp", "cmps", "cmpstd", "un", "part", "eq", "assign", "setpart", "std", "ctor", "str", "fwd", "cmpp"}
ArithClasses == {"bin", "bins", "cmp", "cmps", "binstd", "cmpstd"}
(* "alias": a compound real operand that is a part of the target itself (v *= v.real()); the operand is the value    *)
(* it had before the call (fix ec213c1 in /repo made xtl copy the scalar first).                                       *)
WithAlias   == AllClasses \cup {"alias"}
AllRegs     == CRegs
(* "kinds" enumeration: every operation x every operand-kind pattern, few values *)
ValsKQ      == {0 - 1, 0, 2}
ValsKT      == {0 - 2, 0 - 1, 0, 3}
(* "values" enumeration: every pair of Gaussian integers in the box, fewer kind patterns *)
ValsVQ      == (0 - 2)..2
ValsVT      == (0 - 3)..3
LV          == {"v1", "r1"}
RV          == {"v2", "r2", "k1"}
ValsSim     == (0 - 2)..3
AllSTs      == SCTypes
FewSTs      == {"T", "int"}
(* the algebra the oracle is built from is complex arithmetic (checked once, at start-up) *)
ASSUME Laws
=============================================================================

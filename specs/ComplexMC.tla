------------------------------ MODULE ComplexMC ------------------------------
(* Model-checking instances of Complex: constant sets that cannot be written in a .cfg *)
EXTENDS Complex
AllClasses  == {"bin", "bins", "binstd", "cmp", "cmps", "cmpstd", "un", "part", "eq", "assign", "setpart", "std", "ctor", "str", "fwd", "cmpp"}
ArithClasses == {"bin", "bins", "cmp", "cmps", "binstd", "cmpstd"}
(* "alias": a compound real operand that is a part of the target itself (v *= v.real()).  Not enabled: xtl takes the   *)
(* scalar by reference and gives (re*re, im*re*re); see proposed_fixes/C10-04.  Enable after that fix is committed.     *)
WithAlias   == AllClasses \cup {"alias"}
AllRegs     == CRegs
(* "kinds" enumeration: every operation x every operand-kind pattern, few values *)
ValsKQ      == {0 - 1, 0, 2}
ValsKT      == {0 - 2, 0 - 1, 0, 3}
(* "values" enumeration: every pair of Gaussian integers in the box, fewer kind patterns *)
ValsVQ      == (0 - 2)..2
ValsVT      == (0 - 3)..3
LV          == {"v1", "r1"}
RV          == {"v2", "r2", "k1"}
ValsSim     == (0 - 2)..3
(* the algebra the oracle is built from is complex arithmetic (checked once, at start-up) *)
ASSUME Laws
=============================================================================

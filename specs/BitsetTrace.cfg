SPECIFICATION TSpec
CONSTANTS
  MaxBits = 0
  Widths = {8, 16, 32, 64}
  MaxShift = 0
  Targets = {1, 2}
  OtherInit = {}
  ILArgs = {}
  LimbReps = {}
  Classes = {}
  EmitOps = {}
POSTCONDITION TraceAccepted
CHECK_DEADLOCK FALSE

SPECIFICATION Spec
CONSTANTS
  W = 4
  MaxBits = 9
  MaxShift = 10
  MoveKeepsSize = FALSE
  ObserveMoved = TRUE
  Targets <- OnlyFirst
  SplitNext = TRUE
  OtherSeqs <- RepOther
CONSTRAINT SizeBound
VIEW absview
INVARIANTS RepInv ObserversAgree
PROPERTIES Refines

SPECIFICATION Spec
CONSTANTS
  MaxN = 3
  Steps = {1}
  Impls <- PairOnly
  W = 3
  Mutant = "lt_or"
VIEW absview
INVARIANTS RepInv ObserversAgree
PROPERTIES Refines

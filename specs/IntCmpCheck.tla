----------------------------- MODULE IntCmpCheck -----------------------------
(***************************************************************************)
(* C15 conformance (C->S): validates a table recorded from the real         *)
(* xtl::cmp_* templates against IntCmp.tla.                                 *)
(*                                                                          *)
(* Table line (ndjson, env TRACE):                                          *)
(*  {"op":"P","T":t,"U":u,"ts":[s,d],"us":[s,d],"enc":"int"|"limbs","ce":0|1,"c":[[a,b,mask],..]} *)
(*  {"op":"R","T":t,"U":u,"ts":..,"us":..,"side":0|1,"c":[[a,[[lo,hi,mask],..]],..]}                 *)
(* T, U: type ids of the two operands (0..7 the fixed-width types, above: char, wchar_t, char16_t,   *)
(* char32_t, long long, unsigned long long, bool); ts, us: <<is_signed, digits>> of the two types as *)
(* the compiler reports them; a, b: the operand values as the      *)
(* harness read them back from variables of those types - a small integer   *)
(* (enc "int") or [neg, l0, l1, l2, l3] (enc "limbs"); mask: the six        *)
(* returned booleans (eq=1 ne=2 lt=4 gt=8 le=16 ge=32); ce = 1 when the     *)
(* calls were evaluated in constant expressions by the compiler.            *)
(* An "R" case is a whole sweep: a against EVERY value b of U (at most 16 bits wide), the answers    *)
(* run-length encoded by the harness; the runs must tile U's range and every b of a run must have    *)
(* the run's mask (side 0: cmp_*(a, b), side 1: cmp_*(b, a)).                                        *)
(* Every case is one TLC state <<l, j>>; see Base64Check.tla for the scheme.*)
(***************************************************************************)
EXTENDS IntCmp, Json, IOUtils, TLC

VARIABLES l, j

Table == ndJsonDeserialize(IOEnv.TRACE)

Val(e, a) == IF e.enc = "int" THEN FromInt(a)
             ELSE [neg |-> a[1] = 1, mag |-> <<a[2], a[3], a[4], a[5]>>]

DeclOK(e) == /\ e.T \in 0..7 => <<e.ts[1], e.ts[2]>> = SDOf(e.T)          \* the fixed-width types are what their names say
             /\ e.U \in 0..7 => <<e.us[1], e.us[2]>> = SDOf(e.U)
Verdict(e, c) ==
    LET x == Val(e, c[1])
        y == Val(e, c[2]) IN
    IF ~(DeclOK(e) /\ IsValue(x) /\ IsValue(y) /\ RepresentableSD(e.ts, x) /\ RepresentableSD(e.us, y))
      THEN [precondition |-> "operand not a value of its type"]
      ELSE [mask |-> Mask(x, y)]

(* ---- sweeps *)
SweepMask(e, a, b) == IF e.side = 0 THEN MaskInts(a, b) ELSE MaskInts(b, a)
Tiles(e, runs) == /\ Len(runs) >= 1
                  /\ runs[1][1] = LoSD(e.us) /\ runs[Len(runs)][2] = HiSD(e.us)
                  /\ \A k \in 1..Len(runs) : runs[k][1] <= runs[k][2]
                  /\ \A k \in 1..(Len(runs) - 1) : runs[k + 1][1] = runs[k][2] + 1
SweepOK(e, c) == /\ Tiles(e, c[2])
                 /\ \A k \in 1..Len(c[2]) : \A b \in c[2][k][1]..c[2][k][2] : SweepMask(e, c[1], b) = c[2][k][3]
SweepVerdict(e, c) ==
    IF ~(DeclOK(e) /\ e.us[2] + e.us[1] <= 16 /\ RepresentableSD(e.ts, FromInt(c[1])))
      THEN [precondition |-> "operand not a value of its type, or sweep type wider than 16 bits"]
    ELSE IF ~Tiles(e, c[2]) THEN [runs_must_tile |-> <<LoSD(e.us), HiSD(e.us)>>]
    ELSE LET bad == CHOOSE k \in 1..Len(c[2]) : \E b \in c[2][k][1]..c[2][k][2] : SweepMask(e, c[1], b) # c[2][k][3]
             b0  == CHOOSE b \in c[2][bad][1]..c[2][bad][2] : SweepMask(e, c[1], b) # c[2][bad][3]
         IN [a |-> c[1], b |-> b0, mask |-> SweepMask(e, c[1], b0)]

(* ---- advisory (round 3): the signature facts the driver reports per ordered type pair.  The property statement does  *)
(* not mention noexcept or the exact return type; the header documents both (constexpr bool ... noexcept), std::cmp_*    *)
(* are specified so.  A difference is printed as DRIFT once per table line and never changes the verdict.                *)
SigAll == 4095
SigNote(e) == IF "sig" \in DOMAIN e /\ e.sig # SigAll /\ j = 1
                THEN PrintT(<<"DRIFT", "ADVISORY signature: not all six cmp_* calls are noexcept and of type bool for some ordered pair of operand types; sig bits 1..32 = noexcept(eq ne lt gt le ge), 64..2048 = returns exactly bool", e.sig>>)
                ELSE TRUE

TInit == l = 1 /\ j = 1

TNext ==
    /\ l <= Len(Table)
    /\ LET e == Table[l] IN
        /\ SigNote(e)
        /\ IF e.op = "P"
             THEN LET v == Verdict(e, e.c[j]) IN
                  IF "mask" \in DOMAIN v /\ e.c[j][3] = v.mask
                    THEN TRUE
                    ELSE PrintT(<<"REJECT", l, j, v>>) /\ FALSE
             ELSE IF e.op = "R"
             THEN IF DeclOK(e) /\ e.us[2] + e.us[1] <= 16 /\ RepresentableSD(e.ts, FromInt(e.c[j][1])) /\ SweepOK(e, e.c[j])
                    THEN TRUE
                    ELSE PrintT(<<"REJECT", l, j, SweepVerdict(e, e.c[j])>>) /\ FALSE
             ELSE PrintT(<<"REJECT", l, j, [no_such_op |-> e.op]>>) /\ FALSE
        /\ IF j < Len(e.c) THEN l' = l /\ j' = j + 1
                           ELSE l' = l + 1 /\ j' = 1

TSpec == TInit /\ [][TNext]_<<l, j>>
=============================================================================

----------------------------- MODULE IntCmpCheck -----------------------------
(***************************************************************************)
(* C15 conformance (C->S): validates a table recorded from the real         *)
(* xtl::cmp_* templates against IntCmp.tla.                                 *)
(*                                                                          *)
(* Table line (ndjson, env TRACE):                                          *)
(*  {"op":"P","T":t,"U":u,"enc":"int"|"limbs","ce":0|1,"c":[[a,b,mask],..]} *)
(* T, U: type ids of the two operands; a, b: the operand values as the      *)
(* harness read them back from variables of those types - a small integer   *)
(* (enc "int") or [neg, l0, l1, l2, l3] (enc "limbs"); mask: the six        *)
(* returned booleans (eq=1 ne=2 lt=4 gt=8 le=16 ge=32); ce = 1 when the     *)
(* calls were evaluated in constant expressions by the compiler.            *)
(* Every case is one TLC state <<l, j>>; see Base64Check.tla for the scheme.*)
(***************************************************************************)
EXTENDS IntCmp, Json, IOUtils, TLC

VARIABLES l, j

Table == ndJsonDeserialize(IOEnv.TRACE)

Val(e, a) == IF e.enc = "int" THEN FromInt(a)
             ELSE [neg |-> a[1] = 1, mag |-> <<a[2], a[3], a[4], a[5]>>]

Verdict(e, c) ==
    LET x == Val(e, c[1])
        y == Val(e, c[2]) IN
    IF ~(IsValue(x) /\ IsValue(y) /\ Representable(e.T, x) /\ Representable(e.U, y))
      THEN [precondition |-> "operand not a value of its type"]
      ELSE [mask |-> Mask(x, y)]

TInit == l = 1 /\ j = 1

TNext ==
    /\ l <= Len(Table)
    /\ LET e == Table[l] IN
        /\ IF e.op = "P"
             THEN LET v == Verdict(e, e.c[j]) IN
                  IF "mask" \in DOMAIN v /\ e.c[j][3] = v.mask
                    THEN TRUE
                    ELSE PrintT(<<"REJECT", l, j, v>>) /\ FALSE
             ELSE PrintT(<<"REJECT", l, j, [no_such_op |-> e.op]>>) /\ FALSE
        /\ IF j < Len(e.c) THEN l' = l /\ j' = j + 1
                           ELSE l' = l + 1 /\ j' = 1

TSpec == TInit /\ [][TNext]_<<l, j>>
=============================================================================

------------------------------ MODULE IntCmpMC ------------------------------
(* Model-checking instance for IntCmp.tla: every pair / triple of values of *)
(* a finite universe is one TLC state; the laws of IntCmp.tla are the       *)
(* invariant.                                                               *)
EXTENDS IntCmp, TLC

CONSTANTS LimbReps,      \* limb values for the pair universe (4 limbs each, both signs)
          TripleLimbs,   \* limb values (limbs 1 and 4 only) for the transitivity universe
          IntReps        \* TLA+ integers compared with their images

VARIABLES kind, x, y, z
vars == <<kind, x, y, z>>

Vals(L)  == {v \in [neg : BOOLEAN, mag : [1..4 -> L]] : ~(v.neg /\ v.mag = Zero4)}
TVals(L) == {v \in [neg : BOOLEAN, mag : {<<a, 0, 0, b>> : a \in L, b \in L}] : ~(v.neg /\ v.mag = Zero4)}

Init == \/ kind = "pair"   /\ x \in Vals(LimbReps) /\ y \in Vals(LimbReps) /\ z = 0
        \/ kind = "triple" /\ x \in TVals(TripleLimbs) /\ y \in TVals(TripleLimbs) /\ z \in TVals(TripleLimbs)
        \/ kind = "ints"   /\ x \in IntReps /\ y \in IntReps /\ z = 0
        \/ kind = "range"  /\ x = 0 /\ y = 0 /\ z = 0
Next == UNCHANGED vars
Spec == Init /\ [][Next]_vars

Laws == CASE kind = "pair"   -> IsValue(x) /\ IsValue(y) /\ PairLaws(x, y)
          [] kind = "triple" -> TripleLaws(x, y, z)
          [] kind = "ints"   -> IntLaws(x, y)
          [] kind = "range"  -> RangeLaws

Limbs3 == {0, 1, 65535}
Limbs4 == {0, 1, 32768, 65535}
Limbs5 == {0, 1, 32767, 32768, 65535}
Ints   == (-20..20) \cup {-2147483647, -1073741825, -1073741824, -1073741823, -65537, -65536, -65535, -32769, -32768, -32767,
                           -256, -255, -129, -128, -127, 127, 128, 129, 255, 256, 32767, 32768, 32769, 65535, 65536, 65537,
                           1073741823, 1073741824, 1073741825, 2147483647}
=============================================================================

----------------------------- MODULE PromoteExtra -----------------------------
(***************************************************************************)
(* Companions of the promotion traits that the C18 STATEMENT does not name  *)
(* but the headers offer (xoptional_meta.hpp: common_optional, an anchor of *)
(* the property; xtype_traits.hpp: the std::chrono::time_point              *)
(* specialisation of promote_type).  ADVISORY: a row of this table that     *)
(* xtl does not satisfy is reported as MODEL-DRIFT, never as a violation.   *)
(*                                                                          *)
(* Hand-derived meaning:                                                    *)
(*  common_optional_t<A1..An>: every argument is an arithmetic type (maybe  *)
(*    cv/reference qualified) or an xoptional of one, with any flag type.   *)
(*    One argument: itself if it is an xoptional, else xoptional<A1> (as    *)
(*    written).  Several: xoptional<std::common_type_t<value types...>>     *)
(*    with the default flag type.  std::common_type of two arithmetic types *)
(*    is the type itself when they are equal and the type of a + b          *)
(*    otherwise ([meta.trans.other], the conditional operator).             *)
(*  promote_type_t<time_point<C, D1>, time_point<C, D2>>: time_point<C,     *)
(*    D1 + D2's type>, and the sum of two durations has type                *)
(*    duration<common_type_t<R1, R2>, ratio<gcd(N1, N2), lcm(D1, D2)>>      *)
(*    ([time.traits.specializations]).                                      *)
(***************************************************************************)
EXTENDS Promote, IOUtils

Measured == ndJsonDeserialize(IOEnv.PLATFORM)[1]

CT2(a, b) == IF a = b THEN a ELSE Add(a, b)
RECURSIVE FoldCT(_)
FoldCT(s) == IF Len(s) = 1 THEN s[1] ELSE CT2(FoldCT(SubSeq(s, 1, Len(s) - 1)), s[Len(s)])

(* ---- common_optional *)
OptNames     == {"xoptional", "xoptionalc"}            \* xoptional<T> and xoptional<T, char> (another flag type)
QualNames    == {"const", "constref"}                  \* const T, const T&
IsOpt(t)     == t.n \in OptNames
ValueName(t) == IF t.n \in OptNames \cup QualNames THEN t.a[1].n ELSE t.n
CommonOptional(args) ==
    IF Len(args) = 1 THEN (IF IsOpt(args[1]) THEN args[1] ELSE Tm("xoptional", <<args[1]>>))
                     ELSE Tm("xoptional", <<T(FoldCT([i \in DOMAIN args |-> ValueName(args[i])]))>>)
OptBases == {"int", "double", "char", "float", "ushort"}
OptArgs  == {T(x) : x \in OptBases} \cup {Tm("xoptional", <<T(x)>>) : x \in {"int", "double", "char"}}
            \cup {Tm("xoptionalc", <<T("float")>>), Tm("const", <<T("int")>>), Tm("constref", <<T("ushort")>>)}

(* ---- time_point promotion *)
RECURSIVE GCD(_, _)
GCD(a, b) == IF b = 0 THEN a ELSE GCD(b, a % b)
LCM(a, b) == (a \div GCD(a, b)) * b
Periods   == {<<1, 1000>>, <<1, 1>>, <<60, 1>>, <<1, 3>>}
Durations == [rep : {"short", "int", "llong", "double"}, per : Periods]
DurSum(d1, d2) == [rep |-> CT2(d1.rep, d2.rep), per |-> <<GCD(d1.per[1], d2.per[1]), LCM(d1.per[2], d2.per[2])>>]

(* ======================= round 3: the rest of the public traits (all ADVISORY) ======================= *)
(* ---- the six classification traits xtl::is_scalar / is_arithmetic / is_fundamental / is_signed /      *)
(* is_floating_point / is_integral: the std trait of the same name ([meta.unary]), extended so that       *)
(* half_float counts as a signed floating-point arithmetic scalar (xhalf_float.hpp).  "any": left open.   *)
ClsBuiltin == {"bool", "char", "uchar", "int", "uint", "llong", "float", "double", "ldouble"}
ClsOther   == {"cint", "ptr", "enum", "class", "nullptr", "lref", "void", "half", "chalf", "xcomplex", "stdcomplex", "xoptional", "xmasked"}
B3(b) == IF b THEN "T" ELSE "F"
Classify(t) ==
    CASE t \in ClsBuiltin -> [scalar |-> "T", arithmetic |-> "T", fundamental |-> "T", signed |-> B3(Signed(t)),
                              floating |-> B3(t \in FloatSet), integral |-> B3(t \in Integral)]
      [] t = "cint"    -> [scalar |-> "T", arithmetic |-> "T", fundamental |-> "T", signed |-> "T", floating |-> "F", integral |-> "T"]
      [] t \in {"ptr", "enum"} -> [scalar |-> "T", arithmetic |-> "F", fundamental |-> "F", signed |-> "F", floating |-> "F", integral |-> "F"]
      [] t = "nullptr" -> [scalar |-> "T", arithmetic |-> "F", fundamental |-> "T", signed |-> "F", floating |-> "F", integral |-> "F"]
      [] t = "void"    -> [scalar |-> "F", arithmetic |-> "F", fundamental |-> "T", signed |-> "F", floating |-> "F", integral |-> "F"]
      [] t = "half"    -> [scalar |-> "T", arithmetic |-> "T", fundamental |-> "any", signed |-> "T", floating |-> "T", integral |-> "F"]
      [] t = "chalf"   -> [scalar |-> "any", arithmetic |-> "any", fundamental |-> "any", signed |-> "any", floating |-> "any", integral |-> "F"]
      [] OTHER         -> [scalar |-> "F", arithmetic |-> "F", fundamental |-> "F", signed |-> "F", floating |-> "F", integral |-> "F"]
ScalarX == {"int", "half", "ptr"}
AllScalarX(ks) == \A i \in DOMAIN ks : ks[i] \in ScalarX

(* ---- promote_type with half_float: the half library documents that arithmetic between a half and any    *)
(* builtin arithmetic type is carried out in half; with a std::complex in the pack: complex of that.        *)
HalfPackTypes == {T("half")} \cup {T(x) : x \in {"bool", "int", "ullong", "float", "double", "ldouble"}}
                 \cup {Tm("complex", <<T(f)>>) : f \in {"float", "double"}}
PromoteHalf(pk) == IF HasComplex(pk) THEN Tm("complex", <<T("half")>>) ELSE T("half")
(* ---- promote_type with xcomplex<R, R>: hand-derived in the spirit of the statement - a complex of the   *)
(* promotion of all component types, never nested, whatever the argument order.                             *)
XcTypes == {Tm("xcomplex", <<T(f)>>) : f \in {"float", "double"}}
XcPackTypes == XcTypes \cup {T(x) : x \in {"int", "float", "double"}}
XcComponent(t) == IF t.n = "xcomplex" THEN t.a[1].n ELSE t.n
PromoteXc(pk) == Tm("xcomplex", <<T(FoldAdd([i \in DOMAIN pk |-> XcComponent(pk[i])]))>>)
(* ---- big/real_promote_type look through cv and references (they are applied to expression types)        *)
DecayForms == {"const", "constref"}
(* ---- xoptional / xmasked_value / complex detection                                                       *)
OptKinds == {"int", "xoptional", "xoptionalc", "xmasked", "stdcomplex"}
IsOptKind(k) == k \in {"xoptional", "xoptionalc"}
CxKinds == {"double", "stdcomplex", "xcomplex", "stdcomplexcref", "xcomplexcref", "xoptional"}
(* ---- logical traits on trait classes whose member `value` is an int (2 or 0): [meta.logical] converts   *)
(* with bool(Bi::value), and the selected base class is still Bi itself.                                    *)
ValI(b) == CASE b \in {"T1", "I2"} -> TRUE [] b \in {"F1", "I0"} -> FALSE
RECURSIVE ConjScanI(_, _)
ConjScanI(s, i) == IF i = Len(s) THEN i ELSE IF ValI(s[i]) THEN ConjScanI(s, i + 1) ELSE i
RECURSIVE DisjScanI(_, _)
DisjScanI(s, i) == IF i = Len(s) THEN i ELSE IF ValI(s[i]) THEN i ELSE DisjScanI(s, i + 1)
LogicInt(s) == [conj |-> [sel |-> ConjScanI(s, 1), value |-> ValI(s[ConjScanI(s, 1)])],
                disj |-> [sel |-> DisjScanI(s, 1), value |-> ValI(s[DisjScanI(s, 1)])]]
IntArgs == {s \in UNION {[1..m -> {"T1", "F1", "I2", "I0"}] : m \in 1..3} : \E i \in DOMAIN s : s[i] \in {"I2", "I0"}}

DoClassify(t)       == Call("Classify", [t |-> t], One(Classify(t)))
DoAllScalarX(ks)    == Call("AllScalarX", [kinds |-> ks], One(AllScalarX(ks)))
DoPromoteHalf(pk)   == (\E i \in DOMAIN pk : pk[i] = T("half")) /\ Call("PromoteHalf", [pack |-> pk], One(PromoteHalf(pk)))
DoPromoteXc(pk)     == (\E i \in DOMAIN pk : pk[i] \in XcTypes) /\ Call("PromoteXc", [pack |-> pk], One(PromoteXc(pk)))
DoPromoteEmpty      == Call("PromoteEmpty", [z |-> 0], One(T("void")))
DoBigPromoteCv(q, x)  == Call("BigPromoteCv", [t |-> Tm(q, <<T(x)>>)], One(BigPromote(T(x))))
DoRealPromoteCv(q, x) == Call("RealPromoteCv", [t |-> Tm(q, <<T(x)>>)], One(RealPromote(T(x))))
DoOptTraits(ks)     == Call("OptTraits", [kinds |-> ks],
                            One([is_xoptional |-> IsOptKind(ks[1]), is_xmasked |-> ks[1] = "xmasked",
                                 neither |-> ~IsOptKind(ks[1]) /\ ks[1] # "xmasked",
                                 at_least_one |-> \E i \in DOMAIN ks : IsOptKind(ks[i])]))
DoComplexTraits(k)  == Call("ComplexTraits", [k |-> k],
                            One([is_complex |-> k \in {"stdcomplex", "stdcomplexcref"}, is_xcomplex |-> k \in {"xcomplex", "xcomplexcref"},
                                 is_gen_complex |-> k \in {"stdcomplex", "stdcomplexcref", "xcomplex", "xcomplexcref"}]))
DoLogicInt(s)       == Call("LogicInt", [args |-> s], One(LogicInt(s)))
DoNegationInt(b)    == Call("NegationInt", [arg |-> b], One(~ValI(b)))

DoCommonOptional(args) == Call("CommonOptional", [args |-> args], One(CommonOptional(args)))
DoChronoPromote(d1, d2) == Call("ChronoPromote", [d1 |-> d1, d2 |-> d2], One(DurSum(d1, d2)))

XNext == /\ last.op = "Init"
         /\ \/ \E args \in UNION {[1..m -> OptArgs] : m \in 1..MaxPack} : DoCommonOptional(args)
            \/ \E d1, d2 \in Durations : DoChronoPromote(d1, d2)
            \/ \E t \in ClsBuiltin \cup ClsOther : DoClassify(t)
            \/ \E ks \in UNION {[1..m -> {"int", "half", "ptr", "xcomplex", "xoptional", "stdcomplex"}] : m \in 1..2} : DoAllScalarX(ks)
            \/ \E pk \in UNION {[1..m -> HalfPackTypes] : m \in 1..MaxPack} : DoPromoteHalf(pk)
            \/ \E pk \in UNION {[1..m -> XcPackTypes] : m \in 1..MaxPack} : DoPromoteXc(pk)
            \/ DoPromoteEmpty
            \/ \E q \in DecayForms, x \in {"bool", "char", "int", "uint", "float", "ldouble"} : DoBigPromoteCv(q, x) \/ DoRealPromoteCv(q, x)
            \/ \E ks \in UNION {[1..m -> OptKinds] : m \in 1..2} : DoOptTraits(ks)
            \/ \E k \in CxKinds : DoComplexTraits(k)
            \/ \E s \in IntArgs : DoLogicInt(s)
            \/ \E b \in {"I2", "I0"} : DoNegationInt(b)
XSpec == Init /\ [][XNext]_vars

ExtraLaws ==
    /\ \A a, b \in Arith : CT2(a, b) = CT2(b, a)
    /\ \A a \in Arith : CT2(a, a) = a
    /\ \A d1, d2 \in Durations : /\ DurSum(d1, d2) = DurSum(d2, d1)
                                 /\ DurSum(d1, d1) = d1
                                 /\ d1.per[1] % DurSum(d1, d2).per[1] = 0        \* both periods are whole multiples of the common one
    /\ \A t \in ClsBuiltin : Classify(t).floating = "T" => Classify(t).signed = "T" /\ Classify(t).integral = "F"
    /\ \A t \in ClsBuiltin \cup ClsOther : /\ Classify(t).arithmetic = "T" => Classify(t).scalar = "T"
                                           /\ Classify(t).integral = "T" => Classify(t).arithmetic = "T"
                                           /\ (Classify(t).signed = "T" \/ Classify(t).floating = "T") => Classify(t).arithmetic = "T"
    /\ \A pk \in UNION {[1..m -> XcPackTypes] : m \in 1..2} :
          Len(pk) = 2 => PromoteXc(pk) = PromoteXc(<<pk[2], pk[1]>>)                 \* every argument order
    /\ \A s \in IntArgs : /\ LogicInt(s).conj.value = (\A i \in DOMAIN s : ValI(s[i]))
                           /\ LogicInt(s).disj.value = (\E i \in DOMAIN s : ValI(s[i]))
    /\ GCD(60, 1) = 1 /\ GCD(12, 18) = 6 /\ LCM(1000, 3) = 3000 /\ LCM(4, 6) = 12
ASSUME ExtraLaws
=============================================================================

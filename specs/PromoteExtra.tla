----------------------------- MODULE PromoteExtra -----------------------------
(***************************************************************************)
(* Companions of the promotion traits that the C18 STATEMENT does not name  *)
(* but the headers offer (xoptional_meta.hpp: common_optional, an anchor of *)
(* the property; xtype_traits.hpp: the std::chrono::time_point              *)
(* specialisation of promote_type).  ADVISORY: a row of this table that     *)
(* xtl does not satisfy is reported as MODEL-DRIFT, never as a violation.   *)
(*                                                                          *)
(* Hand-derived meaning:                                                    *)
(*  common_optional_t<A1..An>: every argument is an arithmetic type (maybe  *)
(*    cv/reference qualified) or an xoptional of one, with any flag type.   *)
(*    One argument: itself if it is an xoptional, else xoptional<A1> (as    *)
(*    written).  Several: xoptional<std::common_type_t<value types...>>     *)
(*    with the default flag type.  std::common_type of two arithmetic types *)
(*    is the type itself when they are equal and the type of a + b          *)
(*    otherwise ([meta.trans.other], the conditional operator).             *)
(*  promote_type_t<time_point<C, D1>, time_point<C, D2>>: time_point<C,     *)
(*    D1 + D2's type>, and the sum of two durations has type                *)
(*    duration<common_type_t<R1, R2>, ratio<gcd(N1, N2), lcm(D1, D2)>>      *)
(*    ([time.traits.specializations]).                                      *)
(***************************************************************************)
EXTENDS Promote, IOUtils

Measured == ndJsonDeserialize(IOEnv.PLATFORM)[1]

CT2(a, b) == IF a = b THEN a ELSE Add(a, b)
RECURSIVE FoldCT(_)
FoldCT(s) == IF Len(s) = 1 THEN s[1] ELSE CT2(FoldCT(SubSeq(s, 1, Len(s) - 1)), s[Len(s)])

(* ---- common_optional *)
OptNames     == {"xoptional", "xoptionalc"}            \* xoptional<T> and xoptional<T, char> (another flag type)
QualNames    == {"const", "constref"}                  \* const T, const T&
IsOpt(t)     == t.n \in OptNames
ValueName(t) == IF t.n \in OptNames \cup QualNames THEN t.a[1].n ELSE t.n
CommonOptional(args) ==
    IF Len(args) = 1 THEN (IF IsOpt(args[1]) THEN args[1] ELSE Tm("xoptional", <<args[1]>>))
                     ELSE Tm("xoptional", <<T(FoldCT([i \in DOMAIN args |-> ValueName(args[i])]))>>)
OptBases == {"int", "double", "char", "float", "ushort"}
OptArgs  == {T(x) : x \in OptBases} \cup {Tm("xoptional", <<T(x)>>) : x \in {"int", "double", "char"}}
            \cup {Tm("xoptionalc", <<T("float")>>), Tm("const", <<T("int")>>), Tm("constref", <<T("ushort")>>)}

(* ---- time_point promotion *)
RECURSIVE GCD(_, _)
GCD(a, b) == IF b = 0 THEN a ELSE GCD(b, a % b)
LCM(a, b) == (a \div GCD(a, b)) * b
Periods   == {<<1, 1000>>, <<1, 1>>, <<60, 1>>, <<1, 3>>}
Durations == [rep : {"short", "int", "llong", "double"}, per : Periods]
DurSum(d1, d2) == [rep |-> CT2(d1.rep, d2.rep), per |-> <<GCD(d1.per[1], d2.per[1]), LCM(d1.per[2], d2.per[2])>>]

DoCommonOptional(args) == Call("CommonOptional", [args |-> args], One(CommonOptional(args)))
DoChronoPromote(d1, d2) == Call("ChronoPromote", [d1 |-> d1, d2 |-> d2], One(DurSum(d1, d2)))

XNext == /\ last.op = "Init"
         /\ \/ \E args \in UNION {[1..m -> OptArgs] : m \in 1..MaxPack} : DoCommonOptional(args)
            \/ \E d1, d2 \in Durations : DoChronoPromote(d1, d2)
XSpec == Init /\ [][XNext]_vars

ExtraLaws ==
    /\ \A a, b \in Arith : CT2(a, b) = CT2(b, a)
    /\ \A a \in Arith : CT2(a, a) = a
    /\ \A d1, d2 \in Durations : /\ DurSum(d1, d2) = DurSum(d2, d1)
                                 /\ DurSum(d1, d1) = d1
                                 /\ d1.per[1] % DurSum(d1, d2).per[1] = 0        \* both periods are whole multiples of the common one
    /\ GCD(60, 1) = 1 /\ GCD(12, 18) = 6 /\ LCM(1000, 3) = 3000 /\ LCM(4, 6) = 12
ASSUME ExtraLaws
=============================================================================

----------------------------- MODULE ComplexAcc -----------------------------
(***************************************************************************)
(* L1 property specification for C10, fifth decidable part: the FIRST      *)
(* clause of the property on GENERAL finite, well-scaled operands:          *)
(*   "+, -, *, / and their compound and mixed real/complex forms give the   *)
(*    mathematically correct complex result to within a few units of        *)
(*    rounding, identical for value and reference closures".                *)
(*                                                                          *)
(* Floating-point operands are dyadic rationals  (-1)^s * N * 2^e  with an  *)
(* integer N of at most 24 / 53 bits, so the exact sum, product and (after  *)
(* multiplying through by the divisor) quotient are integers on a common    *)
(* power-of-two grid.  With exact integer arithmetic on LIMB VECTORS (TLC   *)
(* integers have 32 bits) the error bounds below are decided exactly, with  *)
(* no reals involved (u = 2^-p is the unit roundoff of the element type):   *)
(*                                                                          *)
(*   add, sub (every form)     componentwise  |z_c - w_c| <= 2 u |w_c|      *)
(*   mul, div complex-complex  normwise       |z - w|     <= 16 u |w|       *)
(*   mul, div with a real      componentwise  |z_c - w_c| <= 16 u |w_c|     *)
(*                                                                          *)
(* (for a quotient w = n / y the inequality is multiplied through by |y|:   *)
(*  |z y - n| <= 16 u |n|).  Componentwise accuracy is NOT demanded of the  *)
(* complex product / quotient (cancellation makes it impossible); a real    *)
(* operand involves no cancellation.  Naive formulas have a normwise error  *)
(* of about sqrt(8) u (product) and 6-7 u (textbook quotient); 16 u leaves  *)
(* room for every reasonable algorithm (Smith, scaled, fused).  Written     *)
(* from complex arithmetic and the IEEE 754 formats, not from xtl's code.   *)
(* Operator-only module.                                                    *)
(*                                                                          *)
(* A number is a record  [k, s, n, e]:                                      *)
(*   k = "num"  : (-1)^s * N * 2^e, N odd, n = the base-4096 limbs of N,    *)
(*                least significant first, top limb non-zero                *)
(*   k = "zero" : s is the sign bit, n = <<0>>, e = 0                       *)
(*   k = "inf", "nan" (results only; never accepted)                        *)
(* A case is [t, b, f, st, x, y]: element type, ieee flag, form (as in      *)
(* ComplexExact: add..div / adds..divs / sadd..sdiv), C++ type of the       *)
(* scalar, x = the xcomplex operand <<re, im>> (the RIGHT one of the s...   *)
(* forms), y = the other operand (<<re, im>>, or <<scalar, +0>>).           *)
(***************************************************************************)
EXTENDS Integers, Sequences, FiniteSets

AbsI(n) == IF n < 0 THEN 0 - n ELSE n
MinI(a, b) == IF a < b THEN a ELSE b
MaxI(a, b) == IF a < b THEN b ELSE a
RECURSIVE FL2(_)
FL2(n) == IF n <= 1 THEN 0 ELSE 1 + FL2(n \div 2)              \* floor(log2 n), n >= 1
Pow2(n) == 2 ^ n
MinOf(S, dflt) == IF S = {} THEN dflt ELSE CHOOSE e \in S : \A e2 \in S : e <= e2

----------------------------------------------------------------------------
(* Exact integers of any size: a POLYNOMIAL in the base 4096 with signed      *)
(* integer coefficients, least significant first (value = sum a[k] 4096^(k-1)).*)
(* + and - work coefficient-wise, * is the convolution; no carries are needed  *)
(* as long as the coefficients fit a TLC integer: a product of NORMALISED      *)
(* vectors has coefficients below min(Len) * 4095^2 < 2^31 for up to 127 limbs *)
(* (TLC reports an overflow as an error, never silently).  Norm propagates the *)
(* carries: limbs 0..4095 followed by one sign limb 0 (>= 0) or -1 (< 0), as   *)
(* in two's complement.                                                        *)
LB == 12
BASE == 4096
At(a, k) == IF k >= 1 /\ k <= Len(a) THEN a[k] ELSE 0
PAdd(a, b) == [k \in 1..MaxI(Len(a), Len(b)) |-> At(a, k) + At(b, k)]
PSub(a, b) == [k \in 1..MaxI(Len(a), Len(b)) |-> At(a, k) - At(b, k)]
PNeg(a) == [k \in 1..Len(a) |-> 0 - a[k]]
RECURSIVE Conv(_, _, _, _, _)
Conv(a, b, k, i, hi) == IF i > hi THEN 0 ELSE a[i] * b[k + 1 - i] + Conv(a, b, k, i + 1, hi)
PMul(a, b) == [k \in 1..(Len(a) + Len(b) - 1) |-> Conv(a, b, k, MaxI(1, k + 1 - Len(b)), MinI(k, Len(a)))]
RECURSIVE NormR(_, _, _)
NormR(a, i, cy) == IF i <= Len(a) THEN LET s == a[i] + cy IN <<s % BASE>> \o NormR(a, i + 1, s \div BASE)
                   ELSE IF cy = 0 \/ cy = 0 - 1 THEN <<cy>>
                   ELSE <<cy % BASE>> \o NormR(a, i, cy \div BASE)
Norm(a) == NormR(a, 1, 0)
(* on normalised vectors *)
IsNegN(a) == a[Len(a)] = 0 - 1
IsZeroN(a) == \A k \in 1..Len(a) : a[k] = 0
AbsN(a) == IF IsNegN(a) THEN Norm(PNeg(a)) ELSE a
RECURSIVE TopIdx(_, _)
TopIdx(a, k) == IF k = 0 THEN 0 ELSE IF a[k] # 0 THEN k ELSE TopIdx(a, k - 1)
BitLen(a) == LET t == TopIdx(a, Len(a)) IN IF t = 0 THEN 0 ELSE LB * (t - 1) + FL2(a[t]) + 1      \* a >= 0 normalised
(* a * 2^s, s >= 0 (a normalised; the result has coefficients below 2^23 and is not normalised) *)
PShl(a, s) == LET q == s \div LB  r == Pow2(s % LB) IN [k \in 1..(Len(a) + q) |-> IF k <= q THEN 0 ELSE a[k - q] * r]
ShlN(a, s) == Norm(PShl(a, s))
LeqN(a, b) == ~IsNegN(Norm(PSub(b, a)))                       \* a <= b
One == <<1, 0>>
ZeroP == <<0>>
(* small integers (tests of the arithmetic against TLC's own) *)
OfInt(i) == Norm(<<i>>)
RECURSIVE ToIntR(_, _)
ToIntR(a, k) == IF k > Len(a) THEN 0 ELSE a[k] + BASE * ToIntR(a, k + 1)
ToInt(a) == ToIntR(a, 1)                 \* of a normalised vector of a small value

----------------------------------------------------------------------------
(* numbers *)
FloatTypes == {"float", "double"}
Prec(t)  == CASE t = "float" -> 24 [] t = "double" -> 53 [] t = "ldouble" -> 64 [] OTHER -> 31
(* "well-scaled": the leading bit of every non-zero component has an exponent in -W..W; squares of moduli, *)
(* the products of a textbook quotient and their quotient then stay inside the normal range (4 W < EMax),  *)
(* and the non-zero components of one operation lie within 2^Window of each other                          *)
WellW(t) == CASE t = "float" -> 30 [] OTHER -> 250
Window == 64
ZeroD(s) == [k |-> "zero", s |-> s, n |-> <<0>>, e |-> 0]
IsNumber(d) == /\ d.k \in {"num", "zero"} /\ d.s \in {0, 1}
               /\ IF d.k = "zero" THEN d.n = <<0>> /\ d.e = 0
                  ELSE /\ Len(d.n) \in 1..6 /\ \A i \in 1..Len(d.n) : d.n[i] \in 0..(BASE - 1)
                       /\ d.n[Len(d.n)] # 0 /\ d.n[1] % 2 = 1
NBits(d) == BitLen(d.n)
Top(d) == d.e + NBits(d)                          \* 2^(Top - 1) <= |d| < 2^Top
ValN(d, U) == IF d.k # "num" THEN ZeroP           \* the integer d / 2^U (U <= d.e), normalised
              ELSE LET m == PShl(d.n, d.e - U) IN Norm(IF d.s = 1 THEN PNeg(m) ELSE m)
Nums(S) == {d \in S : d.k = "num"}
RepresentableIn(d, st, t) ==
    IF d.k = "zero" THEN d.s = 0 \/ st \notin {"int", "long"}
    ELSE CASE st = "T" -> NBits(d) <= Prec(t)
           [] st \in {"int", "long"} -> d.e >= 0 /\ Top(d) <= 30
           [] st = "float" -> NBits(d) <= 24 /\ Top(d) - 1 >= 0 - 126 /\ Top(d) - 1 <= 127       \* a normal float
           [] OTHER -> NBits(d) <= Prec(st)

CForms == {"add", "sub", "mul", "div"}
RForms == {"adds", "subs", "muls", "divs"}
LForms == {"sadd", "ssub", "smul", "sdiv"}
Forms  == CForms \cup RForms \cup LForms
ScalarTypes == {"T", "int", "long", "float", "double", "ldouble"}
CoreOf(f) == CASE f \in {"add", "adds", "sadd"} -> "add" [] f \in {"sub", "subs", "ssub"} -> "sub"
               [] f \in {"mul", "muls", "smul"} -> "mul" [] OTHER -> "div"
LeftOf(c)  == IF c.f \in LForms THEN c.y ELSE c.x
RightOf(c) == IF c.f \in LForms THEN c.x ELSE c.y
Comps(c) == {c.x[1], c.x[2], c.y[1], c.y[2]}
IsZeroC(v) == v[1].k = "zero" /\ v[2].k = "zero"

(* "finite, well-scaled operands": the domain of the first clause *)
Admissible(c) ==
    /\ c.t \in FloatTypes /\ c.b \in BOOLEAN /\ c.f \in Forms /\ c.st \in ScalarTypes
    /\ \A d \in Comps(c) : IsNumber(d)
    /\ \A d \in {c.x[1], c.x[2]} : RepresentableIn(d, "T", c.t)
    /\ IF c.f \in CForms THEN c.st = "T" /\ \A d \in {c.y[1], c.y[2]} : RepresentableIn(d, "T", c.t)
       (* a scalar is a value of its own C++ type AND of the element type: whether the operation rounds it first is not specified *)
       ELSE c.y[2] = ZeroD(0) /\ RepresentableIn(c.y[1], c.st, c.t) /\ RepresentableIn(c.y[1], "T", c.t)
    /\ \A d \in Nums(Comps(c)) : Top(d) - 1 >= 0 - WellW(c.t) /\ Top(d) - 1 <= WellW(c.t)
    /\ \A d1 \in Nums(Comps(c)), d2 \in Nums(Comps(c)) : Top(d1) - Top(d2) <= Window
    /\ (CoreOf(c.f) = "div" => ~IsZeroC(RightOf(c)))

----------------------------------------------------------------------------
(* TLC evaluates LET definitions and operator arguments lazily and again at every use; the vectors below are bound  *)
(* with  \E v \in {e} :  instead, which evaluates e once.  Callers pass VALUES (bound variables) for the vectors.     *)
(* |z n_den - num| <= 2^kl u |num|  for one real component:  num (units 2^Un) and den # 0 (units 2^Ud) normalised vectors *)
CompCloseQ(nm, Un, dn, Ud, zc, p, kl) ==
    IF IsZeroN(nm) THEN zc.k = "zero"
    ELSE /\ zc.k = "num"
         /\ \E tn \in {Un + BitLen(AbsN(nm))}, td \in {Ud + BitLen(AbsN(dn))} :
            (* the quotient lies in (2^(tn-td-1), 2^(tn-td+1)); a value outside this window is wrong and need not be measured *)
            /\ Top(zc) >= tn - td - 1 /\ Top(zc) <= tn - td + 2
            /\ \E U \in {MinI(Un, zc.e + Ud)} :
               \E P \in {PShl(Norm(PMul(ValN(zc, zc.e), dn)), zc.e + Ud - U)}, N2 \in {Norm(PShl(nm, Un - U))} :
               \E D \in {AbsN(Norm(PSub(P, N2)))} :
                  LeqN(PShl(D, p - kl), AbsN(N2))
CompClose(w, U, zc, p, kl) == CompCloseQ(w, U, One, 0, zc, p, kl)

(* |z y - n| <= 2^kl u |n|  normwise (squared):  n = nr + i ni (units 2^Un), y = yr + i yi # 0 (units 2^Uy)       *)
(* A component of z that is negligible (below 2^-(p+64) of the quotient's modulus) is read as zero; one that is    *)
(* 64 times larger than the quotient can be is rejected outright: both only bound the size of the integers.       *)
NormCloseQ(nr, ni, Un, yr, yi, Uy, z, p, kl) ==
    IF IsZeroN(nr) /\ IsZeroN(ni) THEN z[1].k = "zero" /\ z[2].k = "zero"
    ELSE /\ \A i \in 1..2 : z[i].k \in {"num", "zero"}
         /\ \E tn \in {Un + MaxI(BitLen(AbsN(nr)), BitLen(AbsN(ni)))}, ty \in {Uy + MaxI(BitLen(AbsN(yr)), BitLen(AbsN(yi)))} :
            \E zc \in {[i \in 1..2 |-> IF z[i].k = "num" /\ Top(z[i]) >= tn - ty - p - 66 THEN z[i] ELSE ZeroD(0)]} :
               /\ \A i \in 1..2 : zc[i].k = "num" => Top(zc[i]) <= tn - ty + 6
               /\ \E Uz \in {MinOf({zc[i].e : i \in {j \in 1..2 : zc[j].k = "num"}}, Un - Uy)} :
                  \E U \in {MinI(Un, Uz + Uy)}, Zr \in {ValN(zc[1], Uz)}, Zi \in {ValN(zc[2], Uz)} :
                  \E Pr \in {Norm(PSub(PMul(Zr, yr), PMul(Zi, yi)))}, Pi \in {Norm(PAdd(PMul(Zr, yi), PMul(Zi, yr)))},
                     Nr \in {Norm(PShl(nr, Un - U))}, Ni \in {Norm(PShl(ni, Un - U))} :
                  \E Dr \in {AbsN(Norm(PSub(PShl(Pr, Uz + Uy - U), Nr)))}, Di \in {AbsN(Norm(PSub(PShl(Pi, Uz + Uy - U), Ni)))},
                     ar \in {AbsN(Nr)}, ai \in {AbsN(Ni)} :
                  \E E2 \in {Norm(PAdd(PMul(Dr, Dr), PMul(Di, Di)))}, N2 \in {Norm(PAdd(PMul(ar, ar), PMul(ai, ai)))} :
                     LeqN(PShl(E2, 2 * p - 2 * kl), N2)

KAdd == 1       \* log2 of the constants: 2 u, 16 u
KMul == 4

(* the lowest exponent among the non-zero operand components *)
E0(c) == LET es == {d.e : d \in Nums(Comps(c))} IN IF es = {} THEN 0 ELSE CHOOSE e \in es : \A e2 \in es : e <= e2

(* the exact sum / difference of one component, and the exact product (units 2^(2 E0)) *)
SumOf(op, l, r, U) == Norm(IF op = "add" THEN PAdd(ValN(l, U), ValN(r, U)) ELSE PSub(ValN(l, U), ValN(r, U)))
ProdRe(L, R, U) == Norm(PSub(PMul(ValN(L[1], U), ValN(R[1], U)), PMul(ValN(L[2], U), ValN(R[2], U))))
ProdIm(L, R, U) == Norm(PAdd(PMul(ValN(L[1], U), ValN(R[2], U)), PMul(ValN(L[2], U), ValN(R[1], U))))

(* The first clause of the property: z = <<re, im>> is an acceptable result of case c *)
Accurate(c, z) ==
    \E L \in {LeftOf(c)}, R \in {RightOf(c)}, op \in {CoreOf(c.f)}, p \in {Prec(c.t)}, U \in {E0(c)} :
    /\ \A i \in 1..2 : z[i].k \in {"num", "zero"} /\ (z[i].k = "num" => NBits(z[i]) <= p)
    /\ CASE op \in {"add", "sub"} -> \A i \in 1..2 : \E w \in {SumOf(op, L[i], R[i], U)} : CompClose(w, U, z[i], p, KAdd)
         [] c.f = "mul" -> \E wr \in {ProdRe(L, R, U)}, wi \in {ProdIm(L, R, U)} : NormCloseQ(wr, wi, 2 * U, One, ZeroP, 0, z, p, KMul)
         [] c.f = "div" -> \E nr \in {ValN(L[1], U)}, ni \in {ValN(L[2], U)}, yr \in {ValN(R[1], U)}, yi \in {ValN(R[2], U)} :
                              NormCloseQ(nr, ni, U, yr, yi, U, z, p, KMul)
         [] c.f \in {"muls", "smul"} ->        \* (a + bi) s = as + i bs
              \E wr \in {ProdRe(L, R, U)}, wi \in {ProdIm(L, R, U)} :
                 CompClose(wr, 2 * U, z[1], p, KMul) /\ CompClose(wi, 2 * U, z[2], p, KMul)
         [] c.f = "divs" ->                    \* (a + bi) / s = a/s + i b/s
              \E sv \in {ValN(R[1], U)} : \A i \in 1..2 : \E xv \in {ValN(L[i], U)} : CompCloseQ(xv, U, sv, U, z[i], p, KMul)
         [] c.f = "sdiv" ->                    \* s / (c + di) = sc / (c^2 + d^2) - i sd / (c^2 + d^2)
              \E cc \in {ValN(R[1], U)}, dd \in {ValN(R[2], U)}, ss \in {ValN(L[1], U)} :
              \E nn \in {Norm(PAdd(PMul(cc, cc), PMul(dd, dd)))}, n1 \in {Norm(PMul(ss, cc))}, n2 \in {Norm(PNeg(PMul(ss, dd)))} :
                 CompCloseQ(n1, 2 * U, nn, 2 * U, z[1], p, KMul) /\ CompCloseQ(n2, 2 * U, nn, 2 * U, z[2], p, KMul)

----------------------------------------------------------------------------
(* Signs of zero results.  Where a component of the exact result is zero, IEEE 754 arithmetic on the components     *)
(* (C99 G.5: a real operand is NOT promoted) pins the sign of the zero; an implementation that promotes the real    *)
(* operand to s + (+0)i and uses the complex formulas may give the other answer, so both are allowed there; the     *)
(* quotient of two complex numbers is left open.  XOR of sign bits: (a + b) % 2.                                    *)
Xor(a, b) == (a + b) % 2
(* sign of fl(t1 + t2) when t1 + t2 = 0 exactly: the common sign of two zeros, else +0 (round to nearest) *)
SumZ(s1, s2, bothzero) == IF bothzero /\ s1 = s2 THEN s1 ELSE 0
Z(d) == d.k = "zero"
ExactZero(c, i) ==       \* component i of the exact result is zero (complex quotient: not specified, FALSE)
    LET L == LeftOf(c)  R == RightOf(c)  op == CoreOf(c.f)  U == E0(c) IN
    CASE op \in {"add", "sub"} -> IsZeroN(SumOf(op, L[i], R[i], U))
      [] op = "mul" -> IsZeroN(IF i = 1 THEN ProdRe(L, R, U) ELSE ProdIm(L, R, U))
      [] c.f = "divs" -> Z(L[i])
      [] OTHER -> FALSE
ZeroSigns(c, i) ==
    LET L == LeftOf(c)  R == RightOf(c)  op == CoreOf(c.f)
        a == L[1]  b == L[2]  cc == R[1]  d == R[2] IN
    CASE c.f \in {"add", "sub"} \/ (op \in {"add", "sub"} /\ i = 1) ->
           {SumZ(L[i].s, IF op = "add" THEN R[i].s ELSE 1 - R[i].s, Z(L[i]) /\ Z(R[i]))}
      [] c.f = "adds" -> {b.s, SumZ(b.s, 0, TRUE)}                 \* imaginary part untouched | b + (+0)
      [] c.f = "subs" -> {b.s, SumZ(b.s, 1, TRUE)}                 \* untouched | b - (+0)
      [] c.f = "sadd" -> {d.s, SumZ(0, d.s, TRUE)}
      [] c.f = "ssub" -> {1 - d.s, SumZ(0, 1 - d.s, TRUE)}         \* -d | (+0) - d
      [] c.f = "mul" -> IF i = 1 THEN {SumZ(Xor(a.s, cc.s), 1 - Xor(b.s, d.s), (Z(a) \/ Z(cc)) /\ (Z(b) \/ Z(d)))}
                                 ELSE {SumZ(Xor(a.s, d.s), Xor(b.s, cc.s), (Z(a) \/ Z(d)) /\ (Z(b) \/ Z(cc)))}
      [] c.f = "muls" -> {Xor(L[i].s, cc.s),                        \* componentwise | (a + bi)(s + 0i)
                          IF i = 1 THEN SumZ(Xor(a.s, cc.s), 1 - b.s, Z(a) \/ Z(cc)) ELSE SumZ(a.s, Xor(b.s, cc.s), Z(b) \/ Z(cc))}
      [] c.f = "smul" -> {Xor(a.s, R[i].s),                         \* componentwise | (s + 0i)(c + di)
                          IF i = 1 THEN SumZ(Xor(a.s, cc.s), 1 - d.s, Z(a) \/ Z(cc)) ELSE SumZ(Xor(a.s, d.s), cc.s, Z(a) \/ Z(d))}
      [] c.f = "divs" -> {Xor(L[i].s, cc.s),                        \* componentwise | textbook (a + bi) / (s + 0i)
                          IF i = 1 THEN SumZ(Xor(a.s, cc.s), b.s, Z(a)) ELSE SumZ(Xor(b.s, cc.s), 1 - a.s, Z(b))}
      [] OTHER -> {0, 1}
=============================================================================

SPECIFICATION Spec
INVARIANTS TypeOK AlwaysReadable ConstCorrect PointerRows ReturnsValueType MustIsCommon EmitRows
CHECK_DEADLOCK FALSE

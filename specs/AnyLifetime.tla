---------------------------- MODULE AnyLifetime ----------------------------
(***************************************************************************)
(* Lifetime bookkeeping of payload objects for C06 (DESIGN.md Appendix C), *)
(* as operators without variables.                                         *)
(*                                                                         *)
(* A payload object is known by an id that is used for one object only     *)
(* (ids grow: a constructor event must carry an id above every id seen so  *)
(* far).  The lifetime state is a record                                   *)
(*     L = [typ |-> id -> type, val |-> id -> value, hi |-> largest id]    *)
(* whose functions have the set of LIVE ids as their domain.               *)
(*                                                                         *)
(* Element events, one record shape for all of them:                       *)
(*   [e |-> "ctor",  id, t, kind \in {"value","copy","move"}, src, v]      *)
(*   [e |-> "dtor",  id, t]                                                *)
(*   [e |-> "throw", t, kind \in {"copy","move"}, src]   (injected fault:  *)
(*                    a constructor threw, no object came into being)      *)
(*   [e |-> "set",   id, v]            (the client wrote through a reference)*)
(*   [e |-> "assign", id (= destination), kind \in {"copy","move"}, src]   *)
(*                                                                         *)
(* "Constructed once, never used after destruction, destroyed exactly once"*)
(* is the enabledness of these events (EvOK).                              *)
(***************************************************************************)
EXTENDS Integers, Sequences, FiniteSets

MOVED == -1     \* the value of a payload object that has been moved from (it is still alive)

Live(L) == DOMAIN L.typ
NoObjects(h) == [typ |-> [i \in {} |-> ""], val |-> [i \in {} |-> 0], hi |-> h]

Ext(f, id, x) == [i \in (DOMAIN f) \cup {id} |-> IF i = id THEN x ELSE f[i]]
Rst(f, id)    == [i \in (DOMAIN f) \ {id} |-> f[i]]

EvOK(L, e) ==
    CASE e.e = "ctor" ->
            /\ e.id > L.hi                               \* a new object, never seen before
            /\ e.kind \in {"value", "copy", "move"}
            /\ (e.kind # "value") =>
                  /\ e.src \in Live(L)                   \* copied/moved from an object that is alive
                  /\ L.typ[e.src] = e.t
                  /\ e.v = L.val[e.src]                  \* and it received that object's value
      [] e.e = "dtor" ->
            /\ e.id \in Live(L)                          \* only a live object is destroyed: exactly once
            /\ L.typ[e.id] = e.t
      [] e.e = "throw" ->
            /\ e.kind \in {"copy", "move"}
            /\ e.src \in Live(L)
            /\ L.typ[e.src] = e.t
      [] e.e = "set" ->
            e.id \in Live(L)
      [] e.e = "assign" ->
            /\ e.kind \in {"copy", "move"}
            /\ e.id \in Live(L) /\ e.src \in Live(L)
            /\ L.typ[e.id] = L.typ[e.src]
      [] OTHER -> FALSE

Apply(L, e) ==
    CASE e.e = "ctor" ->
            [typ |-> Ext(L.typ, e.id, e.t),
             val |-> Ext(IF e.kind = "move" THEN [L.val EXCEPT ![e.src] = MOVED] ELSE L.val, e.id, e.v),
             hi  |-> e.id]
      [] e.e = "dtor" ->
            [typ |-> Rst(L.typ, e.id), val |-> Rst(L.val, e.id), hi |-> L.hi]
      [] e.e = "set" ->
            [L EXCEPT !.val[e.id] = e.v]
      [] e.e = "assign" ->
            LET v == L.val[e.src]
                w == IF e.kind = "move" /\ e.src # e.id THEN [L.val EXCEPT ![e.src] = MOVED] ELSE L.val
            IN [L EXCEPT !.val = [w EXCEPT ![e.id] = v]]
      [] OTHER -> L      \* "throw": nothing came into being, the source is untouched

(* Run the events of one public call over L.  at = index of the first event that is not allowed. *)
RECURSIVE Fold(_, _, _)
Fold(L, evs, i) ==
    IF i > Len(evs) THEN [ok |-> TRUE, L |-> L, at |-> 0]
    ELSE IF ~EvOK(L, evs[i]) THEN [ok |-> FALSE, L |-> L, at |-> i]
    ELSE Fold(Apply(L, evs[i]), evs, i + 1)

Threw(evs) == \E i \in 1..Len(evs) : evs[i].e = "throw"
Born(evs)  == {evs[i].id : i \in {n \in 1..Len(evs) : evs[n].e = "ctor"}}

(* event constructors (used by the generators AnyMC and AnyImpl) *)
ECtor(id, t, kind, src, v) == [e |-> "ctor", id |-> id, t |-> t, kind |-> kind, src |-> src, v |-> v]
EDtor(id, t)               == [e |-> "dtor", id |-> id, t |-> t, kind |-> "", src |-> 0, v |-> 0]
EThrow(t, kind, src)       == [e |-> "throw", id |-> 0, t |-> t, kind |-> kind, src |-> src, v |-> 0]
ESet(id, t, v)             == [e |-> "set", id |-> id, t |-> t, kind |-> "", src |-> 0, v |-> v]
=============================================================================

SPECIFICATION Spec
CONSTANTS
  MaxAbs = 1024
  Vals <- ValsKQ
  Classes <- WithAlias
  LRegs <- AllRegs
  RRegs <- AllRegs
  ScalarTs <- AllSTs
  OneStep = TRUE
  EmitOn = TRUE
ACTION_CONSTRAINT Emit
INVARIANTS TypeOK Aliases
PROPERTIES Frame

----------------------------- MODULE InstallPath -----------------------------
(***************************************************************************)
(* L1 property specification for C20: xtl::executable_path(),               *)
(* xtl::prefix_path() (xsystem.hpp) and xtl::endianness() (xplatform.hpp).  *)
(*                                                                          *)
(*   "For a program installed at any absolute path the platform allows      *)
(*    (any depth, any length up to PATH_MAX, components containing spaces   *)
(*    or non-ASCII bytes), executable_path() returns exactly that path and  *)
(*    prefix_path() returns its grandparent directory with a trailing       *)
(*    separator [...]; endianness() reports the byte order actually used    *)
(*    by the platform for multi-byte integers."                             *)
(*                                                                          *)
(* Written from the property statement and POSIX path resolution, not from  *)
(* xtl's code.  An absolute path is the sequence of its components; a       *)
(* component is [len |-> bytes, cls |-> character class]; the string is      *)
(* "/" c1 "/" c2 ... "/" cn.  The actual bytes never reach TLC: the runner   *)
(* invents a name for every component, the harness reports (len, cls, hash)  *)
(* of every component of the strings xtl returned, and the hash of the name  *)
(* is an INPUT of the call (a.h), so TLC compares records, not huge strings. *)
(*                                                                          *)
(* A configuration says where the program is installed below the scratch    *)
(* root (base) and how it is started: directly by its absolute path, by a   *)
(* relative path, through a symbolic link to the file, or through a         *)
(* symbolic link to its directory.  "That path" of an installed program is   *)
(* the path of the file itself: a symbolic link is resolved (this is what    *)
(* the operating system reports for the running image), see Resolve.        *)
(***************************************************************************)
EXTENDS Integers, Sequences, FiniteSets, TLC, Json

CONSTANTS Base,       \* components of the scratch root the runner installs under (model checking; measured)
          Depths,     \* depths (number of components below the root, the file included) of the short configurations
          Totals,     \* total path lengths (bytes) aimed at exactly, e.g. {1023, 1024, 1025, 4095}
          Extras,     \* additional depth beyond the minimum needed for a total length
          Patterns,   \* character-class patterns
          Vias,       \* ways of starting the program
          NameMax,    \* longest component the platform allows (255)
          PathMax     \* longest path string the platform allows, terminator excluded (PATH_MAX - 1 = 4095)

VARIABLES base,  \* the root below which programs are installed in this execution
          last   \* ghost: [op, k, a, res] of the call just performed
vars == <<base, last>>

(* Character classes of a component.  They only steer the runner's choice of names (the name's hash is what TLC   *)
(* compares); every class is a shape the property's "any absolute path the platform allows" includes:               *)
(*   punct   a byte that is special elsewhere (backslash, quotes, colon, glob characters, tab) but ordinary in a     *)
(*           POSIX name                                                                                              *)
(*   ctrl    control characters: newline, carriage return, 0x01, 0x1b, 0x7f                                          *)
(*   lead    begins with '-' or with a single '.' (option-like and hidden names)                                     *)
(*   dots    looks like the special entries: "...", "..x", or ends in '.'                                            *)
(*   mb      multi-byte characters only (with NameMax: a component of exactly NAME_MAX bytes of them)                *)
(*   delsfx  ends in " (deleted)" - what the kernel appends to /proc/self/exe of an unlinked image, here part of a   *)
(*           real name                                                                                               *)
(*   edge    begins or ends with a blank                                                                             *)
Classes == {"ascii", "space", "utf8", "dot", "punct", "ctrl", "lead", "dots", "mb", "delsfx", "edge"}
(* a one-byte name cannot contain a multi-byte character, and "." is not a name *)
MinLen(cls) == CASE cls \in {"utf8", "lead", "mb", "edge"} -> 2
                 [] cls \in {"dots", "dot", "space"} -> 3          \* dot / space: the character strictly inside ("a.b", "a b")
                 [] cls = "delsfx" -> 11
                 [] OTHER          -> 1
ClassSeq == <<"ascii", "space", "utf8", "dot", "punct">>
OddSeq   == <<"ctrl", "lead", "dots", "mb", "delsfx", "edge">>
(* patterns that make sense for the short configurations only: "same" = every component (directories and the file)  *)
(* carries the SAME name, "one" = every component is a single character                                              *)
ShortOnly == {"same", "one"}

RECURSIVE SumLen(_)
SumLen(p) == IF p = <<>> THEN 0 ELSE p[1].len + SumLen(Tail(p))
PathLen(p) == SumLen(p) + Len(p)                    \* every component is preceded by one separator

----------------------------------------------------------------------------
(* Configurations: the components below the root                            *)
ClsAt(pat, i) == CASE pat = "mixed" -> ClassSeq[((i - 1) % 5) + 1]
                   [] pat = "odd"   -> OddSeq[((i - 1) % 6) + 1]
                   [] pat = "same"  -> "ascii"
                   [] pat = "one"   -> IF i % 2 = 1 THEN "ascii" ELSE "punct"
                   [] OTHER         -> pat

(* short paths: small, varying lengths *)
ShortComps(d, pat) == [i \in 1..d |-> [len |-> CASE pat = "one"  -> 1
                                               [] pat = "same" -> 5
                                               [] OTHER        -> MinLen(ClsAt(pat, i)) + ((i * 3) % 7),
                                       cls |-> ClsAt(pat, i)]]

(* a path of exactly total bytes: need bytes of names spread evenly over d components *)
Need(total, b, d)     == total - PathLen(b) - d
MinDepth(total, b)    == (total - PathLen(b) + NameMax) \div (NameMax + 1)     \* ceil((total - |base|) / (NameMax + 1))
Feasible(total, b, d) == d >= 1 /\ Need(total, b, d) >= 2 * d /\ Need(total, b, d) <= NameMax * d
ExactComps(total, b, d, pat) ==
    LET n == Need(total, b, d)
        q == n \div d
        r == n % d
    IN [i \in 1..d |-> [len |-> IF i <= r THEN q + 1 ELSE q, cls |-> ClsAt(pat, i)]]

Comps(cfg, b) == IF cfg.total = 0 THEN ShortComps(cfg.depth, cfg.pat)
                                  ELSE ExactComps(cfg.total, b, cfg.depth, cfg.pat)
Configs(b) ==
    {[total |-> 0, depth |-> d, pat |-> pat, via |-> via] : d \in Depths, pat \in Patterns, via \in Vias}
    \cup {c \in {[total |-> t, depth |-> MinDepth(t, b) + x, pat |-> pat, via |-> via] :
                    t \in Totals, x \in Extras, pat \in Patterns \ ShortOnly, via \in Vias} :
             /\ Feasible(c.total, b, c.depth)
             /\ c.via \in {"fakeargv0", "path", "chain2"} => c.depth = MinDepth(c.total, b)      \* (independent of the depth: one depth is enough)
             /\ c.via # "longlink"}                                         \* a link longer than its target needs a short target

(* where the file really is *)
RealPath(cfg, b) == b \o Comps(cfg, b)

----------------------------------------------------------------------------
(* How the program is started, and what the system resolves that to.        *)
(* A file system here is a set of symbolic links [at |-> path, to |-> path]. *)
(* The link components are short ASCII names in the root (never part of the  *)
(* expected answer).                                                         *)
LinkName == [len |-> 4, cls |-> "ascii", link |-> TRUE]     \* a name different from every installed component
LinkName2 == [len |-> 5, cls |-> "ascii", link |-> TRUE]    \* second link of a chain (another name)
LongLinkDir  == [len |-> 200, cls |-> "ascii", link |-> TRUE]   \* a symbolic link whose own path is longer than its target's:
LongLinkName == [len |-> 230, cls |-> "ascii", link |-> TRUE]   \*   root/<200 bytes>/<230 bytes>  ->  the (short) installed file
(* ways of starting the program:
     direct     by its absolute path
     relative   argv[0] = "./name", working directory = its directory
     relcwd     argv[0] = the path relative to the scratch root ("a/b/x"), working directory = the scratch root (elsewhere)
     path       found through PATH: a bare name, PATH names its directory
     fakeargv0  argv[0] is an unrelated word
     filelink   through a symbolic link to the file          dirlink  through a symbolic link to its directory
     chain2     through a symbolic link to a symbolic link to the file
     longlink   through a symbolic link whose own path is longer than the path of the file (short configurations only)
   Only the links change which path is handed to the system; every way names the same installed file. *)
LinkVias == {"filelink", "dirlink", "chain2", "longlink"}
DirOf(p) == SubSeq(p, 1, Len(p) - 1)
Links(cfg, b) ==
    CASE cfg.via = "filelink" -> {[at |-> b \o <<LinkName>>, to |-> RealPath(cfg, b)]}
      [] cfg.via = "dirlink"  -> {[at |-> b \o <<LinkName>>, to |-> DirOf(RealPath(cfg, b))]}
      [] cfg.via = "chain2"   -> {[at |-> b \o <<LinkName2>>, to |-> b \o <<LinkName>>], [at |-> b \o <<LinkName>>, to |-> RealPath(cfg, b)]}
      [] cfg.via = "longlink" -> {[at |-> b \o <<LongLinkDir, LongLinkName>>, to |-> RealPath(cfg, b)]}
      [] OTHER                -> {}
Invoked(cfg, b) ==
    CASE cfg.via = "filelink" -> b \o <<LinkName>>
      [] cfg.via = "dirlink"  -> b \o <<LinkName, RealPath(cfg, b)[Len(RealPath(cfg, b))]>>
      [] cfg.via = "chain2"   -> b \o <<LinkName2>>
      [] cfg.via = "longlink" -> b \o <<LongLinkDir, LongLinkName>>
      [] OTHER                -> RealPath(cfg, b)        \* "direct", "relative" and "fakeargv0" (argv[0] is an unrelated word) name the same file
(* POSIX path resolution: the longest-prefix symbolic link is replaced by its target *)
RECURSIVE Resolve(_, _, _)
Resolve(p, links, fuel) ==
    IF fuel = 0 THEN p
    ELSE IF \E l \in links : Len(l.at) <= Len(p) /\ SubSeq(p, 1, Len(l.at)) = l.at
         THEN LET l == CHOOSE l \in links : Len(l.at) <= Len(p) /\ SubSeq(p, 1, Len(l.at)) = l.at
              IN Resolve(l.to \o SubSeq(p, Len(l.at) + 1, Len(p)), links, fuel - 1)
         ELSE p

----------------------------------------------------------------------------
(* The two functions of the property, on component sequences.               *)
(* A result string is described as [abs, trail, dbl, comps]: it starts with  *)
(* a separator, ends with one, has dbl empty segments ("//"), and these      *)
(* non-empty segments.                                                       *)
ExecutablePath(p) == [abs |-> TRUE, trail |-> FALSE, dbl |-> 0, comps |-> p]
(* the grandparent directory with a trailing separator; exists iff the path has >= 2 components *)
HasGrandparent(p) == Len(p) >= 2
PrefixPath(p)     == [abs |-> TRUE, trail |-> TRUE, dbl |-> 0, comps |-> SubSeq(p, 1, Len(p) - 2)]

(* a program installed directly in the root directory has no grandparent: nothing is promised about prefix_path() *)
Unspecified == [any |-> TRUE]
(* does the observed result obs conform to the result res the spec computed? *)
(* obs.again: both functions called a second time after the process changed its working directory - the answers  *)
(* are about where the program is installed, they do not depend on the calls made before or on the directory      *)
(* obs.same: the file the returned path names IS the running image (device and inode compared with /proc/self/exe by  *)
(* the helper - a second, independent route to "names the running binary"); obs.pfx: the returned prefix is a       *)
(* leading substring of the returned executable path                                                                *)
Conforms(res, obs) == /\ {"exe", "prefix", "bytes", "again", "same", "pfx"} \subseteq DOMAIN obs        \* a crashed call has no such observation
                      /\ obs.same
                      /\ res.prefix = Unspecified \/ obs.pfx
                      /\ obs.exe = res.exe
                      /\ obs.bytes = res.bytes
                      /\ res.prefix = Unspecified \/ obs.prefix = res.prefix
                      /\ obs.again.exe = res.exe
                      /\ res.prefix = Unspecified \/ obs.again.prefix = res.prefix

WithHash(p, h) == [i \in DOMAIN p |-> [len |-> p[i].len, cls |-> p[i].cls, h |-> h[i]]]

(* endianness(): mem is the memory image of the 32-bit integer 0x01020304, lowest address first *)
Endianness(mem) == CASE mem = <<1, 2, 3, 4>> -> "big"
                     [] mem = <<4, 3, 2, 1>> -> "little"
                     [] OTHER                -> "mixed"
FirstByte(order) == CASE order = "big" -> 1 [] order = "little" -> 4
ByteOrders == {<<1, 2, 3, 4>>, <<4, 3, 2, 1>>, <<2, 1, 4, 3>>, <<3, 4, 1, 2>>}   \* big, little, PDP-11, Honeywell 316

----------------------------------------------------------------------------
(* Actions                                                                  *)
Void == [exc |-> "none"]
Call(op, args, res) == last' = [op |-> op, k |-> 1, a |-> args, res |-> res]

(* a new execution: programs are installed below root b *)
Reset(b) == base' = b /\ Call("Reset", [base |-> b], Void)

(* install the program as cfg says, start it as cfg says, call both functions.           *)
(* h: the hashes of the names the runner chose for the components of the real path.      *)
Run(cfg, h) ==
    LET real == RealPath(cfg, base) IN
    /\ PathLen(real) <= PathMax
    /\ \A i \in DOMAIN real : real[i].len <= NameMax /\ real[i].len >= MinLen(real[i].cls)
    /\ Len(h) = Len(real)
    /\ base' = base
    /\ Call("Run", [cfg |-> cfg, h |-> h],
            [exe    |-> ExecutablePath(WithHash(Resolve(Invoked(cfg, base), Links(cfg, base), 4), h)),
             prefix |-> IF HasGrandparent(real) THEN PrefixPath(WithHash(real, h)) ELSE Unspecified,
             bytes  |-> PathLen(real)])

(* the same program where the platform gives no answer (no /proc in the root directory): the statement promises    *)
(* nothing about the strings; the calls must still return (no crash, no hang, nothing outside the buffer)          *)
Blind(cfg) == /\ base' = base
              /\ Call("Blind", [cfg |-> cfg], [returned |-> TRUE])

Endian(mem) == /\ base' = base
               /\ Call("Endian", [mem |-> mem], [val |-> Endianness(mem)])

Init == /\ base = Base
        /\ last = [op |-> "Init", k |-> 0, a |-> [z |-> 0], res |-> Void]

ZeroHash(cfg, b) == [i \in 1..Len(RealPath(cfg, b)) |-> 0]

Next == /\ last.op = "Init"
        /\ \/ \E cfg \in Configs(base) : Run(cfg, ZeroHash(cfg, base))
           \/ \E mem \in ByteOrders : Endian(mem)
           \/ base = <<>> /\ \E cfg \in Configs(base) : cfg.via = "direct" /\ cfg.total = 0 /\ Blind(cfg)    \* only in a private root directory

Spec == Init /\ [][Next]_vars

(* S->C: every configuration with its expected component lists is written out *)
Emit == PrintT("@E@" \o ToJson([op |-> last'.op, cfg |-> IF last'.op \in {"Run", "Blind"} THEN last'.a.cfg ELSE [z |-> 0],
                                comps |-> IF last'.op \in {"Run", "Blind"} THEN Comps(last'.a.cfg, base) ELSE <<>>,
                                invoked |-> IF last'.op = "Run" THEN Invoked(last'.a.cfg, base) ELSE <<>>,
                                links |-> IF last'.op = "Run" THEN Links(last'.a.cfg, base) ELSE {},
                                a |-> last'.a, res |-> last'.res]))

----------------------------------------------------------------------------
(* Theorems of the specification itself (guard the oracle)                  *)
TypeOK == last.op \in {"Init", "Reset", "Run", "Endian", "Blind"}

ConfigLaws(b) ==
    \A cfg \in Configs(b) :
        LET c == Comps(cfg, b)
            real == RealPath(cfg, b)
        IN /\ Len(c) = cfg.depth
           /\ cfg.total # 0 => PathLen(real) = cfg.total                               \* exactly the length aimed at
           /\ \A i \in DOMAIN c : c[i].len >= MinLen(c[i].cls) /\ c[i].len <= NameMax /\ c[i].cls \in Classes
           /\ Resolve(Invoked(cfg, b), Links(cfg, b), 4) = real                          \* however it is started, it is that file
           /\ cfg.via \in LinkVias => (Invoked(cfg, b) # real /\ Links(cfg, b) # {})
           /\ cfg.via \notin LinkVias => (Invoked(cfg, b) = real /\ Links(cfg, b) = {})
           /\ cfg.via = "longlink" => PathLen(Invoked(cfg, b)) > PathLen(real)          \* the link's own path is the longer one
           /\ cfg.via = "chain2" => Resolve(Invoked(cfg, b), Links(cfg, b), 1) # real   \* one step is not enough: a chain
           /\ HasGrandparent(real) =>
                 PrefixPath(real).comps \o SubSeq(real, Len(real) - 1, Len(real)) = real   \* prefix + dir + file = the path
EndianLaws ==
    /\ \A o \in {"big", "little"} : \A mem \in ByteOrders : Endianness(mem) = o => mem[1] = FirstByte(o)
    /\ \A mem \in ByteOrders : Endianness(mem) = "mixed" <=> mem[1] \notin {1, 4}
Laws == ConfigLaws(Base) /\ EndianLaws
=============================================================================

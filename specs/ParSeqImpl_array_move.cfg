SPECIFICATION Spec
CONSTANTS
  Cfgs <- CfgsOptArr
  MaxLen = 2
  Vals = {0, 1}
  ArrayFlagsMove = TRUE
  ObserveMoved = TRUE
CONSTRAINT SizeBound
VIEW absview
INVARIANTS Lockstep

-------------------------- MODULE ClosureImplTrace --------------------------
(* Advisory (MODEL-DRIFT) trace validation against L2: the recorded executions that only use     *)
(* xclosure_wrapper / xclosure_pointer / xproxy_wrapper must be steps of ClosureImpl, with the    *)
(* exact result (designated object, value), the exact number of payload copy/move constructions   *)
(* for the class payloads, and the exact values of moved-from objects.                            *)
EXTENDS ClosureImpl, IOUtils, Json

VARIABLE l

JsonTrace == ndJsonDeserialize(IOEnv.TRACE)
ExplainAt == atoi(IOEnv.EXPLAIN)

TInit ==
    /\ l = 1
    /\ payload = "counted" /\ feat = {}
    /\ mem = A!InitCell
    /\ rep = [k \in 1..NW |-> NoRep]
    /\ last = [op |-> "Init", k |-> 0, a |-> A!NoArg, res |-> A!Void]
    /\ hist = <<>>
    /\ xres = XVoid

TReset(e) ==
    /\ payload' = e.a.p
    /\ feat' = {e.a.feat[i] : i \in 1..Len(e.a.feat)}
    /\ mem' = A!InitCell
    /\ rep' = [k \in 1..NW |-> NoRep]
    /\ last' = [op |-> "Reset", k |-> 0, a |-> A!NoArg, res |-> A!Void]
    /\ hist' = <<>>
    /\ xres' = XVoid

Dispatch(e) == LET k == e.k  a == e.a IN
    \/ e.op = "Reset"      /\ TReset(e)
    \/ e.op = "Make"       /\ Len(a.s) = 1 /\ Make(k, a.kind, a.via, a.s[1])
    \/ e.op = "Destroy"    /\ Destroy(k)
    \/ e.op = "EndTemps"   /\ EndTemps
    \/ e.op = "WriteVar"   /\ WriteVar(a.cls, a.i, a.v)
    \/ e.op = "Read"       /\ Read(k, a.form)
    \/ e.op = "Assign"     /\ Assign(k, a.v, a.cat)
    \/ e.op = "CopyW"      /\ Clone(k, a.j, FALSE, a.form)
    \/ e.op = "MoveW"      /\ Clone(k, a.j, TRUE, "xv")
    \/ e.op = "AssignW"    /\ AssignW(k, a.j, a.mv)
    \/ e.op = "Swap"       /\ Swap(k, a.j, a.how)
    \/ e.op = "Equal"      /\ Equal(k, a.j)
    \/ e.op = "AddrOf"     /\ AddrOf(k, a.form, a.wr)

ResExact(x, er) ==
    /\ er.exc = "none"
    /\ Len(x.val) = Len(er.val)
    /\ \A i \in 1..Len(x.val) : x.val[i].t = er.val[i].t /\ x.val[i].v = er.val[i].v
    /\ (payload' # "int" /\ last'.op \notin {"Reset", "WriteVar", "EndTemps"}) => (x.copies = er.copies /\ x.moves = er.moves)   \* (the caller's own writes construct payload objects too)

TNext ==
    /\ l <= Len(JsonTrace)
    /\ LET e == JsonTrace[l] IN
        /\ Dispatch(e)
        /\ IF l = ExplainAt
             THEN PrintT(<<"EXPECTED", xres', A!ProjAll'>>)
             ELSE /\ ResExact(xres', e.res)
                  /\ A!ProjAll' = e.st
    /\ l' = l + 1

TSpec == TInit /\ [][TNext]_<<ivars, l>>
TraceAccepted == TLCGet("stats").diameter - 1 = Len(JsonTrace)
=============================================================================

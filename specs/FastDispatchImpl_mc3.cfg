SPECIFICATION Spec
CONSTANTS
  Kinds = {"fast_dyn", "fast_static"}
  Arities = {1, 3}
  NXs = {0}
  K = 2
  MaxHist = 4
  HasErase = FALSE
  Copies = FALSE
  Mutation = "none"
CONSTRAINT Bound
VIEW repview
INVARIANTS RepInv CellExact
PROPERTIES Refines

SPECIFICATION TSpec
CONSTANTS
  MCTys = {}
  NValOf = 0
  EmitOn = FALSE
POSTCONDITION TraceAccepted
CHECK_DEADLOCK FALSE

SPECIFICATION Spec
CONSTANTS
  LimbReps <- Limbs3
  TripleLimbs <- Limbs3
  IntReps <- Ints
INVARIANT Laws

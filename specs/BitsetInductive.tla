-------------------------- MODULE BitsetInductive --------------------------
(***************************************************************************)
(* C03, stretch goal: the representation invariant of the owning bitset    *)
(*    block_count() = ceil(size()/W)  and  no bit at a position >= size()  *)
(* as an INDUCTIVE invariant, checked symbolically with Apalache           *)
(*    apalache-mc check --init=IndInit --inv=Inv --length=1 ...            *)
(* for the real block widths W in {8, 16, 32, 64} and up to MaxBlocks      *)
(* blocks: from ANY state that satisfies Inv (not only the reachable ones  *)
(* TLC enumerates at W in {2, 3}), every member function re-establishes    *)
(* Inv.  Together with Init => Inv this is a proof by induction inside the *)
(* bound on the number of blocks; the result is recorded in the evidence,  *)
(* it never changes a verdict.                                             *)
(*                                                                         *)
(* The buffer is the set `ones` of bit positions (0-based, position p is   *)
(* bit p % W of block p \div W) that are 1 in blocks 0..nblk-1.  Every     *)
(* action is the code's block-level step (include/xtl/xdynamic_bitset.hpp: *)
(* vector::resize with a fill value, the last-block patch of resize,       *)
(* zero_unused_bits, fill, the two shift loops with their block index      *)
(* arithmetic) written as its effect on that set.                          *)
(***************************************************************************)
EXTENDS Integers, FiniteSets

CONSTANTS
    \* @type: Int;
    W,
    \* @type: Int;
    MaxBlocks

VARIABLES
    \* @type: Set(Int);
    ones,
    \* @type: Int;
    nblk,
    \* @type: Int;
    msz

CInit8  == W = 8  /\ MaxBlocks = 3
CInit16 == W = 16 /\ MaxBlocks = 3
CInit32 == W = 32 /\ MaxBlocks = 3
CInit64 == W = 64 /\ MaxBlocks = 3

MaxPos == MaxBlocks * W
Pos    == 0..(MaxPos - 1)
BlockCount(n) == (n \div W) + (IF n % W # 0 THEN 1 ELSE 0)

\* the representation invariant: the buffer has exactly the blocks the size needs and holds no bit beyond size()
Inv ==
    /\ msz \in 0..MaxPos
    /\ nblk = BlockCount(msz)
    /\ ones \subseteq Pos
    /\ \A p \in ones : p < msz

Init == ones = {} /\ nblk = 0 /\ msz = 0
\* the inductive check starts from an arbitrary state satisfying the invariant
IndInit == /\ msz \in 0..MaxPos
           /\ nblk = BlockCount(msz)
           /\ ones \in SUBSET Pos
           /\ \A p \in ones : p < msz

\* zero_unused_bits(): extra = m_size % W; if (extra != 0) m_buffer.back() &= ~(~0 << extra)
\* @type: (Set(Int), Int, Int) => Set(Int);
ZeroUnused(s, nb, sz) ==
    LET e == sz % W IN
    IF e # 0 THEN {p \in s : ~(p \div W = nb - 1 /\ p % W >= e)} ELSE s

\* resize(asize, b)
Resize(n, b) ==
    LET oldbc == nblk
        newbc == BlockCount(n)
        \* m_buffer.resize(newbc, value): blocks beyond newbc are dropped, new blocks hold `value`
        s1 == {p \in ones : p \div W < newbc} \union (IF b THEN {p \in Pos : p \div W >= oldbc /\ p \div W < newbc} ELSE {})
        e  == msz % W
        \* if (b && asize > m_size && extra > 0) m_buffer[old_block_count - 1] |= value << extra
        s2 == IF b /\ n > msz /\ e > 0 THEN s1 \union {p \in Pos : p \div W = oldbc - 1 /\ p % W >= e} ELSE s1
    IN /\ ones' = ZeroUnused(s2, newbc, n)
       /\ nblk' = newbc
       /\ msz'  = n

Clear == ones' = {} /\ nblk' = 0 /\ msz' = 0

\* push_back(b): resize(s + 1); set(s, b)
PushBack(b) ==
    LET n == msz + 1
        newbc == BlockCount(n)
        s1 == ZeroUnused({p \in ones : p \div W < newbc}, newbc, n)
    IN /\ ones' = (IF b THEN s1 \union {msz} ELSE s1 \ {msz})
       /\ nblk' = newbc
       /\ msz'  = n

\* pop_back(): drop the last block if it is no longer needed; --m_size; zero_unused_bits()
PopBack ==
    /\ msz > 0
    /\ LET newbc == BlockCount(msz - 1) IN
         /\ ones' = ZeroUnused({p \in ones : p \div W < newbc}, newbc, msz - 1)
         /\ nblk' = newbc
         /\ msz'  = msz - 1

SetAll   == ones' = ZeroUnused({p \in Pos : p \div W < nblk}, nblk, msz) /\ UNCHANGED <<nblk, msz>>
ResetAll == ones' = {} /\ UNCHANGED <<nblk, msz>>
FlipAll  == ones' = ZeroUnused({p \in Pos : p \div W < nblk /\ p \notin ones}, nblk, msz) /\ UNCHANGED <<nblk, msz>>
\* set(pos, v), reset(pos), flip(pos) and writes through references: precondition pos < size()
SetBit(q, v) == q < msz /\ ones' = (IF v THEN ones \union {q} ELSE ones \ {q}) /\ UNCHANGED <<nblk, msz>>
FlipBit(q)   == q < msz /\ ones' = (IF q \in ones THEN ones \ {q} ELSE ones \union {q}) /\ UNCHANGED <<nblk, msz>>

\* operator<<=(pos): block i + div receives (b[i] << r) | (b[i - 1] >> (W - r)) for i = last - div .. 1, block div receives
\* b[0] << r, blocks 0 .. div - 1 are filled with 0, then zero_unused_bits()
ShlEq(s) ==
    IF s >= msz THEN ResetAll
    ELSE IF s = 0 THEN UNCHANGED <<ones, nblk, msz>>
    ELSE LET lastb == nblk - 1
             div == s \div W
             r == s % W
             moved == {p \in Pos :
                         LET j == p \div W   q == p % W   i == (p \div W) - div IN
                           /\ j <= lastb /\ i >= 0
                           /\ \/ (q >= r /\ (i * W + q - r) \in ones)                       \* from b[i] << r
                              \/ (r # 0 /\ q < r /\ i >= 1 /\ ((i - 1) * W + W - r + q) \in ones)}   \* from b[i - 1] >> (W - r)
         IN /\ ones' = ZeroUnused(moved, nblk, msz)
            /\ UNCHANGED <<nblk, msz>>

\* operator>>=(pos): block i - div receives (b[i] >> r) | (b[i + 1] << (W - r)) for i = div .. last - 1, block last - div
\* receives b[last] >> r, the top div blocks are filled with 0 (no zero_unused_bits: zeros enter from above)
ShrEq(s) ==
    IF s >= msz THEN ResetAll
    ELSE IF s = 0 THEN UNCHANGED <<ones, nblk, msz>>
    ELSE LET lastb == nblk - 1
             div == s \div W
             r == s % W
             moved == {p \in Pos :
                         LET j == p \div W   q == p % W   i == (p \div W) + div IN
                           /\ j <= lastb - div
                           /\ \/ (q + r < W /\ (i * W + q + r) \in ones)                    \* from b[i] >> r
                              \/ (r # 0 /\ q + r >= W /\ i + 1 <= lastb /\ ((i + 1) * W + q + r - W) \in ones)}  \* from b[i + 1] << (W - r)
         IN /\ ones' = moved
            /\ UNCHANGED <<nblk, msz>>

\* &=, |=, ^= with an operand of the same size that itself satisfies the invariant
BinOp(o, kind) ==
    /\ \A p \in o : p < msz
    /\ ones' = (CASE kind = 0 -> ones \intersect o
                  [] kind = 1 -> ones \union o
                  [] OTHER    -> (ones \ o) \union (o \ ones))
    /\ UNCHANGED <<nblk, msz>>

Next ==
    \/ \E n \in 0..MaxPos, b \in BOOLEAN : Resize(n, b)
    \/ Clear \/ PopBack \/ SetAll \/ ResetAll \/ FlipAll
    \/ \E b \in BOOLEAN : msz < MaxPos /\ PushBack(b)
    \/ \E q \in Pos, v \in BOOLEAN : SetBit(q, v)
    \/ \E q \in Pos : FlipBit(q)
    \/ \E s \in 0..(MaxPos + 1) : ShlEq(s) \/ ShrEq(s)
    \/ \E o \in SUBSET Pos, kind \in 0..2 : BinOp(o, kind)
=============================================================================

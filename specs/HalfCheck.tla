------------------------------ MODULE HalfCheck ------------------------------
(* C08 / C09 conformance: a table recorded from the real half_float::half      *)
(* (harness/half/driver.cpp) is loaded, and TLC visits every recorded          *)
(* evaluation as one state (l = row of the table, j = column); the invariant   *)
(* Conforms says that the recorded result is the one Half.tla defines.  The    *)
(* counterexample state is the failing operand tuple; the ALIAS Explain shows   *)
(* the operands, the recorded and the specified result.                        *)
(*                                                                             *)
(* Row formats: see harness/half/driver.cpp.  Row 1 is the header with the     *)
(* column operands S (binary functions) and E (exponents for ldexp).           *)
EXTENDS HalfTrans, Json, IOUtils

VARIABLES l, j

Tab == ndJsonDeserialize(IOEnv.TABLE)
Hdr == Tab[1]

Width(row) ==
    CASE row.k = "un"  -> row.n
      [] row.k = "ux"  -> Len(row.x)
      [] row.k = "bin" -> Len(Hdr.S)
      [] row.k = "nt"  -> Len(Hdr.S)
      [] row.k = "ld"  -> Len(Hdr.E)
      [] row.k = "f2h" -> Len(row.hi)
      [] row.k = "d2h" -> Len(row.w3)
      [] row.k = "i2h" -> Len(row.x)
      [] row.k = "imin" -> Len(row.t)
      [] row.k = "fma" -> Len(row.x)
      [] row.k = "tri" -> Len(row.x)
      [] row.k = "pair" -> Len(row.x)
      [] row.k = "sf2h" -> Len(row.hi)
      [] row.k = "lim" -> Len(row.t)
      [] row.k = "lit" -> Len(row.t)
      [] OTHER -> 0

Init == l \in 2..Len(Tab) /\ j = 1
Next == /\ j < Width(Tab[l])
        /\ j' = j + 1
        /\ l' = l
Spec == Init /\ [][Next]_<<l, j>>

Bool(b) == IF b THEN 1 ELSE 0
BitAt(m, i) == (m \div Pow2(i)) % 2 = 1

(* ------------------------------------------------------------------ unary *)
F32Hi(f) == f.s * 32768 + f.e * 128 + f.f \div 65536
F32Lo(f) == f.f % 65536
F64W3(d) == d.s * 32768 + d.e * 16 + d.fhi \div 65536
F64W2(d) == d.fhi % 65536
IsNaN32(hi, lo) == (hi % 32768) \div 128 = 255 /\ ((hi % 128) # 0 \/ lo # 0)
IsNaN64(w3, w2, w1, w0) == (w3 % 32768) \div 16 = 2047 /\ ((w3 % 16) # 0 \/ w2 # 0 \/ w1 # 0 \/ w0 # 0)

ClassCode(h) == CASE FpClassify(h) = "zero" -> 0 [] FpClassify(h) = "subnormal" -> 1 [] FpClassify(h) = "normal" -> 2
                  [] FpClassify(h) = "infinite" -> 3 [] FpClassify(h) = "nan" -> 4

IntOK(h, mode, got) == IsFinite(h) => got = IntVal(h, mode)      \* C leaves the result for inf/NaN (not representable) unspecified

(* the rounding direction of the calling thread while the row was evaluated: 0 to nearest (default), 1 upward,   *)
(* 2 downward, 3 toward zero.  Everything in Half.tla is specified independently of it, except what C defines    *)
(* to follow it: rint, nearbyint, lrint, llrint.  The library documents those as rounding to nearest regardless  *)
(* ("half's internal rounding mode"), C as following the direction; under a non-default direction both answers   *)
(* are accepted (the property quantifies over inputs in the default environment only).                            *)
RowRM(row) == IF "rm" \in DOMAIN row THEN row.rm ELSE 0
DirMode(rm) == CASE rm = 1 -> "ceil" [] rm = 2 -> "floor" [] rm = 3 -> "trunc" [] OTHER -> "even"
RintOK(row, h, r) == SameH(r, Rint(h)) \/ (RowRM(row) # 0 /\ SameH(r, RoundToIntegral(h, DirMode(RowRM(row)))))
LrintOK(row, h, r) == IntOK(h, "even", r) \/ (RowRM(row) # 0 /\ IntOK(h, DirMode(RowRM(row)), r))

C08Unary == {"neg", "pos", "fabs", "abs", "sqrt", "isnan", "isinf", "isfinite", "isnormal", "signbit", "fpclassify",
             "h2f", "h2d", "h2ld", "h2i", "hash", "roundtrip", "incdec"}
TransUnary == {"exp", "exp2", "expm1", "log", "log10", "log2", "log1p", "cbrt", "sin", "cos", "tan", "asin", "acos", "atan",
               "sinh", "cosh", "tanh", "asinh", "acosh", "atanh", "erf", "erfc", "lgamma", "tgamma"}

(* a row that carries "cr" is judged against the enclosure of the real function (HalfTrans.tla): correct rounding  *)
(* for the functions documented as exact to rounding, one ulp for expm1 and log1p                                 *)
IsCR(row) == "cr" \in DOMAIN row
RealFunctions == CRFunctions \cup Ulp1Functions

UnaryArg(row, c) == IF row.k = "ux" THEN row.x[c] ELSE row.base + c - 1

UnaryOK(row, c) ==
    LET f == row.f
        h == UnaryArg(row, c)
        r == row.r[c]
    IN
    CASE f = "neg"   -> r = Neg(h)
      [] f = "pos"   -> r = h
      [] f = "fabs"  -> r = Fabs(h)
      [] f = "abs"   -> r = Fabs(h)
      [] f = "sqrt"  -> SameH(r, Sqrt(h))
      [] f = "isnan" -> r = Bool(IsNaN(h))
      [] f = "isinf" -> r = Bool(IsInf(h))
      [] f = "isfinite" -> r = Bool(IsFinite(h))
      [] f = "isnormal" -> r = Bool(IsNormal(h))
      [] f = "signbit"  -> r = Bool(SignBit(h))
      [] f = "fpclassify" -> r = ClassCode(h)
      [] f = "h2f" -> LET t == ToFloat(h) IN
                      IF IsNaN(h) THEN IsNaN32(r, row.r2[c]) /\ IsNaN32(row.r3[c], row.r4[c])
                      ELSE r = F32Hi(t) /\ row.r2[c] = F32Lo(t) /\ row.r3[c] = F32Hi(t) /\ row.r4[c] = F32Lo(t)
      [] f = "h2d" -> LET t == ToDouble(h) IN
                      IF IsNaN(h) THEN IsNaN64(r, row.r2[c], row.r3[c], row.r4[c])
                      ELSE r = F64W3(t) /\ row.r2[c] = F64W2(t) /\ row.r3[c] = 0 /\ row.r4[c] = 0
      [] f = "h2ld" -> LET t == ToDouble(h) IN
                      IF IsNaN(h) THEN IsNaN64(r, row.r2[c], row.r3[c], row.r4[c])
                      ELSE r = F64W3(t) /\ row.r2[c] = F64W2(t) /\ row.r3[c] = 0 /\ row.r4[c] = 0 /\ row.r5[c] = 1
      [] f = "h2i" -> /\ IntOK(h, "even", r)                 \* half_cast<int>: rounds like rint (documented)
                      /\ IntOK(h, "even", row.r2[c])         \* half_cast<long long>
                      /\ IntOK(h, "trunc", row.r3[c])        \* static_cast<int>(float(h)): C++ truncation of the exact float
                      /\ IntOK(h, "even", row.r4[c])         \* half_cast<long>
      [] f = "hash" -> \* equal values hash equally: the other zero, and the same value obtained through float
                      IsNaN(h) \/ (r = row.r5[c] /\ row.r2[c] = row.r6[c] /\ row.r3[c] = row.r7[c] /\ row.r4[c] = row.r8[c])
      [] f = "roundtrip" -> SameH(r, h) /\ SameH(row.r2[c], h) /\ SameH(row.r3[c], h) /\ row.r4[c] = h
      [] f = "incdec" -> LET up == Add(h, One)  dn == Sub(h, One) IN
                      /\ SameH(r, up) /\ SameH(row.r2[c], up) /\ SameH(row.r3[c], up) /\ SameH(row.r4[c], h)
                      /\ SameH(row.r5[c], dn) /\ SameH(row.r6[c], dn) /\ SameH(row.r7[c], dn) /\ SameH(row.r8[c], h)
      \* ---- C09
      [] f = "ceil"  -> SameH(r, Ceil(h))
      [] f = "floor" -> SameH(r, Floor(h))
      [] f = "trunc" -> SameH(r, Trunc(h))
      [] f = "round" -> SameH(r, Round(h))
      [] f = "rint"  -> RintOK(row, h, r)
      [] f = "nearbyint" -> RintOK(row, h, r)
      [] f = "lround"  -> IntOK(h, "round", r)
      [] f = "llround" -> IntOK(h, "round", r)
      [] f = "lrint"   -> LrintOK(row, h, r)
      [] f = "llrint"  -> LrintOK(row, h, r)
      [] f = "frexp" -> LET t == Frexp(h) IN SameH(r, t.f) /\ (t.edef => row.r2[c] = t.e)
      [] f = "modf"  -> LET t == Modf(h) IN SameH(r, t.frac) /\ SameH(row.r2[c], t.int)
      [] f = "ilogb" -> LET t == Ilogb(h) IN
                        ( /\ (t.k = "val"  => r = t.v)
                          /\ (t.k = "zero" => row.r2[c] = 1)       \* FP_ILOGB0
                          /\ (t.k = "inf"  => row.r3[c] = 1)       \* INT_MAX
                          /\ (t.k = "nan"  => row.r4[c] = 1) )     \* FP_ILOGBNAN
      [] f = "logb"  -> SameH(r, Logb(h))
      [] f = "cbrt_full" -> SameH(r, Cbrt(h))
      \* stream I/O: the text written by operator<< (precision 9), read back by strtof, is the exact float value;
      \* the same text read by operator>> gives the half back (r4 = 1: the extraction succeeded; libstdc++ does not
      \* parse "inf"/"nan", so only finite halves are read back)
      [] f = "stream" -> LET t == ToFloat(h) IN
                      /\ (IF IsNaN(h) THEN IsNaN32(r, row.r2[c]) ELSE r = F32Hi(t) /\ row.r2[c] = F32Lo(t))
                      /\ (IsFinite(h) => row.r4[c] = 1 /\ row.r3[c] = h)
      \* A function with several outputs: every output is an observable of its own and is judged on every argument.  The correctly
      \* rounded value of a real number is unique, so the two outputs of the combined entry point sincos(x, &s, &c) are the values of
      \* the stand-alone sin(x) and cos(x) at the same argument (recorded next to them as r3, r4: a second route to the same
      \* observable); together with the enclosure judgement of sin and cos this decides both outputs of sincos.  All four recorded
      \* values also meet the Annex F cases / exactly representable results.
      [] f = "sincos_routes" -> /\ SameH(r, row.r3[c]) /\ SameH(row.r3[c], r)
                                /\ SameH(row.r2[c], row.r4[c]) /\ SameH(row.r4[c], row.r2[c])
                                /\ MeetsSpecial(Special1("sin", h), r) /\ MeetsSpecial(Special1("cos", h), row.r2[c])
      [] f = "sincos" -> IF IsCR(row) THEN MeetsReal("sin", h, r) /\ MeetsReal("cos", h, row.r2[c])
                         ELSE MeetsSpecial(Special1("sin", h), r) /\ MeetsSpecial(Special1("cos", h), row.r2[c])
      [] f \in TransUnary -> IF IsCR(row) /\ f \in RealFunctions THEN MeetsReal(f, h, r) ELSE MeetsSpecial(Special1(f, h), r)
      [] OTHER -> FALSE

(* ----------------------------------------------------------------- binary *)
CmpMask(a, b) ==
      Bool(Eq(a, b)) + 2 * Bool(Ne(a, b)) + 4 * Bool(Lt(a, b)) + 8 * Bool(Gt(a, b)) + 16 * Bool(Le(a, b)) + 32 * Bool(Ge(a, b))
CmpMaskQuiet(a, b) ==
      64 * Bool(Gt(a, b)) + 128 * Bool(Ge(a, b)) + 256 * Bool(Lt(a, b)) + 512 * Bool(Le(a, b))
    + 1024 * Bool(LessGreater(a, b)) + 2048 * Bool(Unordered(a, b))

BinaryOKab(row, c, a, b) ==
    LET f == row.f
        r == row.r[c]
    IN
    CASE f \in {"add", "add_eq"} -> SameH(r, Add(a, b))
      [] f \in {"sub", "sub_eq"} -> SameH(r, Sub(a, b))
      [] f \in {"mul", "mul_eq"} -> SameH(r, Mul(a, b))
      [] f \in {"div", "div_eq"} -> SameH(r, Div(a, b))
      [] f = "add_f" -> SameH(r, Add(a, b)) /\ SameH(row.r2[c], Add(a, b))
      [] f = "sub_f" -> SameH(r, Sub(a, b)) /\ SameH(row.r2[c], Sub(a, b))
      [] f = "mul_f" -> SameH(r, Mul(a, b)) /\ SameH(row.r2[c], Mul(a, b))
      [] f = "div_f" -> SameH(r, Div(a, b)) /\ SameH(row.r2[c], Div(a, b))
      [] f = "cmp" -> /\ r = CmpMask(a, b) + CmpMaskQuiet(a, b)
                      /\ row.r2[c] = CopySign(a, b)
                      /\ (Eq(a, b) => row.r3[c] = 1)          \* equal values hash equally (so do -0 and +0)
                      /\ row.r4[c] = CmpMask(a, b)            \* half compared with float(b)
      \* ---- C09
      [] f = "fmod"      -> SameH(r, Fmod(a, b))
      [] f = "remainder" -> SameH(r, Remainder(a, b))
      [] f = "remquo"    -> SameH(r, Remainder(a, b)) /\ QuoOK(a, b, row.r2[c])
      [] f = "fdim"      -> SameH(r, Fdim(a, b))
      [] f = "fmax"      -> FmaxOK(a, b, r)
      [] f = "fmin"      -> FminOK(a, b, r)
      [] f = "nextafter" -> SameValue(r, NextAfter(a, b))
      [] f = "atan2"     -> MeetsSpecial(SpecialAtan2(a, b), r)
      [] f = "pow"       -> MeetsSpecial(SpecialPow(a, b), r)
      [] f = "hypot"     -> MeetsSpecial(SpecialHypot(a, b), r)
      [] f = "hypot_full" -> SameH(r, Hypot(a, b))
      [] OTHER -> FALSE

BinaryOK(row, c) == BinaryOKab(row, c, row.a, Hdr.S[c])

(* ------------------------------------------------------------- conversions *)
F2HOK(row, c) ==
    LET hi == row.hi[c]  lo == row.lo[c]
        e  == FromFloat(hi \div 32768, (hi % 32768) \div 128, (hi % 128) * 65536 + lo)
    IN  SameH(row.r[c], e) /\ SameH(row.r2[c], e) /\ SameH(row.r3[c], e)

D2HOK(row, c) ==
    LET w3 == row.w3[c]
        e  == FromDouble(w3 \div 32768, (w3 % 32768) \div 16, (w3 % 16) * 65536 + row.w2[c], row.w1[c], row.w0[c])
        \* the converting constructor half(double) is documented to convert through float: two roundings
        hi == row.r4[c]  lo == row.r5[c]
        v  == FromFloat(hi \div 32768, (hi % 32768) \div 128, (hi % 128) * 65536 + lo)
    IN  SameH(row.r[c], e) /\ SameH(row.r2[c], e) /\ SameH(row.r3[c], v)

I2HOK(row, c) ==
    LET v == row.x[c]  e == FromInt(v) IN
    /\ row.r[c] = e /\ row.r2[c] = e /\ row.r3[c] = e /\ row.r6[c] = e
    /\ (row.r4[c] # -1 => row.r4[c] = e)
    /\ (row.r5[c] # -1 => row.r5[c] = e)

(* std::numeric_limits<half>, the macros HUGE_VALH / HLF_ROUNDS / FP_FAST_FMAH and nanh(): item t of the   *)
(* driver's table (see harness/half/driver.cpp, limits_item) against the parameters Half.tla derives from *)
(* the encoding.  Items that are implementation choices (traps, tinyness_before, is_modulo,               *)
(* has_denorm_loss) are recorded but not judged.                                                           *)
LimitOK(t, r) ==
    CASE t = 0 -> r = 1                       \* is_specialized
      [] t = 1 -> r = 1                       \* is_signed
      [] t = 2 -> r = 0                       \* is_integer
      [] t = 3 -> r = 0                       \* is_exact
      [] t = 4 -> r = 1                       \* is_bounded
      [] t = 5 -> r = 1                       \* is_iec559
      [] t = 6 -> r = 1                       \* has_infinity
      [] t = 7 -> r = 1                       \* has_quiet_NaN
      [] t = 8 -> r = 1                       \* has_signaling_NaN
      [] t = 9 -> r = 1                       \* has_denorm == denorm_present
      [] t = 10 -> r = 1                      \* round_style == round_to_nearest (the property: conversions and arithmetic round to nearest)
      [] t = 11 -> r = LimDigits
      [] t = 12 -> r = LimDigits10
      [] t = 13 -> r = LimMaxDigits10
      [] t = 14 -> r = 2                      \* radix
      [] t = 15 -> r = LimMinExp
      [] t = 16 -> r = LimMinExp10
      [] t = 17 -> r = LimMaxExp
      [] t = 18 -> r = LimMaxExp10
      [] t = 19 -> r = LimMin
      [] t = 20 -> r = LimLowest
      [] t = 21 -> r = LimMax
      [] t = 22 -> r = LimEpsilon
      [] t = 23 -> r = LimRoundError
      [] t = 24 -> r = PosInf                 \* infinity()
      [] t = 25 -> IsQuietNaN(r)              \* quiet_NaN()
      [] t = 26 -> IsSignallingNaN(r)         \* signaling_NaN()
      [] t = 27 -> r = LimDenormMin
      [] t = 28 -> r = PosInf                 \* HUGE_VALH
      [] t = 29 -> r = 1                      \* HLF_ROUNDS (as FLT_ROUNDS: 1 = to nearest)
      [] t \in 30..33 -> IsQuietNaN(r)        \* nanh("") nanh("1") nanh("abc") nanh of a long tag: a quiet NaN (C 7.12.11.2)
      [] t = 34 -> r = 1                      \* sizeof(half) == 2
      [] t = 35 -> r = PosZero                \* half() value-initialises to +0
      [] t \in 36..39 -> TRUE                 \* traps, tinyness_before, is_modulo, has_denorm_loss: not judged
      [] OTHER -> FALSE

(* the most negative value of signed char (t = 0), short (1); int, long, long long overflow to -infinity *)
TypeMin(t) == IF t = 0 THEN FromInt(-128) ELSE IF t = 1 THEN FromInt(-32768) ELSE NegInf

Conforms ==
    LET row == Tab[l] IN
    CASE row.k = "un"  -> UnaryOK(row, j)
      [] row.k = "ux"  -> UnaryOK(row, j)
      [] row.k = "bin" -> BinaryOK(row, j)
      [] row.k = "ld"  -> SameH(row.r[j], Ldexp(row.a, Hdr.E[j]))
      [] row.k = "nt"  -> /\ SameValue(row.r[j],  NextToward(row.a, Hdr.S[j], -1))
                          /\ SameValue(row.r2[j], NextToward(row.a, Hdr.S[j], 0))
                          /\ SameValue(row.r3[j], NextToward(row.a, Hdr.S[j], 1))
      [] row.k = "f2h" -> F2HOK(row, j)
      [] row.k = "d2h" -> D2HOK(row, j)
      [] row.k = "i2h" -> I2HOK(row, j)
      [] row.k = "imin" -> row.r[j] = TypeMin(row.t[j])
      [] row.k = "fma" -> SameH(row.r[j], Fma(row.x[j], row.y[j], row.z[j]))
      [] row.k = "tri" -> Hypot3OK(row.x[j], row.y[j], row.z[j], row.r[j])
      [] row.k = "pair" -> BinaryOKab(row, j, row.x[j], row.y[j])
      \* operator>> applied to the exact decimal expansion of a finite float
      [] row.k = "sf2h" -> LET hi == row.hi[j] IN
                           row.r2[j] = 1 /\ SameH(row.r[j], FromFloat(hi \div 32768, (hi % 32768) \div 128, (hi % 128) * 65536 + row.lo[j]))
      [] row.k = "lim" -> LimitOK(row.t[j], row.r[j])
      \* a _h literal: r2..r5 are the limbs of the literal's value as a double (exactly representable by construction)
      [] row.k = "lit" -> LET w3 == row.r2[j] IN
                          SameH(row.r[j], FromDouble(w3 \div 32768, (w3 % 32768) \div 16, (w3 % 16) * 65536 + row.r3[j], row.r4[j], row.r5[j]))
      [] OTHER -> FALSE

(* what a counterexample shows *)
Operands ==
    LET row == Tab[l] IN
    CASE row.k = "un"  -> << row.base + j - 1 >>
      [] row.k = "ux"  -> << row.x[j] >>
      [] row.k = "bin" -> << row.a, Hdr.S[j] >>
      [] row.k = "nt"  -> << row.a, Hdr.S[j] >>
      [] row.k = "ld"  -> << row.a, Hdr.E[j] >>
      [] row.k = "f2h" -> << row.hi[j], row.lo[j] >>
      [] row.k = "d2h" -> << row.w3[j], row.w2[j], row.w1[j], row.w0[j] >>
      [] row.k = "i2h" -> << row.x[j] >>
      [] row.k = "fma" -> << row.x[j], row.y[j], row.z[j] >>
      [] row.k = "tri" -> << row.x[j], row.y[j], row.z[j] >>
      [] row.k = "pair" -> << row.x[j], row.y[j] >>
      [] row.k = "sf2h" -> << row.hi[j], row.lo[j] >>
      [] row.k = "lim" -> << row.t[j] >>
      [] row.k = "lit" -> << row.t[j] >>
      [] OTHER -> << >>

(* the specified value of the first result, where the specification is a value *)
Expected ==
    LET row == Tab[l]  f == row.f IN
    CASE row.k \in {"un", "ux"} ->
           LET h == UnaryArg(row, j) IN
           ( CASE IsCR(row) /\ f \in RealFunctions -> << ExpectedReal(f, h) >>
               [] IsCR(row) /\ f = "sincos" -> << ExpectedReal("sin", h), ExpectedReal("cos", h) >>
               [] f = "sqrt" -> << Sqrt(h) >> [] f = "ceil" -> << Ceil(h) >> [] f = "floor" -> << Floor(h) >>
               [] f = "trunc" -> << Trunc(h) >> [] f = "round" -> << Round(h) >> [] f \in {"rint", "nearbyint"} -> << Rint(h) >>
               [] f \in {"lround", "llround"} -> << IF IsFinite(h) THEN IntVal(h, "round") ELSE "unspecified" >>
               [] f \in {"lrint", "llrint"} -> << IF IsFinite(h) THEN IntVal(h, "even") ELSE "unspecified" >>
               [] f = "frexp" -> << Frexp(h) >> [] f = "modf" -> << Modf(h) >> [] f = "ilogb" -> << Ilogb(h) >>
               [] f = "logb" -> << Logb(h) >> [] f = "h2f" -> << ToFloat(h) >> [] f \in {"h2d", "h2ld"} -> << ToDouble(h) >>
               [] f = "sincos" -> << Special1("sin", h), Special1("cos", h) >>
               [] f = "sincos_routes" -> << "sincos outputs (1st, 2nd) = sin(x), cos(x) (3rd, 4th)", Special1("sin", h), Special1("cos", h) >>
               [] f = "cbrt_full" -> << Cbrt(h) >> [] f = "stream" -> << ToFloat(h), h >>
               [] f \in TransUnary -> << Special1(f, h) >>
               [] OTHER -> << "see HalfCheck!UnaryOK" >> )
      [] row.k \in {"bin", "pair"} ->
           LET a == IF row.k = "bin" THEN row.a ELSE row.x[j]
               b == IF row.k = "bin" THEN Hdr.S[j] ELSE row.y[j] IN
           ( CASE f \in {"add", "add_eq", "add_f"} -> << Add(a, b) >> [] f \in {"sub", "sub_eq", "sub_f"} -> << Sub(a, b) >>
               [] f \in {"mul", "mul_eq", "mul_f"} -> << Mul(a, b) >> [] f \in {"div", "div_eq", "div_f"} -> << Div(a, b) >>
               [] f = "cmp" -> << CmpMask(a, b) + CmpMaskQuiet(a, b), CopySign(a, b), Eq(a, b), CmpMask(a, b) >>
               [] f = "fmod" -> << Fmod(a, b) >> [] f = "remainder" -> << Remainder(a, b) >>
               [] f = "remquo" -> << Remainder(a, b), RemquoQuo(a, b) >> [] f = "fdim" -> << Fdim(a, b) >>
               [] f = "nextafter" -> << NextAfter(a, b) >> [] f = "atan2" -> << SpecialAtan2(a, b) >>
               [] f = "pow" -> << SpecialPow(a, b) >> [] f = "hypot" -> << SpecialHypot(a, b) >> [] f = "hypot_full" -> << Hypot(a, b) >>
               [] OTHER -> << "see HalfCheck!BinaryOK" >> )
      [] row.k = "ld"  -> << Ldexp(row.a, Hdr.E[j]) >>
      [] row.k = "nt"  -> << NextToward(row.a, Hdr.S[j], -1), NextToward(row.a, Hdr.S[j], 0), NextToward(row.a, Hdr.S[j], 1) >>
      [] row.k = "f2h" -> LET hi == row.hi[j] IN << FromFloat(hi \div 32768, (hi % 32768) \div 128, (hi % 128) * 65536 + row.lo[j]) >>
      [] row.k = "d2h" -> LET w3 == row.w3[j] IN << FromDouble(w3 \div 32768, (w3 % 32768) \div 16, (w3 % 16) * 65536 + row.w2[j], row.w1[j], row.w0[j]) >>
      [] row.k = "i2h" -> << FromInt(row.x[j]) >>
      [] row.k = "imin" -> << TypeMin(row.t[j]) >>
      [] row.k = "fma" -> << Fma(row.x[j], row.y[j], row.z[j]) >>
      [] row.k = "tri" -> << IF Hypot3OK(row.x[j], row.y[j], row.z[j], PosInf) THEN PosInf ELSE IF Hypot3OK(row.x[j], row.y[j], row.z[j], QNaN) THEN QNaN
                                ELSE HypotFinite3(row.x[j], row.y[j], row.z[j]) >>
      [] row.k = "sf2h" -> LET hi == row.hi[j] IN << FromFloat(hi \div 32768, (hi % 32768) \div 128, (hi % 128) * 65536 + row.lo[j]) >>
      [] row.k = "lim" -> << "see HalfCheck!LimitOK" >>
      [] row.k = "lit" -> LET w3 == row.r2[j] IN << FromDouble(w3 \div 32768, (w3 % 32768) \div 16, (w3 % 16) * 65536 + row.r3[j], row.r4[j], row.r5[j]) >>
      [] OTHER -> << >>

Recorded ==
    LET row == Tab[l]
        D == DOMAIN row
    IN  << row.r[j] >> \o (IF "r2" \in D THEN << row.r2[j] >> ELSE << >>) \o (IF "r3" \in D THEN << row.r3[j] >> ELSE << >>)
                     \o (IF "r4" \in D THEN << row.r4[j] >> ELSE << >>) \o (IF "r5" \in D THEN << row.r5[j] >> ELSE << >>)

Explain == [l |-> l, j |-> j, k |-> Tab[l].k, f |-> Tab[l].f, rm |-> RowRM(Tab[l]), operands |-> Operands, recorded |-> Recorded, expected |-> Expected]

=============================================================================

SPECIFICATION TSpec
CONSTANTS
  Caps = {}
  Policies = {}
  Layouts = {}
  Chars = {}
  Lits = {}
  PosDom = {}
  SubDom = {}
  Targets = {1, 2}
  OtherInit = {}
  Classes = {}
  EmitOps = {}
POSTCONDITION TraceAccepted
CHECK_DEADLOCK FALSE

SPECIFICATION Spec
CONSTANTS
  Caps = {4}
  Policies = {"throwing"}
  Layouts = {"strlen"}
  Chars <- Chars012
  Lits <- Lits4
  PosDom <- Pos4
  SubDom <- SubFew4
  Targets = {1}
  OtherInit <- OtherOne
  Classes <- UnaryOv
  EmitOps <- AllOps
CONSTRAINT OtherBound
ACTION_CONSTRAINT Emit
VIEW absvars
INVARIANTS TypeOK Laws
PROPERTIES FailedChangesNothing ObserversPure ReturnedIteratorInRange SilentNeverLengthError

---------------------------- MODULE BitsetTrace ----------------------------
(* Trace validation for C03: every line of the ndjson trace recorded from the *)
(* real xdynamic_bitset objects must be a step of Bitset (L1) with the logged  *)
(* arguments, and the logged result and full projection must be the spec's.    *)
EXTENDS Bitset, Json, IOUtils

VARIABLE l     \* next line of the trace to be explained

JsonTrace == ndJsonDeserialize(IOEnv.TRACE)
ExplainAt == atoi(IOEnv.EXPLAIN)

TInit ==
    /\ l = 1
    /\ w = 8
    /\ kind = <<"own", "own">>
    /\ obj = <<<<>>, <<>>>>
    /\ last = [op |-> "Init", k |-> 0, a |-> NoArg, res |-> Void]
    /\ pre = [obj |-> <<<<>>, <<>>>>, kind |-> <<"own", "own">>]

(* a new execution: fresh default-constructed objects, block width from the event *)
TReset(e) ==
    /\ w' = e.a.W
    /\ kind' = <<"own", "own">>
    /\ obj' = <<<<>>, <<>>>>
    /\ pre' = [obj |-> obj, kind |-> kind]
    /\ last' = [op |-> "Reset", k |-> 1, a |-> e.a, res |-> Void]

Dispatch(e) == LET k == e.k  a == e.a IN
    \/ e.op = "Reset"        /\ TReset(e)
    \/ e.op = "CtorDefault"  /\ CtorDefault(k)
    \/ e.op = "CtorN"        /\ CtorN(k, a.n)
    \/ e.op = "CtorNV"       /\ CtorNV(k, a.n, a.v)
    \/ e.op = "CtorIL"       /\ CtorIL(k, a.bits)
    \/ e.op = "CtorBlocks"   /\ CtorBlocks(k, a.blocks)
    \/ e.op = "CtorAlloc"    /\ CtorAlloc(k)
    \/ e.op = "CtorCopy"     /\ CtorCopy(k)
    \/ e.op = "CtorMove"     /\ CtorMove(k, a.re, e.st.o[Other(k)].bits)
    \/ e.op = "MoveAssign"   /\ MoveAssign(k, a.re, e.st.o[Other(k)].bits)
    \/ e.op = "Reserve"      /\ e.res.exc = "none" /\ Reserve(k, a.n, e.res.val[1])
    \/ e.op = "MaxSize"      /\ e.res.exc = "none" /\ MaxSize(k, e.res.val[1])
    \/ e.op = "Fill"         /\ Fill2(k, a.i, a.j, a.v)
    \/ e.op = "Algo"         /\ Algo(k, a.alg, a.i, a.m, a.j)
    \/ e.op = "CtorView"     /\ CtorView(k, a.blocks, a.n)
    \/ e.op = "AssignNV"     /\ AssignNV(k, a.n, a.v)
    \/ e.op = "AssignIL"     /\ AssignIL(k, a.bits)
    \/ e.op = "AssignBlocks" /\ AssignBlocks(k, a.blocks)
    \/ e.op = "CopyAssign"   /\ CopyAssign(k, a.self)
    \/ e.op = "Resize"       /\ Resize(k, a.n, a.v)
    \/ e.op = "Resize1"      /\ Resize1(k, a.n)
    \/ e.op = "ResizeView"   /\ ResizeView(k, a.n)
    \/ e.op = "Clear"        /\ Clear(k)
    \/ e.op = "PushBack"     /\ PushBack(k, a.v)
    \/ e.op = "PopBack"      /\ PopBack(k)
    \/ e.op = "SetAll"       /\ SetAll(k)
    \/ e.op = "ResetAll"     /\ ResetAll(k)
    \/ e.op = "FlipAll"      /\ FlipAll(k)
    \/ e.op = "Set"          /\ Set(k, a.i, a.v)
    \/ e.op = "Set1"         /\ Set1(k, a.i)
    \/ e.op = "ResetBit"     /\ Reset(k, a.i)
    \/ e.op = "Flip"         /\ Flip(k, a.i)
    \/ e.op = "ShlEq"        /\ ShlEq(k, a.p)
    \/ e.op = "ShrEq"        /\ ShrEq(k, a.p)
    \/ e.op = "AndEq"        /\ AndEq(k, a.self)
    \/ e.op = "OrEq"         /\ OrEq(k, a.self)
    \/ e.op = "XorEq"        /\ XorEq(k, a.self)
    \/ e.op = "Not"          /\ Not(k)
    \/ e.op = "And"          /\ And(k, a.self)
    \/ e.op = "Or"           /\ Or(k, a.self)
    \/ e.op = "Xor"          /\ Xor(k, a.self)
    \/ e.op = "Shl"          /\ Shl(k, a.p)
    \/ e.op = "Shr"          /\ Shr(k, a.p)
    \/ e.op = "Swap"         /\ Swap(k, a.how, a.self)
    \/ e.op = "At"           /\ At(k, a.c, a.i)
    \/ e.op = "Read"         /\ Read(k, a.path, a.i)
    \/ e.op = "RefWrite"     /\ RefWrite(k, a.path, a.i, a.wk, a.v, a.j)
    \/ e.op = "RefPair"      /\ RefPair(k, a.self, a.p1, a.i, a.p2, a.j, a.pk, a.vc)

TNext ==
    /\ l <= Len(JsonTrace)
    /\ LET e == JsonTrace[l] IN
        /\ Dispatch(e)
        /\ IF l = ExplainAt
             THEN PrintT(<<"EXPECTED", last'.res, ProjAll'>>)
             ELSE /\ last'.res = e.res
                  /\ ProjAll' = e.st
    /\ l' = l + 1

TSpec == TInit /\ [][TNext]_<<vars, l>>
TraceAccepted == TLCGet("stats").diameter - 1 = Len(JsonTrace)
=============================================================================

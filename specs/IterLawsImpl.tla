---------------------------- MODULE IterLawsImpl ----------------------------
(***************************************************************************)
(* L2 for C12: the REPRESENTATIONS of the xtl iterators, transcribed from   *)
(* the headers, and the derived operators as the xtl bases compose them.    *)
(* TLC checks that every L2 step is the L1 step (IterLaws.tla) of the same  *)
(* call with the same arguments and the same result (Refines), plus the     *)
(* representation invariants (the two sub-iterators of a pair iterator      *)
(* never disagree; a stepping iterator stays on a multiple of its stride).  *)
(* Advisory: verdicts come from L1 only.                                    *)
(*                                                                          *)
(* impl = "pair"      xoptional_iterator (m_itv, m_itb) / xcomplex_iterator *)
(*                    (m_it_real, m_it_imag): two sub-positions             *)
(*                    xoptional_sequence.hpp:565-630, xcomplex_sequence.hpp *)
(*                    :527-593                                              *)
(*        "bitset"    xbitset_iterator (p_container, m_index): container id *)
(*                    and an UNSIGNED W-bit index; += / -= go through the   *)
(*                    signed difference_type  xdynamic_bitset.hpp:1291-1361 *)
(*        "stepping"  xstepping_iterator (m_it, m_step): position in the    *)
(*                    underlying sequence and the stride                    *)
(*                    xiterator_base.hpp:314-401                            *)
(*        "single"    xkey_iterator / xvalue_iterator (m_it): bidirectional *)
(*                    xiterator_base.hpp:182-308                            *)
(* The derived operators are those of xbidirectional_iterator_base          *)
(* (it++, it--, !=) and xrandom_access_iterator_base ([], +, n+, -, <=, >=, *)
(* >), xiterator_base.hpp:34-121.                                           *)
(***************************************************************************)
EXTENDS Integers, Sequences, FiniteSets, TLC

CONSTANTS MaxN,     \* container sizes 0..MaxN
          Steps,    \* strides of the stepping representation
          Impls,    \* representations explored
          W,        \* width of the bitset iterator's unsigned index in bits (2^W > MaxN)
          Mutant    \* "none", or the name of a deliberate transcription error (self-test of the refinement check)

VARIABLES impl, n, step,
          uv, ub,   \* the storage: values and (pair representation) the second component; Len = n * step
          ra, rb,   \* representation of iterator a (k = 1) and b (k = 2): [x, y, s, c]
          last, pre

ivars   == <<impl, n, step, uv, ub, ra, rb, last, pre>>
absview == <<impl, n, step, uv, ub, ra, rb>>

M == 2 ^ W
Signed(u)   == IF u >= M \div 2 THEN u - M ELSE u          \* static_cast<difference_type>(size_type)
Unsigned(i) == ((i % M) + M) % M                           \* static_cast<size_type>(difference_type)
TruncDiv(a, b) == IF a >= 0 THEN a \div b ELSE 0 - ((0 - a) \div b)     \* C++ integer division (b > 0)

R(x, y, s, c) == [x |-> x, y |-> y, s |-> s, c |-> c]
Rep(k) == IF k = 1 THEN ra ELSE rb
Other(k) == 3 - k

(* ---- begin(), end(), a value-initialised iterator ---- *)
BeginR == CASE impl = "pair"     -> R(0, 0, 0, 0)
            [] impl = "bitset"   -> R(0, 0, 0, 1)
            [] impl = "stepping" -> R(0, 0, step, 0)
            [] impl = "single"   -> R(0, 0, 0, 0)
EndR   == CASE impl = "pair"     -> R(n, n, 0, 0)
            [] impl = "bitset"   -> R(n, 0, 0, 1)
            [] impl = "stepping" -> R(n * step, 0, step, 0)
            [] impl = "single"   -> R(n, 0, 0, 0)
ValueInitR == R(0, 0, 0, 0)        \* null sub-iterators / p_container = nullptr, m_index = 0 / m_it{}, m_step = 0

(* ---- the primitive operations each iterator class defines itself ---- *)
Inc(r) == CASE impl = "pair"     -> [r EXCEPT !.x = @ + 1, !.y = @ + 1]            \* ++m_itv; ++m_itb;
            [] impl = "bitset"   -> [r EXCEPT !.x = Unsigned(@ + 1)]               \* ++m_index;
            [] impl = "stepping" -> [r EXCEPT !.x = @ + r.s]                       \* std::advance(m_it, m_step);
            [] impl = "single"   -> [r EXCEPT !.x = @ + 1]                         \* ++m_it;
Dec(r) == CASE impl = "pair"     -> [r EXCEPT !.x = @ - 1, !.y = @ - 1]
            [] impl = "bitset"   -> [r EXCEPT !.x = Unsigned(@ - 1)]
            [] impl = "stepping" -> [r EXCEPT !.x = @ - (IF Mutant = "step_dec_one" THEN 1 ELSE r.s)]    \* std::advance(m_it, -m_step);
            [] impl = "single"   -> [r EXCEPT !.x = @ - 1]
AddN(r, d) == CASE impl = "pair"     -> [r EXCEPT !.x = @ + d, !.y = @ + d]        \* m_itv += n; m_itb += n;
                [] impl = "bitset"   -> [r EXCEPT !.x = Unsigned(Signed(@) + d)]   \* res = difference_type(m_index) + n; m_index = size_type(res);
                [] impl = "stepping" -> [r EXCEPT !.x = @ + d * r.s]               \* std::advance(m_it, n*m_step);
                [] OTHER -> r
SubN(r, d) == CASE impl = "pair"     -> IF Mutant = "subassign_one" THEN [r EXCEPT !.x = @ - d]
                                                                    ELSE [r EXCEPT !.x = @ - d, !.y = @ - d]
                [] impl = "bitset"   -> [r EXCEPT !.x = Unsigned(Signed(@) - d)]
                [] impl = "stepping" -> [r EXCEPT !.x = @ + (0 - d) * r.s]         \* std::advance(m_it, -n*m_step);
                [] OTHER -> r
DiffR(a, b) == CASE impl = "pair"     -> a.x - b.x                                  \* m_itv - rhs.m_itv (the first sub-iterator only)
                 [] impl = "bitset"   -> Signed(Unsigned(a.x - b.x))                \* difference_type(m_index - rhs.m_index)
                 [] impl = "stepping" -> IF Mutant = "step_diff_ceil" THEN TruncDiv(a.x - b.x + a.s - 1, a.s)
                                         ELSE TruncDiv(a.x - b.x, a.s)              \* std::distance(rhs.m_it, m_it) / m_step
                 [] OTHER -> 0
EqualR(a, b) == CASE impl = "pair"     -> a.x = b.x /\ a.y = b.y
                  [] impl = "bitset"   -> a.c = b.c /\ a.x = b.x
                  [] impl = "stepping" -> a.x = b.x /\ a.s = b.s                    \* equal()
                  [] impl = "single"   -> a.x = b.x
LessR(a, b) == CASE impl = "pair"     -> IF Mutant = "lt_or" THEN a.x < b.x \/ a.y < b.y ELSE a.x < b.x /\ a.y < b.y
                 [] impl = "bitset"   -> a.c = b.c /\ a.x < b.x
                 [] impl = "stepping" -> a.x < b.x /\ a.s = b.s                     \* less_than()
                 [] OTHER -> FALSE
DerefR(r) == CASE impl = "pair" -> <<uv[r.x + 1], ub[r.y + 1]>>                     \* reference(*m_itv, *m_itb)
               [] OTHER -> <<uv[r.x + 1]>>

(* ---- what the xtl bases derive ---- *)
NeR(a, b) == ~EqualR(a, b)           \* !(lhs == rhs)
LeR(a, b) == ~LessR(b, a)            \* !(rhs < lhs)
GeR(a, b) == ~LessR(a, b)            \* !(lhs < rhs)
GtR(a, b) == LessR(b, a)             \* rhs < lhs
IndexR(r, d) == DerefR(AddN(r, d))   \* *(*this + n)

(* ---- abstraction ---- *)
IsRa == impl # "single"
AbsCfg == [ra |-> IsRa, ext |-> FALSE, mut |-> FALSE, std |-> TRUE, dc |-> impl # "single", stp |-> impl = "stepping"]
AbsPos(r) == IF impl = "stepping" THEN r.x \div r.s ELSE r.x
AbsUnder == IF impl = "pair" THEN [i \in 1..Len(uv) |-> <<uv[i], ub[i]>>] ELSE [i \in 1..Len(uv) |-> <<uv[i]>>]
NA == 0 - 99

(* the three observers of the harness, computed on the representation *)
RECURSIVE IncTimes(_, _)
IncTimes(r, i) == IF i = 0 THEN r ELSE Inc(IncTimes(r, i - 1))
CountOf(r) == IF \E i \in 0..n : EqualR(IncTimes(BeginR, i), r)
                THEN CHOOSE i \in 0..n : EqualR(IncTimes(BeginR, i), r) /\ \A j \in 0..(i - 1) : ~EqualR(IncTimes(BeginR, j), r)
                ELSE 0 - 1
ObsOf(r) == LET c == CountOf(r) IN
            [c |-> c,
             d |-> IF IsRa THEN DiffR(r, BeginR) ELSE NA,
             e |-> IF IsRa THEN DiffR(EndR, r) ELSE NA,
             v |-> IF c >= 0 /\ c < n THEN DerefR(r) ELSE <<>>]
Val(v)   == [val |-> v]
ItRes(r) == [it |-> ObsOf(r)]
Void     == Val(<<>>)
NoArg    == [z |-> 0]
K(d)     == [k |-> d]

Do(op, k, a, nra, nrb, res) ==
    /\ pre'  = [n |-> n, step |-> step, p |-> AbsPos(ra), q |-> AbsPos(rb)]
    /\ ra'   = nra
    /\ rb'   = nrb
    /\ last' = [op |-> op, k |-> k, a |-> a, res |-> res]
    /\ UNCHANGED <<impl, n, step, uv, ub>>
Move(op, k, a, r, res) == Do(op, k, a, IF k = 1 THEN r ELSE ra, IF k = 2 THEN r ELSE rb, res)
Look(op, k, a, res)    == Do(op, k, a, ra, rb, res)

InR(i) == i \in 0..n
InD(i) == i \in 0..(n - 1)
P(k) == AbsPos(Rep(k))

(* every action has the precondition of the C++ expression (the result stays in [begin, end], only *)
(* positions in [begin, end) are dereferenced) and then does what the code does                    *)
PreInc(k)  == InR(P(k) + 1) /\ Move("PreInc",  k, NoArg, Inc(Rep(k)), ItRes(Inc(Rep(k))))
PostInc(k) == InR(P(k) + 1) /\ Move("PostInc", k, NoArg, Inc(Rep(k)), ItRes(Rep(k)))        \* tmp(d); ++d; return tmp;
PreDec(k)  == InR(P(k) - 1) /\ Move("PreDec",  k, NoArg, Dec(Rep(k)), ItRes(Dec(Rep(k))))
PostDec(k) == InR(P(k) - 1) /\ Move("PostDec", k, NoArg, Dec(Rep(k)), ItRes(Rep(k)))
Deref(k)   == InD(P(k)) /\ Look("Deref", k, NoArg, Val(DerefR(Rep(k))))
Eq(k)      == Look("Eq", k, NoArg, Val(EqualR(Rep(k), Rep(Other(k)))))
Ne(k)      == Look("Ne", k, NoArg, Val(NeR(Rep(k), Rep(Other(k)))))
Assign(k)  == Move("Assign", k, NoArg, Rep(Other(k)), Void)
AddAssign(k, d) == IsRa /\ InR(P(k) + d) /\ Move("AddAssign", k, K(d), AddN(Rep(k), d), ItRes(AddN(Rep(k), d)))
SubAssign(k, d) == IsRa /\ InR(P(k) - d) /\ Move("SubAssign", k, K(d), SubN(Rep(k), d), ItRes(SubN(Rep(k), d)))
Plus(k, d)      == IsRa /\ InR(P(k) + d) /\ Look("Plus",     k, K(d), ItRes(AddN(Rep(k), d)))      \* tmp(it); return tmp += n;
PlusLeft(k, d)  == IsRa /\ InR(P(k) + d) /\ Look("PlusLeft", k, K(d), ItRes(AddN(Rep(k), d)))
Minus(k, d)     == IsRa /\ InR(P(k) - d) /\ Look("Minus",    k, K(d), ItRes(SubN(Rep(k), d)))      \* tmp(it); return tmp -= n;
Index(k, d)     == IsRa /\ InD(P(k) + d) /\ Look("Index",    k, K(d), Val(IndexR(Rep(k), d)))
Diff(k) == IsRa /\ Look("Diff", k, NoArg, Val(DiffR(Rep(k), Rep(Other(k)))))
Lt(k)   == IsRa /\ Look("Lt", k, NoArg, Val(LessR(Rep(k), Rep(Other(k)))))
Le(k)   == IsRa /\ Look("Le", k, NoArg, Val(LeR(Rep(k), Rep(Other(k)))))
Gt(k)   == IsRa /\ Look("Gt", k, NoArg, Val(GtR(Rep(k), Rep(Other(k)))))
Ge(k)   == IsRa /\ Look("Ge", k, NoArg, Val(GeR(Rep(k), Rep(Other(k)))))
EqualM(k)    == impl = "stepping" /\ Look("EqualM", k, NoArg, Val(EqualR(Rep(k), Rep(Other(k)))))
LessThanM(k) == impl = "stepping" /\ Look("LessThanM", k, NoArg, Val(LessR(Rep(k), Rep(Other(k)))))
ValueInit(o) == impl # "single" /\ o \in {"eq", "ne", "lt", "le", "gt", "ge"} /\
                LET a == ValueInitR  b == ValueInitR IN
                Look("ValueInit", 1, [o |-> o],
                     Val(CASE o = "eq" -> EqualR(a, b) [] o = "ne" -> NeR(a, b) [] o = "lt" -> LessR(a, b)
                           [] o = "le" -> LeR(a, b) [] o = "gt" -> GtR(a, b) [] o = "ge" -> GeR(a, b)))

Offs == (0 - MaxN)..MaxN
Init ==
    /\ impl \in Impls
    /\ n \in 0..MaxN
    /\ step \in (IF impl = "stepping" THEN Steps ELSE {1})
    /\ uv = [j \in 1..(n * step) |-> j - 1]
    /\ ub = [j \in 1..(n * step) |-> 100 + j]
    /\ ra = BeginR /\ rb = BeginR
    /\ last = [op |-> "Init", k |-> 0, a |-> NoArg, res |-> Void]
    /\ pre = [n |-> n, step |-> step, p |-> 0, q |-> 0]

Next ==
    \/ \E k \in {1, 2} :
        \/ PreInc(k) \/ PostInc(k) \/ PreDec(k) \/ PostDec(k) \/ Deref(k) \/ Eq(k) \/ Ne(k) \/ Assign(k)
        \/ Diff(k) \/ Lt(k) \/ Le(k) \/ Gt(k) \/ Ge(k) \/ EqualM(k) \/ LessThanM(k)
        \/ \E d \in Offs : AddAssign(k, d) \/ SubAssign(k, d) \/ Plus(k, d) \/ PlusLeft(k, d) \/ Minus(k, d) \/ Index(k, d)
    \/ \E o \in {"eq", "ne", "lt", "le", "gt", "ge"} : ValueInit(o)

Spec == Init /\ [][Next]_ivars

----------------------------------------------------------------------------
(* representation invariants *)
RepInv == \A r \in {ra, rb} :
    /\ impl = "pair"     => r.x = r.y /\ r.x \in 0..n                     \* the two sub-iterators never disagree
    /\ impl = "bitset"   => r.c = 1 /\ r.x \in 0..n /\ n < M
    /\ impl = "stepping" => r.s = step /\ r.x % step = 0 /\ r.x \in 0..(n * step)
    /\ impl = "single"   => r.x \in 0..n
(* the harness's observers see the abstract position *)
ObserversAgree == \A r \in {ra, rb} :
    /\ CountOf(r) = AbsPos(r)
    /\ IsRa => DiffR(r, BeginR) = AbsPos(r) /\ DiffR(EndR, r) = n - AbsPos(r)

(* refinement: every L2 step is the L1 step of the same call *)
A == INSTANCE IterLaws WITH cfg <- AbsCfg, under <- AbsUnder, p <- AbsPos(ra), q <- AbsPos(rb),
                            Cfgs <- {}, WriteVals <- {}, EmitOps <- {}
StepRefines == LET k == last'.k  a == last'.a  o == last'.op IN
    /\ o = "PreInc"    => A!PreInc(k)
    /\ o = "PostInc"   => A!PostInc(k)
    /\ o = "PreDec"    => A!PreDec(k)
    /\ o = "PostDec"   => A!PostDec(k)
    /\ o = "Deref"     => A!Deref(k)
    /\ o = "Eq"        => A!Eq(k)
    /\ o = "Ne"        => A!Ne(k)
    /\ o = "Assign"    => A!Assign(k)
    /\ o = "AddAssign" => A!AddAssign(k, a.k)
    /\ o = "SubAssign" => A!SubAssign(k, a.k)
    /\ o = "Plus"      => A!Plus(k, a.k)
    /\ o = "PlusLeft"  => A!PlusLeft(k, a.k)
    /\ o = "Minus"     => A!Minus(k, a.k)
    /\ o = "Index"     => A!Index(k, a.k)
    /\ o = "Diff"      => A!Diff(k)
    /\ o = "Lt"        => A!Lt(k)
    /\ o = "Le"        => A!Le(k)
    /\ o = "Gt"        => A!Gt(k)
    /\ o = "Ge"        => A!Ge(k)
    /\ o = "EqualM"    => A!EqualM(k)
    /\ o = "LessThanM" => A!LessThanM(k)
    /\ o = "ValueInit" => A!ValueInit(a.o)
Refines == [][StepRefines]_ivars
=============================================================================

-------------------------- MODULE ComplexExactCheck --------------------------
(* C->S for ComplexExact: the table recorded from the real xcomplex operators (one row per case: the case and, for  *)
(* every operator variant the harness evaluated, both parts of the result as sign / exponent / mantissa limbs;       *)
(* row.r is a sequence of [v |-> variants with bit-identical results, z |-> that result]) is                          *)
(* validated by TLC: every row must be a case the specification admits, and every variant's result must be the exact *)
(* result (or, for a division by a divisor whose squared modulus is not a power of two, within Ulps ulps of it).     *)
(* Rows that fail are written out as JSON lines ("@BAD@...") and flagged in the state.                               *)
EXTENDS ComplexExact, TLC, Json, IOUtils

VARIABLES c, bad
Table == ndJsonDeserialize(IOEnv.TABLE)

(* operator variants: vv value (op) value, vc value (op)= value, rk T& (op) const T&, rc T& (op)= value, kv const T& (op) value, *)
(* vw / wv / wc: the two operands have different ieee_compliant flags (binary both ways, compound into the other flag)          *)
VariantsOf(f) == IF f \in CForms THEN {"vv", "vc", "rk", "rc", "kv", "vw", "wv", "wc"}
                 ELSE IF f \in RForms THEN {"vv", "vc", "rk", "rc", "kv", "wv"} ELSE {"vv", "rk", "kv", "wv"}
Evaluated(row) == UNION {{row.r[g].v[j] : j \in 1..Len(row.r[g].v)} : g \in 1..Len(row.r)}
KeyOf(row) == [t |-> row.t, b |-> row.b, f |-> row.f, x |-> row.x, m |-> row.m, y |-> row.y, k |-> row.k, st |-> row.st]
Failures(row) ==
    LET cc == KeyOf(row) IN
    IF ~Admissible(cc) THEN {[v |-> "-", part |-> 0, got |-> "-", exp |-> "not a case the specification admits"]}
    ELSE IF Evaluated(row) # VariantsOf(cc.f) THEN {[v |-> "-", part |-> 0, got |-> ToJson(Evaluated(row)), exp |-> "every operator variant of the form evaluated"]}
    ELSE LET e == Expected(cc)  r == ResultOf(cc) IN
         UNION { {[v |-> ToJson(row.r[g].v), part |-> i, got |-> ToJson(row.r[g].z[i]),
                   exp |-> ToJson(e[i]) \o (IF r.tol THEN " +- 4 ulp" ELSE "")] :
                     i \in {j \in 1..2 : ~(IF r.tol THEN FpNear(e[j], row.r[g].z[j], cc.t) ELSE FpEq(e[j], row.r[g].z[j]))}}
                 : g \in 1..Len(row.r) }
Report(key, fl) == fl = {} \/ PrintT("@BAD@" \o ToJson([key |-> key, fails |-> fl]))

Init == \E i \in 1..Len(Table) :
            LET row == Table[i]  fl == Failures(row) IN
            /\ c = KeyOf(row) /\ bad = (fl # {}) /\ Report(KeyOf(row), fl)
Next == UNCHANGED <<c, bad>>
Spec == Init /\ [][Next]_<<c, bad>>
Conforms == ~bad
=============================================================================

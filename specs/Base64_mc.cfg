SPECIFICATION Spec
CONSTANTS
  ByteReps <- BoundaryBytes
  MaxLen = 3
  TextReps <- BoundaryText
  MaxText = 4
INVARIANT Laws

SPECIFICATION Spec
CONSTANTS
  NReg = 3
  Vals <- ValsQuick
  MCKinds <- KindsCore
  Classes <- LiftedClasses
  MCFuns <- EveryFun
  Canonical = TRUE
  EmitOn = TRUE
ACTION_CONSTRAINT Emit

SPECIFICATION Spec
CONSTANTS
  Atoms <- Atoms3
  Probe = "D"
  MaxLen = 5
  MaxLen2 = 4
  LongLens <- Long58
  Templates <- TwoTmpl
  MaxPush = 2
  MaxCases = 3
  MaxComp = 4
  MaxMerge = 7
INVARIANT TypeOK
ACTION_CONSTRAINT Emit

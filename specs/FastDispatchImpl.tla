-------------------------- MODULE FastDispatchImpl --------------------------
(***************************************************************************)
(* L2 representation specification for C17: basic_fast_dispatcher behind   *)
(* functor_dispatcher, transcribed from include/xtl/xmultimethods.hpp.     *)
(*                                                                         *)
(*   idx[c]  the per-class static index (XTL_IMPLEMENT_INDEXABLE_CLASS):    *)
(*           MAX (= SIZE_MAX) until the class is first used in an insert,   *)
(*           process-global, shared by every level of the table;            *)
(*   next    m_next_index;                                                  *)
(*   cbs     m_callbacks: vectors nested cfg.ar deep; a leaf cell is EmptyCell (an *)
(*           empty std::function) or [h, sig] (the functor_dispatcher        *)
(*           lambda that casts the arguments to sig and calls handler h);    *)
(*   ub      ghost: a vector was indexed out of range (undefined behaviour). *)
(*                                                                         *)
(* TLC checks that every step is the L1 step of the same call under the     *)
(* abstraction AbsReg (the handler a tuple of classes reaches), for every   *)
(* registration history up to MaxHist, plus the representation invariants.  *)
(* This is advisory for verdicts (those come from Dispatch.tla only).       *)
(***************************************************************************)
EXTENDS Naturals, Sequences, FiniteSets, TLC

CONSTANTS Kinds, Arities, NXs, K,   \* executions the model checker starts (as in Dispatch)
          MaxHist,                  \* bound on the registration history
          HasErase,                 \* whether basic_fast_dispatcher has an erase member (the current tree has none:
                                    \* checks/c17.py probes this at compile time and picks the configuration)
          Mutation                  \* "none", or the name of a seeded transcription error (self-test of the refinement check)

VARIABLES cfg, idx, next, cbs, ub, what, hist, last, pre,
          areg     \* ghost: the abstraction AbsReg of the current representation (kept so that TLC computes it once per step)

ivars == <<cfg, idx, next, cbs, ub, what, hist, last, pre, areg>>
repview == <<cfg, idx, next, cbs, ub, Len(hist)>>

MAX == 255
ClsOf(o) == o \div 10
Tuples(ar, k) == CASE ar = 1 -> {<<a>> : a \in 1..k}
                   [] ar = 2 -> {<<a, b>> : a, b \in 1..k}
                   [] ar = 3 -> {<<a, b, c>> : a, b, c \in 1..k}
                   [] OTHER  -> {}
ClsTuple(os) == [i \in 1..Len(os) |-> ClsOf(os[i])]

----------------------------------------------------------------------------
(* std::vector<T>::resize(n): value-initialised new elements.  An element of a container at depth d
   (m_callbacks is depth 0) is a container, or a callback at the last level. *)
EmptyCell == [h |-> 0, sig |-> <<>>]          \* an empty std::function
Dflt(d) == IF d = cfg.ar - 1 THEN EmptyCell ELSE <<>>
Resize(c, n, dflt) == [i \in 1..n |-> IF i <= Len(c) THEN c[i] ELSE dflt]

(* insert_impl<d>: resize_container<d> then descend / store.  The class indices are references to
   the statics, so an index assigned at one level is seen by the next.  Returns the new container,
   indices, next index and the out-of-range flag. *)
RECURSIVE InsertImpl(_, _, _, _, _, _)
InsertImpl(c, d, t, cell, ix, nx) ==
    LET cls == t[d + 1]
        fresh == ix[cls] = MAX
        nx1 == IF fresh THEN nx + 1 ELSE nx                               \* c.resize(++m_next_index)
        c1  == IF fresh THEN (IF Mutation = "resize_by_one" THEN Resize(c, Len(c) + 1, Dflt(d)) ELSE Resize(c, nx1, Dflt(d)))
               ELSE IF (IF Mutation = "grow_lt" THEN Len(c) < ix[cls] ELSE Len(c) <= ix[cls])
                      THEN Resize(c, ix[cls] + 1, Dflt(d)) ELSE c          \* else if (c.size() <= idx) c.resize(idx + 1)
        ix1 == IF fresh THEN [ix EXCEPT ![cls] = Len(c1) - 1] ELSE ix     \* idx = c.size() - 1
        i   == ix1[cls] + 1                                               \* sequences are 1-based
        oob == i > Len(c1)
    IN IF oob THEN [c |-> c1, idx |-> ix1, next |-> nx1, ub |-> TRUE]
       ELSE IF d = cfg.ar - 1
         THEN [c |-> [c1 EXCEPT ![i] = cell], idx |-> ix1, next |-> nx1, ub |-> FALSE]
         ELSE LET r == InsertImpl(c1[i], d + 1, t, cell, ix1, nx1)
              IN [c |-> [c1 EXCEPT ![i] = r.c], idx |-> r.idx, next |-> r.next, ub |-> r.ub]

(* A hypothetical erase (the current tree has none, so HasErase = FALSE in every configuration the
   check uses today): clears the cell if it exists, assigns no index, grows nothing.  If a later tree
   gains erase and it differs from this, the advisory trace check reports MODEL-DRIFT. *)
RECURSIVE EraseImpl(_, _, _)
EraseImpl(c, d, t) ==
    LET i == idx[t[d + 1]] IN
    IF i >= Len(c) THEN c
    ELSE IF d = cfg.ar - 1 THEN [c EXCEPT ![i + 1] = EmptyCell]
    ELSE [c EXCEPT ![i + 1] = EraseImpl(c[i + 1], d + 1, t)]

(* dispatch_impl<d>: check_size then descend / call.  ixs = get_class_index() of each argument. *)
RECURSIVE Lookup(_, _, _)
Lookup(c, d, ixs) ==
    LET i == ixs[d + 1] IN
    IF (IF Mutation = "check_gt" THEN i > Len(c) ELSE i >= Len(c)) THEN [k |-> "runtime_error", cell |-> EmptyCell]     \* check_size
    ELSE IF i + 1 > Len(c) THEN [k |-> "ub", cell |-> EmptyCell]
    ELSE IF d = cfg.ar - 1
      THEN (IF c[i + 1].h = 0 THEN [k |-> "bad_function_call", cell |-> EmptyCell] ELSE [k |-> "ok", cell |-> c[i + 1]])
      ELSE Lookup(c[i + 1], d + 1, ixs)

(* abstraction: the handler that a tuple of classes reaches (0 = an error is reported) *)
ReachOf(cb, ix, t) == Lookup(cb, 0, [j \in 1..Len(t) |-> ix[t[j]]])
Reach(t) == ReachOf(cbs, idx, t)
AbsRegOf(cb, ix) == [t \in Tuples(cfg.ar, cfg.k) |-> LET r == ReachOf(cb, ix, t) IN IF r.k = "ok" THEN r.cell.h ELSE 0]
AbsReg == AbsRegOf(cbs, idx)

A == INSTANCE Dispatch WITH reg <- areg, MaxCells <- 999, OpClasses <- {}, EmitMode <- "none"

----------------------------------------------------------------------------
Insert(t, h) ==
    /\ t \in Tuples(cfg.ar, cfg.k)
    /\ LET r == InsertImpl(cbs, 0, t, [h |-> h, sig |-> t], idx, next) IN
        /\ cbs' = r.c /\ idx' = r.idx /\ next' = r.next /\ ub' = (ub \/ r.ub)
        /\ areg' = AbsRegOf(r.c, r.idx)
    /\ what' = ""
    /\ hist' = Append(hist, [op |-> "I", t |-> t, h |-> h])
    /\ pre' = [reg |-> areg]
    /\ last' = [op |-> "Insert", a |-> [t |-> t, h |-> h], res |-> A!Void]
    /\ cfg' = cfg

Erase(t) ==
    /\ HasErase
    /\ t \in Tuples(cfg.ar, cfg.k)
    /\ LET c2 == EraseImpl(cbs, 0, t) IN cbs' = c2 /\ areg' = AbsRegOf(c2, idx)
    /\ UNCHANGED <<idx, next, ub, cfg>>
    /\ what' = ""
    /\ hist' = Append(hist, [op |-> "E", t |-> t, h |-> 0])
    /\ pre' = [reg |-> areg]
    /\ last' = [op |-> "Erase", a |-> [t |-> t], res |-> A!Void]

(* the functor_dispatcher lambda casts every argument to the registered type: a dynamic_cast to a
   type the object is not fails with bad_cast; a static_cast "succeeds" (undefined behaviour) *)
IsA(c, d) == c = d \/ d \in A!Anc(c)
Dispatch(os, xs) ==
    /\ Len(os) = cfg.ar /\ Len(xs) = cfg.nx
    /\ LET r == Lookup(cbs, 0, [j \in 1..Len(os) |-> idx[ClsOf(os[j])]])
           castok == r.k = "ok" /\ \A j \in 1..Len(os) : IsA(ClsOf(os[j]), r.cell.sig[j])
       IN /\ what' = IF r.k = "ok" THEN (IF cfg.kind = "fast_dyn" /\ ~castok THEN "bad_cast" ELSE "") ELSE r.k
          /\ ub' = (ub \/ r.k = "ub" \/ (r.k = "ok" /\ cfg.kind = "fast_static" /\ ~castok))
          /\ last' = [op |-> "Dispatch", a |-> [os |-> os, xs |-> xs],
                      res |-> IF r.k = "ok" /\ (castok \/ cfg.kind = "fast_static")
                                THEN A!Handled(r.cell.h, r.cell.sig, os, xs, A!FunctorRet(r.cell.h, xs))
                                ELSE A!Err("exception", 0, 0)]
    /\ UNCHANGED <<idx, next, cbs, cfg, hist, areg>>
    /\ pre' = [reg |-> areg]

Init ==
    /\ cfg \in [kind : Kinds, ar : Arities, nx : NXs, k : {K}]
    /\ idx = [c \in 1..5 |-> MAX]
    /\ next = 0
    /\ cbs = <<>>
    /\ ub = FALSE
    /\ what = ""
    /\ hist = <<>>
    /\ last = [op |-> "Init", a |-> A!NoArg, res |-> A!Void]
    /\ areg = A!ZeroReg(cfg.ar, cfg.k)
    /\ pre = [reg |-> areg]

StdXs == [i \in 1..cfg.nx |-> i]
Next ==
    \/ \E t \in Tuples(cfg.ar, cfg.k) : Insert(t, Len(hist) + 1)
    \/ \E t \in Tuples(cfg.ar, cfg.k) : Erase(t)
    \/ \E t \in Tuples(cfg.ar, cfg.k) : Dispatch([j \in 1..cfg.ar |-> 10 * t[j]], StdXs)

Spec == Init /\ [][Next]_ivars
Bound == Len(hist) <= MaxHist

----------------------------------------------------------------------------
(* what TLC checks *)
RECURSIVE Shape(_, _)
Shape(c, d) == /\ Len(c) <= next
               /\ d < cfg.ar - 1 => \A i \in 1..Len(c) : Shape(c[i], d + 1)
Assigned == {c \in 1..5 : idx[c] # MAX}
RepInv ==
    /\ ~ub                                                        \* no vector is ever indexed out of range
    /\ \A c \in Assigned : idx[c] < next                          \* indices are below m_next_index ...
    /\ \A c, d \in Assigned : c # d => idx[c] # idx[d]            \* ... and distinct per class
    /\ Cardinality(Assigned) = next
    /\ Shape(cbs, 0)

(* an unregistered cell never reaches a handler, a registered one reaches exactly its own:
   the handler a tuple reaches is the one last inserted (and not erased) for that very tuple *)
CellExact ==
    /\ areg = AbsReg                                             \* the ghost is the abstraction
    /\ \A t \in Tuples(cfg.ar, cfg.k) : LET r == Reach(t) IN
          /\ areg[t] = A!LastAbout(hist, t)
          /\ r.k = "ok" => r.cell.sig = t
          /\ r.k # "ub"

StepRefines == LET a == last'.a  o == last'.op IN
    \/ o = "Insert"   /\ A!Insert(a.t, a.h)
    \/ o = "Erase"    /\ A!Erase(a.t)
    \/ o = "Dispatch" /\ A!Dispatch(a.os, a.xs)
Refines == [][StepRefines]_ivars
=============================================================================

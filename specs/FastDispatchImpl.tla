-------------------------- MODULE FastDispatchImpl --------------------------
(***************************************************************************)
(* L2 representation specification for C17: basic_fast_dispatcher behind   *)
(* functor_dispatcher, transcribed from include/xtl/xmultimethods.hpp.     *)
(*                                                                         *)
(*   idx[c]  the per-class static index (XTL_IMPLEMENT_INDEXABLE_CLASS):    *)
(*           MAX (= SIZE_MAX) until the class is first used in an insert,   *)
(*           process-global: shared by every level of the table AND by     *)
(*           every dispatcher object over the hierarchy;                    *)
(*   next, next2    m_next_index of the first / second dispatcher object;   *)
(*   cbs, cbs2      m_callbacks: vectors nested cfg.ar deep; a leaf cell is *)
(*           EmptyCell (an empty std::function) or [h, sig] (the             *)
(*           functor_dispatcher lambda that casts the arguments to sig and  *)
(*           calls handler h);                                              *)
(*   has2    the second object exists (it is an implicitly generated copy:  *)
(*           member-wise copy of m_callbacks and m_next_index);             *)
(*   ub      ghost: a vector was indexed out of range (undefined behaviour). *)
(*                                                                         *)
(* TLC checks that every step is the L1 step of the same call under the     *)
(* abstraction AbsReg (the handler a tuple of classes reaches), for every   *)
(* history up to MaxHist, plus the representation invariants.               *)
(* This is advisory for verdicts (those come from Dispatch.tla only).       *)
(***************************************************************************)
EXTENDS Naturals, Sequences, FiniteSets, TLC, Json

CONSTANTS Kinds, Arities, NXs, K,   \* executions the model checker starts (as in Dispatch)
          MaxHist,                  \* bound on the history
          HasErase,                 \* whether basic_fast_dispatcher has an erase member (the current tree has none:
                                    \* checks/c17.py probes this at compile time and picks the configuration)
          Copies,                   \* whether the copy / move / swap / destroy calls on a second object are explored
          Mutation                  \* "none", or the name of a seeded transcription error (self-test of the refinement check);
                                    \* "no_freeze" drops the environment assumption FreshOK (two live objects, new class);
                                    \* "two_fresh" is not an error but the advisory exploration of what the property statement
                                    \* excludes: a second, independently constructed fast dispatcher over the same hierarchy
                                    \* (New2), no environment assumption

VARIABLES cfg, idx, next, cbs, next2, cbs2, has2, ub, what, hist, last, pre,
          areg, areg2     \* ghosts: the abstraction AbsReg of the current representations (kept so that TLC computes them once per step)

ivars == <<cfg, idx, next, cbs, next2, cbs2, has2, ub, what, hist, last, pre, areg, areg2>>
repview == <<cfg, idx, next, cbs, next2, cbs2, has2, ub, Len(hist)>>

MAX == 255
ClsOf(o) == o \div 10
Range(s) == {s[i] : i \in 1..Len(s)}
Tuples(ar, k) == CASE ar = 1 -> {<<a>> : a \in 1..k}
                   [] ar = 2 -> {<<a, b>> : a, b \in 1..k}
                   [] ar = 3 -> {<<a, b, c>> : a, b, c \in 1..k}
                   [] OTHER  -> {}
ClsTuple(os) == [i \in 1..Len(os) |-> ClsOf(os[i])]

----------------------------------------------------------------------------
(* std::vector<T>::resize(n): value-initialised new elements.  An element of a container at depth d
   (m_callbacks is depth 0) is a container, or a callback at the last level. *)
EmptyCell == [h |-> 0, sig |-> <<>>]          \* an empty std::function
Dflt(d) == IF d = cfg.ar - 1 THEN EmptyCell ELSE <<>>
Resize(c, n, dflt) == [i \in 1..n |-> IF i <= Len(c) THEN c[i] ELSE dflt]

(* insert_impl<d>: resize_container<d> then descend / store.  The class indices are references to
   the statics, so an index assigned at one level is seen by the next.  Returns the new container,
   indices, next index and the out-of-range flag. *)
RECURSIVE InsertImpl(_, _, _, _, _, _)
InsertImpl(c, d, t, cell, ix, nx) ==
    LET cls == t[d + 1]
        fresh == ix[cls] = MAX
        nx1 == IF fresh THEN nx + 1 ELSE nx                               \* c.resize(++m_next_index)
        c1  == IF fresh THEN (IF Mutation = "resize_by_one" THEN Resize(c, Len(c) + 1, Dflt(d)) ELSE Resize(c, nx1, Dflt(d)))
               ELSE IF (IF Mutation = "grow_lt" THEN Len(c) < ix[cls] ELSE Len(c) <= ix[cls])
                      THEN Resize(c, ix[cls] + 1, Dflt(d)) ELSE c          \* else if (c.size() <= idx) c.resize(idx + 1)
        ix1 == IF fresh THEN [ix EXCEPT ![cls] = Len(c1) - 1] ELSE ix     \* idx = c.size() - 1
        i   == ix1[cls] + 1                                               \* sequences are 1-based
        oob == i > Len(c1)
    IN IF oob THEN [c |-> c1, idx |-> ix1, next |-> nx1, ub |-> TRUE]
       ELSE IF d = cfg.ar - 1
         THEN [c |-> [c1 EXCEPT ![i] = cell], idx |-> ix1, next |-> nx1, ub |-> FALSE]
         ELSE LET r == InsertImpl(c1[i], d + 1, t, cell, ix1, nx1)
              IN [c |-> [c1 EXCEPT ![i] = r.c], idx |-> r.idx, next |-> r.next, ub |-> r.ub]

(* A hypothetical erase (the current tree has none, so HasErase = FALSE in every configuration the
   check uses today): clears the cell if it exists, assigns no index, grows nothing.  If a later tree
   gains erase and it differs from this, the advisory trace check reports MODEL-DRIFT. *)
RECURSIVE EraseImpl(_, _, _)
EraseImpl(c, d, t) ==
    LET i == idx[t[d + 1]] IN
    IF i >= Len(c) THEN c
    ELSE IF d = cfg.ar - 1 THEN [c EXCEPT ![i + 1] = EmptyCell]
    ELSE [c EXCEPT ![i + 1] = EraseImpl(c[i + 1], d + 1, t)]

(* dispatch_impl<d>: check_size then descend / call.  ixs = get_class_index() of each argument. *)
RECURSIVE Lookup(_, _, _)
Lookup(c, d, ixs) ==
    LET i == ixs[d + 1] IN
    IF (IF Mutation = "check_gt" THEN i > Len(c) ELSE i >= Len(c)) THEN [k |-> "runtime_error", cell |-> EmptyCell]     \* check_size
    ELSE IF i + 1 > Len(c) THEN [k |-> "ub", cell |-> EmptyCell]
    ELSE IF d = cfg.ar - 1
      THEN (IF c[i + 1].h = 0 THEN [k |-> "bad_function_call", cell |-> EmptyCell] ELSE [k |-> "ok", cell |-> c[i + 1]])
      ELSE Lookup(c[i + 1], d + 1, ixs)

(* abstraction: the handler that a tuple of classes reaches (0 = an error is reported) *)
ReachOf(cb, ix, t) == Lookup(cb, 0, [j \in 1..Len(t) |-> ix[t[j]]])
Reach(t) == ReachOf(cbs, idx, t)
(* (with the dynamic caster a cell that belongs to other classes is not reached: the cast fails and the call reports an
   error; in every history the property statement covers a cell found for t was registered for t and the cast succeeds) *)
AncL(c) == CASE c = 4 -> {} [] c = 5 -> {1, 4} [] OTHER -> {4}
CastOK(t, sig) == \A j \in 1..Len(t) : t[j] = sig[j] \/ sig[j] \in AncL(t[j])
AbsRegOf(cb, ix) == [t \in Tuples(cfg.ar, cfg.k) |-> LET r == ReachOf(cb, ix, t) IN
                        IF r.k = "ok" /\ (cfg.kind # "fast_dyn" \/ CastOK(t, r.cell.sig)) THEN r.cell.h ELSE 0]
AbsReg == AbsRegOf(cbs, idx)
AbsReg2 == AbsRegOf(cbs2, idx)
Assigned == {c \in 1..5 : idx[c] # MAX}

A == INSTANCE Dispatch WITH reg <- areg, reg2 <- areg2, seen <- Assigned \cap (1..cfg.k),
                            MaxCells <- 999, OpClasses <- {}, EmitMode <- "none"

----------------------------------------------------------------------------
CbsOf(d) == IF d = 1 THEN cbs ELSE cbs2
NextOf(d) == IF d = 1 THEN next ELSE next2
Live(d) == d = 1 \/ (d = 2 /\ has2)
(* environment assumption (as in L1): while two objects are alive only classes that already have an index are registered *)
FreshOK(t) == Mutation \in {"no_freeze", "two_fresh"} \/ ~has2 \/ \A i \in 1..Len(t) : idx[t[i]] # MAX

Insert(d, t, h) ==
    /\ Live(d)
    /\ t \in Tuples(cfg.ar, cfg.k)
    /\ FreshOK(t)
    /\ LET r == InsertImpl(CbsOf(d), 0, t, [h |-> h, sig |-> t], idx, NextOf(d)) IN
        /\ idx' = r.idx /\ ub' = (ub \/ r.ub)
        /\ IF d = 1 THEN /\ cbs' = r.c /\ next' = r.next /\ UNCHANGED <<cbs2, next2>>
                         /\ areg' = AbsRegOf(r.c, r.idx) /\ areg2' = AbsRegOf(cbs2, r.idx)
                    ELSE /\ cbs2' = r.c /\ next2' = r.next /\ UNCHANGED <<cbs, next>>
                         /\ areg2' = AbsRegOf(r.c, r.idx) /\ areg' = AbsRegOf(cbs, r.idx)
    /\ what' = ""
    /\ hist' = Append(hist, [op |-> "I", d |-> d, t |-> t, h |-> h, how |-> ""])
    /\ pre' = [reg |-> areg, reg2 |-> areg2, has2 |-> has2]
    /\ last' = [op |-> "Insert", a |-> [d |-> d, t |-> t, h |-> h], res |-> A!Void]
    /\ UNCHANGED <<cfg, has2>>

Erase(d, t) ==
    /\ HasErase
    /\ Live(d)
    /\ t \in Tuples(cfg.ar, cfg.k)
    /\ LET c2 == EraseImpl(CbsOf(d), 0, t) IN
         IF d = 1 THEN cbs' = c2 /\ areg' = AbsRegOf(c2, idx) /\ UNCHANGED <<cbs2, areg2>>
                  ELSE cbs2' = c2 /\ areg2' = AbsRegOf(c2, idx) /\ UNCHANGED <<cbs, areg>>
    /\ UNCHANGED <<idx, next, next2, has2, ub, cfg>>
    /\ what' = ""
    /\ hist' = Append(hist, [op |-> "E", d |-> d, t |-> t, h |-> 0, how |-> ""])
    /\ pre' = [reg |-> areg, reg2 |-> areg2, has2 |-> has2]
    /\ last' = [op |-> "Erase", a |-> [d |-> d, t |-> t], res |-> A!Void]

(* the functor_dispatcher lambda casts every argument to the registered type: a dynamic_cast to a
   type the object is not fails with bad_cast; a static_cast "succeeds" (undefined behaviour) *)
IsA(c, d) == c = d \/ d \in A!Anc(c)
Dispatch(d, os, xs) ==
    /\ Live(d)
    /\ Len(os) = cfg.ar /\ Len(xs) = cfg.nx
    /\ LET r == Lookup(CbsOf(d), 0, [j \in 1..Len(os) |-> idx[ClsOf(os[j])]])
           castok == r.k = "ok" /\ \A j \in 1..Len(os) : IsA(ClsOf(os[j]), r.cell.sig[j])
       IN /\ what' = IF r.k = "ok" THEN (IF cfg.kind = "fast_dyn" /\ ~castok THEN "bad_cast" ELSE "") ELSE r.k
          /\ ub' = (ub \/ r.k = "ub" \/ (r.k = "ok" /\ cfg.kind = "fast_static" /\ ~castok))
          /\ last' = [op |-> "Dispatch", a |-> [d |-> d, os |-> os, xs |-> xs],
                      res |-> IF r.k = "ok" /\ (castok \/ cfg.kind = "fast_static")
                                THEN A!Handled(r.cell.h, r.cell.sig, os, xs, A!FunctorRet(r.cell.h, xs))
                                ELSE A!Err("exception", 0, 0)]
    /\ UNCHANGED <<idx, next, cbs, next2, cbs2, has2, cfg, hist, areg, areg2>>
    /\ pre' = [reg |-> areg, reg2 |-> areg2, has2 |-> has2]

(* implicitly generated copy / move operations: member-wise on m_callbacks and m_next_index; the class
   indices are statics and are not touched *)
Mut(op, a, c1, n1, c2, n2, h2, e) ==
    /\ cbs' = c1 /\ next' = n1 /\ cbs2' = c2 /\ next2' = n2 /\ has2' = h2
    /\ areg' = AbsRegOf(c1, idx) /\ areg2' = AbsRegOf(c2, idx)
    /\ UNCHANGED <<idx, ub, cfg>>
    /\ what' = ""
    /\ hist' = Append(hist, e)
    /\ pre' = [reg |-> areg, reg2 |-> areg2, has2 |-> has2]
    /\ last' = [op |-> op, a |-> a, res |-> A!Void]
Clone(how) ==
    /\ Copies
    /\ how \in A!CloneHows
    /\ how = "assign" => has2
    /\ Mut("Clone", [how |-> how], cbs, next, cbs, next, TRUE, [op |-> "C", d |-> 2, t |-> <<>>, h |-> 0, how |-> how])
Take(how) ==
    /\ Copies
    /\ how \in A!TakeHows
    /\ how # "self" => has2
    /\ LET e == [op |-> "T", d |-> 1, t |-> <<>>, h |-> 0, how |-> how] IN
       CASE how = "self" -> Mut("Take", [how |-> how], cbs, next, cbs2, next2, has2, e)
         [] how = "swap" -> Mut("Take", [how |-> how], cbs2, next2, cbs, next, has2, e)
         [] how \in {"move", "movector"} -> Mut("Take", [how |-> how], cbs2, next2, <<>>, 0, FALSE, e)
         [] OTHER -> Mut("Take", [how |-> how], cbs2, next2, cbs2, next2, has2, e)
(* a second dispatcher constructed on its own: empty m_callbacks, m_next_index = 0 - while the static class
   indices keep the values the first object gave them *)
New2 ==
    Mut("New2", A!NoArg, cbs, next, <<>>, 0, TRUE, [op |-> "N", d |-> 2, t |-> <<>>, h |-> 0, how |-> ""])
Drop2 ==
    /\ Copies
    /\ has2
    /\ Mut("Drop2", A!NoArg, cbs, next, <<>>, 0, FALSE, [op |-> "D", d |-> 2, t |-> <<>>, h |-> 0, how |-> ""])

Init ==
    /\ cfg \in [kind : Kinds, ar : Arities, nx : NXs, k : {K}, fl : {"exc"}]
    /\ idx = [c \in 1..5 |-> MAX]
    /\ next = 0 /\ next2 = 0
    /\ cbs = <<>> /\ cbs2 = <<>>
    /\ has2 = FALSE
    /\ ub = FALSE
    /\ what = ""
    /\ hist = <<>>
    /\ last = [op |-> "Init", a |-> A!NoArg, res |-> A!Void]
    /\ areg = A!ZeroReg(cfg.ar, cfg.k)
    /\ areg2 = A!ZeroReg(cfg.ar, cfg.k)
    /\ pre = [reg |-> areg, reg2 |-> areg2, has2 |-> has2]

StdXs == [i \in 1..cfg.nx |-> i]
SlotsLive == {d \in 1..2 : Live(d)}
Next ==
    \/ \E d \in SlotsLive, t \in Tuples(cfg.ar, cfg.k) : Insert(d, t, Len(hist) + 1)
    \/ \E d \in SlotsLive, t \in Tuples(cfg.ar, cfg.k) : Erase(d, t)
    \/ \E d \in SlotsLive, t \in Tuples(cfg.ar, cfg.k) : Dispatch(d, [j \in 1..cfg.ar |-> 10 * t[j]], StdXs)
    \/ \E how \in A!CloneHows : Clone(how)
    \/ \E how \in A!TakeHows : Take(how)
    \/ Drop2
    \/ (Mutation = "two_fresh" /\ New2)

Spec == Init /\ [][Next]_ivars
Bound == Len(hist) <= MaxHist

----------------------------------------------------------------------------
(* what TLC checks *)
RECURSIVE Shape(_, _, _)
Shape(c, d, n) == /\ Len(c) <= n
                  /\ d < cfg.ar - 1 => \A i \in 1..Len(c) : Shape(c[i], d + 1, n)
RepInv ==
    /\ ~ub                                                        \* no vector is ever indexed out of range
    /\ \A c \in Assigned : idx[c] < next \/ (has2 /\ idx[c] < next2)   \* indices are below m_next_index ...
    /\ \A c, d \in Assigned : c # d => idx[c] # idx[d]            \* ... and distinct per class
    /\ Cardinality(Assigned) = next
    /\ has2 => next2 = next                                       \* both objects agree about the next free index
    /\ Shape(cbs, 0, next) /\ Shape(cbs2, 0, next2)
    /\ ~has2 => cbs2 = <<>> /\ next2 = 0

(* an unregistered cell never reaches a handler, a registered one reaches exactly its own:
   the handler a tuple reaches is the one last inserted (and not erased) for that very tuple *)
CellExact ==
    /\ areg = AbsReg /\ areg2 = AbsReg2                           \* the ghosts are the abstraction
    /\ A!TablesAreHistory                                         \* ... and the abstraction is what the history says
    /\ \A t \in Tuples(cfg.ar, cfg.k) :
          /\ A!NoCopies(hist) => areg[t] = A!LastAbout(hist, t)
          /\ LET r == Reach(t) IN (r.k = "ok" => r.cell.sig = t) /\ r.k # "ub"
          /\ LET r == ReachOf(cbs2, idx, t) IN (r.k = "ok" => r.cell.sig = t) /\ r.k # "ub"

(* Advisory exploration (Mutation = "two_fresh"): the tuples whose reachable handler is not what the
   history of registrations says, per object.  TLC reports the shortest history that has one as a JSON
   line; checks/c17.py replays it on the real dispatchers. *)
Deviations == LET s == A!Replay(hist, A!ZeroReg(cfg.ar, cfg.k)) IN
    {<<1, t>> : t \in {u \in Tuples(cfg.ar, cfg.k) : areg[u] # s.r1[u]}} \cup
    {<<2, t>> : t \in {u \in Tuples(cfg.ar, cfg.k) : areg2[u] # s.r2[u]}}
NoDeviation == Deviations = {} \/ (PrintT("@W@" \o ToJson([cfg |-> cfg, hist |-> hist, dev |-> Deviations])) /\ FALSE)

StepRefines == LET a == last'.a  o == last'.op IN
    \/ o = "Insert"   /\ A!Insert(a.d, a.t, a.h)
    \/ o = "Erase"    /\ A!Erase(a.d, a.t)
    \/ o = "Dispatch" /\ A!Dispatch(a.d, a.os, a.xs)
    \/ o = "Clone"    /\ A!Clone(a.how)
    \/ o = "Take"     /\ A!Take(a.how)
    \/ o = "Drop2"    /\ A!Drop2
    \/ o = "New2"     /\ A!New2
Refines == [][StepRefines]_ivars
=============================================================================

SPECIFICATION Spec
CONSTANTS
  Kinds = {"fast_dyn", "fast_static"}
  Arities = {2}
  NXs = {0}
  K = 3
  MaxHist = 4
  HasErase = FALSE
  Copies = FALSE
  Mutation = "none"
CONSTRAINT Bound
VIEW repview
INVARIANTS RepInv CellExact
PROPERTIES Refines

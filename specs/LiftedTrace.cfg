SPECIFICATION TSpec
CONSTANTS
  NReg = 4
  Vals = {}
  MCKinds = {}
  Classes = {}
  MCFuns = {}
  MCHows = {}
  Canonical = FALSE
  AliasInit = FALSE
  EmitOn = FALSE
POSTCONDITION TraceAccepted
CHECK_DEADLOCK FALSE

SPECIFICATION TSpec
CONSTANTS
  NReg = 4
  Vals = {}
  MCKinds = {}
  Classes = {}
  MCFuns = {}
  Canonical = FALSE
  EmitOn = FALSE
POSTCONDITION TraceAccepted
CHECK_DEADLOCK FALSE

------------------------------- MODULE AnyMC -------------------------------
(***************************************************************************)
(* Model-checking instance of Any (L1).                                    *)
(*                                                                         *)
(* Any!CallOK is a predicate on a call with its element events; to let TLC *)
(* explore L1 on its own this module supplies a LIBERAL GENERATOR Ref: for *)
(* each call a set of outcomes [ev, res, a2] that covers every alternative *)
(* the standard allows and some implementation might choose:               *)
(*   - move construction / move assignment hands the object over (pointer  *)
(*     steal), relocates it (move-construct + destroy), leaves a moved-from*)
(*     object behind in the source, or (assignment) exchanges contents;    *)
(*   - swap exchanges pointers or relocates both objects;                  *)
(*   - self move-assignment keeps or drops the value;                      *)
(*   - any_cast<T>(any&&) copies or moves;                                 *)
(*   - with the fuse armed, the first throwing-capable constructor throws. *)
(* Every generated outcome must satisfy CallOK (Assert: the generator may  *)
(* not produce what the oracle rejects), so the reachable states are those *)
(* of "any conforming any", a superset of what xtl can reach (e.g. any     *)
(* objects containing a moved-from object).  The invariants and action     *)
(* properties of Any are checked on all of them.  States are kept in       *)
(* canonical form (Any!CanonA).                                            *)
(***************************************************************************)
EXTENDS Any

CONSTANTS Vals, Fuses, MCCastForms,
          CountOps     \* TRUE: write "op:outcome" of every transition (vacuity evidence of the thorough tier)

n1 == NA + 1
n2 == NA + 2
T(x) == lt.typ[x]
V(x) == lt.val[x]
DelIf(x) == IF Has(x) THEN <<EDtor(x, T(x))>> ELSE <<>>
Out(ev, res, a2) == [ev |-> ev, res |-> res, a2 |-> a2]
Upd(k, x) == [a EXCEPT ![k] = x]
Upd2(k, x, j, y) == [a EXCEPT ![k] = x, ![j] = y]
Relocatable(x) == T(x) # "STM"          \* nothrow move constructor: an implementation may move the object itself
FormKind(f) == IF f = "rv" THEN "move" ELSE "copy"

Ref(op, k, g) ==
    LET x == a[k]
        y == IF "j" \in DOMAIN g THEN a[g.j] ELSE EMPTY
        j == IF "j" \in DOMAIN g THEN g.j ELSE k
    IN
    CASE op = "DefaultConstruct" -> {Out(<<>>, NoRes, Upd(k, EMPTY))}
      [] op \in {"Construct", "AssignValue"} ->
            LET kind == FormKind(g.form)
                cap  == kind = "copy" \/ g.t = "STM"
                arg  == ECtor(n1, g.t, "value", 0, g.v)
            IN IF g.fuse = 1 /\ cap
                 THEN {Out(<<arg, EThrow(g.t, kind, n1), EDtor(n1, g.t)>>, FuseRes, a)}
                 ELSE {Out(<<arg, ECtor(n2, g.t, kind, n1, g.v)>> \o DelIf(x) \o <<EDtor(n1, g.t)>>, NoRes, Upd(k, n2))}
      [] op = "CopyConstruct" ->
            IF y = EMPTY THEN {Out(<<>>, NoRes, Upd(k, EMPTY))}
            ELSE IF g.fuse = 1 THEN {Out(<<EThrow(T(y), "copy", y)>>, FuseRes, a)}
            ELSE {Out(<<ECtor(n1, T(y), "copy", y, V(y))>>, NoRes, Upd(k, n1))}
      [] op = "MoveConstruct" ->
            IF y = EMPTY THEN {Out(<<>>, NoRes, Upd(k, EMPTY))}
            ELSE {Out(<<>>, NoRes, Upd2(k, y, j, EMPTY))}                                               \* steal
                 \cup (IF Relocatable(y)
                         THEN {Out(<<ECtor(n1, T(y), "move", y, V(y)), EDtor(y, T(y))>>, NoRes, Upd2(k, n1, j, EMPTY)),  \* relocate
                               Out(<<ECtor(n1, T(y), "move", y, V(y))>>, NoRes, Upd(k, n1))}                         \* leave moved-from
                         ELSE {})
      [] op = "CopyAssign" ->
            IF j = k THEN {Out(<<>>, NoRes, a)}
            ELSE IF y = EMPTY THEN {Out(DelIf(x), NoRes, Upd(k, EMPTY))}
            ELSE IF g.fuse = 1 THEN {Out(<<EThrow(T(y), "copy", y)>>, FuseRes, a)}
            ELSE {Out(<<ECtor(n1, T(y), "copy", y, V(y))>> \o DelIf(x), NoRes, Upd(k, n1))}
      [] op = "MoveAssign" ->
            IF j = k THEN {Out(<<>>, NoRes, a), Out(DelIf(x), NoRes, Upd(k, EMPTY))}
            ELSE IF y = EMPTY THEN {Out(DelIf(x), NoRes, Upd(k, EMPTY))}
            ELSE {Out(DelIf(x), NoRes, Upd2(k, y, j, EMPTY)),                                            \* steal
                  Out(<<>>, NoRes, Upd2(k, y, j, x))}                                                    \* exchange
                 \cup (IF Relocatable(y)
                         THEN {Out(<<ECtor(n1, T(y), "move", y, V(y))>> \o DelIf(x), NoRes, Upd(k, n1))}   \* leave moved-from
                         ELSE {})
      [] op \in {"Swap", "StdSwap"} ->
            {Out(<<>>, NoRes, Upd2(k, y, j, x))}
            \cup (IF j # k /\ Has(x) /\ Has(y) /\ Relocatable(x) /\ Relocatable(y)
                    THEN {Out(<<ECtor(n1, T(x), "move", x, V(x)), EDtor(x, T(x)), ECtor(n2, T(y), "move", y, V(y)), EDtor(y, T(y))>>,
                              NoRes, Upd2(k, n2, j, n1))}
                    ELSE {})
      [] op \in {"AReset", "AClear"} -> {Out(DelIf(x), NoRes, Upd(k, EMPTY))}
      [] op \in {"Destroy", "DestroyIf"} -> {Out(DelIf(x), NoRes, Upd(k, RAW))}
      [] op = "HasValue" -> {Out(<<>>, [NoRes EXCEPT !.v = IF Has(x) THEN 1 ELSE 0], a)}
      [] op = "Empty"    -> {Out(<<>>, [NoRes EXCEPT !.v = IF Has(x) THEN 0 ELSE 1], a)}
      [] op = "Type"     -> {Out(<<>>, [NoRes EXCEPT !.ty = IF Has(x) THEN T(x) ELSE "void"], a)}
      [] op = "Cast" ->
            LET hit == g.form \notin NullForms /\ Has(x) /\ T(x) = g.t IN
            IF ~hit THEN {Out(<<>>, IF g.form \in PtrForms \cup NullForms THEN NullRes ELSE BadCast, a)}
            ELSE IF g.form \notin ValForms THEN {Out(<<>>, [NoRes EXCEPT !.id = x, !.v = V(x)], a)}
            ELSE IF g.fuse = 1 THEN {Out(<<EThrow(T(x), "copy", x)>>, FuseRes, a)}
            ELSE {Out(<<ECtor(n1, T(x), "copy", x, V(x)), EDtor(n1, T(x))>>, [NoRes EXCEPT !.id = n1, !.v = V(x)], a)}
                 \cup (IF g.form = "v_r" /\ Relocatable(x)
                         THEN {Out(<<ECtor(n1, T(x), "move", x, V(x)), EDtor(n1, T(x))>>, [NoRes EXCEPT !.id = n1, !.v = V(x)], a)}
                         ELSE {})
      [] op = "SetVia" ->
            IF Has(x) /\ T(x) = g.t THEN {Out(<<ESet(x, g.t, g.v)>>, [NoRes EXCEPT !.id = x, !.v = g.v], a)}
            ELSE {Out(<<>>, NullRes, a)}
      [] OTHER -> {}

Do(op, k, g) ==
    /\ Pre(op, k, g)
    /\ \E o \in Ref(op, k, g) :
          /\ Assert(CallOK(op, k, g, o.ev, o.res, o.a2), <<"generator outcome rejected by L1", op, k, g, o>>)
          /\ a' = CanonA(o.a2)
          /\ lt' = CanonL(o.a2, Fold(lt, o.ev, 1).L)
          /\ last' = [op |-> op, k |-> k, a |-> g, ev |-> o.ev, res |-> o.res]
          /\ pre' = [a |-> a, lt |-> lt]

CastTargets == Types \cup {"Int"}

NDefaultConstruct == \E k \in Anys, f \in Fuses : Do("DefaultConstruct", k, [fuse |-> f])
NConstruct   == \E k \in Anys, f \in Fuses, t \in Types, v \in Vals, fm \in ValueForms : Do("Construct", k, [t |-> t, v |-> v, form |-> fm, fuse |-> f])
NAssignValue == \E k \in Anys, f \in Fuses, t \in Types, v \in Vals, fm \in ValueForms : Do("AssignValue", k, [t |-> t, v |-> v, form |-> fm, fuse |-> f])
NCopyConstruct == \E k \in Anys, f \in Fuses, j \in Anys : Do("CopyConstruct", k, [j |-> j, fuse |-> f])
NMoveConstruct == \E k \in Anys, f \in Fuses, j \in Anys : Do("MoveConstruct", k, [j |-> j, fuse |-> f])
NCopyAssign  == \E k \in Anys, f \in Fuses, j \in Anys : Do("CopyAssign", k, [j |-> j, fuse |-> f])
NMoveAssign  == \E k \in Anys, f \in Fuses, j \in Anys : Do("MoveAssign", k, [j |-> j, fuse |-> f])
NSwap        == \E k \in Anys, f \in Fuses, j \in Anys : Do("Swap", k, [j |-> j, fuse |-> f])
NStdSwap     == \E k \in Anys, f \in Fuses, j \in Anys : Do("StdSwap", k, [j |-> j, fuse |-> f])
NAReset      == \E k \in Anys, f \in Fuses : Do("AReset", k, [fuse |-> f])
NAClear      == \E k \in Anys, f \in Fuses : Do("AClear", k, [fuse |-> f])
NDestroy     == \E k \in Anys, f \in Fuses : Do("Destroy", k, [fuse |-> f])
NDestroyIf   == \E k \in Anys, f \in Fuses : Do("DestroyIf", k, [fuse |-> f])
NHasValue    == \E k \in Anys, f \in Fuses : Do("HasValue", k, [fuse |-> f])
NEmpty       == \E k \in Anys, f \in Fuses : Do("Empty", k, [fuse |-> f])
NType        == \E k \in Anys, f \in Fuses : Do("Type", k, [fuse |-> f])
NCast        == \E k \in Anys, f \in Fuses, t \in CastTargets, fm \in MCCastForms : Do("Cast", k, [t |-> t, form |-> fm, fuse |-> f])
NSetVia      == \E k \in Anys, f \in Fuses, t \in Types, v \in Vals : Do("SetVia", k, [t |-> t, v |-> v, fuse |-> f])

Next == \/ NDefaultConstruct \/ NConstruct \/ NAssignValue \/ NCopyConstruct \/ NMoveConstruct \/ NCopyAssign \/ NMoveAssign
        \/ NSwap \/ NStdSwap \/ NAReset \/ NAClear \/ NDestroy \/ NDestroyIf \/ NHasValue \/ NEmpty \/ NType \/ NCast \/ NSetVia

(* per-operation transition counts are collected from these lines *)
EmitOp == CountOps => PrintT("@O@" \o last'.op \o ":" \o last'.res.exc)

MCInit == InitWith(NA)
Spec == MCInit /\ [][Next]_vars

AllCastForms == CastForms
FewCastForms == {"p_m", "p_cc", "p_n", "v_m", "v_r", "r_mc"}

(* reachable: an any containing a moved-from (still live) object - the case xtl never produces *)
SomeMovedFromHeld == \E k \in Anys : Has(a[k]) /\ lt.val[a[k]] = MOVED
NeverMovedFromHeld == ~SomeMovedFromHeld        \* expected to be VIOLATED (sanity of the generator); not in the configs
=============================================================================

------------------------------- MODULE AnyMC -------------------------------
(***************************************************************************)
(* Model-checking instance of Any (L1).                                    *)
(*                                                                         *)
(* Any!CallOK is a predicate on a call with its element events; to let TLC *)
(* explore L1 on its own this module supplies a LIBERAL GENERATOR Ref: for *)
(* each call a set of outcomes [ev, res, S] that covers every alternative  *)
(* the standard allows and some implementation might choose:               *)
(*   - move construction / move assignment hands the object over (pointer  *)
(*     steal), relocates it (move-construct + destroy), leaves a moved-from*)
(*     object behind in the source, or (assignment) exchanges contents;    *)
(*   - swap exchanges pointers or relocates both objects;                  *)
(*   - self move-assignment keeps or drops the value;                      *)
(*   - any_cast<T>(any&&) copies or moves;                                 *)
(*   - with the fuse armed, the first throwing-capable constructor throws. *)
(* Every generated outcome must satisfy CallOK (Assert: the generator may  *)
(* not produce what the oracle rejects), so the reachable states are those *)
(* of "any conforming any", a superset of what xtl can reach (e.g. any     *)
(* objects containing a moved-from object).  The invariants and action     *)
(* properties of Any are checked on all of them.  States are kept in       *)
(* canonical form (Any!CanonA, CanonU).                                    *)
(***************************************************************************)
EXTENDS Any

CONSTANTS Vals, Fuses, MCCastForms,
          AFuses,      \* settings of the allocation-failure fuse explored (0 = none)
          CountOps     \* TRUE: write "op:outcome" of every transition (vacuity evidence of the thorough tier)

n1 == NA + 1
n2 == NA + 2
T(x) == lt.typ[x]
V(x) == lt.val[x]
DelIf(x) == IF Has(x) THEN <<EDtor(x, T(x))>> ELSE <<>>
St == [a |-> a, u |-> u]
Put(S, k, x, uu) == [a |-> [S.a EXCEPT ![k] = x], u |-> [S.u EXCEPT ![k] = uu]]
PutT(S, k, id) == Put(S, k, id, NoU)                       \* a tracked object / EMPTY / RAW
Cp(j, n) == [u[j] EXCEPT !.loc = n]                         \* an equal untracked object at a new place
Gone(j) == [u[j] EXCEPT !.v = MOVED]
Out(ev, res, S) == [ev |-> ev, res |-> res, S |-> S]
Relocatable(x) == T(x) # "STM"          \* nothrow move constructor: an implementation may move the object itself
MovableAway == {"Str", "Sp", "Nest", "Var"}    \* untracked types whose moved-from value differs from the original
FormKind(f) == IF f = "rv" THEN "move" ELSE "copy"
Capable(t, kind) == (kind = "copy" /\ t \notin NothrowCopy) \/ (kind = "move" /\ t = "STM")    \* can be made to throw
(* what is in any i, placed into any k at a fresh place n *)
Into(S, k, i, n) == IF a[i] = UNT THEN Put(S, k, UNT, Cp(i, n)) ELSE PutT(S, k, a[i])

Ref0(op, k, g) ==
    LET x == a[k]
        j == IF "j" \in DOMAIN g THEN g.j ELSE k
        y == a[j]
    IN
    CASE op = "DefaultConstruct" -> {Out(<<>>, NoRes, PutT(St, k, EMPTY))}
      [] op \in {"Construct", "AssignValue"} ->
            IF g.t \in UntrackedTypes
              THEN {Out(DelIf(x), NoRes, Put(St, k, UNT, [t |-> g.t, v |-> g.v, loc |-> n1]))}
              ELSE LET kind == FormKind(g.form)
                       arg  == ECtor(n1, g.t, "value", 0, g.v)
                   IN IF g.fuse = 1 /\ Capable(g.t, kind)
                        THEN {Out(<<arg, EThrow(g.t, kind, n1), EDtor(n1, g.t)>>, FuseRes, St)}
                        ELSE {Out(<<arg, ECtor(n2, g.t, kind, n1, g.v)>> \o DelIf(x) \o <<EDtor(n1, g.t)>>, NoRes, PutT(St, k, n2))}
      [] op = "CopyConstruct" ->
            IF y = EMPTY THEN {Out(<<>>, NoRes, PutT(St, k, EMPTY))}
            ELSE IF y = UNT THEN {Out(<<>>, NoRes, Put(St, k, UNT, Cp(j, n1)))}
            ELSE IF g.fuse = 1 /\ Capable(T(y), "copy") THEN {Out(<<EThrow(T(y), "copy", y)>>, FuseRes, St)}
            ELSE {Out(<<ECtor(n1, T(y), "copy", y, V(y))>>, NoRes, PutT(St, k, n1))}
      [] op = "MoveConstruct" ->
            IF y = EMPTY THEN {Out(<<>>, NoRes, PutT(St, k, EMPTY))}
            ELSE IF y = UNT
              THEN {Out(<<>>, NoRes, PutT(Put(St, k, UNT, Cp(j, n1)), j, EMPTY)),                               \* source left empty
                    Out(<<>>, NoRes, Put(Put(St, k, UNT, Cp(j, n1)), j, UNT,
                                         IF u[j].t \in MovableAway THEN Gone(j) ELSE u[j]))}                     \* source left holding a moved-from object
            ELSE {Out(<<>>, NoRes, PutT(PutT(St, k, y), j, EMPTY))}                                              \* steal
                 \cup (IF Relocatable(y)
                         THEN {Out(<<ECtor(n1, T(y), "move", y, V(y)), EDtor(y, T(y))>>, NoRes, PutT(PutT(St, k, n1), j, EMPTY)),  \* relocate
                               Out(<<ECtor(n1, T(y), "move", y, V(y))>>, NoRes, PutT(St, k, n1))}                         \* leave moved-from
                         ELSE {})
      [] op = "CopyAssign" ->
            IF j = k THEN {Out(<<>>, NoRes, St)}
            ELSE IF y = EMPTY THEN {Out(DelIf(x), NoRes, PutT(St, k, EMPTY))}
            ELSE IF y = UNT THEN {Out(DelIf(x), NoRes, Put(St, k, UNT, Cp(j, n1)))}
            ELSE IF g.fuse = 1 /\ Capable(T(y), "copy") THEN {Out(<<EThrow(T(y), "copy", y)>>, FuseRes, St)}
            ELSE {Out(<<ECtor(n1, T(y), "copy", y, V(y))>> \o DelIf(x), NoRes, PutT(St, k, n1))}
      [] op = "MoveAssign" ->
            IF j = k THEN {Out(<<>>, NoRes, St), Out(DelIf(x), NoRes, PutT(St, k, EMPTY))}
            ELSE IF y = EMPTY THEN {Out(DelIf(x), NoRes, PutT(St, k, EMPTY))}
            ELSE {Out(DelIf(x), NoRes, PutT(Into(St, k, j, n1), j, EMPTY)),                                      \* steal
                  Out(<<>>, NoRes, Into(Into(St, k, j, n1), j, k, n2))}                                          \* exchange
                 \cup (IF Has(y) /\ Relocatable(y)
                         THEN {Out(<<ECtor(n1, T(y), "move", y, V(y))>> \o DelIf(x), NoRes, PutT(St, k, n1))}   \* leave moved-from
                         ELSE {})
                 \cup (IF y = UNT /\ u[j].t \in MovableAway
                         THEN {Out(DelIf(x), NoRes, Put(Put(St, k, UNT, Cp(j, n1)), j, UNT, Gone(j)))}
                         ELSE {})
      [] op \in {"Swap", "StdSwap"} ->
            {Out(<<>>, NoRes, IF j = k THEN St ELSE Into(Into(St, k, j, n1), j, k, n2))}
            \cup (IF j # k /\ Has(x) /\ Has(y) /\ Relocatable(x) /\ Relocatable(y)
                    THEN {Out(<<ECtor(n1, T(x), "move", x, V(x)), EDtor(x, T(x)), ECtor(n2, T(y), "move", y, V(y)), EDtor(y, T(y))>>,
                              NoRes, PutT(PutT(St, k, n2), j, n1))}
                    ELSE {})
      [] op \in {"AReset", "AClear"} -> {Out(DelIf(x), NoRes, PutT(St, k, EMPTY))}
      [] op \in {"Destroy", "DestroyIf"} -> {Out(DelIf(x), NoRes, PutT(St, k, RAW))}
      [] op = "HasValue" -> {Out(<<>>, [NoRes EXCEPT !.v = IF x >= UNT THEN 1 ELSE 0], St)}
      [] op = "Empty"    -> {Out(<<>>, [NoRes EXCEPT !.v = IF x >= UNT THEN 0 ELSE 1], St)}
      [] op = "Type"     -> {Out(<<>>, [NoRes EXCEPT !.ty = IF Has(x) THEN T(x) ELSE IF x = UNT THEN u[k].t ELSE "void"], St)}
      [] op = "Cast" ->
            LET hit == g.form \notin NullForms /\ x >= UNT /\ (IF x = UNT THEN u[k].t ELSE T(x)) = g.t IN
            IF ~hit THEN {Out(<<>>, IF g.form \in PtrForms \cup NullForms THEN NullRes ELSE CastFails, St)}
            ELSE IF x = UNT
              THEN IF g.form \notin ValForms THEN {Out(<<>>, [NoRes EXCEPT !.loc = u[k].loc, !.v = u[k].v], St)}
                   ELSE {Out(<<>>, [NoRes EXCEPT !.v = u[k].v], St)}
                        \cup (IF g.form \in RvalForms /\ u[k].t \in MovableAway
                                THEN {Out(<<>>, [NoRes EXCEPT !.v = u[k].v], Put(St, k, UNT, Gone(k)))}
                                ELSE {})
            ELSE IF g.form \notin ValForms THEN {Out(<<>>, [NoRes EXCEPT !.id = x, !.v = V(x)], St)}
            ELSE IF g.fuse = 1 /\ Capable(T(x), "copy") THEN {Out(<<EThrow(T(x), "copy", x)>>, FuseRes, St)}
            ELSE {Out(<<ECtor(n1, T(x), "copy", x, V(x)), EDtor(n1, T(x))>>, [NoRes EXCEPT !.id = n1, !.v = V(x)], St)}
                 \cup (IF g.form \in RvalForms /\ Relocatable(x)
                         THEN {Out(<<ECtor(n1, T(x), "move", x, V(x)), EDtor(n1, T(x))>>, [NoRes EXCEPT !.id = n1, !.v = V(x)], St)}
                         ELSE {})
      [] op = "SetVia" ->
            IF x = UNT /\ u[k].t = g.t
              THEN {Out(<<>>, [NoRes EXCEPT !.loc = u[k].loc, !.v = g.v], Put(St, k, UNT, [u[k] EXCEPT !.v = g.v]))}
            ELSE IF Has(x) /\ T(x) = g.t THEN {Out(<<ESet(x, g.t, g.v)>>, [NoRes EXCEPT !.id = x, !.v = g.v], St)}
            ELSE {Out(<<>>, NullRes, St)}
      [] OTHER -> {}

(* with the allocation fuse armed the call may also end with bad_alloc before any payload object is made
   (after the caller's own value has been constructed, which is destroyed again) - or not allocate at all *)
AllocFail(op, k, g) ==
    LET j == IF "j" \in DOMAIN g THEN g.j ELSE k IN
    IF AF(g) = 0 \/ op \notin AllocatingOps THEN {}
    ELSE IF op \in {"Construct", "AssignValue"}
      THEN IF g.t \in UntrackedTypes THEN {Out(<<>>, AllocRes, St)}
           ELSE {Out(<<ECtor(n1, g.t, "value", 0, g.v), EDtor(n1, g.t)>>, AllocRes, St)}
    ELSE IF a[j] >= UNT /\ j # k THEN {Out(<<>>, AllocRes, St)}
    ELSE {}
(* a call on an any expression (ConstructFrom / AssignFrom) has the outcomes of the operation its category selects *)
Ref(op, k, g) == Ref0(EffOp(op, g), k, g) \cup AllocFail(EffOp(op, g), k, g)

Do(op, k, g) ==
    /\ Pre(op, k, g)
    /\ \E o \in Ref(op, k, g) :
          /\ Assert(CallOK(op, k, g, o.ev, o.res, o.S.a, o.S.u, SpcOf(o.S.a, o.S.u)), <<"generator outcome rejected by L1", op, k, g, o>>)
          /\ a' = CanonA(o.S.a)
          /\ u' = CanonU(o.S.a, o.S.u)
          /\ lt' = CanonL(o.S.a, Fold(lt, o.ev, 1).L)
          /\ env' = env
          /\ last' = [op |-> op, k |-> k, a |-> g, ev |-> o.ev, res |-> o.res]
          /\ pre' = [a |-> a, u |-> u, lt |-> lt]

CastTargets == Types \cup {"CharP"}

NDefaultConstruct == \E k \in Anys, f \in Fuses : Do("DefaultConstruct", k, [fuse |-> f])
NConstruct   == \E k \in Anys, f \in Fuses, af \in AFuses, t \in Types, v \in Vals, fm \in ValueForms \cup {"decay"} :
                    fm \in FormsOf(t) /\ Do("Construct", k, [t |-> t, v |-> v, form |-> fm, fuse |-> f, afuse |-> af])
NAssignValue == \E k \in Anys, f \in Fuses, af \in AFuses, t \in Types, v \in Vals, fm \in ValueForms \cup {"decay"} :
                    fm \in FormsOf(t) /\ Do("AssignValue", k, [t |-> t, v |-> v, form |-> fm, fuse |-> f, afuse |-> af])
NCopyConstruct == \E k \in Anys, f \in Fuses, af \in AFuses, j \in Anys : Do("CopyConstruct", k, [j |-> j, fuse |-> f, afuse |-> af])
NMoveConstruct == \E k \in Anys, f \in Fuses, j \in Anys : Do("MoveConstruct", k, [j |-> j, fuse |-> f])
NCopyAssign  == \E k \in Anys, f \in Fuses, af \in AFuses, j \in Anys : Do("CopyAssign", k, [j |-> j, fuse |-> f, afuse |-> af])
NMoveAssign  == \E k \in Anys, f \in Fuses, j \in Anys : Do("MoveAssign", k, [j |-> j, fuse |-> f])
NConstructFrom == \E k \in Anys, f \in Fuses, af \in AFuses, j \in Anys, c \in SrcCats :
                    (c = "rv" => af = 0) /\ Do("ConstructFrom", k, [j |-> j, cat |-> c, fuse |-> f, afuse |-> af])
NAssignFrom  == \E k \in Anys, f \in Fuses, af \in AFuses, j \in Anys, c \in SrcCats :
                    (c = "rv" => af = 0) /\ Do("AssignFrom", k, [j |-> j, cat |-> c, fuse |-> f, afuse |-> af])
NSwap        == \E k \in Anys, f \in Fuses, j \in Anys : Do("Swap", k, [j |-> j, fuse |-> f])
NStdSwap     == \E k \in Anys, f \in Fuses, j \in Anys : Do("StdSwap", k, [j |-> j, fuse |-> f])
NAReset      == \E k \in Anys, f \in Fuses : Do("AReset", k, [fuse |-> f])
NAClear      == \E k \in Anys, f \in Fuses : Do("AClear", k, [fuse |-> f])
NDestroy     == \E k \in Anys, f \in Fuses : Do("Destroy", k, [fuse |-> f])
NDestroyIf   == \E k \in Anys, f \in Fuses : Do("DestroyIf", k, [fuse |-> f])
NHasValue    == \E k \in Anys, f \in Fuses : Do("HasValue", k, [fuse |-> f])
NEmpty       == \E k \in Anys, f \in Fuses : Do("Empty", k, [fuse |-> f])
NType        == \E k \in Anys, f \in Fuses : Do("Type", k, [fuse |-> f])
NCast        == \E k \in Anys, f \in Fuses, t \in CastTargets, fm \in MCCastForms : Do("Cast", k, [t |-> t, form |-> fm, fuse |-> f])
NSetVia      == \E k \in Anys, f \in Fuses, t \in Types, v \in Vals : Do("SetVia", k, [t |-> t, v |-> v, fuse |-> f])

Next == \/ NDefaultConstruct \/ NConstruct \/ NAssignValue \/ NCopyConstruct \/ NMoveConstruct \/ NCopyAssign \/ NMoveAssign
        \/ NConstructFrom \/ NAssignFrom
        \/ NSwap \/ NStdSwap \/ NAReset \/ NAClear \/ NDestroy \/ NDestroyIf \/ NHasValue \/ NEmpty \/ NType \/ NCast \/ NSetVia

(* per-operation transition counts are collected from these lines; "u" marks a call on an any holding an untracked payload *)
EmitOp == CountOps => PrintT("@O@" \o last'.op \o ":" \o last'.res.exc
                             \o (IF last'.k \in Anys /\ a[last'.k] = UNT THEN ":u" ELSE ""))

MCInit == InitWith(NA)
Spec == MCInit /\ [][Next]_vars

AllCastForms == CastForms
FewCastForms == {"p_m", "p_cc", "p_n", "v_m", "v_r", "r_mc", "x_r"}

(* reachable: an any containing a moved-from (still live) object - the case xtl never produces *)
SomeMovedFromHeld == \E k \in Anys : Has(a[k]) /\ lt.val[a[k]] = MOVED
NeverMovedFromHeld == ~SomeMovedFromHeld        \* expected to be VIOLATED (sanity of the generator); not in the configs
=============================================================================

--------------------------- MODULE InstallPathTrace ---------------------------
(* Trace validation for C20: every line recorded from the helper program (built from the   *)
(* real xsystem.hpp / xplatform.hpp, installed and started as the configuration says) must  *)
(* be the corresponding action of InstallPath (L1) with the logged arguments, and the       *)
(* logged description of the returned strings must be the one the spec computes.            *)
EXTENDS InstallPath, IOUtils

VARIABLE l
JsonTrace == ndJsonDeserialize(IOEnv.TRACE)
ExplainAt == atoi(IOEnv.EXPLAIN)

TInit == /\ l = 1
         /\ base = <<>>
         /\ last = [op |-> "Init", k |-> 0, a |-> [z |-> 0], res |-> Void]

Dispatch(e) == LET a == e.a IN
    \/ e.op = "Reset"  /\ Reset(a.base)
    \/ e.op = "Run"    /\ Run(a.cfg, a.h)
    \/ e.op = "Endian" /\ Endian(a.mem)
    \/ e.op = "Blind"  /\ Blind(a.cfg)

TNext == /\ l <= Len(JsonTrace)
         /\ LET e == JsonTrace[l] IN
               /\ Dispatch(e)
               /\ IF l = ExplainAt THEN PrintT(<<"EXPECTED", last'.res>>)
                                   ELSE IF e.op = "Run" THEN Conforms(last'.res, e.res)
                                                        ELSE last'.res = e.res
         /\ l' = l + 1

TSpec == TInit /\ [][TNext]_<<vars, l>>
TraceAccepted == TLCGet("stats").diameter - 1 = Len(JsonTrace)
=============================================================================

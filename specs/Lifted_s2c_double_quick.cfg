SPECIFICATION Spec
CONSTANTS
  NReg = 3
  Vals <- ValsDoubleQuick
  MCKinds <- KindsDouble
  Classes <- DoubleClasses
  MCFuns <- EveryFun
  MCHows <- EveryHow
  Canonical = TRUE
  AliasInit = FALSE
  EmitOn = TRUE
ACTION_CONSTRAINT Emit

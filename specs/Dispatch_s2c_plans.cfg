\* S->C, plan-driven: reference instance of the configuration checks/c17.py generates next to a root
\* module "EXTENDS DispatchMC" that defines RunPlans (one record per dispatcher configuration).
\* With EmitMode <- ModeHist and VIEW histvars every complete history of each plan is written once;
\* with ModeEdges and VIEW absvars every (table, call) transition.
SPECIFICATION PSpec
CONSTANTS
  Kinds <- KNone
  Arities = {}
  NXs = {}
  K = 1
  MaxHist = 0
  MaxCells = 0
  OpClasses <- OpsHistIns
  EmitMode <- ModeHist
  Plans <- ExamplePlans
CONSTRAINT PBound
ACTION_CONSTRAINT PEmit
VIEW histvars

----------------------------- MODULE IterLawsMC -----------------------------
(* Model-checking instances of IterLaws: constant definitions that cannot be written in a .cfg *)
EXTENDS IterLaws
B == BOOLEAN
(* capability classes of the iterator kinds bound by the harness:                              *)
(*   bidirectional (key/value iterators, toys on xbidirectional_iterator_base[23]),             *)
(*   random access (bitset, optional, complex, stepping, toys on xrandom_access_iterator_base), *)
(*   random access + size_t extension (toys on xrandom_access_iterator_ext);                    *)
(*   each with/without assignable elements and with/without usable std::iterator_traits         *)
AllCfgs == {c \in [ra : B, ext : B, mut : B, std : B] : c.ext => c.ra}
(* the capability classes that occur among the bound kinds (checks/c12.py, KINDS) *)
C(ra, ext, mut, std) == [ra |-> ra, ext |-> ext, mut |-> mut, std |-> std]
KindCfgs == {C(TRUE, FALSE, TRUE, TRUE), C(TRUE, FALSE, FALSE, TRUE), C(TRUE, TRUE, TRUE, TRUE),
             C(FALSE, FALSE, TRUE, TRUE), C(FALSE, FALSE, FALSE, TRUE), C(FALSE, FALSE, TRUE, FALSE), C(FALSE, FALSE, FALSE, FALSE)}
OneVal  == {<<77>>}
NoEmit  == {}
AllOps  == {"PreInc", "PostInc", "PreDec", "PostDec", "Deref", "Arrow", "Eq", "Ne", "Assign",
            "AddAssign", "SubAssign", "Plus", "PlusLeft", "Minus", "Index", "Diff", "Lt", "Le", "Gt", "Ge",
            "PlusU", "PlusLeftU", "MinusU", "IndexU", "StdAdvance", "StdDistance", "StdNext", "StdPrev",
            "Write", "IndexWrite", "TraverseForward", "TraverseReverse", "Seat"}
(* S->C: Seat is the replay's own set-up step (every via is used there), not an enumerated transition *)
CallOps == AllOps \ {"Seat"}
=============================================================================

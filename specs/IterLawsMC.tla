----------------------------- MODULE IterLawsMC -----------------------------
(* Model-checking instances of IterLaws: constant definitions that cannot be written in a .cfg *)
EXTENDS IterLaws
B == BOOLEAN
(* capability classes of the iterator kinds bound by the harness:                              *)
(*   bidirectional (key/value iterators, toys on xbidirectional_iterator_base[23]),             *)
(*   random access (bitset, optional, complex, stepping, toys on xrandom_access_iterator_base), *)
(*   random access + size_t extension (toys on xrandom_access_iterator_ext);                    *)
(*   each with/without assignable elements and with/without usable std::iterator_traits         *)
AllCfgs == {c \in [ra : B, ext : B, mut : B, std : B, dc : B, stp : B] : (c.ext => c.ra) /\ (c.stp => c.ra)}
(* S->C enumerates the two maximal classes only: every flag does nothing but ENABLE operations (or traversal loops), so   *)
(* the transitions of a smaller class are those of the maximal class of the same ra whose operation needs only flags the   *)
(* class has; checks/c12.py filters them per kind (OP_NEEDS) and TLC re-checks enabledness with the kind's real flags      *)
(* when it validates the recorded trace.                                                                                    *)
(* quick tier: the theorems on six classes (flags switched together); the thorough tier takes all 40 *)
QuickCfgs == {c \in AllCfgs : c.mut = c.std /\ c.std = c.dc /\ c.ext = c.stp}
C(ra, ext, mut, std, dc, stp) == [ra |-> ra, ext |-> ext, mut |-> mut, std |-> std, dc |-> dc, stp |-> stp]
KindCfgs == {C(TRUE, TRUE, TRUE, TRUE, TRUE, TRUE), C(FALSE, FALSE, TRUE, TRUE, TRUE, FALSE)}
OneVal  == {<<77>>}
TwoVals == {<<77>>, <<2>>}
NoEmit  == {}
AllOps  == {"PreInc", "PostInc", "PreDec", "PostDec", "Deref", "Arrow", "Eq", "Ne", "Assign",
            "AddAssign", "SubAssign", "Plus", "PlusLeft", "Minus", "Index", "Diff", "Lt", "Le", "Gt", "Ge",
            "PlusU", "PlusLeftU", "MinusU", "IndexU", "StdAdvance", "StdDistance", "StdNext", "StdPrev",
            "Write", "IndexWrite", "TraverseForward", "TraverseReverse", "Seat",
            "StdCopy", "StdCopyBackward", "StdReverseCopy", "StdFind", "StdCount", "StdEqual", "StdLowerBound",
            "StdFill", "StdReverse", "StdSort", "ValueInit", "EqualM", "LessThanM",
            "PostIncDeref", "PostDecDeref", "DcAssign", "MultiPass", "StdRotate", "StdMinElement", "StdCopyWithin", "ToConst", "MixedCmp"}
(* S->C: Seat is the replay's own set-up step (every via is used there), not an enumerated transition *)
(* the mixed iterator/const_iterator expressions are bound by directed advisory scripts of the kinds that have a const twin *)
CallOps == AllOps \ {"Seat", "ToConst", "MixedCmp"}
=============================================================================

---------------------------- MODULE SpanModeCheck ----------------------------
(* C16: the effective contract-checking mode observed by harness/span/mode_probe.cpp (one row per build        *)
(* configuration: which macros were defined, NDEBUG, language level, and what each checked entry point did with *)
(* an out-of-range argument) against SpanMode.tla.  A row whose observed mode L1 does not allow ends the chain  *)
(* (the runner reports it); a row that differs from the documented default or from the transcription of the    *)
(* header prints DRIFT.                                                                                         *)
EXTENDS SpanMode, IOUtils

VARIABLE l
Rows == ndJsonDeserialize(IOEnv.TRACE)
ExplainAt == atoi(IOEnv.EXPLAIN)
SetOf(s) == {s[i] : i \in 1..Len(s)}
CfgOf(r) == [req |-> SetOf(r.req), ndebug |-> r.ndebug, cpp |-> r.cpp]

CInit == l = 1 /\ cfg = [req |-> {}, ndebug |-> FALSE, cpp |-> 14]
CNext ==
    /\ l <= Len(Rows)
    /\ LET r == Rows[l]  c == CfgOf(r) IN
        /\ cfg' = c
        /\ IF l = ExplainAt
             THEN PrintT(<<"EXPECTED", [allowed |-> Allowed(c), documented |-> Documented(c), header |-> Header(c)]>>)
             ELSE /\ r.observed \in Allowed(c)
                  /\ (r.observed \notin Documented(c) \/ r.observed # Header(c)) =>
                        PrintT(<<"DRIFT", l, r.observed, [documented |-> Documented(c), header |-> Header(c)]>>)
    /\ l' = l + 1
CSpec == CInit /\ [][CNext]_<<cfg, l>>
TraceAccepted == TLCGet("stats").diameter - 1 = Len(Rows)
=============================================================================

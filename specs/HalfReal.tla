------------------------------ MODULE HalfReal ------------------------------
(* Rigorous fixed-point "ball" arithmetic with TLC's 32-bit integers, and the  *)
(* elementary-function kernels built on it.  Variable-free.                    *)
(*                                                                             *)
(* binary16 arguments are dyadic rationals with 11-bit significands and a      *)
(* result only has to be decided to 11 bits, so the transcendental functions   *)
(* of C09 can be specified with integers: a real number is enclosed by a ball  *)
(*        [s, m, r]  :  | value - (-1)^s * m * RB^-n |  <=  r * RB^-n           *)
(* where m is a natural number held as a tuple of base-2^14 limbs (least       *)
(* significant first), r a small integer radius in units of the last place and *)
(* n the number of fraction limbs (the working precision, 14*n bits).  Every   *)
(* operation below returns a ball that contains the exact result for every     *)
(* choice of the operands inside their balls (outward rounding: truncation and *)
(* propagated radii are added to r); series are cut with a proven bound on the *)
(* tail, which is added to r as well.  Nothing is ever rounded to nearest.     *)
(*                                                                             *)
(* Limbs are base 2^14 so that a column of a schoolbook product of numbers of  *)
(* at most 8 limbs (8 * (2^14 - 1)^2 + carry) stays below 2^31.                 *)
EXTENDS HalfWide

RB == 16384
ZerosT == << 0, 0, 0, 0, 0, 0, 0, 0, 0, 0, 0, 0, 0, 0, 0, 0 >>

(* ======================================================================== *)
(* naturals: tuples of limbs, least significant first; trailing zero limbs   *)
(* are allowed                                                               *)
NLimb(a, i) == IF i >= 1 /\ i <= Len(a) THEN a[i] ELSE 0

RECURSIVE NTopR(_, _)
NTopR(a, i) == IF i = 0 THEN 0 ELSE IF a[i] # 0 THEN i ELSE NTopR(a, i - 1)
NTop(a)    == NTopR(a, Len(a))                       \* index of the highest non-zero limb, 0 for zero
NBitLen(a) == LET t == NTop(a) IN IF t = 0 THEN 0 ELSE 14 * (t - 1) + BitLen(a[t])
NIsZero(a) == NTop(a) = 0
NTrim(a)   == LET t == NTop(a) IN IF t = Len(a) THEN a ELSE SubSeq(a, 1, t)

(* 0 <= v < 2^31 *)
NFromInt(v) == IF v < RB THEN << v >> ELSE IF v < RB * RB THEN << v % RB, v \div RB >> ELSE << v % RB, (v \div RB) % RB, v \div (RB * RB) >>
(* a < 2^28 *)
NToInt(a) == IF NTop(a) > 2 THEN Assert(FALSE, << "NToInt: too wide", a >>) ELSE NLimb(a, 1) + RB * NLimb(a, 2)

RECURSIVE NAddR(_, _, _, _, _)
NAddR(a, b, i, c, n) ==
    IF i > n THEN (IF c = 0 THEN << >> ELSE << c >>)
    ELSE LET s == NLimb(a, i) + NLimb(b, i) + c IN << s % RB >> \o NAddR(a, b, i + 1, s \div RB, n)
NAdd(a, b) == NAddR(a, b, 1, 0, Max(Len(a), Len(b)))

(* a - b for a >= b *)
RECURSIVE NSubR(_, _, _, _, _)
NSubR(a, b, i, c, n) ==
    IF i > n THEN (IF c = 0 THEN << >> ELSE Assert(FALSE, << "NSub: negative result", a, b >>))
    ELSE LET s == NLimb(a, i) - NLimb(b, i) - c IN
         IF s < 0 THEN << s + RB >> \o NSubR(a, b, i + 1, 1, n) ELSE << s >> \o NSubR(a, b, i + 1, 0, n)
NSub(a, b) == NSubR(a, b, 1, 0, Max(Len(a), Len(b)))

RECURSIVE NCmpR(_, _, _)
NCmpR(a, b, i) == IF i = 0 THEN 0
                  ELSE LET x == NLimb(a, i)  y == NLimb(b, i) IN IF x < y THEN -1 ELSE IF x > y THEN 1 ELSE NCmpR(a, b, i - 1)
NCmp(a, b) == NCmpR(a, b, Max(Len(a), Len(b)))

(* a * k for 0 <= k <= 65536 *)
RECURSIVE NMulSmallR(_, _, _, _)
NMulSmallR(a, k, i, c) ==
    IF i > Len(a) THEN (IF c = 0 THEN << >> ELSE IF c < RB THEN << c >> ELSE << c % RB, c \div RB >>)
    ELSE LET p == a[i] * k + c IN << p % RB >> \o NMulSmallR(a, k, i + 1, p \div RB)
NMulSmall(a, k) == IF k < 0 \/ k > 65536 THEN Assert(FALSE, << "NMulSmall: factor", k >>) ELSE NMulSmallR(a, k, 1, 0)

(* floor(a / k): 1 <= k < 2^17 limb by limb; k < 2^24 in steps of 7 bits *)
RECURSIVE NDivSmallR(_, _, _, _)
NDivSmallR(a, k, i, rem) == IF i = 0 THEN << >>
                            ELSE LET cur == rem * RB + a[i] IN NDivSmallR(a, k, i - 1, cur % k) \o << cur \div k >>
RECURSIVE NDivBigR(_, _, _, _)
NDivBigR(a, k, i, rem) == IF i = 0 THEN << >>
                          ELSE LET c1 == rem * 128 + (a[i] \div 128)
                                   c2 == (c1 % k) * 128 + (a[i] % 128)
                               IN  NDivBigR(a, k, i - 1, c2 % k) \o << (c1 \div k) * 128 + (c2 \div k) >>
NDiv(a, k) == IF k < 1 \/ k >= 16777216 THEN Assert(FALSE, << "NDiv: divisor", k >>)
              ELSE IF k < 131072 THEN NDivSmallR(a, k, Len(a), 0) ELSE NDivBigR(a, k, Len(a), 0)

(* full product; both operands at most 8 limbs: a column is at most 8 * (2^14 - 1)^2 + carry (< 2^17) < 2^31 *)
RECURSIVE NColR(_, _, _, _, _)
NColR(a, b, k, i, hi) == IF i > hi THEN 0 ELSE a[i] * b[k + 1 - i] + NColR(a, b, k, i + 1, hi)
RECURSIVE NMulR(_, _, _, _, _)
NMulR(a, b, k, c, K) ==
    IF k > K THEN (IF c = 0 THEN << >> ELSE IF c < RB THEN << c >> ELSE << c % RB, c \div RB >>)
    ELSE LET s == NColR(a, b, k, Max(1, k + 1 - Len(b)), Min(Len(a), k)) + c IN << s % RB >> \o NMulR(a, b, k + 1, s \div RB, K)
NMul(a, b) == IF Len(a) = 0 \/ Len(b) = 0 THEN << >>
              ELSE IF Len(a) > 8 \/ Len(b) > 8 THEN Assert(FALSE, << "NMul: operand too long", a, b >>)
              ELSE NMulR(a, b, 1, 0, Len(a) + Len(b) - 1)

NDrop(a, n) == IF Len(a) <= n THEN << >> ELSE SubSeq(a, n + 1, Len(a))      \* floor(a / RB^n)
NUp(a, n)   == IF n = 0 THEN a ELSE SubSeq(ZerosT, 1, n) \o a                   \* a * RB^n
NShl(a, s)  == NUp(IF (s % 14) = 0 THEN a ELSE NMulSmall(a, Pow2(s % 14)), s \div 14)
NShr(a, s)  == LET d == NDrop(a, s \div 14) IN IF (s % 14) = 0 THEN d ELSE NDivSmallR(d, Pow2(s % 14), Len(d), 0)   \* floor

RECURSIVE NAnyNZ(_, _)
NAnyNZ(w, i) == IF i = 0 THEN FALSE ELSE w[i] # 0 \/ NAnyNZ(w, i - 1)
(* are any of the k low bits of w set *)
NLowNonzero(w, k) == NAnyNZ(w, Min(k \div 14, Len(w))) \/ ((NLimb(w, (k \div 14) + 1) % Pow2(k % 14)) # 0)

(* ======================================================================== *)
(* balls                                                                     *)
Ball(s, m, r) == [s |-> s, m |-> m, r |-> IF r >= 268435456 THEN Assert(FALSE, << "ball radius too large", r >>) ELSE r]
BZero      == [s |-> 0, m |-> << >>, r |-> 0]
BInt(v, n) == [s |-> 0, m |-> NUp(NFromInt(v), n), r |-> 0]              \* the integer 0 <= v < 2^31, exactly
BOne(n)    == BInt(1, n)
BNeg(x)    == [s |-> 1 - x.s, m |-> x.m, r |-> x.r]
BAbsS(x, s) == [s |-> s, m |-> x.m, r |-> x.r]

(* |x| < 2^BMag(x, n) for every value in the ball *)
BMag(x, n) == Max(NBitLen(x.m), BitLen(x.r)) + 1 - 14 * n
(* an integer >= r * 2^k *)
ScaleR(r, k) == IF r = 0 THEN 0
                ELSE IF k >= 0 THEN (IF k + BitLen(r) > 28 THEN Assert(FALSE, << "ScaleR overflow", r, k >>) ELSE r * Pow2(k))
                ELSE IF -k >= 31 THEN 1 ELSE (r \div Pow2(-k)) + 1

BAdd(x, y) ==
    IF x.s = y.s THEN Ball(x.s, NAdd(x.m, y.m), x.r + y.r)
    ELSE IF NCmp(x.m, y.m) >= 0 THEN Ball(x.s, NSub(x.m, y.m), x.r + y.r)
    ELSE Ball(y.s, NSub(y.m, x.m), x.r + y.r)
BSub(x, y) == BAdd(x, BNeg(y))

(* the product truncated to n fraction limbs: error < 1 ulp from the truncation plus the propagated radii *)
BMul(x, y, n) ==
    Ball((x.s + y.s) % 2, NTrim(NDrop(NMul(x.m, y.m), n)),
         IF x.r = 0 /\ y.r = 0 THEN 1 ELSE ScaleR(x.r, BMag(y, n)) + ScaleR(y.r, BMag(x, n)) + 2)

BMulSmall(x, k) == Ball(x.s, NMulSmall(x.m, k), x.r * k)                   \* 0 <= k <= 65536, exact
BDivSmall(x, k) == Ball(x.s, NDiv(x.m, k), x.r \div k + 2)                  \* 1 <= k < 2^24
BShl(x, b)  == IF b = 0 THEN x ELSE Ball(x.s, NShl(x.m, b), ScaleR(x.r, b))
BShr(x, b)  == IF b = 0 THEN x ELSE Ball(x.s, NShr(x.m, b), ScaleR(x.r, -b) + 1)
BScale2(x, k) == IF k >= 0 THEN BShl(x, k) ELSE BShr(x, -k)                 \* x * 2^k
(* p / q for naturals p < 2^31, 1 <= q < 2^24 *)
BRat(p, q, n) == Ball(0, NDiv(NUp(NFromInt(p), n), q), 1)
(* the same ball at one limb less precision *)
BLessLimb(x) == Ball(x.s, NDrop(x.m, 1), x.r \div RB + 2)

(* ======================================================================== *)
(* series.  Every loop stops when the current term is at most one unit of    *)
(* the last place; the tail is bounded by twice the first omitted term (the  *)
(* ratio of consecutive terms is at most 1/2 from there on, see each use).   *)
MaxTerms == 60
SmallTerm(t) == NBitLen(t.m) <= 1

(* sum_{k>=0} z^k / k!   for a ball z with |z| <= 1 *)
RECURSIVE ExpSerR(_, _, _, _, _)
ExpSerR(z, t, acc, k, n) ==
    LET t2 == BDivSmall(BMul(t, z, n), k) IN
    IF SmallTerm(t2) THEN Ball(acc.s, acc.m, acc.r + 2 * (1 + t2.r))
    ELSE IF k > MaxTerms THEN Assert(FALSE, "ExpSer: no convergence")
    ELSE ExpSerR(z, t2, BAdd(acc, t2), k + 1, n)
ExpSeries(z, n) == ExpSerR(z, BOne(n), BOne(n), 1, n)

(* c(u) = sum (-1)^k u^k / (2k)!  and  s(u) = sum (-1)^k u^k / (2k+1)!  (cos r = c(r^2), sin r = r s(r^2)),  *)
(* 0 <= u <= 3: from k = 2 on consecutive terms shrink by u / ((2k-1) 2k) <= 1/4                           *)
RECURSIVE TrigSerR(_, _, _, _, _, _, _)
TrigSerR(u, t, acc, k, n, odd, alt) ==
    LET d  == IF odd THEN (2 * k) * (2 * k + 1) ELSE (2 * k - 1) * (2 * k)
        t1 == BDivSmall(BMul(t, u, n), d)
        t2 == IF alt THEN BNeg(t1) ELSE t1
    IN  IF SmallTerm(t2) /\ k >= 2 THEN Ball(acc.s, acc.m, acc.r + 2 * (1 + t2.r))
        ELSE IF k > MaxTerms THEN Assert(FALSE, "TrigSer: no convergence")
        ELSE TrigSerR(u, t2, BAdd(acc, t2), k + 1, n, odd, alt)
CosSeries(u, n) == TrigSerR(u, BOne(n), BOne(n), 1, n, FALSE, TRUE)
SinSeries(u, n) == TrigSerR(u, BOne(n), BOne(n), 1, n, TRUE, TRUE)

(* g(w) = sum (+-1)^k w^k / (2k+1):  atan u = u g(u^2) (alternating), atanh u = u g(u^2) (all positive);     *)
(* 0 <= w <= 1/4: the tail after the term with w^k is below w^k / (1 - w) <= 2 w^k                           *)
RECURSIVE OddSerR(_, _, _, _, _, _)
OddSerR(w, p, acc, k, n, alt) ==
    LET p2 == BMul(p, w, n)
        t2 == BDivSmall(p2, 2 * k + 1)
    IN  IF SmallTerm(p2) THEN Ball(acc.s, acc.m, acc.r + 2 * (1 + p2.r))
        ELSE IF k > MaxTerms THEN Assert(FALSE, "OddSer: no convergence")
        ELSE OddSerR(w, p2, BAdd(acc, IF alt /\ (k % 2) = 1 THEN BNeg(t2) ELSE t2), k + 1, n, alt)
OddSeries(w, n, alt) == OddSerR(w, BOne(n), BOne(n), 1, n, alt)

(* h(x) = sum_{k>=0} x^k / (k+1)! = (e^x - 1) / x, and l(x) = sum (-x)^k / (k+1) = log(1+x) / x, for a signed ball |x| <= 1/4 *)
RECURSIVE Expm1SerR(_, _, _, _, _)
Expm1SerR(x, t, acc, k, n) ==
    LET t2 == BDivSmall(BMul(t, x, n), k + 1) IN
    IF SmallTerm(t2) THEN Ball(acc.s, acc.m, acc.r + 2 * (1 + t2.r))
    ELSE IF k > MaxTerms THEN Assert(FALSE, "Expm1Ser: no convergence")
    ELSE Expm1SerR(x, t2, BAdd(acc, t2), k + 1, n)
Expm1Series(x, n) == Expm1SerR(x, BOne(n), BOne(n), 1, n)

RECURSIVE Log1pSerR(_, _, _, _, _)
Log1pSerR(x, p, acc, k, n) ==
    LET p2 == BNeg(BMul(p, x, n))
        t2 == BDivSmall(p2, k + 1)
    IN  IF SmallTerm(p2) THEN Ball(acc.s, acc.m, acc.r + 2 * (1 + p2.r))
        ELSE IF k > MaxTerms THEN Assert(FALSE, "Log1pSer: no convergence")
        ELSE Log1pSerR(x, p2, BAdd(acc, t2), k + 1, n)
Log1pSeries(x, n) == Log1pSerR(x, BOne(n), BOne(n), 1, n)

(* ======================================================================== *)
(* reciprocal and square root by Newton iteration from a 13-bit start; the   *)
(* iteration is not trusted: the result's radius comes from the residual     *)
(* that is measured afterwards.                                              *)

(* 1 / b for a ball b with 1/2 <= b.m * RB^-n < 1 (positive, top bit at 2^-1), b.r small *)
RECURSIVE RecipIter(_, _, _, _)
RecipIter(bm, r, it, n) ==
    IF it = 0 THEN r
    ELSE LET t == NTrim(NDrop(NMul(bm, r), n))                     \* ~ 1
             two == NUp(<< 2 >>, n)
         IN  RecipIter(bm, NTrim(NDrop(NMul(r, NSub(two, t)), n)), it - 1, n)
RecipNorm(b, n) ==
    LET top == NToInt(NShr(b.m, 14 * n - 14))                       \* 8192 .. 16383
        r0  == NShl(<< 134217728 \div top >>, 14 * n - 13)            \* 2^27 / top * 2^-13 ~ 1 / b
        r   == RecipIter(b.m, r0, IF n <= 3 THEN 2 ELSE 3, n)
        t   == NTrim(NDrop(NMul(b.m, r), n))                        \* b.m * r, floor: true product in [t, t+1) ulps
        one == NUp(<< 1 >>, n)
        d   == IF NCmp(t, one) >= 0 THEN NSub(t, one) ELSE NSub(one, t)
        \* |1 - x r| <= D ulps for every x in the ball b (r < 2^1.1)
        D   == (IF NTop(d) > 1 THEN Assert(FALSE, << "Recip: residual", d >>) ELSE NLimb(d, 1)) + 1 + 3 * b.r
    IN  \* 1/x - r = r (1 - x r) / (x r),  x r >= 1 - D ulp >= 1/2, r <= 2.2:  |1/x - r| <= 2.2 * D / (1 - D ulp) < 3 D
        Ball(0, r, 3 * D + 1)

(* 1 / b for any positive ball b whose radius is far below its value *)
BRecip(b, n) ==
    LET L  == NBitLen(b.m)
        sh == 14 * n - L                                           \* b * 2^sh has its top bit at 2^-1
        bn == BScale2(b, sh)
        rn == RecipNorm(bn, n)
    IN  IF L < 20 \/ b.r * 4096 > 268435456 THEN Assert(FALSE, << "BRecip: operand too small or too vague", b >>)
        ELSE BAbsS(BScale2(rn, sh), b.s)                            \* 1/b = (1 / (b 2^sh)) * 2^sh
BDiv(a, b, n) == BMul(a, BRecip(b, n), n)

(* square root of a positive ball a with 1/4 <= a < 1: y ~ 1/sqrt(a) by Newton (y <- y (3 - a y^2) / 2), s = a y, *)
(* then the residual s^2 - a is measured: |s - sqrt(x)| = |s^2 - x| / (s + sqrt x) <= |s^2 - x| / (2 * 0.49)        *)
RECURSIVE RsqrtIter(_, _, _, _)
RsqrtIter(am, y, it, n) ==
    IF it = 0 THEN y
    ELSE LET y2 == NTrim(NDrop(NMul(y, y), n))
             t  == NTrim(NDrop(NMul(am, y2), n))                    \* ~ 1
             three == NUp(<< 3 >>, n)
         IN  RsqrtIter(am, NShr(NTrim(NDrop(NMul(y, NSub(three, t)), n)), 1), it - 1, n)
SqrtNorm(a, n) ==
    LET top == NToInt(NShr(a.m, 14 * n - 14))                       \* 4096 .. 16383: a ~ top / 2^14
        s0  == ISqrt(top * 16384)                                  \* ~ sqrt(a) * 2^14, 8192 .. 16383
        y0  == NShl(<< 134217728 \div s0 >>, 14 * n - 13)             \* ~ 1 / sqrt(a)
        y   == RsqrtIter(a.m, y0, IF n <= 3 THEN 2 ELSE 3, n)
        s   == NTrim(NDrop(NMul(a.m, y), n))
        s2  == NTrim(NDrop(NMul(s, s), n))                          \* floor: true s^2 in [s2, s2 + 1) ulps
        d   == IF NCmp(s2, a.m) >= 0 THEN NSub(s2, a.m) ELSE NSub(a.m, s2)
        D   == (IF NTop(d) > 1 THEN Assert(FALSE, << "Sqrt: residual", d >>) ELSE NLimb(d, 1)) + 1 + a.r
    IN  Ball(0, s, D + D \div 32 + 1)                               \* D / 0.98
(* sqrt of any positive ball *)
BSqrt(a, n) ==
    LET L  == NBitLen(a.m)
        s0 == 14 * n - L
        sh == IF (s0 % 2) = 0 THEN s0 ELSE s0 - 1                     \* even; a * 2^sh in [1/4, 1)
        an == BScale2(a, sh)
    IN  IF L < 20 \/ a.s = 1 THEN Assert(FALSE, << "BSqrt: operand", a >>)
        ELSE BScale2(SqrtNorm(an, n), -(sh \div 2))

(* ======================================================================== *)
(* constants, each computed by a series at the precision asked for           *)
(* log 2 = 2 atanh(1/3);  log 10 = 3 log 2 + 2 atanh(1/9);  pi = 16 atan(1/5) - 4 atan(1/239) (Machin)       *)
AtanhRat(p, q, n) == BMul(BRat(p, q, n), OddSeries(BRat(p * p, q * q, n), n, FALSE), n)      \* p/q <= 1/2, q < 2^12
AtanRat(p, q, n)  == BMul(BRat(p, q, n), OddSeries(BRat(p * p, q * q, n), n, TRUE), n)
Ln2At(n)  == BMulSmall(AtanhRat(1, 3, n), 2)
Ln10At(n) == BAdd(BMulSmall(Ln2At(n), 3), BMulSmall(AtanhRat(1, 9, n), 2))
PiAt(n)   == BSub(BMulSmall(AtanRat(1, 5, n), 16), BMulSmall(AtanRat(1, 239, n), 4))

(* the working precisions: NLo fraction limbs first, NHi when that does not decide; constants are computed   *)
(* with one more limb and cut back, so that their radius is 2 ulps                                            *)
NLo == 3
NHi == 5
Ln2Lo  == BLessLimb(Ln2At(NLo + 1))
Ln2Hi  == BLessLimb(Ln2At(NHi + 1))
Ln10Lo == BLessLimb(Ln10At(NLo + 1))
Ln10Hi == BLessLimb(Ln10At(NHi + 1))
PiLo   == BLessLimb(PiAt(NLo + 1))
PiHi   == BLessLimb(PiAt(NHi + 1))
Ln2(n)  == IF n = NLo THEN Ln2Lo ELSE IF n = NHi THEN Ln2Hi ELSE Ln2At(n)
Ln10(n) == IF n = NLo THEN Ln10Lo ELSE IF n = NHi THEN Ln10Hi ELSE Ln10At(n)
Pi(n)   == IF n = NLo THEN PiLo ELSE IF n = NHi THEN PiHi ELSE PiAt(n)
InvLn2Lo  == BRecip(Ln2Lo, NLo)
InvLn2Hi  == BRecip(Ln2Hi, NHi)
InvLn10Lo == BRecip(Ln10Lo, NLo)
InvLn10Hi == BRecip(Ln10Hi, NHi)
(* 2/pi with one limb more than the working precision (fraction limbs NLo+1 / NHi+1): the argument reduction of  *)
(* sin / cos / tan multiplies it by up to 2^16                                                                     *)
TwoOverPiLoX == BLessLimb(BShl(BRecip(PiAt(NLo + 2), NLo + 2), 1))
TwoOverPiHiX == BLessLimb(BShl(BRecip(PiAt(NHi + 2), NHi + 2), 1))
InvLn2(n)   == IF n = NLo THEN InvLn2Lo ELSE IF n = NHi THEN InvLn2Hi ELSE BRecip(Ln2At(n), n)
InvLn10(n)  == IF n = NLo THEN InvLn10Lo ELSE IF n = NHi THEN InvLn10Hi ELSE BRecip(Ln10At(n), n)
TwoOverPiX(n) == IF n = NLo THEN TwoOverPiLoX ELSE IF n = NHi THEN TwoOverPiHiX ELSE BShl(BRecip(PiAt(n + 1), n + 1), 1)
PiHalf(n)   == BShr(Pi(n), 1)

(* atan(k/8), k = 0..8, by atan(k/8) = atan((k-1)/8) + atan(8 / (64 + k(k-1))) *)
RECURSIVE AtanTabR(_, _, _, _)
AtanTabR(prev, acc, k, n) ==
    IF k > 8 THEN acc
    ELSE LET v == BAdd(prev, AtanRat(8, 64 + k * (k - 1), n)) IN AtanTabR(v, Append(acc, v), k + 1, n)
AtanTabAt(n) == AtanTabR(BZero, << >>, 1, n)
AtanTabLo == AtanTabAt(NLo)
AtanTabHi == AtanTabAt(NHi)
AtanEighth(k, n) == IF k = 0 THEN BZero ELSE (IF n = NLo THEN AtanTabLo ELSE IF n = NHi THEN AtanTabHi ELSE AtanTabAt(n))[k]

=============================================================================

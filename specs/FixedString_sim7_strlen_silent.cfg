SPECIFICATION Spec
CONSTANTS
  Caps = {7}
  Policies = {"silent"}
  Layouts = {"strlen"}
  Chars <- Chars012
  Lits <- Lits7
  PosDom <- Pos7
  SubDom <- SubFew7
  Targets = {1, 2}
  OtherInit <- NoOther
  Classes <- AllClasses
  EmitOps <- NoEmit

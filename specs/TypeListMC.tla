----------------------------- MODULE TypeListMC -----------------------------
(* Model-checking instance of TypeList: constants that cannot be written in a .cfg, *)
(* and the theorems of the spec checked once, at start-up, over all enumerated lists. *)
EXTENDS TypeList
Atoms3    == <<"A", "B", "C">>
Long59    == {5, 6, 9, 17, 40}
Long58    == {5, 6, 7, 8, 9, 12, 16, 17, 33, 64}
TwoTmpl   == {"vector", "other"}
ASSUME Laws
=============================================================================

SPECIFICATION Spec
CONSTANTS
  NReg = 2
  Vals <- ValsTiny
  MCKinds <- KindsRef
  Classes <- AliasClasses
  MCFuns <- FewerFuns
  MCHows <- EveryHow
  Canonical = FALSE
  AliasInit = TRUE
  EmitOn = TRUE
ACTION_CONSTRAINT Emit

\* advisory: two independently constructed fast dispatchers over one hierarchy (the statement assumes one);
\* TLC reports the shortest history after which some tuple reaches a handler its object's history does not give it
SPECIFICATION Spec
CONSTANTS
  Kinds = {"fast_dyn"}
  Arities = {1}
  NXs = {0}
  K = 2
  MaxHist = 4
  HasErase = FALSE
  Copies = FALSE
  Mutation = "two_fresh"
CONSTRAINT Bound
VIEW repview
INVARIANTS NoDeviation

----------------------------- MODULE SpanTrace -----------------------------
(* Trace validation for C16: every line of the ndjson trace recorded from real xtl::span   *)
(* objects must be a step of Span (L1) with the logged arguments, and the logged result    *)
(* and the full projection (parent cells, every stacked view) must be the specification's. *)
EXTENDS Span, IOUtils

VARIABLE l     \* next line of the trace to be explained

JsonTrace == ndJsonDeserialize(IOEnv.TRACE)
ExplainAt == atoi(IOEnv.EXPLAIN)

TInit ==
    /\ l = 1
    /\ mode = "unchecked"
    /\ esz = 4
    /\ mk = "heap"
    /\ parent = <<>>
    /\ views = <<>>
    /\ last = [op |-> "Init", a |-> NoArg, res |-> Void]
    /\ pre = [parent |-> <<>>, views |-> <<>>, mk |-> "heap"]

(* a new execution: the mode of the driver's build configuration (SpanMode.tla), the size of its element type, *)
(* empty heap memory, no views                                                                                *)
TReset(e) ==
    /\ e.a.mode \in AllModes /\ e.a.esz \in 1..64
    /\ mode' = e.a.mode /\ esz' = e.a.esz
    /\ mk' = "heap" /\ parent' = <<>> /\ views' = <<>>
    /\ pre' = [parent |-> parent, views |-> views, mk |-> mk]
    /\ last' = [op |-> "Reset", a |-> [z |-> 0], res |-> Void]

Dispatch(e) == LET a == e.a IN
    \/ e.op = "Reset"         /\ TReset(e)
    \/ e.op = "Mem"           /\ Mem(a.kind, a.cells)
    \/ e.op = "FromPtrCount"  /\ FromPtrCount(a.po, a.cnt, a.ext, a.c)
    \/ e.op = "FromPtrPair"   /\ FromPtrPair(a.po, a.cnt, a.ext, a.c)
    \/ e.op = "FromArray"     /\ FromArray(a.ext, a.c)
    \/ e.op = "FromStdArray"  /\ FromStdArray(a.ext, a.c)
    \/ e.op = "FromContainer" /\ FromContainer(a.ext, a.c)
    \/ e.op = "MakeSpan"      /\ MakeSpan(a.c)
    \/ e.op = "Deduce"        /\ Deduce(a.c)
    \/ e.op = "Default"       /\ Default(a.ext, a.c)
    \/ e.op = "Copy"          /\ Copy(a.s, a.how)
    \/ e.op = "Convert"       /\ Convert(a.s, a.ext, a.c)
    \/ e.op = "First"         /\ First(a.s, a.c)
    \/ e.op = "Last"          /\ Last(a.s, a.c)
    \/ e.op = "Subspan"       /\ Subspan(a.s, a.o, a.c)
    \/ e.op = "Subspan1"      /\ Subspan1(a.s, a.o)
    \/ e.op = "Nm"            /\ Nm(a.fn, a.o, a.c)
    \/ e.op = "FirstS"        /\ FirstS(a.s, a.C)
    \/ e.op = "LastS"         /\ LastS(a.s, a.C)
    \/ e.op = "SubspanS"      /\ SubspanS(a.s, a.O, a.C)
    \/ e.op = "NmS"           /\ NmS(a.fn, a.O, a.C)
    \/ e.op = "Bind"          /\ Bind(a.s)
    \/ e.op = "Index"         /\ Index(a.s, a.how, a.i)
    \/ e.op = "At"            /\ At(a.s, a.i)
    \/ e.op = "Front"         /\ Front(a.s)
    \/ e.op = "Back"          /\ Back(a.s)
    \/ e.op = "Write"         /\ Write(a.s, a.path, a.i, a.x)
    \/ e.op = "Cmp"           /\ Cmp(a.s, a.t)
    \/ e.op = "AsBytes"       /\ AsBytes(a.s, a.w)

TNext ==
    /\ l <= Len(JsonTrace)
    /\ LET e == JsonTrace[l] IN
        /\ Dispatch(e)
        /\ IF l = ExplainAt
             THEN PrintT(<<"EXPECTED", last'.res, ProjAll'>>)
             ELSE /\ last'.res = e.res
                  /\ ProjAll' = e.st
    /\ l' = l + 1

TSpec == TInit /\ [][TNext]_<<vars, l>>
TraceAccepted == TLCGet("stats").diameter - 1 = Len(JsonTrace)
=============================================================================

SPECIFICATION Spec
CONSTANT YS <- YQuick
CONSTANT Stride = 64
INVARIANT Laws09
CHECK_DEADLOCK FALSE

SPECIFICATION TSpec
CONSTANTS
  Atoms <- CheckAtoms
  Probe = "D"
  MaxLen = 0
  MaxLen2 = 0
  LongLens = {}
  Templates = {}
  MaxPush = 0
  MaxCases = 1
  MaxComp = 0
  MaxMerge = 0
POSTCONDITION TraceAccepted
CHECK_DEADLOCK FALSE

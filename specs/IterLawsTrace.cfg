SPECIFICATION TSpec
CONSTANTS
  MaxN = 0
  Steps = {}
  Cfgs = {}
  WriteVals = {}
  EmitOps = {}
POSTCONDITION TraceAccepted
CHECK_DEADLOCK FALSE

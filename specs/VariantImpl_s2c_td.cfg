SPECIFICATION Spec
CONSTANTS
  TrackedAlts = {0, 1, 2}
  NTMAlts = {1, 3}
  Strict = TRUE
  Vals = {1}
  MaxFuse = 3
  MaxEv = 0
  CallSet <- MCCalls
  EmitOn = TRUE
VIEW iview
ACTION_CONSTRAINT Emit

\* L1 theorems on every (table, call) pair of one dispatcher object: three classes, arities 1..3
SPECIFICATION Spec
CONSTANTS
  Kinds <- KMapFast
  Arities = {1, 2, 3}
  NXs = {0, 1, 3}
  K = 3
  MaxHist = 100
  MaxCells = 2
  OpClasses <- OpsTable
  EmitMode <- ModeNone
  Plans <- NoPlans
CONSTRAINT Bound
VIEW absvars
INVARIANTS TypeOK OutcomeOK DispatchExact
PROPERTIES LookupsPure OneCell CopiesAreValues

SPECIFICATION Spec
CONSTANTS
  Kinds <- KMapDyn
  Arities = {1, 2, 3}
  NXs = {0, 1, 2}
  K = 3
  MaxHist = 100
  MaxCells = 2
  OpClasses <- OpsTable
  EmitMode <- ModeNone
CONSTRAINT Bound
VIEW absvars
INVARIANTS TypeOK OutcomeOK DispatchExact
PROPERTIES LookupsPure OneCell

SPECIFICATION Spec
CONSTANTS
  W = 2
  MaxBits = 5
  MaxShift = 6
  MoveKeepsSize = FALSE
  ObserveMoved = TRUE
  Targets <- OnlyFirst
  SplitNext = TRUE
  OtherSeqs <- AllOther
CONSTRAINT SizeBound
VIEW absview
INVARIANTS RepInv ObserversAgree
PROPERTIES Refines

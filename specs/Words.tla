------------------------------- MODULE Words -------------------------------
(***************************************************************************)
(* Variable-free fixed-width machine words for the hash specifications      *)
(* (C14).  TLC integers are 32 bit, so a w-bit word is a little-endian      *)
(* sequence of digits.                                                      *)
(*                                                                          *)
(* Internal form: base-256 digits ("bytes", least significant first): a     *)
(* 32-bit word is 4 digits, a 64-bit word 8.  Bytes, not 16-bit limbs,      *)
(* because the product of two 16-bit limbs (up to 2^32) does not fit a TLC  *)
(* integer, while a column of a schoolbook byte multiplication stays below  *)
(* 8 * 255 * 255 + carry < 2^20; and because the hash functions load their  *)
(* words from memory byte by byte anyway (little-endian), so "load" is the  *)
(* identity.  External form (what the harness logs): 16-bit limbs, least    *)
(* significant first - Limbs16 / FromLimbs16 convert.                       *)
(*                                                                          *)
(* All arithmetic is modulo 256^n where n is the number of digits of the    *)
(* (first) operand, as for C++ unsigned types.  MurmurMC.tla has TLC check   *)
(* these operators against TLA+'s own integer arithmetic on narrow words.   *)
(***************************************************************************)
EXTENDS Naturals, Sequences, Bitwise
LOCAL INSTANCE SequencesExt          \* FoldLeft (evaluated iteratively by TLC: no deep recursion on long keys)

Digit   == 0..255
Word(n) == [1..n -> Digit]
ZeroW(n) == [i \in 1..n |-> 0]

DigitOr0(a, i) == IF i >= 1 /\ i <= Len(a) THEN a[i] ELSE 0

(* ---- conversions *)
RECURSIVE NatDigits(_, _)
NatDigits(x, n) == IF n = 0 THEN <<>> ELSE <<x % 256>> \o NatDigits(x \div 256, n - 1)     \* x < 2^31
FromNat(x, n)   == NatDigits(x, n)                                                         \* x mod 256^n
FromBytes(bs, n) == [i \in 1..n |-> DigitOr0(bs, i)]          \* little-endian load of up to n bytes, zero-extended
Limbs16(a)      == [k \in 1..(Len(a) \div 2) |-> a[2 * k - 1] + 256 * a[2 * k]]
FromLimbs16(ls) == [i \in 1..(2 * Len(ls)) |-> IF i % 2 = 1 THEN ls[(i + 1) \div 2] % 256 ELSE ls[i \div 2] \div 256]
Low(a, n)       == SubSeq(a, 1, n)                            \* truncation to n digits (static_cast to a narrower type)

(* ---- bitwise *)
XorW(a, b) == [i \in 1..Len(a) |-> a[i] ^^ b[i]]

(* logical shift right by s bits *)
ShrW(a, s) == LET q == s \div 8
                  r == s % 8
                  lo == 2 ^ r
                  hi == 2 ^ (8 - r)
              IN [i \in 1..Len(a) |-> (DigitOr0(a, i + q) \div lo) + (DigitOr0(a, i + q + 1) % lo) * hi]
(* shift left by s bits, dropping what leaves the word *)
ShlW(a, s) == LET q == s \div 8
                  r == s % 8
                  hi == 2 ^ (8 - r)
                  lo == 2 ^ r
              IN [i \in 1..Len(a) |-> (DigitOr0(a, i - q) % hi) * lo + (DigitOr0(a, i - q - 1) \div hi)]

(* ---- addition and multiplication modulo 256^Len(a) *)
Indices(n) == [i \in 1..n |-> i]
(* both are a left fold over the digit positions with accumulator <<digits so far, carry>> *)
AddW(a, b) == FoldLeft(LAMBDA acc, i : LET s == a[i] + DigitOr0(b, i) + acc[2] IN <<Append(acc[1], s % 256), s \div 256>>,
                       <<(<<>>), 0>>, Indices(Len(a)))[1]

(* column k (1-based) of the schoolbook product: sum of a[i] * b[k + 1 - i], i = 1..k *)
RECURSIVE Column(_, _, _, _)
Column(a, b, k, i) == IF i > k THEN 0 ELSE a[i] * DigitOr0(b, k + 1 - i) + Column(a, b, k, i + 1)
MulGeneric(a, b) == FoldLeft(LAMBDA acc, k : LET s == Column(a, b, k, 1) + acc[2] IN <<Append(acc[1], s % 256), s \div 256>>,
                       <<(<<>>), 0>>, Indices(Len(a)))[1]

(* The same product written out for 4- and 8-digit words (what the hashes use; several times  *)
(* faster in TLC).  MurmurMC.tla checks Mul4 / Mul8 = MulGeneric.                             *)
Mul4(a, b) ==
    LET s1 == a[1] * b[1]
        s2 == a[1] * b[2] + a[2] * b[1] + (s1 \div 256)
        s3 == a[1] * b[3] + a[2] * b[2] + a[3] * b[1] + (s2 \div 256)
        s4 == a[1] * b[4] + a[2] * b[3] + a[3] * b[2] + a[4] * b[1] + (s3 \div 256)
    IN <<s1 % 256, s2 % 256, s3 % 256, s4 % 256>>
Mul8(a, b) ==
    LET s1 == a[1] * b[1]
        s2 == a[1] * b[2] + a[2] * b[1] + (s1 \div 256)
        s3 == a[1] * b[3] + a[2] * b[2] + a[3] * b[1] + (s2 \div 256)
        s4 == a[1] * b[4] + a[2] * b[3] + a[3] * b[2] + a[4] * b[1] + (s3 \div 256)
        s5 == a[1] * b[5] + a[2] * b[4] + a[3] * b[3] + a[4] * b[2] + a[5] * b[1] + (s4 \div 256)
        s6 == a[1] * b[6] + a[2] * b[5] + a[3] * b[4] + a[4] * b[3] + a[5] * b[2] + a[6] * b[1] + (s5 \div 256)
        s7 == a[1] * b[7] + a[2] * b[6] + a[3] * b[5] + a[4] * b[4] + a[5] * b[3] + a[6] * b[2] + a[7] * b[1] + (s6 \div 256)
        s8 == a[1] * b[8] + a[2] * b[7] + a[3] * b[6] + a[4] * b[5] + a[5] * b[4] + a[6] * b[3] + a[7] * b[2] + a[8] * b[1] + (s7 \div 256)
    IN <<s1 % 256, s2 % 256, s3 % 256, s4 % 256, s5 % 256, s6 % 256, s7 % 256, s8 % 256>>
MulW(a, b) == IF Len(a) = 8 /\ Len(b) = 8 THEN Mul8(a, b) ELSE IF Len(a) = 4 /\ Len(b) = 4 THEN Mul4(a, b) ELSE MulGeneric(a, b)
=============================================================================

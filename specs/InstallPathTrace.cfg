SPECIFICATION TSpec
CONSTANTS
  Base = 0
  Depths = {}
  Totals = {}
  Extras = {}
  Patterns = {}
  Vias = {}
  NameMax = 255
  PathMax = 4095
POSTCONDITION TraceAccepted
CHECK_DEADLOCK FALSE

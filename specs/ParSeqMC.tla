------------------------------ MODULE ParSeqMC ------------------------------
(* Model-checking instances of ParSeq: argument domains that cannot be written in a .cfg *)
EXTENDS ParSeq
CfgsSmall == {[fl |-> "optional", ct |-> "vector", n |-> 0, fwd |-> 1, cas |-> 1], [fl |-> "optional", ct |-> "array", n |-> 2, fwd |-> 1, cas |-> 1],
              [fl |-> "complex",  ct |-> "vector", n |-> 0, fwd |-> 1, cas |-> 1], [fl |-> "complex",  ct |-> "array", n |-> 2, fwd |-> 1, cas |-> 1]}
(* the extents of the array types instantiated in the harness *)
CfgsReal  == {[fl |-> "optional", ct |-> "vector", n |-> 0, fwd |-> 1, cas |-> 1], [fl |-> "optional", ct |-> "array", n |-> 3, fwd |-> 1, cas |-> 1],
              [fl |-> "complex",  ct |-> "vector", n |-> 0, fwd |-> 1, cas |-> 1], [fl |-> "complex",  ct |-> "array", n |-> 3, fwd |-> 1, cas |-> 1]}
(* extent 0: the array flavours with nothing in them *)
CfgsArr0  == {[fl |-> "optional", ct |-> "array", n |-> 0, fwd |-> 1, cas |-> 1], [fl |-> "complex",  ct |-> "array", n |-> 0, fwd |-> 1, cas |-> 1]}
CfgsOV    == {[fl |-> "optional", ct |-> "vector", n |-> 0, fwd |-> 1, cas |-> 1]}
CfgsOA    == {[fl |-> "optional", ct |-> "array", n |-> 3, fwd |-> 1, cas |-> 1]}
CfgsCV    == {[fl |-> "complex",  ct |-> "vector", n |-> 0, fwd |-> 1, cas |-> 1]}
CfgsCA    == {[fl |-> "complex",  ct |-> "array", n |-> 3, fwd |-> 1, cas |-> 1]}
(* a build in which the array flavours have no usable forward iterator and complex proxies no assignment *)
CfgsPoor  == {[fl |-> "optional", ct |-> "array", n |-> 2, fwd |-> 0, cas |-> 1], [fl |-> "complex",  ct |-> "array", n |-> 2, fwd |-> 0, cas |-> 0],
              [fl |-> "complex",  ct |-> "vector", n |-> 0, fwd |-> 1, cas |-> 0]}
CfgsMC    == CfgsReal \cup CfgsPoor \cup CfgsArr0
CfgsVec   == CfgsOV \cup CfgsCV
CfgsArr   == CfgsOA \cup CfgsCA \cup CfgsArr0
NoOther   == {}
AllIL     == SeqsUpTo(Vals \X Vals, MaxLen)
RepIL     == {<<>>, <<<<1, 2>>>>, <<<<0, 0>>, <<7, 1>>>>, <<<<1, 0>>, <<0, 1>>, <<2, 2>>>>, <<<<7, 7>>, <<0, 0>>, <<1, 2>>, <<2, 1>>>>,
              <<<<1, 1>>, <<2, 2>>, <<0, 7>>, <<7, 0>>, <<1, 7>>>>, <<<<0, 1>>, <<0, 2>>, <<0, 7>>, <<1, 0>>, <<2, 0>>, <<7, 0>>>>}
(* representative contents for the second object in S->C runs *)
RepOther  == {<<>>, <<<<1, 1>>>>, <<<<0, 0>>, <<0, 0>>, <<0, 0>>>>, <<<<1, 0>>, <<0, 1>>, <<1, 1>>>>, <<<<0, 1>>, <<1, 1>>, <<1, 0>>, <<0, 0>>>>}
AllClasses == {"alias", "xassign", "algo", "ctor", "il", "pair", "size", "at", "read", "write", "under", "iter", "misc"}
NoPair     == {"alias", "algo", "ctor", "il", "size", "at", "read", "write", "under", "iter", "misc"}
NoEmit     == {}
AllOps     == {"CtorDefault", "CtorN", "CtorNV", "CtorNO", "CtorIL", "CtorCopy", "CopyAssign", "CtorMove", "MoveAssign",
               "Resize", "ResizeV", "ResizeO", "At", "Read", "Write", "WriteUnder", "Extract", "IterRel", "ProxySwap", "MaxSize", "Rel", "Algo", "ResizeFrom", "CtorFrom", "XAssign", "XCopy"}
=============================================================================

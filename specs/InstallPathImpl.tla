--------------------------- MODULE InstallPathImpl ---------------------------
(***************************************************************************)
(* L2 for C20: the steps of xsystem.hpp on CHARACTER STRINGS, transcribed   *)
(* from the code, checked against the L1 operators of InstallPath.tla.      *)
(*                                                                          *)
(*   executable_path() (Linux branch): a buffer of B0 bytes; loop:          *)
(*       len = readlink("/proc/self/exe", buf, size)   -- copies            *)
(*             min(|target|, size) bytes, no terminator, no error on        *)
(*             truncation                                                    *)
(*       if len < size: path = first len bytes; stop                         *)
(*       else size = 2 * size                                                *)
(*   prefix_path(): bin = path.substr(0, path.find_last_of('/'));            *)
(*                  prefix = bin.substr(0, bin.find_last_of('/')) + '/'      *)
(*                                                                          *)
(* One behaviour = one installed program: Init picks the path (a sequence of *)
(* components, each a non-empty sequence of characters out of Alphabet) and  *)
(* an initial buffer size; the steps follow the code.  When it is done the   *)
(* description of the two strings (the harness's projection, Desc) must be   *)
(* what L1 says: ExecutablePath / PrefixPath of the path's components.       *)
(* MODEL-DRIFT (advisory) if this fails: verdicts come from L1 only.         *)
(***************************************************************************)
EXTENDS InstallPath

CONSTANTS Alphabet,    \* characters a component is made of (never "/")
          MaxDepthI,   \* paths of 1..MaxDepthI components
          MaxCompI,    \* components of 1..MaxCompI characters
          BufSizes     \* initial buffer sizes (the code: 1024)

VARIABLES path,    \* the installed program's path: sequence of components (character sequences)
          size,    \* current buffer size
          exe,     \* result of executable_path()
          bin,     \* prefix_path()'s intermediate
          prefix,  \* result of prefix_path()
          pc
ivars == <<path, size, exe, bin, prefix, pc>>

Sep == "/"
NPOSI == -1
RECURSIVE JoinS(_)
JoinS(p) == IF p = <<>> THEN <<>> ELSE <<Sep>> \o p[1] \o JoinS(Tail(p))

(* std::string operations used by the code (0-based positions as in C++) *)
FindLastOf(s, ch) == IF \E i \in DOMAIN s : s[i] = ch
                       THEN (CHOOSE i \in DOMAIN s : s[i] = ch /\ \A j \in (i + 1)..Len(s) : s[j] # ch) - 1
                       ELSE NPOSI
Substr0(s, n)     == IF n = NPOSI \/ n >= Len(s) THEN s ELSE SubSeq(s, 1, n)      \* s.substr(0, n); npos = everything

(* the kernel: readlink copies at most size bytes of the target, silently truncating *)
ReadLink(target, sz) == [len |-> IF Len(target) < sz THEN Len(target) ELSE sz,
                         buf |-> SubSeq(target, 1, IF Len(target) < sz THEN Len(target) ELSE sz)]

CompSeqs == UNION {[1..n -> Alphabet] : n \in 1..MaxCompI}
PathsI   == UNION {[1..d -> CompSeqs] : d \in 1..MaxDepthI}     \* depth 1: no grandparent, nothing promised for prefix

IInit == /\ path \in PathsI
         /\ size \in BufSizes
         /\ exe = <<>> /\ bin = <<>> /\ prefix = <<>>
         /\ pc = "read"
         /\ base = <<>>
         /\ last = [op |-> "Init", k |-> 0, a |-> [z |-> 0], res |-> Void]

Read == /\ pc = "read"
        /\ LET r == ReadLink(JoinS(path), size) IN
             IF r.len < size
               THEN /\ exe' = SubSeq(r.buf, 1, r.len)          \* path.assign(link, 0, len)
                    /\ pc' = "cut1"
                    /\ size' = size
               ELSE /\ size' = 2 * size                         \* link.resize(link.size() * 2)
                    /\ UNCHANGED <<exe, pc>>
        /\ UNCHANGED <<path, bin, prefix, base, last>>

Cut1 == /\ pc = "cut1"
        /\ bin' = Substr0(exe, FindLastOf(exe, Sep))
        /\ pc' = "cut2"
        /\ UNCHANGED <<path, size, exe, prefix, base, last>>

Cut2 == /\ pc = "cut2"
        /\ prefix' = Substr0(bin, FindLastOf(bin, Sep)) \o <<Sep>>
        /\ pc' = "done"
        /\ UNCHANGED <<path, size, exe, bin, base, last>>

INext == Read \/ Cut1 \/ Cut2
ISpec == IInit /\ [][INext]_<<ivars, base, last>> /\ WF_ivars(INext)

----------------------------------------------------------------------------
(* The harness's projection of a string: [abs, trail, dbl, comps] with one   *)
(* [len, cls] per non-empty segment.                                         *)
ClsOfChars(c) == IF \E i \in DOMAIN c : c[i] = "u" THEN "utf8"
                 ELSE IF \E i \in DOMAIN c : c[i] = "p" THEN "punct"   \* "p" stands for a backslash or another special-elsewhere byte
                 ELSE IF \E i \in DOMAIN c : c[i] = " " THEN "space"
                 ELSE IF \E i \in DOMAIN c : c[i] = "." THEN "dot" ELSE "ascii"
RECURSIVE Segments(_, _)
(* segments of s between separators; cur is the segment being read *)
Segments(s, cur) == IF s = <<>> THEN <<cur>>
                    ELSE IF s[1] = Sep THEN <<cur>> \o Segments(Tail(s), <<>>)
                    ELSE Segments(Tail(s), Append(cur, s[1]))
NonEmpty(ss)  == SelectSeq(ss, LAMBDA c : c # <<>>)
Desc(s) == LET segs == Segments(s, <<>>)
               inner == IF Len(segs) <= 2 THEN <<>> ELSE SubSeq(segs, 2, Len(segs) - 1)   \* between first and last separator
           IN [abs   |-> s # <<>> /\ s[1] = Sep,
               trail |-> s # <<>> /\ s[Len(s)] = Sep,
               dbl   |-> Len(SelectSeq(inner, LAMBDA c : c = <<>>)),
               comps |-> [i \in DOMAIN NonEmpty(segs) |-> [len |-> Len(NonEmpty(segs)[i]), cls |-> ClsOfChars(NonEmpty(segs)[i])]]]
Abstract(p) == [i \in DOMAIN p |-> [len |-> Len(p[i]), cls |-> ClsOfChars(p[i])]]

(* L2 agrees with L1 *)
Agrees == pc = "done" => /\ Desc(exe) = ExecutablePath(Abstract(path))
                         /\ HasGrandparent(Abstract(path)) => Desc(prefix) = PrefixPath(Abstract(path))
                         /\ exe = JoinS(path)
BufferBound == Len(exe) < size \/ pc = "read"          \* what was copied always fitted with room to spare
Terminates == <>(pc = "done")
=============================================================================

SPECIFICATION SpecB
CONSTANTS
  Modes <- ThreeModes
  MaxN = 4
  MaxDepth = 2
  MaxE = 5
  Huge = {0, 1, 2}
  Kinds <- AllKinds
  Classes <- AllClasses
  EmitOps <- NoEmit
VIEW absvars
INVARIANTS TypeOK Inside
PROPERTIES ObserversPure FailedChangesNothing ContractOnlyWhenChecking SubInsideSource WriteLaw

------------------------------ MODULE HalfCases ------------------------------
(* Operand pairs for the binary operators of C08 chosen by the oracle's own     *)
(* case analysis.                                                                *)
(*                                                                               *)
(* Half.tla computes x op y as "exact result, then RoundPack".  Which branch of  *)
(* that computation a pair takes - the classes of the operands, the alignment   *)
(* distance, carry or cancellation of the exact sum, the number of bits that     *)
(* RoundPack drops, the relation of the dropped part to half a unit (below /     *)
(* tie to even / tie to odd / above, with or without sticky), a round-up that    *)
(* carries into the next binade, the class of the result (zero, subnormal,       *)
(* subnormal rounded up to the smallest normal, normal, overflow) - is the       *)
(* pair's CASE.  Key(x, y) below names it; it is written with the same           *)
(* intermediate values as Half.tla's operators, and the invariant KeyConsistent  *)
(* has TLC check on every pair visited that the case analysis reproduces the     *)
(* operator's result.                                                            *)
(*                                                                               *)
(* TLC enumerates a bounded search space XS x YS with VIEW == Key: two pairs of  *)
(* the same case are one state, so the number of distinct states is the number   *)
(* of cases the search space reaches and the dumped states are one witness pair  *)
(* per case.  The check executes the witnesses on the real operators and has     *)
(* HalfCheck.tla validate them: the operand grid is defined by the               *)
(* specification's cases, not by chance.                                         *)
EXTENDS Half

CONSTANTS OP,      \* "add" | "mul" | "div" | "cmp" | "mod"
          \* part 1 of the search, "regimes": every exponent pairing with a few fractions
          EX, MX,  \* exponent fields and fraction fields of the first operands (sign +)
          EY, MY,  \* exponent fields and fraction fields of the second operands (both signs)
          XPLUS,   \* further first operands (halves)
          YPLUS,   \* further second operands
          \* part 2, "patterns": a few exponent pairings with many fractions - first operands XM against EVERY fraction at the
          \* exponent fields YME (both signs)
          XM, YME
VARIABLES x, y, ph

XS == {e * 1024 + m : e \in EX, m \in MX} \cup XPLUS
YS == {s * 32768 + e * 1024 + m : s \in 0..1, e \in EY, m \in MY} \cup YPLUS
YM == {s * 32768 + e * 1024 + m : s \in 0..1, e \in YME, m \in 0..1023}

Cls(h) == IF IsNaN(h) THEN "nan" ELSE IF IsInf(h) THEN "inf" ELSE IF IsZero(h) THEN "zero"
          ELSE IF ExpOf(h) = 0 THEN "sub" ELSE "norm"
ResCls(h) == IF IsNaN(h) THEN "nan" ELSE IF IsInf(h) THEN "inf" ELSE IF IsZero(h) THEN "zero"
             ELSE IF ExpOf(h) = 0 THEN "sub" ELSE IF h % 32768 = 1024 THEN "minnormal" ELSE IF h % 32768 = MaxFinite THEN "maxfinite" ELSE "norm"

(* the branch of RoundPack(s, m, e, sticky) and the value it yields *)
RCase(s, m, e, sticky) ==
    IF m = 0 THEN [c |-> << "zero" >>, h |-> Zero(s)]
    ELSE
    LET L  == BitLen(m)
        q  == Max(L - 11 + e, -24)
        sh == q - e
    IN  IF sh <= 0
          THEN LET mm == m * Pow2(-sh)
                   h  == IF mm < 1024 THEN WithSign(s, mm) ELSE IF q + 25 >= 31 THEN Inf(s) ELSE WithSign(s, (q + 25) * 1024 + (mm - 1024))
               IN  [c |-> << "exact", ResCls(h), q = -24 >>, h |-> h]
        ELSE IF sh > L THEN [c |-> << "below-half-min", IF sh = L + 1 THEN 1 ELSE 2 >>, h |-> Zero(s)]
        ELSE
          LET keep == m \div Pow2(sh)
              rem  == m % Pow2(sh)
              half == Pow2(sh - 1)
              rel  == IF rem < half THEN (IF rem = 0 /\ ~sticky THEN "exact" ELSE IF rem = 0 THEN "sticky-only" ELSE "below")
                      ELSE IF rem > half THEN "above"
                      ELSE IF sticky THEN "tie+sticky" ELSE IF keep % 2 = 1 THEN "tie-odd" ELSE "tie-even"
              up   == rem > half \/ (rem = half /\ (sticky \/ keep % 2 = 1))
              mm   == keep + (IF up THEN 1 ELSE 0)
              q2   == IF mm = 2048 THEN q + 1 ELSE q
              m2   == IF mm = 2048 THEN 1024 ELSE mm
              h    == IF m2 < 1024 THEN WithSign(s, m2) ELSE IF q2 + 25 >= 31 THEN Inf(s) ELSE WithSign(s, (q2 + 25) * 1024 + (m2 - 1024))
              \* nearness to the other boundary: rem one unit below / above half (the hardest non-ties)
              near == IF sh >= 2 /\ rem = half - 1 THEN -1 ELSE IF sh >= 2 /\ rem = half + 1 THEN 1 ELSE 0
          IN  [c |-> << rel, keep % 2, near, Min(sh, 26), mm = 2048, keep < 1024 /\ m2 >= 1024, ResCls(h), q = -24 >>, h |-> h]

Special(op, a, b) == << op, "special", Cls(a), SignOf(a), Cls(b), SignOf(b) >>
Ordinary(a, b) == IsFinite(a) /\ IsFinite(b) /\ ~IsZero(a) /\ ~IsZero(b)

(* ---- addition (subtraction is addition of the negated operand) ---------- *)
AddParts(a, b) ==
    LET abig == Exp(a) > Exp(b) \/ (Exp(a) = Exp(b) /\ Mant(a) >= Mant(b))
        big  == IF abig THEN a ELSE b
        sml  == IF abig THEN b ELSE a
        d    == Exp(big) - Exp(sml)
        sub  == SignOf(a) # SignOf(b)
        r    == AlignSum(Mant(big), d, Mant(sml), sub)
    IN  [big |-> big, sml |-> sml, d |-> d, sub |-> sub, r |-> r]

AddCase(a, b) ==
    IF ~Ordinary(a, b) THEN [c |-> Special("add", a, b), h |-> Add(a, b)]
    ELSE LET p == AddParts(a, b) IN
         IF p.r.m = 0 /\ ~p.r.st THEN [c |-> << "add", "cancel", Cls(a) >>, h |-> PosZero]
         ELSE LET rc == RCase(SignOf(p.big), p.r.m, Exp(p.sml) + p.r.c, p.r.st)
                  \* carry (+1), same binade (0), cancellation by k bits (-k), relative to the aligned larger operand
                  nrm == BitLen(p.r.m) - (BitLen(Mant(p.big)) + p.d - p.r.c)
              IN  [c |-> << "add", p.sub, p.d, nrm, Cls(p.big), Cls(p.sml), p.r.st >> \o rc.c, h |-> rc.h]

(* ---- multiplication ------------------------------------------------------ *)
MulCase(a, b) ==
    IF ~Ordinary(a, b) THEN [c |-> Special("mul", a, b), h |-> Mul(a, b)]
    ELSE LET s  == (SignOf(a) + SignOf(b)) % 2
             p  == Mant(a) * Mant(b)
             rc == RCase(s, p, Exp(a) + Exp(b), FALSE)
         IN  [c |-> << "mul", Cls(a), Cls(b), BitLen(p) - BitLen(Mant(a)) - BitLen(Mant(b)) >> \o rc.c, h |-> rc.h]

(* ---- division ------------------------------------------------------------ *)
DivCase(a, b) ==
    IF ~Ordinary(a, b) THEN [c |-> Special("div", a, b), h |-> Div(a, b)]
    ELSE LET s   == (SignOf(a) + SignOf(b)) % 2
             num == NMant(a) * 8192
             q   == num \div NMant(b)
             r   == num % NMant(b)
             \* remainder against half the divisor: decides on which side of a rounding boundary an inexact quotient lies
             rh  == IF r = 0 THEN "zero" ELSE IF 2 * r < NMant(b) THEN "lt" ELSE IF 2 * r = NMant(b) THEN "eq" ELSE "gt"
             rc  == RCase(s, q, NExp(a) - NExp(b) - 13, r # 0)
         IN  [c |-> << "div", Cls(a), Cls(b), BitLen(q), rh >> \o rc.c, h |-> rc.h]

(* ---- comparisons ---------------------------------------------------------- *)
CmpCase(a, b) ==
    LET rel == IF Unordered(a, b) THEN "un" ELSE IF Ord(a) < Ord(b) THEN "lt" ELSE IF Ord(a) = Ord(b) THEN "eq" ELSE "gt"
        \* how close: same bits, adjacent values, same exponent, different
        near == IF a = b THEN "same" ELSE IF Unordered(a, b) THEN "-" ELSE IF Abs(Ord(a) - Ord(b)) = 1 THEN "adjacent"
                ELSE IF ExpOf(a) = ExpOf(b) /\ SignOf(a) = SignOf(b) THEN "binade" ELSE "far"
    IN  [c |-> << "cmp", Cls(a), SignOf(a), Cls(b), SignOf(b), rel, near >>, h |-> 0]

(* ---- fmod / remainder / remquo (C09) --------------------------------------- *)
ModCase(a, b) ==
    IF ~Ordinary(a, b) THEN [c |-> Special("mod", a, b), h |-> Remainder(a, b)]
    ELSE LET dm  == DivMod(a, b)
             p   == RemParts(a, b)
             d   == NExp(a) - NExp(b)
             my  == NMant(b)
             dd  == NExp(b) - dm.e
             \* twice the partial remainder against the divisor: below, exactly half (a tie, decided by the parity of the quotient), above
             cmp == IF dd = 0 THEN (IF 2 * dm.r > my THEN 1 ELSE IF 2 * dm.r = my THEN 0 ELSE -1)
                    ELSE IF dd = 1 THEN (IF dm.r > my THEN 1 ELSE IF dm.r = my THEN 0 ELSE -1) ELSE -1
             s   == IF p.flip THEN 1 - SignOf(a) ELSE SignOf(a)
             h   == IF p.mag = 0 THEN Zero(SignOf(a)) ELSE RoundPack(s, p.mag, p.e, FALSE)
         IN  [c |-> << "mod", Cls(a), Cls(b), SignOf(a), SignOf(b), Max(-2, Min(d, 31)), dm.r = 0, cmp, dm.q8 % 2, dm.qz, p.flip, ResCls(Fmod(a, b)), ResCls(h) >>,
              h |-> h]

Case(a, b) == CASE OP = "add" -> AddCase(a, b) [] OP = "mul" -> MulCase(a, b) [] OP = "div" -> DivCase(a, b) [] OP = "cmp" -> CmpCase(a, b)
                [] OP = "mod" -> ModCase(a, b)
Key(a, b) == Case(a, b).c

(* the case analysis yields the operator's value *)
KeyConsistent ==
    ph = 1 => CASE OP = "add" -> SameH(AddCase(x, y).h, Add(x, y))
                [] OP = "mul" -> SameH(MulCase(x, y).h, Mul(x, y))
                [] OP = "div" -> SameH(DivCase(x, y).h, Div(x, y))
                [] OP = "mod" -> SameH(ModCase(x, y).h, Remainder(x, y))
                [] OTHER -> TRUE

Init == ph = 0 /\ x \in XS \cup XM /\ y = 0
Next == /\ ph = 0 /\ ph' = 1
        /\ x' = x
        /\ y' \in (IF x \in XM THEN YM ELSE YS)
Spec == Init /\ [][Next]_<<x, y, ph>>

View == IF ph = 0 THEN << 0, x >> ELSE << 1, Key(x, y) >>

=============================================================================

SPECIFICATION Spec
CONSTANTS
  MaxN = 3
  Steps = {1, 2}
  Impls <- StepOnly
  W = 3
  Mutant = "step_diff_ceil"
VIEW absview
INVARIANTS RepInv ObserversAgree
PROPERTIES Refines

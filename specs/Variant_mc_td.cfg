SPECIFICATION Spec
CONSTANTS
  TrackedAlts = {0, 1, 2}
  NTMAlts = {1, 3}
  Strict = FALSE
  Vals = {1}
  MaxFuse = 1
  MaxEv = 2
  CallSet <- SmallCalls
VIEW l1view
INVARIANTS TypeOK Quiescent RelLaws
PROPERTIES ValuelessOnlyAfterThrow ObserversPure

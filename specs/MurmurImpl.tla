----------------------------- MODULE MurmurImpl -----------------------------
(***************************************************************************)
(* L2 for C14: the two hash loops of xtl/xhash.hpp transcribed from the     *)
(* code as a state machine, one action per step, checked against the L1     *)
(* reference definitions of Murmur.tla (advisory: MODEL-DRIFT if it fails). *)
(*                                                                          *)
(*  murmur2_x86_impl(buffer, length, seed):                                 *)
(*      len = uint32(length); h = seed ^ len; data = buffer;                *)
(*      while (len >= 4) { k = load32(data);     k *= m; k ^= k >> 24;      *)
(*                         k *= m; h *= m; h ^= k; data += 4; len -= 4; }   *)
(*      switch (len) { case 3: h ^= data[2] << 16;   (falls through)        *)
(*                     case 2: h ^= data[1] << 8;    (falls through)        *)
(*                     case 1: h ^= data[0]; h *= m; }                      *)
(*      h ^= h >> 13; h *= m; h ^= h >> 15;                                 *)
(*  murmur_hash<8>(buffer, length, seed)   (64-bit platform branch):        *)
(*      data = buffer; end = data + (length & ~7); hash = seed ^ (length*m);*)
(*      while (data != end) { memcpy(&k, data, 8); k *= m; k ^= k >> 47;    *)
(*                            k *= m; hash ^= k; hash *= m; data += 8; }    *)
(*      if (length & 7) { k = load_bytes(end, length & 7); hash ^= k;       *)
(*                        hash *= m; }                                      *)
(*      hash ^= hash >> 47; hash *= m; hash ^= hash >> 47;                  *)
(*  load_bytes(p, n): result = 0; --n;                                      *)
(*      do { result = (result << 8) + (unsigned char)p[n]; } while (--n >= 0) *)
(*                                                                          *)
(* One behaviour = one call.  data/end are offsets into the key (0-based);  *)
(* the ghost variable reads collects every key index (1-based) the code     *)
(* dereferences: ReadsInside states "reads only bytes in [buffer,           *)
(* buffer+length)" on the model; Refines states that the value returned is  *)
(* the L1 reference value.  Word loads are little-endian (the only byte     *)
(* order the harness runs on).                                              *)
(***************************************************************************)
EXTENDS Murmur, Integers, TLC

CONSTANTS Keys,       \* set of keys (byte sequences)
          Seeds       \* set of 8-digit seeds

VARIABLES fn,      \* "x86" | "x64"
          key, seed,
          data,    \* offset of the code's `data` pointer from the buffer start
          len,     \* x86: the remaining length `len`; x64: unused (0)
          h,       \* the running hash (4 digits for x86, 8 for x64)
          n, res,  \* load_bytes: loop index and partial result
          reads,   \* ghost: key indices (1-based) dereferenced so far
          pc
vars == <<fn, key, seed, data, len, h, n, res, reads, pc>>

Byte1(b, w) == FromBytes(<<b>>, w)                 \* an unsigned char converted to a w-digit word
Range(a, b) == a..b

Init == /\ key \in Keys /\ seed \in Seeds
        /\ \/ /\ fn = "x86"
              /\ len = Len(key)
              /\ h = XorW(Low(seed, 4), FromNat(Len(key), 4))
           \/ /\ fn = "x64"
              /\ len = 0
              /\ h = XorW(seed, MulW(FromNat(Len(key), 8), M64))
        /\ data = 0 /\ n = 0 /\ res = ZeroW(8) /\ reads = {} /\ pc = "loop"

(* ---- murmur2_x86_impl *)
X86Block == /\ fn = "x86" /\ pc = "loop" /\ len >= 4
            /\ LET k0 == FromBytes(SubSeq(key, data + 1, data + 4), 4)      \* the 32-bit load from data
                   k1 == MulW(k0, M32)
                   k2 == XorW(k1, ShrW(k1, 24))
                   k3 == MulW(k2, M32)
               IN h' = XorW(MulW(h, M32), k3)
            /\ reads' = reads \cup Range(data + 1, data + 4)
            /\ data' = data + 4 /\ len' = len - 4
            /\ UNCHANGED <<fn, key, seed, n, res, pc>>
X86Switch == /\ fn = "x86" /\ pc = "loop" /\ len < 4
             /\ pc' = CASE len = 3 -> "case3" [] len = 2 -> "case2" [] len = 1 -> "case1" [] OTHER -> "final"
             /\ UNCHANGED <<fn, key, seed, data, len, h, n, res, reads>>
X86Case3 == /\ fn = "x86" /\ pc = "case3"
            /\ h' = XorW(h, ShlW(Byte1(key[data + 3], 4), 16))        \* data[2] << 16
            /\ reads' = reads \cup {data + 3}
            /\ pc' = "case2"                                         \* no break: falls through
            /\ UNCHANGED <<fn, key, seed, data, len, n, res>>
X86Case2 == /\ fn = "x86" /\ pc = "case2"
            /\ h' = XorW(h, ShlW(Byte1(key[data + 2], 4), 8))
            /\ reads' = reads \cup {data + 2}
            /\ pc' = "case1"
            /\ UNCHANGED <<fn, key, seed, data, len, n, res>>
X86Case1 == /\ fn = "x86" /\ pc = "case1"
            /\ h' = MulW(XorW(h, Byte1(key[data + 1], 4)), M32)
            /\ reads' = reads \cup {data + 1}
            /\ pc' = "final"
            /\ UNCHANGED <<fn, key, seed, data, len, n, res>>
X86Final == /\ fn = "x86" /\ pc = "final"
            /\ LET a == XorW(h, ShrW(h, 13))
                   b == MulW(a, M32)
               IN h' = XorW(b, ShrW(b, 15))
            /\ pc' = "done"
            /\ UNCHANGED <<fn, key, seed, data, len, n, res, reads>>

(* ---- murmur_hash<8> *)
End == Len(key) - (Len(key) % 8)                 \* data + (length & ~7)
X64Block == /\ fn = "x64" /\ pc = "loop" /\ data # End
            /\ LET k0 == FromBytes(SubSeq(key, data + 1, data + 8), 8)      \* memcpy(&k, data, 8)
                   k1 == MulW(k0, M64)
                   k2 == XorW(k1, ShrW(k1, 47))
                   k3 == MulW(k2, M64)
               IN h' = MulW(XorW(h, k3), M64)
            /\ reads' = reads \cup Range(data + 1, data + 8)
            /\ data' = data + 8
            /\ UNCHANGED <<fn, key, seed, len, n, res, pc>>
X64Tail  == /\ fn = "x64" /\ pc = "loop" /\ data = End
            /\ IF Len(key) % 8 # 0
                 THEN pc' = "load" /\ n' = (Len(key) % 8) - 1 /\ res' = ZeroW(8)     \* load_bytes(end, length & 7): --n
                 ELSE pc' = "final" /\ UNCHANGED <<n, res>>
            /\ UNCHANGED <<fn, key, seed, data, len, h, reads>>
X64Load  == /\ fn = "x64" /\ pc = "load"
            /\ res' = AddW(ShlW(res, 8), Byte1(key[End + n + 1], 8))                \* (result << 8) + (unsigned char)p[n]
            /\ reads' = reads \cup {End + n + 1}
            /\ n' = n - 1
            /\ pc' = IF n - 1 >= 0 THEN "load" ELSE "mix"                          \* while (--n >= 0)
            /\ UNCHANGED <<fn, key, seed, data, len, h>>
X64Mix   == /\ fn = "x64" /\ pc = "mix"
            /\ h' = MulW(XorW(h, res), M64)
            /\ pc' = "final"
            /\ UNCHANGED <<fn, key, seed, data, len, n, res, reads>>
X64Final == /\ fn = "x64" /\ pc = "final"
            /\ LET a == XorW(h, ShrW(h, 47))
                   b == MulW(a, M64)
               IN h' = XorW(b, ShrW(b, 47))
            /\ pc' = "done"
            /\ UNCHANGED <<fn, key, seed, data, len, n, res, reads>>

Next == X86Block \/ X86Switch \/ X86Case3 \/ X86Case2 \/ X86Case1 \/ X86Final
        \/ X64Block \/ X64Tail \/ X64Load \/ X64Mix \/ X64Final
Spec == Init /\ [][Next]_vars
FairSpec == Spec /\ WF_vars(Next)

----------------------------------------------------------------------------
Refines == pc = "done" => h = IF fn = "x86" THEN Murmur2X86(key, seed) ELSE Murmur2X64(key, seed)
(* "read only bytes in [buffer, buffer + length)" - and, when done, all of them exactly *)
ReadsInside == /\ reads \subseteq Range(1, Len(key))
               /\ pc = "done" => reads = Range(1, Len(key))
(* the tail of load_bytes is the little-endian value of the tail bytes (what the L1 definition says) *)
LoadIsLittleEndian == pc = "mix" => res = FromBytes(SubSeq(key, End + 1, Len(key)), 8)
Terminates == <>(pc = "done")

(* ---- key and seed universes of the model-checking configurations *)
Pattern(len_, v) == [i \in 1..len_ |-> CASE v = 0 -> 255
                                          [] v = 1 -> ((i * 37) + 1) % 256
                                          [] v = 2 -> IF i % 2 = 0 THEN 128 ELSE 0
                                          [] v = 3 -> 127 + (i % 2)
                                          [] OTHER -> (i * 131 + 200) % 256]
PatternKeys(maxlen, vs) == {Pattern(m, v) : m \in 0..maxlen, v \in vs}
AllKeys(S, maxlen) == UNION {[1..m -> S] : m \in 0..maxlen}
KeysQ == PatternKeys(20, {0, 1, 2}) \cup AllKeys({127, 128}, 5)
KeysT == PatternKeys(41, {0, 1, 2, 3, 4}) \cup AllKeys({0, 128, 255}, 7)
SeedsQ == {ZeroW(8), <<7, 105, 15, 199, 0, 0, 0, 0>>, [i \in 1..8 |-> 255]}            \* 0, 0xc70f6907, 2^64-1
SeedsT == SeedsQ \cup {<<1, 0, 0, 0, 0, 0, 0, 0>>, <<0, 0, 0, 0, 1, 0, 0, 0>>, <<0, 0, 0, 0, 0, 0, 0, 128>>}
=============================================================================

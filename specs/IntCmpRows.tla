----------------------------- MODULE IntCmpRows -----------------------------
(***************************************************************************)
(* C15, S->C direction for the "usable in constant expressions" clause:     *)
(* TLC enumerates rows (T, U, a, b, the six answers of IntCmp.tla) - every  *)
(* ordered pair of the ten standard integer types x every pair of boundary  *)
(* values the two types can hold - and the runner (checks/c15.py) turns     *)
(* each row into six static_assert declarations                             *)
(*      static_assert(xtl::cmp_less(T(a), U(b)) == <answer>, "row N ...");  *)
(* that the compiler must accept.  The rows and the expected answers come   *)
(* from the spec; nothing is computed in Python or C++.                     *)
(*                                                                          *)
(* Type ids as in the harness: 0 int8 1 uint8 2 int16 3 uint16 4 int32      *)
(* 5 uint32 6 int64 7 uint64 8 long long 9 unsigned long long (64 bit on    *)
(* every platform this runs on; the driver's ts/us report is checked by     *)
(* IntCmpCheck.tla).                                                        *)
(***************************************************************************)
EXTENDS IntCmp, TLC, Json, FiniteSets

CONSTANTS Ks,        \* exponents k: the magnitudes 2^k + d are candidates
          Ds         \* offsets d, a subset of {-2, -1, 0, 1}

VARIABLES t, u, x, y
vars == <<t, u, x, y>>

FixedId(ty) == IF ty = 8 THEN 6 ELSE IF ty = 9 THEN 7 ELSE ty        \* long long / unsigned long long: the 64-bit ranges

(* 2^k + d as four limbs (1 <= k <= 63, d in -2..1) *)
PowPlus(k, d) ==
    LET q == k \div 16
        r == k % 16 IN
    IF d >= 0 THEN [i \in 1..4 |-> (IF i = q + 1 THEN 2 ^ r ELSE 0) + (IF i = 1 THEN d ELSE 0)]
    ELSE \* 2^k - 1 or 2^k - 2: all limbs below q+1 are 65535 (the lowest one minus (-d - 1)), limb q+1 is 2^r - 1
         [i \in 1..4 |-> IF i < q + 1 THEN 65535 - (IF i = 1 THEN -d - 1 ELSE 0)
                         ELSE IF i = q + 1 THEN (2 ^ r) - 1 - (IF q = 0 THEN -d - 1 ELSE 0)
                         ELSE 0]
AllOnes == <<65535, 65535, 65535, 65535>>
Mags == {<<0, 0, 0, 0>>, <<1, 0, 0, 0>>, <<2, 0, 0, 0>>, AllOnes, <<65534, 65535, 65535, 65535>>}
        \cup {PowPlus(k, d) : k \in Ks, d \in Ds}
Cands == {v \in [neg : BOOLEAN, mag : Mags] : ~(v.neg /\ v.mag = Zero4)}
ValsOf(ty) == {v \in Cands : Representable(FixedId(ty), v)}

Init == /\ t \in 0..9 /\ u \in 0..9
        /\ x \in ValsOf(t) /\ y \in ValsOf(u)
Next == UNCHANGED vars
Spec == Init /\ [][Next]_vars

Limbs(v) == <<IF v.neg THEN 1 ELSE 0, v.mag[1], v.mag[2], v.mag[3], v.mag[4]>>
(* the invariant both guards the oracle (the laws of IntCmp.tla hold on every row) and writes the row *)
Row == /\ IsValue(x) /\ IsValue(y) /\ PairLaws(x, y)
       /\ PrintT("@E@" \o ToJson([T |-> t, U |-> u, a |-> Limbs(x), b |-> Limbs(y), m |-> Mask(x, y)]))

(* PowPlus against TLA+ integers for the exponents that fit *)
ASSUME \A k \in {7, 8, 15, 16, 30} : \A d \in {-2, -1, 0, 1} :
          LET m == PowPlus(k, d) IN m[1] + 65536 * m[2] = (2 ^ k) + d /\ m[3] = 0 /\ m[4] = 0
ASSUME PowPlus(63, -1) = <<65535, 65535, 65535, 32767>> /\ PowPlus(63, 0) = <<0, 0, 0, 32768>> /\ PowPlus(32, 1) = <<1, 0, 1, 0>>
       /\ PowPlus(31, -2) = <<65534, 32767, 0, 0>> /\ PowPlus(16, -1) = <<65535, 0, 0, 0>> /\ PowPlus(7, -2) = <<126, 0, 0, 0>>

KsQ == {7, 15, 31, 63}
KsT == {7, 8, 15, 16, 23, 24, 31, 32, 47, 48, 62, 63}
DsQ == {-1, 0, 1}
DsT == {-2, -1, 0, 1}
=============================================================================

------------------------------- MODULE Bitset -------------------------------
(***************************************************************************)
(* L1 property specification for C03: xdynamic_bitset / xdynamic_bitset_view *)
(* as "a resizable sequence of bools".  Written from the property statement *)
(* and std::vector<bool>/std::bitset semantics, not from xtl's code.        *)
(*                                                                          *)
(* Two objects obj[1], obj[2] (binary operators, copy, swap, ==).  Every    *)
(* public call is one action; its C++ arguments are the action parameters   *)
(* and are recorded, with the expected return value / exception, in the     *)
(* ghost variable last.  pre is the abstract state before the call, so that *)
(* every distinct TLC state of the unviewed spec is one transition.         *)
(***************************************************************************)
EXTENDS Naturals, Sequences, FiniteSets, TLC, Json

CONSTANTS MaxBits,   \* model-checking bound on size()
          Widths,    \* block widths (bits per block) explored
          MaxShift,  \* model-checking bound on shift amounts
          Targets,   \* objects the model checker applies operations to
          OtherInit, \* bit sequences the non-target object may be given directly
          ILArgs,    \* bit sequences used as initializer-list arguments by the model checker
          LimbReps,  \* limb values used for block arguments by the model checker
          Classes,   \* operation classes enabled in the model checker's next-state relation
          EmitOps    \* S->C: operations whose transitions are written out as JSON (see Emit)

VARIABLES w,     \* bits per block of this configuration
          kind,  \* kind[k] \in {"own", "view"}
          obj,   \* obj[k]: the bit sequence, a sequence over {0,1}; obj[k][i+1] is bit i
          last,  \* ghost: [op, k, a, res] of the call just performed
          pre    \* ghost: [obj, kind] before that call

vars == <<w, kind, obj, last, pre>>
absvars == <<w, kind, obj>>

Bit == {0, 1}
Other(k) == 3 - k

----------------------------------------------------------------------------
(* Sequence algebra: what std::vector<bool> would hold.                     *)

Fill(n, v)         == [i \in 1..n |-> v]
ResizeSeq(s, n, v) == [i \in 1..n |-> IF i <= Len(s) THEN s[i] ELSE v]
ShlSeq(s, p)       == [i \in 1..Len(s) |-> IF i > p THEN s[i - p] ELSE 0]      \* <<= : towards higher indices
ShrSeq(s, p)       == [i \in 1..Len(s) |-> IF i + p <= Len(s) THEN s[i + p] ELSE 0]
NotSeq(s)          == [i \in 1..Len(s) |-> 1 - s[i]]
AndSeq(s, t)       == [i \in 1..Len(s) |-> IF s[i] = 1 /\ t[i] = 1 THEN 1 ELSE 0]
OrSeq(s, t)        == [i \in 1..Len(s) |-> IF s[i] = 1 \/ t[i] = 1 THEN 1 ELSE 0]
XorSeq(s, t)       == [i \in 1..Len(s) |-> IF s[i] # t[i] THEN 1 ELSE 0]
SetBit(s, i, v)    == [s EXCEPT ![i + 1] = v]                                  \* i is the C++ (0-based) index
RevSeq(s)          == [i \in 1..Len(s) |-> s[Len(s) + 1 - i]]
Count(s)           == Cardinality({i \in 1..Len(s) : s[i] = 1})
BAnd(x, y)         == IF x = 1 /\ y = 1 THEN 1 ELSE 0
BOr(x, y)          == IF x = 1 \/ y = 1 THEN 1 ELSE 0
BXor(x, y)         == IF x # y THEN 1 ELSE 0

----------------------------------------------------------------------------
(* Block representation the property makes observable: block_count(), and  *)
(* data() with all bits beyond size() equal to zero.  Blocks wider than 16  *)
(* bits are written as little-endian 16-bit limbs (TLC integers are 32 bit).*)

LW(W)      == IF W < 16 THEN W ELSE 16
NBlk(n, W) == (n + W - 1) \div W
BitOr0(s, i) == IF i <= Len(s) THEN s[i] ELSE 0
RECURSIVE LimbVal(_, _, _)
LimbVal(s, base, n) == IF n = 0 THEN 0 ELSE BitOr0(s, base + 1) + 2 * LimbVal(s, base + 1, n - 1)
Limbs(s, W) == [j \in 1..NBlk(Len(s), W) |->
                  [m \in 1..(W \div LW(W)) |-> LimbVal(s, (j - 1) * W + (m - 1) * LW(W), LW(W))]]
Unpack(blocks, W) ==
    [i \in 1..(Len(blocks) * W) |->
        LET j == (i - 1) \div W + 1
            r == (i - 1) % W
            m == r \div LW(W) + 1
            q == r % LW(W)
        IN (blocks[j][m] \div (2 ^ q)) % 2]

----------------------------------------------------------------------------
(* What every observer reports about one object (compared after each call). *)

Proj(k) == LET s == obj[k] IN
    [kind  |-> kind[k],
     size  |-> Len(s),
     empty |-> Len(s) = 0,
     bits  |-> s,                       \* operator[] for every index
     fwd   |-> s,                       \* begin()..end()
     rev   |-> RevSeq(s),               \* rbegin()..rend()
     nblk  |-> NBlk(Len(s), w),         \* block_count()
     blk   |-> Limbs(s, w),             \* data(): unused bits of the last block are zero
     bit   |-> Limbs(s, w),             \* block_begin()..block_end(): the same blocks
     count |-> Count(s),
     dist  |-> Len(s),                  \* end() - begin()  (a second route to size())
     rdist |-> Len(s),                  \* rend() - rbegin()
     itcnt |-> Count(s),                \* std::count(cbegin(), cend(), true)  (a second route to count())
     any   |-> \E i \in 1..Len(s) : s[i] = 1,
     all   |-> \A i \in 1..Len(s) : s[i] = 1,
     none  |-> \A i \in 1..Len(s) : s[i] = 0,
     guard |-> TRUE]                    \* caller memory outside a view's blocks is untouched
(* eq / ne: obj1 == obj2, obj1 != obj2; eq21: obj2 == obj1 (operands exchanged: the other template instance when one of *)
(* them is a view); eqel: sizes equal and std::equal over the const iterators (the element-wise definition of ==)          *)
ProjAll == [o |-> <<Proj(1), Proj(2)>>, eq |-> obj[1] = obj[2], ne |-> obj[1] # obj[2], eq21 |-> obj[2] = obj[1], eqel |-> obj[1] = obj[2]]

----------------------------------------------------------------------------
Ok(v)  == [exc |-> "none", val |-> v]
Exc(e) == [exc |-> e, val |-> <<>>]
Void   == Ok(<<>>)
NoArg  == [z |-> 0]
BitsVal(s) == [bits |-> s, blk |-> Limbs(s, w), size |-> Len(s)]

Do(op, k, a, newk, newkind, res) ==
    /\ pre'  = [obj |-> obj, kind |-> kind]
    /\ obj'  = [obj EXCEPT ![k] = newk]
    /\ kind' = [kind EXCEPT ![k] = newkind]
    /\ w'    = w
    /\ last' = [op |-> op, k |-> k, a |-> a, res |-> res]

Mut(op, k, a, newk, res) == Do(op, k, a, newk, kind[k], res)
Obs(op, k, a, res)       == Do(op, k, a, obj[k], kind[k], res)
Own(k)                   == kind[k] = "own"

----------------------------------------------------------------------------
(* Construction (the harness destroys object k and constructs it anew).     *)
CtorDefault(k)        == Do("CtorDefault", k, NoArg, <<>>, "own", Void)
CtorN(k, n)           == Do("CtorN", k, [n |-> n], Fill(n, 0), "own", Void)
CtorNV(k, n, v)       == Do("CtorNV", k, [n |-> n, v |-> v], Fill(n, v), "own", Void)
CtorIL(k, bits)       == Do("CtorIL", k, [bits |-> bits], bits, "own", Void)
CtorBlocks(k, blocks) == Do("CtorBlocks", k, [blocks |-> blocks], Unpack(blocks, w), "own", Void)
CtorAlloc(k)          == Do("CtorAlloc", k, NoArg, <<>>, "own", Void)       \* explicit xdynamic_bitset(const allocator_type&)
CtorCopy(k)           == Do("CtorCopy", k, NoArg, obj[Other(k)], "own", Void)
(* Move construction / move assignment from the other (owning) object.  The target holds  *)
(* what the source held.  The moved-from object must stay a valid bitset, but which one is *)
(* not specified: `left` is whatever sequence it is observed to hold afterwards (every      *)
(* observer must then be consistent with `left`, which the projection comparison decides). *)
(* re = 1: the harness destroys the source and default-constructs it again at once.         *)
DoMove(op, k, re, left) ==
    /\ Own(1) /\ Own(2)
    /\ re \in {0, 1} /\ (re = 1 => left = <<>>)
    /\ pre'  = [obj |-> obj, kind |-> kind]
    /\ obj'  = IF k = 1 THEN <<obj[2], left>> ELSE <<left, obj[1]>>
    /\ UNCHANGED <<kind, w>>
    /\ last' = [op |-> op, k |-> k, a |-> [re |-> re], res |-> Void]
CtorMove(k, re, left)   == DoMove("CtorMove", k, re, left)
MoveAssign(k, re, left) == DoMove("MoveAssign", k, re, left)
(* A view over caller memory holding `blocks`, covering n bits: exactly      *)
(* NBlk(n) blocks; the bits it covers are those of the caller's memory.      *)
CtorView(k, blocks, n) ==
    /\ NBlk(n, w) = Len(blocks)
    /\ Do("CtorView", k, [blocks |-> blocks, n |-> n], SubSeq(Unpack(blocks, w), 1, n), "view", Void)

(* Assignment *)
AssignNV(k, n, v)       == Own(k) /\ Mut("AssignNV", k, [n |-> n, v |-> v], Fill(n, v), Void)
AssignIL(k, bits)       == Own(k) /\ Mut("AssignIL", k, [bits |-> bits], bits, Void)
AssignBlocks(k, blocks) == Own(k) /\ Mut("AssignBlocks", k, [blocks |-> blocks], Unpack(blocks, w), Void)
(* sf = 1: the right-hand side is the object itself (a = a) *)
Src(k, sf)              == IF sf = 1 THEN k ELSE Other(k)
SelfArg(sf)             == [self |-> sf]
CopyAssign(k, sf)       == Own(k) /\ sf \in {0, 1} /\ Mut("CopyAssign", k, SelfArg(sf), obj[Src(k, sf)], Void)

(* Size changes *)
Resize(k, n, v) == Own(k) /\ Mut("Resize", k, [n |-> n, v |-> v], ResizeSeq(obj[k], n, v), Void)
Resize1(k, n)   == Own(k) /\ Mut("Resize1", k, [n |-> n], ResizeSeq(obj[k], n, 0), Void)
ResizeView(k, n) == /\ kind[k] = "view"
                    /\ Obs("ResizeView", k, [n |-> n], IF n = Len(obj[k]) THEN Void ELSE Exc("runtime_error"))
Clear(k)        == Own(k) /\ Mut("Clear", k, NoArg, <<>>, Void)
(* reserve(n) changes no observable but capacity(): afterwards capacity() >= n and >= size(). *)
(* cap is the capacity the call left (any conforming value); values >= 2^30 are logged as 2^30 *)
Clip30(x)       == IF x > 1073741824 THEN 1073741824 ELSE x
Reserve(k, n, cap) == Own(k) /\ cap >= Clip30(n) /\ cap >= Len(obj[k]) /\ Obs("Reserve", k, [n |-> n], Ok(<<cap>>))
MaxSize(k, m)   == Own(k) /\ m >= Len(obj[k]) /\ Obs("MaxSize", k, NoArg, Ok(<<m>>))
PushBack(k, v)  == Own(k) /\ Mut("PushBack", k, [v |-> v], Append(obj[k], v), Void)
PopBack(k)      == Own(k) /\ Len(obj[k]) > 0 /\ Mut("PopBack", k, NoArg, SubSeq(obj[k], 1, Len(obj[k]) - 1), Void)

(* Whole-sequence and single-bit modifiers *)
SetAll(k)    == Mut("SetAll", k, NoArg, Fill(Len(obj[k]), 1), Void)
ResetAll(k)  == Mut("ResetAll", k, NoArg, Fill(Len(obj[k]), 0), Void)
FlipAll(k)   == Mut("FlipAll", k, NoArg, NotSeq(obj[k]), Void)
Set(k, i, v) == i < Len(obj[k]) /\ Mut("Set", k, [i |-> i, v |-> v], SetBit(obj[k], i, v), Void)
Set1(k, i)   == i < Len(obj[k]) /\ Mut("Set1", k, [i |-> i], SetBit(obj[k], i, 1), Void)
Reset(k, i)  == i < Len(obj[k]) /\ Mut("ResetBit", k, [i |-> i], SetBit(obj[k], i, 0), Void)
Flip(k, i)   == i < Len(obj[k]) /\ Mut("Flip", k, [i |-> i], SetBit(obj[k], i, 1 - obj[k][i + 1]), Void)

(* Shifts by any amount, including >= size() *)
ShlEq(k, p) == Mut("ShlEq", k, [p |-> p], ShlSeq(obj[k], p), Void)
ShrEq(k, p) == Mut("ShrEq", k, [p |-> p], ShrSeq(obj[k], p), Void)

(* Bitwise compound assignment with the other object, or with the object itself (sf = 1); *)
(* equal sizes are the C++ precondition.  The operand may be an owning bitset or a view.  *)
SameSize(k) == Len(obj[k]) = Len(obj[Other(k)])
BinOK(k, sf) == sf \in {0, 1} /\ (sf = 0 => SameSize(k))
AndEq(k, sf) == BinOK(k, sf) /\ Mut("AndEq", k, SelfArg(sf), AndSeq(obj[k], obj[Src(k, sf)]), Void)
OrEq(k, sf)  == BinOK(k, sf) /\ Mut("OrEq", k, SelfArg(sf), OrSeq(obj[k], obj[Src(k, sf)]), Void)
XorEq(k, sf) == BinOK(k, sf) /\ Mut("XorEq", k, SelfArg(sf), XorSeq(obj[k], obj[Src(k, sf)]), Void)

(* Operators returning a new bitset; operands unchanged *)
Not(k)    == Obs("Not", k, NoArg, Ok(BitsVal(NotSeq(obj[k]))))
And(k, sf) == BinOK(k, sf) /\ Obs("And", k, SelfArg(sf), Ok(BitsVal(AndSeq(obj[k], obj[Src(k, sf)]))))
Or(k, sf)  == BinOK(k, sf) /\ Obs("Or", k, SelfArg(sf), Ok(BitsVal(OrSeq(obj[k], obj[Src(k, sf)]))))
Xor(k, sf) == BinOK(k, sf) /\ Obs("Xor", k, SelfArg(sf), Ok(BitsVal(XorSeq(obj[k], obj[Src(k, sf)]))))
Shl(k, p) == Obs("Shl", k, [p |-> p], Ok(BitsVal(ShlSeq(obj[k], p))))
Shr(k, p) == Obs("Shr", k, [p |-> p], Ok(BitsVal(ShrSeq(obj[k], p))))

(* swap: member swap of two owning bitsets or of two views (the views exchange the memory   *)
(* they refer to), std::swap / ADL swap of two owning bitsets (three moves), a.swap(a).     *)
SwapHows == {"member", "std", "adl"}
Swap(k, how, sf) ==
    LET o == Src(k, sf) IN
    /\ how \in SwapHows /\ sf \in {0, 1}
    /\ kind[k] = kind[o]
    /\ (kind[k] = "view" \/ sf = 1) => how = "member"
    /\ pre' = [obj |-> obj, kind |-> kind]
    /\ obj' = IF o = k THEN obj ELSE <<obj[2], obj[1]>>
    /\ UNCHANGED <<kind, w>>
    /\ last' = [op |-> "Swap", k |-> k, a |-> [how |-> how, self |-> sf], res |-> Void]

(* Checked access: throws exactly when i >= size() *)
(* c: "c" the const overload, "m" the non-const one (its reference is converted to bool) *)
At(k, c, i) == c \in {"c", "m"} /\
               Obs("At", k, [c |-> c, i |-> i],
                   IF i < Len(obj[k]) THEN Ok(<<obj[k][i + 1]>>) ELSE Exc("out_of_range"))

(* Reads through every access path.  "neg" is operator~ of the element reference. *)
(* "data"/"cdata": bit i of data()[i / W] through the non-const / const overload; "blockit": of *(block_begin() + i / W) *)
ReadPaths == {"cindex", "index", "at", "cat", "front", "cfront", "back", "cback", "iter", "citer", "riter", "criter", "neg",
              "data", "cdata", "blockit"}
PathIndexOK(k, path, i) ==
    /\ i < Len(obj[k])
    /\ path \in {"front", "cfront"} => i = 0
    /\ path \in {"back", "cback"} => i = Len(obj[k]) - 1
Read(k, path, i) ==
    /\ path \in ReadPaths
    /\ PathIndexOK(k, path, i)
    /\ Obs("Read", k, [path |-> path, i |-> i],
           Ok(<<IF path = "neg" THEN 1 - obj[k][i + 1] ELSE obj[k][i + 1]>>))

(* Writes through element references and iterators.                         *)
(* wk: "assign" v | "and" v | "or" v | "xor" v | "flip" | "aref" j (a[i] = a[j]) | "ptr" v (through &ref) *)
WritePaths == {"index", "at", "front", "back", "iter", "riter"}
WriteKinds == {"assign", "and", "or", "xor", "flip", "aref", "ptr"}
Written(old, wk, v, src) ==
    CASE wk = "assign" -> v
      [] wk = "and"    -> BAnd(old, v)
      [] wk = "or"     -> BOr(old, v)
      [] wk = "xor"    -> BXor(old, v)
      [] wk = "flip"   -> 1 - old
      [] wk = "aref"   -> src
      [] wk = "ptr"    -> v
RefWrite(k, path, i, wk, v, j) ==
    /\ path \in WritePaths /\ wk \in WriteKinds
    /\ PathIndexOK(k, path, i)
    /\ j < Len(obj[k])
    /\ Mut("RefWrite", k, [path |-> path, i |-> i, wk |-> wk, v |-> v, j |-> j],
           SetBit(obj[k], i, Written(obj[k][i + 1], wk, v, obj[k][j + 1])), Void)

(* Two element references at once: r1 designates bit i of object k (obtained through path p1), r2 designates bit j of    *)
(* object Src(k, sf) (through path p2).  The two referents may be the SAME bit, two bits of the same block, of different  *)
(* blocks or of different objects; every action that takes two positions is defined for all of these.                    *)
(*   pk: "swap"     swap(r1, r2) (ADL: exchanges the referent VALUES)       "iterswap" std::iter_swap(it1, it2)            *)
(*       "assign"   r1 = r2          "and" r1 &= r2          "or" r1 |= r2          "xor" r1 ^= r2                         *)
(*   vc: value category of the two proxies: "tmp" (the prvalues returned by the accessor / *it), "named" (two lvalues      *)
(*       auto r1 = ..., r2 = ...), "copy" (copies of the two named proxies: a copy designates the same referent)          *)
(* swap / iter_swap are declared for two references of the same bitset type (both owning or both views).                  *)
PairKinds == {"swap", "iterswap", "assign", "and", "or", "xor"}
PairCats  == {"tmp", "named", "copy"}
PairSwaps == {"swap", "iterswap"}
RefPair(k, sf, p1, i, p2, j, pk, vc) ==
    LET o  == Src(k, sf)
        x  == obj[k][i + 1]
        y  == obj[o][j + 1]
        nx == CASE pk \in PairSwaps \cup {"assign"} -> y
                [] pk = "and" -> BAnd(x, y)
                [] pk = "or"  -> BOr(x, y)
                [] pk = "xor" -> BXor(x, y)
        s1 == [obj EXCEPT ![k] = SetBit(obj[k], i, nx)]
    IN
    /\ sf \in {0, 1} /\ p1 \in WritePaths /\ p2 \in WritePaths /\ pk \in PairKinds /\ vc \in PairCats
    /\ PathIndexOK(k, p1, i) /\ PathIndexOK(o, p2, j)
    /\ pk = "iterswap" => (p1 \in {"iter", "riter"} /\ p2 \in {"iter", "riter"} /\ vc = "tmp")
    /\ pk \in PairSwaps => kind[k] = kind[o]
    /\ pre'  = [obj |-> obj, kind |-> kind]
    /\ obj'  = IF pk \in PairSwaps THEN [s1 EXCEPT ![o] = SetBit(s1[o], j, x)] ELSE s1
    /\ UNCHANGED <<kind, w>>
    /\ last' = [op |-> "RefPair", k |-> k, a |-> [self |-> sf, p1 |-> p1, i |-> i, p2 |-> p2, j |-> j, pk |-> pk, vc |-> vc], res |-> Void]

(* std::fill(begin() + i, begin() + j, v): a run of iterator writes *)
Fill2(k, i, j, v) ==
    /\ i <= j /\ j <= Len(obj[k])
    /\ Mut("Fill", k, [i |-> i, j |-> j, v |-> v], [m \in 1..Len(obj[k]) |-> IF m > i /\ m <= j THEN v ELSE obj[k][m]], Void)


(* Standard algorithms over the bit iterators: runs of reads and writes through the iterator proxies.  The result is   *)
(* the algorithm's definition on the sequence, whatever order of proxy reads/writes/swaps the library uses.            *)
(*   reverse  : std::reverse(begin()+i, begin()+j)                                                                      *)
(*   rotate   : std::rotate(begin()+i, begin()+m, begin()+j)                                                            *)
(*   iterswap : std::iter_swap(begin()+i, begin()+j)          (i, j < size())                                           *)
(*   copyfrom : std::copy(other.cbegin()+i, other.cbegin()+j, begin()+m)   (const proxies read, non-const written)      *)
(*   copybwd  : std::copy_backward(begin()+i, begin()+j, begin()+j+m)  (m <= size()-j: the segment moves up by m, overlapping) *)
(*   count    : std::count(cbegin()+i, cbegin()+j, true)            find : std::find(begin()+i, begin()+j, true) - begin() *)
(*   equal    : std::equal(cbegin()+i, cbegin()+j, other.cbegin()+i)                                                    *)
AlgoMut == {"reverse", "rotate", "iterswap", "copyfrom", "copybwd"}
AlgoObs == {"count", "find", "equal"}
AlgoKinds == AlgoMut \cup AlgoObs
SegRev(s, i, j)    == [x \in 1..Len(s) |-> IF x > i /\ x <= j THEN s[i + j + 1 - x] ELSE s[x]]
SegRot(s, i, m, j) == [x \in 1..Len(s) |-> IF x > i /\ x <= j THEN s[i + 1 + (((x - 1 - i) + (m - i)) % (j - i))] ELSE s[x]]
SwapBits(s, i, j)  == [s EXCEPT ![i + 1] = s[j + 1], ![j + 1] = s[i + 1]]
CopyInto(s, t, i, j, m) == [x \in 1..Len(s) |-> IF x > m /\ x <= m + (j - i) THEN t[i + (x - m)] ELSE s[x]]
RECURSIVE FindFrom(_, _, _)
FindFrom(s, i, j) == IF i >= j THEN j ELSE IF s[i + 1] = 1 THEN i ELSE FindFrom(s, i + 1, j)
AlgoOK(k, alg, i, m, j) == LET n == Len(obj[k])  no == Len(obj[Other(k)]) IN
    CASE alg = "iterswap" -> i < n /\ j < n /\ m = 0
      [] alg = "rotate"   -> i <= m /\ m <= j /\ j <= n
      [] alg = "copyfrom" -> i <= j /\ j <= no /\ m + (j - i) <= n
      [] alg = "copybwd"  -> i <= j /\ j + m <= n
      [] alg = "equal"    -> i <= j /\ j <= n /\ j <= no /\ m = 0
      [] OTHER            -> i <= j /\ j <= n /\ m = 0
Algo(k, alg, i, m, j) == LET s == obj[k]  t == obj[Other(k)]  a == [alg |-> alg, i |-> i, m |-> m, j |-> j] IN
    /\ alg \in AlgoKinds
    /\ AlgoOK(k, alg, i, m, j)
    /\ CASE alg = "reverse"  -> Mut("Algo", k, a, SegRev(s, i, j), Void)
         [] alg = "rotate"   -> Mut("Algo", k, a, SegRot(s, i, m, j), Void)
         [] alg = "iterswap" -> Mut("Algo", k, a, SwapBits(s, i, j), Void)
         [] alg = "copyfrom" -> Mut("Algo", k, a, CopyInto(s, t, i, j, m), Void)
         [] alg = "copybwd"  -> Mut("Algo", k, a, CopyInto(s, s, i, j, i + m), Void)
         [] alg = "count"    -> Obs("Algo", k, a, Ok(<<Count(SubSeq(s, i + 1, j))>>))
         [] alg = "find"     -> Obs("Algo", k, a, Ok(<<FindFrom(s, i, j)>>))
         [] alg = "equal"    -> Obs("Algo", k, a, Ok(<<IF SubSeq(s, i + 1, j) = SubSeq(t, i + 1, j) THEN 1 ELSE 0>>))

----------------------------------------------------------------------------
(* Bounded argument domains for the model checker *)
Sizes      == 0..MaxBits
BitSeqs(n) == UNION {[1..m -> Bit] : m \in 0..n}
LimbRange(W) == LimbReps \cap 0..(2 ^ LW(W) - 1)
BlockVals(W) == [1..(W \div LW(W)) -> LimbRange(W)]
BlockSeqs(W, n) == UNION {[1..m -> BlockVals(W)] : m \in 0..n}
MaxBlk == NBlk(MaxBits, w)
Idx(k)     == 0..(Len(obj[k]) - 1)


Init ==
    /\ w \in Widths
    /\ kind = <<"own", "own">>
    /\ obj = <<<<>>, <<>>>>
    /\ last = [op |-> "Init", k |-> 0, a |-> NoArg, res |-> Void]
    /\ pre = [obj |-> <<<<>>, <<>>>>, kind |-> <<"own", "own">>]

C(c) == c \in Classes
AlgoIdx(k) == LET n == IF Len(obj[k]) >= Len(obj[Other(k)]) THEN Len(obj[k]) ELSE Len(obj[Other(k)]) IN
              IF C("algofew") \/ C("algopair") THEN {0, 1, w - 1, w, w + 1, n - 1, n} \cap 0..n ELSE 0..n
NextT(k) ==
    \/ C("ctor") /\ (CtorDefault(k) \/ CtorAlloc(k))
    \/ C("ctor") /\ \E n \in Sizes : CtorN(k, n)
    \/ C("size") /\ \E n \in Sizes : Resize1(k, n) \/ ResizeView(k, n)
    \/ C("ctor") /\ \E n \in Sizes, v \in Bit : CtorNV(k, n, v) \/ AssignNV(k, n, v)
    \/ C("size") /\ \E n \in Sizes, v \in Bit : Resize(k, n, v)
    \/ (C("ctor") \/ C("il")) /\ \E b \in ILArgs : CtorIL(k, b) \/ AssignIL(k, b)
    \/ C("il0") /\ obj[k] = <<>> /\ kind[k] = "own" /\ \E b \in ILArgs : CtorIL(k, b)     \* navigation only: from the empty bitset
    \/ C("ctor") /\ \E bl \in BlockSeqs(w, MaxBits \div w) : CtorBlocks(k, bl) \/ AssignBlocks(k, bl)
    \/ C("view") /\ \E bl \in BlockSeqs(w, MaxBlk), n \in Sizes : CtorView(k, bl, n)
    \/ (C("pair") \/ C("copy")) /\ (CtorCopy(k) \/ \E sf \in {0, 1} : CopyAssign(k, sf))
    \/ C("pair") /\ \E how \in SwapHows, sf \in {0, 1} : Swap(k, how, sf)
    \/ (C("move") \/ C("move1")) /\ \E re \in (IF C("move") THEN {0, 1} ELSE {1}), left \in {<<>>, obj[Other(k)]} :
           CtorMove(k, re, left) \/ MoveAssign(k, re, left)
    \/ C("cap") /\ \E n \in Sizes \cup {MaxBits + w} :
           Reserve(k, n, IF n > Len(obj[k]) THEN n ELSE Len(obj[k]))
    \/ C("cap") /\ MaxSize(k, MaxBits)
    \/ C("size") /\ Clear(k)
    \/ C("push") /\ (PopBack(k) \/ \E v \in Bit : PushBack(k, v))
    \/ C("bit") /\ (SetAll(k) \/ ResetAll(k) \/ FlipAll(k) \/ Not(k))
    \/ C("bit") /\ \E i \in Idx(k) : Set1(k, i) \/ Reset(k, i) \/ Flip(k, i) \/ (\E v \in Bit : Set(k, i, v))
    \/ C("shift") /\ \E p \in 0..MaxShift : ShlEq(k, p) \/ ShrEq(k, p) \/ Shl(k, p) \/ Shr(k, p)
    \/ C("binary") /\ \E sf \in {0, 1} : AndEq(k, sf) \/ OrEq(k, sf) \/ XorEq(k, sf) \/ And(k, sf) \/ Or(k, sf) \/ Xor(k, sf)
    \/ C("fill") /\ \E i \in 0..Len(obj[k]), j \in 0..Len(obj[k]), v \in Bit : Fill2(k, i, j, v)
    \/ (C("algo") \/ C("algofew")) /\ \E i \in AlgoIdx(k), j \in AlgoIdx(k) :
           \/ \E alg \in AlgoKinds \ {"rotate", "copyfrom", "copybwd"} : Algo(k, alg, i, 0, j)
           \/ i <= j /\ \E m \in AlgoIdx(k) : Algo(k, "rotate", i, m, j) \/ Algo(k, "copyfrom", i, m, j) \/ Algo(k, "copybwd", i, m, j)
    \/ C("algopair") /\ \E i \in {0, 1, w}, j \in AlgoIdx(k) :
           i <= j /\ (Algo(k, "equal", i, 0, j) \/ \E m \in {0, 1, w - 1, w} : Algo(k, "copyfrom", i, m, j))
    \/ C("at") /\ \E i \in 0..(NBlk(MaxBits, w) * w + 1), c \in {"c", "m"} : At(k, c, i)
    \/ C("read") /\ \E i \in Idx(k), path \in ReadPaths : Read(k, path, i)
    \/ C("write") /\ \E i \in Idx(k), path \in WritePaths, wk \in WriteKinds, v \in Bit, j \in Idx(k) :
           /\ (wk \in {"flip", "aref"} => v = 0)
           /\ (wk # "aref" => j = 0)
           /\ RefWrite(k, path, i, wk, v, j)
    \/ (C("refpair") \/ C("refpairall")) /\ \E sf \in {0, 1}, i \in Idx(k), p1 \in WritePaths, p2 \in WritePaths, pk \in PairKinds, vc \in PairCats :
           /\ C("refpairall") \/ <<p1, p2, vc>> \in {<<"index", "index", "tmp">>, <<"index", "at", "named">>, <<"front", "back", "copy">>,
                                                     <<"back", "index", "named">>, <<"iter", "riter", "tmp">>}
           /\ \E j \in Idx(Src(k, sf)) : RefPair(k, sf, p1, i, p2, j, pk, vc)
    \/ C("refpairfew") /\ \E i \in {0, 1, w - 1, w, Len(obj[k]) - 1} \cap Idx(k), p1 \in {"index", "at", "iter", "riter"}, pk \in PairKinds, vc \in PairCats :
           \E j \in {i, 0, w, Len(obj[k]) - 1} \cap Idx(k), p2 \in {p1, "index"} :
               /\ (~(p1 = "index" /\ p2 = "index") => vc = "tmp")
               /\ RefPair(k, 1, p1, i, p2, j, pk, vc)
    \/ C("refpairbin") /\ \E i \in {0, Len(obj[k]) - 1} \cap Idx(k), p1 \in {"index", "iter"}, pk \in PairKinds, vc \in PairCats :
           \E j \in {i, Len(obj[Other(k)]) - 1} \cap Idx(Other(k)) :
               /\ (p1 # "index" => vc = "tmp")
               /\ RefPair(k, 0, p1, i, p1, j, pk, vc)
    \/ C("writefew") /\ \E i \in Idx(k), path \in WritePaths, wk \in WriteKinds, v \in Bit, j \in {0, Len(obj[k]) - 1} :
           /\ (wk \in {"flip", "aref"} => v = 0)
           /\ (wk # "aref" => j = 0)
           /\ (path # "index" => wk \in {"assign", "flip"})
           /\ RefWrite(k, path, i, wk, v, j)

(* the non-target object is given a content directly, as an owning bitset or (class "otherview") as a view *)
NextO(k) == /\ C("other0") => obj[k] = <<>>       \* (navigation only: the content is given once)
            /\ \E b \in OtherInit : CtorIL(k, b) \/ (C("otherview") /\ CtorView(k, Limbs(b, w), Len(b)))

Next == (\E k \in Targets : NextT(k)) \/ (\E k \in {1, 2} \ Targets : NextO(k))

(* S->C enumeration: with VIEW absvars every abstract state is expanded once.  This action
   constraint (i) only lets representative states be expanded (all-0, all-1, alternating,
   one-hot, one-cold, low-ones of every length) and (ii) writes each transition out of them
   (pre-state, call) as one JSON line on TLC's output, from which replay scripts are built. *)
RepSeqs == UNION { {Fill(n, 0), Fill(n, 1), [i \in 1..n |-> i % 2], [i \in 1..n |-> (i + 1) % 2]}
                   \cup {[i \in 1..n |-> IF i = j THEN 1 ELSE 0] : j \in 1..n}
                   \cup {[i \in 1..n |-> IF i = j THEN 0 ELSE 1] : j \in 1..n}
                   \cup {[i \in 1..n |-> IF i <= j THEN 1 ELSE 0] : j \in 1..n} : n \in 0..MaxBits }
Emit == /\ obj[1] \in RepSeqs /\ obj[2] \in RepSeqs
        /\ (last'.op \in EmitOps) =>
              PrintT("@E@" \o ToJson([p |-> pre', l |-> [op |-> last'.op, k |-> last'.k, a |-> last'.a]]))

SizeBound == Len(obj[1]) <= MaxBits /\ Len(obj[2]) <= MaxBits

Spec == Init /\ [][Next]_vars

----------------------------------------------------------------------------
(* Invariants and theorems of the specification itself (guard the oracle).  *)
TypeOK ==
    /\ w \in Widths
    /\ \A k \in {1, 2} : kind[k] \in {"own", "view"} /\ \A i \in 1..Len(obj[k]) : obj[k][i] \in Bit

(* The packed representation is canonical: unpacking the blocks and cutting to size gives the bits back *)
PackRoundTrip == \A k \in {1, 2} : SubSeq(Unpack(Limbs(obj[k], w), w), 1, Len(obj[k])) = obj[k]
(* ... and the bits beyond size() in the last block are zero *)
UnusedZero == \A k \in {1, 2} : \A i \in (Len(obj[k]) + 1)..(NBlk(Len(obj[k]), w) * w) : Unpack(Limbs(obj[k], w), w)[i] = 0

Laws == \A k \in {1, 2} : LET s == obj[k] IN
    /\ NotSeq(NotSeq(s)) = s
    /\ Count(s) + Count(NotSeq(s)) = Len(s)
    /\ ShlSeq(s, 0) = s /\ ShrSeq(s, 0) = s
    /\ \A p \in 0..MaxShift : p >= Len(s) => (ShlSeq(s, p) = Fill(Len(s), 0) /\ ShrSeq(s, p) = Fill(Len(s), 0))
    /\ \A p \in 0..MaxShift : Count(ShlSeq(s, p)) <= Count(s) /\ ShrSeq(ShlSeq(s, p), p) = [i \in 1..Len(s) |-> IF i + p <= Len(s) THEN s[i] ELSE 0]
    /\ XorSeq(s, s) = Fill(Len(s), 0) /\ AndSeq(s, s) = s /\ OrSeq(s, NotSeq(s)) = Fill(Len(s), 1)

(* observers never change the abstract state; views never change size *)
AlgoLaws == \A k \in {1, 2} : LET s == obj[k]  n == Len(s) IN
    /\ SegRev(s, 0, n) = RevSeq(s)
    /\ \A i \in 0..n, j \in 0..n : i <= j =>
          /\ SegRev(SegRev(s, i, j), i, j) = s
          /\ Count(SegRev(s, i, j)) = Count(s)
          /\ SegRot(s, i, i, j) = s /\ SegRot(s, i, j, j) = s
          /\ \A m \in i..j : /\ Count(SegRot(s, i, m, j)) = Count(s)
                               /\ SegRot(SegRot(s, i, m, j), i, i + (j - m), j) = s     \* rotating back
          /\ CopyInto(s, s, i, j, i) = s
          /\ FindFrom(s, i, j) \in i..j
          /\ (FindFrom(s, i, j) = j) = (Count(SubSeq(s, i + 1, j)) = 0)
    /\ \A i \in 0..(n - 1), j \in 0..(n - 1) : SwapBits(SwapBits(s, i, j), i, j) = s /\ SwapBits(s, i, i) = s
(* algorithms never change the size; the observers among them change nothing *)
AlgoSizeLaw == [][last'.op = "Algo" => /\ Len(obj'[last'.k]) = Len(obj[last'.k]) /\ obj'[Other(last'.k)] = obj[Other(last'.k)]
                                        /\ (last'.a.alg \in AlgoObs => obj' = obj)]_vars
ObserverOps == {"At", "Read", "Not", "And", "Or", "Xor", "Shl", "Shr", "ResizeView", "Reserve", "MaxSize"}
ObserversPure == [][last'.op \in ObserverOps => obj' = obj /\ kind' = kind]_vars
ViewSizeFixed == [][\A k \in {1, 2} : (kind[k] = "view" /\ kind'[k] = "view" /\ last'.op \notin {"CtorView", "Swap"}) => Len(obj'[k]) = Len(obj[k])]_vars
FailedChangesNothing == [][last'.res.exc # "none" => obj' = obj /\ kind' = kind]_vars
(* a move leaves the target with exactly what the source held; a swap exchanges, twice is the identity *)
MoveLaw == [][last'.op \in {"CtorMove", "MoveAssign"} => obj'[last'.k] = obj[Other(last'.k)]]_vars
SwapLaw == [][last'.op = "Swap" => (obj'[1] = obj[2] /\ obj'[2] = obj[1]) \/ (last'.a.self = 1 /\ obj' = obj)]_vars
(* two references: sizes and kinds never change, nothing but the two referents changes; swap exchanges (twice = identity, *)
(* same bit = no change); r ^= r clears the bit, r = r / r &= r / r |= r change nothing; popcount is kept by swap          *)
RefPairLaw == [][last'.op = "RefPair" =>
    LET a == last'.a  k == last'.k  o == Src(k, a.self) IN
    /\ \A q \in {1, 2} : Len(obj'[q]) = Len(obj[q])
    /\ \A q \in {1, 2} : \A t \in 1..Len(obj[q]) : (~(q = k /\ t = a.i + 1) /\ ~(q = o /\ t = a.j + 1)) => obj'[q][t] = obj[q][t]
    /\ (a.pk \in PairSwaps => /\ obj'[k][a.i + 1] = obj[o][a.j + 1] /\ obj'[o][a.j + 1] = obj[k][a.i + 1]
                              /\ Count(obj'[1]) + Count(obj'[2]) = Count(obj[1]) + Count(obj[2]))
    /\ ((o = k /\ a.i = a.j) => IF a.pk = "xor" THEN obj'[k][a.i + 1] = 0 ELSE obj' = obj)
    /\ (a.pk = "assign" => obj'[k][a.i + 1] = obj[o][a.j + 1])]_vars
(* self-application: a &= a, a |= a, a = a change nothing, a ^= a clears *)
SelfLaw == [][(last'.op \in {"AndEq", "OrEq", "CopyAssign"} /\ last'.a.self = 1 => obj' = obj)
              /\ (last'.op = "XorEq" /\ last'.a.self = 1 => obj'[last'.k] = Fill(Len(obj[last'.k]), 0))]_vars
=============================================================================

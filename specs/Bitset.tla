------------------------------- MODULE Bitset -------------------------------
(***************************************************************************)
(* L1 property specification for C03: xdynamic_bitset / xdynamic_bitset_view *)
(* as "a resizable sequence of bools".  Written from the property statement *)
(* and std::vector<bool>/std::bitset semantics, not from xtl's code.        *)
(*                                                                          *)
(* Two objects obj[1], obj[2] (binary operators, copy, swap, ==).  Every    *)
(* public call is one action; its C++ arguments are the action parameters   *)
(* and are recorded, with the expected return value / exception, in the     *)
(* ghost variable last.  pre is the abstract state before the call, so that *)
(* every distinct TLC state of the unviewed spec is one transition.         *)
(***************************************************************************)
EXTENDS Naturals, Sequences, FiniteSets, TLC, Json

CONSTANTS MaxBits,   \* model-checking bound on size()
          Widths,    \* block widths (bits per block) explored
          MaxShift,  \* model-checking bound on shift amounts
          Targets,   \* objects the model checker applies operations to
          OtherInit, \* bit sequences the non-target object may be given directly
          ILArgs,    \* bit sequences used as initializer-list arguments by the model checker
          LimbReps,  \* limb values used for block arguments by the model checker
          Classes,   \* operation classes enabled in the model checker's next-state relation
          EmitOps    \* S->C: operations whose transitions are written out as JSON (see Emit)

VARIABLES w,     \* bits per block of this configuration
          kind,  \* kind[k] \in {"own", "view"}
          obj,   \* obj[k]: the bit sequence, a sequence over {0,1}; obj[k][i+1] is bit i
          last,  \* ghost: [op, k, a, res] of the call just performed
          pre    \* ghost: [obj, kind] before that call

vars == <<w, kind, obj, last, pre>>
absvars == <<w, kind, obj>>

Bit == {0, 1}
Other(k) == 3 - k

----------------------------------------------------------------------------
(* Sequence algebra: what std::vector<bool> would hold.                     *)

Fill(n, v)         == [i \in 1..n |-> v]
ResizeSeq(s, n, v) == [i \in 1..n |-> IF i <= Len(s) THEN s[i] ELSE v]
ShlSeq(s, p)       == [i \in 1..Len(s) |-> IF i > p THEN s[i - p] ELSE 0]      \* <<= : towards higher indices
ShrSeq(s, p)       == [i \in 1..Len(s) |-> IF i + p <= Len(s) THEN s[i + p] ELSE 0]
NotSeq(s)          == [i \in 1..Len(s) |-> 1 - s[i]]
AndSeq(s, t)       == [i \in 1..Len(s) |-> IF s[i] = 1 /\ t[i] = 1 THEN 1 ELSE 0]
OrSeq(s, t)        == [i \in 1..Len(s) |-> IF s[i] = 1 \/ t[i] = 1 THEN 1 ELSE 0]
XorSeq(s, t)       == [i \in 1..Len(s) |-> IF s[i] # t[i] THEN 1 ELSE 0]
SetBit(s, i, v)    == [s EXCEPT ![i + 1] = v]                                  \* i is the C++ (0-based) index
RevSeq(s)          == [i \in 1..Len(s) |-> s[Len(s) + 1 - i]]
Count(s)           == Cardinality({i \in 1..Len(s) : s[i] = 1})
BAnd(x, y)         == IF x = 1 /\ y = 1 THEN 1 ELSE 0
BOr(x, y)          == IF x = 1 \/ y = 1 THEN 1 ELSE 0
BXor(x, y)         == IF x # y THEN 1 ELSE 0

----------------------------------------------------------------------------
(* Block representation the property makes observable: block_count(), and  *)
(* data() with all bits beyond size() equal to zero.  Blocks wider than 16  *)
(* bits are written as little-endian 16-bit limbs (TLC integers are 32 bit).*)

LW(W)      == IF W < 16 THEN W ELSE 16
NBlk(n, W) == (n + W - 1) \div W
BitOr0(s, i) == IF i <= Len(s) THEN s[i] ELSE 0
RECURSIVE LimbVal(_, _, _)
LimbVal(s, base, n) == IF n = 0 THEN 0 ELSE BitOr0(s, base + 1) + 2 * LimbVal(s, base + 1, n - 1)
Limbs(s, W) == [j \in 1..NBlk(Len(s), W) |->
                  [m \in 1..(W \div LW(W)) |-> LimbVal(s, (j - 1) * W + (m - 1) * LW(W), LW(W))]]
Unpack(blocks, W) ==
    [i \in 1..(Len(blocks) * W) |->
        LET j == (i - 1) \div W + 1
            r == (i - 1) % W
            m == r \div LW(W) + 1
            q == r % LW(W)
        IN (blocks[j][m] \div (2 ^ q)) % 2]

----------------------------------------------------------------------------
(* What every observer reports about one object (compared after each call). *)

Proj(k) == LET s == obj[k] IN
    [kind  |-> kind[k],
     size  |-> Len(s),
     empty |-> Len(s) = 0,
     bits  |-> s,                       \* operator[] for every index
     fwd   |-> s,                       \* begin()..end()
     rev   |-> RevSeq(s),               \* rbegin()..rend()
     nblk  |-> NBlk(Len(s), w),         \* block_count()
     blk   |-> Limbs(s, w),             \* data(): unused bits of the last block are zero
     count |-> Count(s),
     any   |-> \E i \in 1..Len(s) : s[i] = 1,
     all   |-> \A i \in 1..Len(s) : s[i] = 1,
     none  |-> \A i \in 1..Len(s) : s[i] = 0,
     guard |-> TRUE]                    \* caller memory outside a view's blocks is untouched
ProjAll == [o |-> <<Proj(1), Proj(2)>>, eq |-> obj[1] = obj[2], ne |-> obj[1] # obj[2]]

----------------------------------------------------------------------------
Ok(v)  == [exc |-> "none", val |-> v]
Exc(e) == [exc |-> e, val |-> <<>>]
Void   == Ok(<<>>)
NoArg  == [z |-> 0]
BitsVal(s) == [bits |-> s, blk |-> Limbs(s, w), size |-> Len(s)]

Do(op, k, a, newk, newkind, res) ==
    /\ pre'  = [obj |-> obj, kind |-> kind]
    /\ obj'  = [obj EXCEPT ![k] = newk]
    /\ kind' = [kind EXCEPT ![k] = newkind]
    /\ w'    = w
    /\ last' = [op |-> op, k |-> k, a |-> a, res |-> res]

Mut(op, k, a, newk, res) == Do(op, k, a, newk, kind[k], res)
Obs(op, k, a, res)       == Do(op, k, a, obj[k], kind[k], res)
Own(k)                   == kind[k] = "own"

----------------------------------------------------------------------------
(* Construction (the harness destroys object k and constructs it anew).     *)
CtorDefault(k)        == Do("CtorDefault", k, NoArg, <<>>, "own", Void)
CtorN(k, n)           == Do("CtorN", k, [n |-> n], Fill(n, 0), "own", Void)
CtorNV(k, n, v)       == Do("CtorNV", k, [n |-> n, v |-> v], Fill(n, v), "own", Void)
CtorIL(k, bits)       == Do("CtorIL", k, [bits |-> bits], bits, "own", Void)
CtorBlocks(k, blocks) == Do("CtorBlocks", k, [blocks |-> blocks], Unpack(blocks, w), "own", Void)
CtorCopy(k)           == Do("CtorCopy", k, NoArg, obj[Other(k)], "own", Void)
(* A view over caller memory holding `blocks`, covering n bits: exactly      *)
(* NBlk(n) blocks; the bits it covers are those of the caller's memory.      *)
CtorView(k, blocks, n) ==
    /\ NBlk(n, w) = Len(blocks)
    /\ Do("CtorView", k, [blocks |-> blocks, n |-> n], SubSeq(Unpack(blocks, w), 1, n), "view", Void)

(* Assignment *)
AssignNV(k, n, v)       == Own(k) /\ Mut("AssignNV", k, [n |-> n, v |-> v], Fill(n, v), Void)
AssignIL(k, bits)       == Own(k) /\ Mut("AssignIL", k, [bits |-> bits], bits, Void)
AssignBlocks(k, blocks) == Own(k) /\ Mut("AssignBlocks", k, [blocks |-> blocks], Unpack(blocks, w), Void)
CopyAssign(k)           == Own(k) /\ Mut("CopyAssign", k, NoArg, obj[Other(k)], Void)

(* Size changes *)
Resize(k, n, v) == Own(k) /\ Mut("Resize", k, [n |-> n, v |-> v], ResizeSeq(obj[k], n, v), Void)
Resize1(k, n)   == Own(k) /\ Mut("Resize1", k, [n |-> n], ResizeSeq(obj[k], n, 0), Void)
ResizeView(k, n) == /\ kind[k] = "view"
                    /\ Obs("ResizeView", k, [n |-> n], IF n = Len(obj[k]) THEN Void ELSE Exc("runtime_error"))
Clear(k)        == Own(k) /\ Mut("Clear", k, NoArg, <<>>, Void)
PushBack(k, v)  == Own(k) /\ Mut("PushBack", k, [v |-> v], Append(obj[k], v), Void)
PopBack(k)      == Own(k) /\ Len(obj[k]) > 0 /\ Mut("PopBack", k, NoArg, SubSeq(obj[k], 1, Len(obj[k]) - 1), Void)

(* Whole-sequence and single-bit modifiers *)
SetAll(k)    == Mut("SetAll", k, NoArg, Fill(Len(obj[k]), 1), Void)
ResetAll(k)  == Mut("ResetAll", k, NoArg, Fill(Len(obj[k]), 0), Void)
FlipAll(k)   == Mut("FlipAll", k, NoArg, NotSeq(obj[k]), Void)
Set(k, i, v) == i < Len(obj[k]) /\ Mut("Set", k, [i |-> i, v |-> v], SetBit(obj[k], i, v), Void)
Set1(k, i)   == i < Len(obj[k]) /\ Mut("Set1", k, [i |-> i], SetBit(obj[k], i, 1), Void)
Reset(k, i)  == i < Len(obj[k]) /\ Mut("ResetBit", k, [i |-> i], SetBit(obj[k], i, 0), Void)
Flip(k, i)   == i < Len(obj[k]) /\ Mut("Flip", k, [i |-> i], SetBit(obj[k], i, 1 - obj[k][i + 1]), Void)

(* Shifts by any amount, including >= size() *)
ShlEq(k, p) == Mut("ShlEq", k, [p |-> p], ShlSeq(obj[k], p), Void)
ShrEq(k, p) == Mut("ShrEq", k, [p |-> p], ShrSeq(obj[k], p), Void)

(* Bitwise compound assignment with the other object (same size is the C++ precondition) *)
SameSize(k) == Len(obj[k]) = Len(obj[Other(k)])
AndEq(k) == SameSize(k) /\ Mut("AndEq", k, NoArg, AndSeq(obj[k], obj[Other(k)]), Void)
OrEq(k)  == SameSize(k) /\ Mut("OrEq", k, NoArg, OrSeq(obj[k], obj[Other(k)]), Void)
XorEq(k) == SameSize(k) /\ Mut("XorEq", k, NoArg, XorSeq(obj[k], obj[Other(k)]), Void)

(* Operators returning a new bitset; operands unchanged *)
Not(k)    == Obs("Not", k, NoArg, Ok(BitsVal(NotSeq(obj[k]))))
And(k)    == SameSize(k) /\ Obs("And", k, NoArg, Ok(BitsVal(AndSeq(obj[k], obj[Other(k)]))))
Or(k)     == SameSize(k) /\ Obs("Or", k, NoArg, Ok(BitsVal(OrSeq(obj[k], obj[Other(k)]))))
Xor(k)    == SameSize(k) /\ Obs("Xor", k, NoArg, Ok(BitsVal(XorSeq(obj[k], obj[Other(k)]))))
Shl(k, p) == Obs("Shl", k, [p |-> p], Ok(BitsVal(ShlSeq(obj[k], p))))
Shr(k, p) == Obs("Shr", k, [p |-> p], Ok(BitsVal(ShrSeq(obj[k], p))))

(* swap of two owning bitsets *)
Swap(k) ==
    /\ Own(1) /\ Own(2)
    /\ pre' = [obj |-> obj, kind |-> kind]
    /\ obj' = <<obj[2], obj[1]>>
    /\ UNCHANGED <<kind, w>>
    /\ last' = [op |-> "Swap", k |-> k, a |-> NoArg, res |-> Void]

(* Checked access: throws exactly when i >= size() *)
At(k, i) == Obs("At", k, [i |-> i],
                IF i < Len(obj[k]) THEN Ok(<<obj[k][i + 1]>>) ELSE Exc("out_of_range"))

(* Reads through every access path.  "neg" is operator~ of the element reference. *)
ReadPaths == {"cindex", "index", "at", "cat", "front", "cfront", "back", "cback", "iter", "citer", "riter", "criter", "neg"}
PathIndexOK(k, path, i) ==
    /\ i < Len(obj[k])
    /\ path \in {"front", "cfront"} => i = 0
    /\ path \in {"back", "cback"} => i = Len(obj[k]) - 1
Read(k, path, i) ==
    /\ path \in ReadPaths
    /\ PathIndexOK(k, path, i)
    /\ Obs("Read", k, [path |-> path, i |-> i],
           Ok(<<IF path = "neg" THEN 1 - obj[k][i + 1] ELSE obj[k][i + 1]>>))

(* Writes through element references and iterators.                         *)
(* wk: "assign" v | "and" v | "or" v | "xor" v | "flip" | "aref" j (a[i] = a[j]) *)
WritePaths == {"index", "at", "front", "back", "iter", "riter"}
WriteKinds == {"assign", "and", "or", "xor", "flip", "aref"}
Written(old, wk, v, src) ==
    CASE wk = "assign" -> v
      [] wk = "and"    -> BAnd(old, v)
      [] wk = "or"     -> BOr(old, v)
      [] wk = "xor"    -> BXor(old, v)
      [] wk = "flip"   -> 1 - old
      [] wk = "aref"   -> src
RefWrite(k, path, i, wk, v, j) ==
    /\ path \in WritePaths /\ wk \in WriteKinds
    /\ PathIndexOK(k, path, i)
    /\ j < Len(obj[k])
    /\ Mut("RefWrite", k, [path |-> path, i |-> i, wk |-> wk, v |-> v, j |-> j],
           SetBit(obj[k], i, Written(obj[k][i + 1], wk, v, obj[k][j + 1])), Void)

----------------------------------------------------------------------------
(* Bounded argument domains for the model checker *)
Sizes      == 0..MaxBits
BitSeqs(n) == UNION {[1..m -> Bit] : m \in 0..n}
LimbRange(W) == LimbReps \cap 0..(2 ^ LW(W) - 1)
BlockVals(W) == [1..(W \div LW(W)) -> LimbRange(W)]
BlockSeqs(W, n) == UNION {[1..m -> BlockVals(W)] : m \in 0..n}
MaxBlk == NBlk(MaxBits, w)
Idx(k)     == 0..(Len(obj[k]) - 1)

Init ==
    /\ w \in Widths
    /\ kind = <<"own", "own">>
    /\ obj = <<<<>>, <<>>>>
    /\ last = [op |-> "Init", k |-> 0, a |-> NoArg, res |-> Void]
    /\ pre = [obj |-> <<<<>>, <<>>>>, kind |-> <<"own", "own">>]

C(c) == c \in Classes
NextT(k) ==
    \/ C("ctor") /\ CtorDefault(k)
    \/ C("ctor") /\ \E n \in Sizes : CtorN(k, n)
    \/ C("size") /\ \E n \in Sizes : Resize1(k, n) \/ ResizeView(k, n)
    \/ C("ctor") /\ \E n \in Sizes, v \in Bit : CtorNV(k, n, v) \/ AssignNV(k, n, v)
    \/ C("size") /\ \E n \in Sizes, v \in Bit : Resize(k, n, v)
    \/ (C("ctor") \/ C("il")) /\ \E b \in ILArgs : CtorIL(k, b) \/ AssignIL(k, b)
    \/ C("ctor") /\ \E bl \in BlockSeqs(w, MaxBits \div w) : CtorBlocks(k, bl) \/ AssignBlocks(k, bl)
    \/ C("view") /\ \E bl \in BlockSeqs(w, MaxBlk), n \in Sizes : CtorView(k, bl, n)
    \/ C("pair") /\ (CtorCopy(k) \/ CopyAssign(k) \/ Swap(k))
    \/ C("size") /\ Clear(k)
    \/ C("push") /\ (PopBack(k) \/ \E v \in Bit : PushBack(k, v))
    \/ C("bit") /\ (SetAll(k) \/ ResetAll(k) \/ FlipAll(k) \/ Not(k))
    \/ C("bit") /\ \E i \in Idx(k) : Set1(k, i) \/ Reset(k, i) \/ Flip(k, i) \/ (\E v \in Bit : Set(k, i, v))
    \/ C("shift") /\ \E p \in 0..MaxShift : ShlEq(k, p) \/ ShrEq(k, p) \/ Shl(k, p) \/ Shr(k, p)
    \/ C("binary") /\ (AndEq(k) \/ OrEq(k) \/ XorEq(k) \/ And(k) \/ Or(k) \/ Xor(k))
    \/ C("at") /\ \E i \in 0..(NBlk(MaxBits, w) * w + 1) : At(k, i)
    \/ C("read") /\ \E i \in Idx(k), path \in ReadPaths : Read(k, path, i)
    \/ C("write") /\ \E i \in Idx(k), path \in WritePaths, wk \in WriteKinds, v \in Bit, j \in Idx(k) :
           /\ (wk \in {"flip", "aref"} => v = 0)
           /\ (wk # "aref" => j = 0)
           /\ RefWrite(k, path, i, wk, v, j)
    \/ C("writefew") /\ \E i \in Idx(k), path \in WritePaths, wk \in WriteKinds, v \in Bit, j \in {0, Len(obj[k]) - 1} :
           /\ (wk \in {"flip", "aref"} => v = 0)
           /\ (wk # "aref" => j = 0)
           /\ (path # "index" => wk \in {"assign", "flip"})
           /\ RefWrite(k, path, i, wk, v, j)

NextO(k) == \E b \in OtherInit : CtorIL(k, b)

Next == (\E k \in Targets : NextT(k)) \/ (\E k \in {1, 2} \ Targets : NextO(k))

(* S->C enumeration: with VIEW absvars every abstract state is expanded once.  This action
   constraint (i) only lets representative states be expanded (all-0, all-1, alternating,
   one-hot, one-cold, low-ones of every length) and (ii) writes each transition out of them
   (pre-state, call) as one JSON line on TLC's output, from which replay scripts are built. *)
RepSeqs == UNION { {Fill(n, 0), Fill(n, 1), [i \in 1..n |-> i % 2], [i \in 1..n |-> (i + 1) % 2]}
                   \cup {[i \in 1..n |-> IF i = j THEN 1 ELSE 0] : j \in 1..n}
                   \cup {[i \in 1..n |-> IF i = j THEN 0 ELSE 1] : j \in 1..n}
                   \cup {[i \in 1..n |-> IF i <= j THEN 1 ELSE 0] : j \in 1..n} : n \in 0..MaxBits }
Emit == /\ obj[1] \in RepSeqs /\ obj[2] \in RepSeqs
        /\ (last'.op \in EmitOps) =>
              PrintT("@E@" \o ToJson([p |-> pre', l |-> [op |-> last'.op, k |-> last'.k, a |-> last'.a]]))

SizeBound == Len(obj[1]) <= MaxBits /\ Len(obj[2]) <= MaxBits

Spec == Init /\ [][Next]_vars

----------------------------------------------------------------------------
(* Invariants and theorems of the specification itself (guard the oracle).  *)
TypeOK ==
    /\ w \in Widths
    /\ \A k \in {1, 2} : kind[k] \in {"own", "view"} /\ \A i \in 1..Len(obj[k]) : obj[k][i] \in Bit

(* The packed representation is canonical: unpacking the blocks and cutting to size gives the bits back *)
PackRoundTrip == \A k \in {1, 2} : SubSeq(Unpack(Limbs(obj[k], w), w), 1, Len(obj[k])) = obj[k]
(* ... and the bits beyond size() in the last block are zero *)
UnusedZero == \A k \in {1, 2} : \A i \in (Len(obj[k]) + 1)..(NBlk(Len(obj[k]), w) * w) : Unpack(Limbs(obj[k], w), w)[i] = 0

Laws == \A k \in {1, 2} : LET s == obj[k] IN
    /\ NotSeq(NotSeq(s)) = s
    /\ Count(s) + Count(NotSeq(s)) = Len(s)
    /\ ShlSeq(s, 0) = s /\ ShrSeq(s, 0) = s
    /\ \A p \in 0..MaxShift : p >= Len(s) => (ShlSeq(s, p) = Fill(Len(s), 0) /\ ShrSeq(s, p) = Fill(Len(s), 0))
    /\ \A p \in 0..MaxShift : Count(ShlSeq(s, p)) <= Count(s) /\ ShrSeq(ShlSeq(s, p), p) = [i \in 1..Len(s) |-> IF i + p <= Len(s) THEN s[i] ELSE 0]
    /\ XorSeq(s, s) = Fill(Len(s), 0) /\ AndSeq(s, s) = s /\ OrSeq(s, NotSeq(s)) = Fill(Len(s), 1)

(* observers never change the abstract state; views never change size *)
ObserverOps == {"At", "Read", "Not", "And", "Or", "Xor", "Shl", "Shr", "ResizeView"}
ObserversPure == [][last'.op \in ObserverOps => obj' = obj /\ kind' = kind]_vars
ViewSizeFixed == [][\A k \in {1, 2} : (kind[k] = "view" /\ kind'[k] = "view" /\ last'.op # "CtorView") => Len(obj'[k]) = Len(obj[k])]_vars
FailedChangesNothing == [][last'.res.exc # "none" => obj' = obj /\ kind' = kind]_vars
=============================================================================

SPECIFICATION Spec
CONSTANTS
  N = 3
  Policies = {"throwing"}
  Layouts = {"packed", "strlen"}
  Chars <- Chars012
  Lits <- LitsQ3
  PosDom <- Pos3
  SubDom <- SubQ
  OtherVals <- OtherQ3
  Junk = {9}
  AliasMode = "none"
CONSTRAINT OtherBound
VIEW absview
INVARIANTS RepInv NoAccessOutside
PROPERTIES Refines FailedStutters

SPECIFICATION Spec
CONSTANTS
  Ks <- KsQ
  Ds <- DsQ
INVARIANT Row

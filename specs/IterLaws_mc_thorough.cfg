SPECIFICATION Spec
CONSTANTS
  MaxN = 5
  Steps = {1, 2, 3}
  Cfgs <- AllCfgs
  WriteVals <- OneVal
  EmitOps <- NoEmit
VIEW absvars
INVARIANTS TypeOK Laws
PROPERTIES PostfixReturnsOld ObserversPure OnlyWritesWrite ExtAgrees ResultsInRange

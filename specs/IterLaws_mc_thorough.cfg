SPECIFICATION SpecP
CONSTANTS
  MaxN = 6
  Steps = {1, 2, 3}
  Cfgs <- AllCfgs
  WriteVals <- TwoVals
  EmitOps <- NoEmit
VIEW absvars
INVARIANTS TypeOK Laws
PROPERTIES PostfixReturnsOld ObserversPure OnlyWritesWrite ExtAgrees ResultsInRange AlgoLaws ValueInitLaws

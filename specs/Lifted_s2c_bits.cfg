SPECIFICATION Spec
CONSTANTS
  NReg = 3
  Vals <- ValsQuick
  MCKinds <- KindsBits
  Classes <- AliasClasses
  MCFuns <- EveryFun
  MCHows <- EveryHow
  Canonical = TRUE
  AliasInit = FALSE
  EmitOn = TRUE
ACTION_CONSTRAINT Emit

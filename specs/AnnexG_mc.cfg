SPECIFICATION Spec
CONSTANTS
  Mode = "classes"
  QVals = {}
  Us = {}
  Ms = {}
  KsD = {}
  KsF = {}
INVARIANTS RelationLaws

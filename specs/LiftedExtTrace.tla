-------------------------- MODULE LiftedExtTrace --------------------------
(* Trace validation for the second part of C04: every recorded case must be a step of LiftedExt *)
(* with the logged arguments and the logged observation.                                         *)
EXTENDS LiftedExt, IOUtils
VARIABLE l
JsonTrace == ndJsonDeserialize(IOEnv.TRACE)
ExplainAt == atoi(IOEnv.EXPLAIN)
TInit == l = 1 /\ Init
Dispatch(e) == LET a == e.a  o == e.res IN
    \/ e.op = "Call"     /\ Call(a.ty, a.f, a.ps, o)
    \/ e.op = "Compare"  /\ Compare(a.ty, a.f, a.ps, o)
    \/ e.op = "Compound" /\ Compound(a.ty, a.f, a.ps, o)
    \/ e.op = "CompareF" /\ CompareF(a.f, a.p, a.q, o)
    \/ e.op = "CallF"    /\ CallF(a.f, a.p, a.q, o)
    \/ e.op = "CompoundF" /\ CompoundF(a.f, a.p, a.q, o)
    \/ e.op = "Expr"     /\ Expr(a.ty, a.f, a.g, a.ps, o)
    \/ e.op = "Conv"     /\ Conv(a.vis, a.x, o)
    \/ e.op = "JsonTrip" /\ JsonTrip(a.h, a.x, o)
    \/ e.op = "EqualM"   /\ EqualM(a.fam, a.ps, o)
    \/ e.op = "Factory"  /\ Factory(a.how, a.x, o)
TNext ==
    /\ l <= Len(JsonTrace)
    /\ LET e == JsonTrace[l] IN
        IF l = ExplainAt
          THEN /\ PrintT(<<"EXPECTED", [rule |-> "has = every operand present; a present result equals u (the same operation on the underlying values, bit for bit; NaN matches NaN); == : both missing, or both present and the underlying values equal; a missing operand of /= leaves val = pre",
                                         operands_present |-> IF "ps" \in DOMAIN e.a THEN [i \in 1..Len(e.a.ps) |-> e.a.ps[i].h] ELSE <<>>,
                                         observed |-> e.res]>>)
               /\ UNCHANGED last
          ELSE Dispatch(e)
    /\ l' = l + 1
TSpec == TInit /\ [][TNext]_<<last, l>>
TraceAccepted == TLCGet("stats").diameter - 1 = Len(JsonTrace)
=============================================================================

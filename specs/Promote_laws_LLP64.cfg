SPECIFICATION Spec
CONSTANTS
  P <- LLP64
  MaxPack = 2
  MaxArgs = 3
INVARIANT TypeOK

SPECIFICATION Spec
CONSTANTS
  NReg = 2
  Vals <- ValsTiny
  MCKinds <- KindsCore
  Classes <- QuickClasses
  MCFuns <- FewerFuns
  MCHows <- FewHows
  Canonical = FALSE
  AliasInit = FALSE
  EmitOn = FALSE
CONSTRAINT Tiny
VIEW absvars
INVARIANTS TypeOK EqualityLaws AliasCoherent
PROPERTIES Propagation NeverEvaluated DivTargetKept SelectLaw ValueOrLaw OperandsKept OwnersKept

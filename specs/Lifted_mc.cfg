SPECIFICATION Spec
CONSTANTS
  NReg = 2
  Vals <- ValsTiny
  MCKinds <- KindsCore
  Classes <- QuickClasses
  MCFuns <- FewerFuns
  Canonical = FALSE
  EmitOn = FALSE
CONSTRAINT Smaller
VIEW absvars
INVARIANTS TypeOK EqualityLaws
PROPERTIES Propagation NeverEvaluated DivTargetKept SelectLaw ValueOrLaw OperandsKept

SPECIFICATION Spec
CONSTANTS
  W = 3
  MaxBits = 7
  MaxShift = 8
  NG = 2
  OthSeqs <- RepOth
CONSTRAINT SizeBound
VIEW absview
INVARIANTS NoStray GuardsIntact RepInv ObserversAgree
PROPERTIES Refines

SPECIFICATION Spec
CONSTANTS
  Caps = {8}
  Policies = {"silent"}
  Layouts = {"strlen"}
  Chars <- Chars012
  Lits <- Lits8
  PosDom <- Pos8
  SubDom <- SubFew8
  Targets = {1, 2}
  OtherInit <- NoOther
  Classes <- AllClasses
  EmitOps <- NoEmit

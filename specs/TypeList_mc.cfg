SPECIFICATION Spec
CONSTANTS
  Atoms <- Atoms3
  Probe = "D"
  MaxLen = 3
  MaxLen2 = 3
  LongLens <- Long59
  Templates <- TwoTmpl
  MaxPush = 2
  MaxCases = 2
  MaxComp = 3
  MaxMerge = 6
INVARIANT TypeOK
ACTION_CONSTRAINT Emit

SPECIFICATION Spec
CONSTANTS
  Cfgs <- CfgsReal
  MaxLen = 6
  Vals = {0, 1, 2, 7}
  Targets = {1, 2}
  OtherInit <- NoOther
  ILArgs <- RepIL
  Classes <- AllClasses
  EmitOps <- NoEmit
CONSTRAINT SizeBound

SPECIFICATION Spec
CONSTANTS
  N = 2
  Policies = {"throwing"}
  Layouts = {"packed", "sizefield", "strlen"}
  Chars <- Chars012
  Lits <- LitsQ
  PosDom <- Pos2q
  SubDom <- SubQ
  OtherVals <- OtherQ
  Junk = {9}
  AliasMode = "repaired"
CONSTRAINT OtherBound
VIEW absview
INVARIANTS RepInv NoAccessOutside
PROPERTIES Refines FailedStutters

SPECIFICATION Spec
CONSTANTS
  Caps = {5}
  Policies = {"throwing"}
  Layouts = {"packed"}
  Chars <- Chars012
  Lits <- Lits5
  PosDom <- Pos5
  SubDom <- SubFew5
  Targets = {1, 2}
  OtherInit <- NoOther
  Classes <- AllClasses
  EmitOps <- NoEmit

SPECIFICATION FairSpec
CONSTANTS
  ByteReps <- BoundaryBytes
  MaxLen = 4
  TextReps <- BoundaryText
  MaxText = 5
  IndexMode = "uchar"
  ReadMode = "forward"
INVARIANTS Refines Progress IndexInTable WindowInv ReadsInInput ReadsPrefix
PROPERTY Terminates

SPECIFICATION FairSpec
CONSTANTS
  ByteReps <- BoundaryBytes
  MaxLen = 4
  TextReps <- BoundaryText
  MaxText = 5
  IndexMode = "uchar"
INVARIANTS Refines Progress IndexInTable WindowInv
PROPERTY Terminates

SPECIFICATION Spec
CONSTANTS
  W = 2
  MaxBits = 5
  MaxShift = 6
  NG = 1
  OthSeqs <- AllOth
CONSTRAINT SizeBound
VIEW absview
INVARIANTS NoStray GuardsIntact RepInv ObserversAgree
PROPERTIES Refines

------------------------------ MODULE Dispatch ------------------------------
(***************************************************************************)
(* L1 property specification for C17: multimethods and visitors call       *)
(* exactly the handler registered for the tuple of dynamic types.          *)
(*                                                                         *)
(* Written from the property statement (and the Loki contract the headers  *)
(* cite), not from xtl's code.  An execution owns up to two dispatcher     *)
(* objects of one kind (slot 1 always exists, slot 2 is a copy made by     *)
(* Clone):                                                                 *)
(*   reg, reg2 : the registration tables, functions from tuples of classes *)
(*          to handler ids (0 = no handler registered for that tuple);     *)
(*   has2 : whether the second dispatcher object is alive;                 *)
(*   seen : the classes that have been named in a registration so far;     *)
(*   hist : the history of the calls that change a table, in order;        *)
(*   cfg  : which dispatcher this execution is about (kind, arity, number  *)
(*          of undispatched arguments, number of classes in use, build     *)
(*          flavour "exc" | "noexc" (XTL_NO_EXCEPTIONS)).                  *)
(* Every public call is one action; its C++ arguments are the action       *)
(* parameters and are recorded, with the expected outcome, in the ghost    *)
(* variable last; pre holds the tables before the call.                    *)
(*                                                                         *)
(* Classes are numbered 1=A 2=B 3=C 4=Base 5=D; A, B, C derive from Base,   *)
(* D derives from A.  Objects are numbered 10*class + n.  (The kinds        *)
(* vmap_dyn / vfast_dyn use a second hierarchy with a virtual base:        *)
(* 1=A 2=B derive virtually from 4=Base, 3=C derives from A and B; the     *)
(* functor dispatchers' specification does not depend on the hierarchy.)   *)
(*                                                                         *)
(* Outcome of a call:                                                       *)
(*   [exc |-> "none", val |-> [calls, ret, rep, h, sig, dyn, objs, tg, xv,  *)
(*                             xid]]                                        *)
(*       exactly one handler ran (calls = 1): h its id, sig the static     *)
(*       types it was registered for, dyn the dynamic types and objs the   *)
(*       objects (identified by address) it received, in the order it      *)
(*       received them, tg the tags it read through its typed references   *)
(*       (the cast reached the right sub-object), xv the values of the     *)
(*       undispatched arguments it received, xid "they were the caller's   *)
(*       objects", ret the value the call returned (the handler's return   *)
(*       value), rep = 0 (no error was reported);                          *)
(*   [exc |-> "exception" | "on_error" | "catch_all" | "abort",            *)
(*    val |-> [calls |-> 0, ret, rep ...]]                                  *)
(*       no handler ran and the error was reported through an exception,   *)
(*       the executor's on_error, the catch-all policy or - only in an      *)
(*       XTL_NO_EXCEPTIONS build, where XTL_THROW is documented to print    *)
(*       and abort - by aborting the calling process (the harness isolates *)
(*       every call of such a build in a child process).                    *)
(*       Which exception type is thrown is not part of the property.       *)
(***************************************************************************)
EXTENDS Naturals, Sequences, FiniteSets, TLC, Json

CONSTANTS Kinds,     \* dispatcher kinds the model checker starts executions for
          Arities,   \* arities  "
          NXs,       \* numbers of undispatched arguments "
          K,         \* number of classes in use by the model checker (1..K)
          MaxHist,   \* model-checking bound on the length of the history
          MaxCells,  \* model-checking bound on the number of registered tuples (per dispatcher object)
          OpClasses, \* operation classes enabled in the model checker's next-state relation
          EmitMode   \* S->C: "none" | "hist" (complete histories) | "edges" (state x action)

VARIABLES cfg, reg, reg2, has2, seen, hist, last, pre

vars    == <<cfg, reg, reg2, has2, seen, hist, last, pre>>
absvars == <<cfg, reg, reg2, has2, seen>>
histvars == <<cfg, reg, reg2, has2, seen, hist>>

----------------------------------------------------------------------------
(* The class hierarchy (a fact about the harness, shared with driver.cpp).  *)
Universe == 1..5
Anc(c)   == CASE c = 4 -> {} [] c = 5 -> {1, 4} [] OTHER -> {4}     \* proper ancestors
ClsOf(o) == o \div 10
ObjectsOf(k) == {10 * c + n : c \in 1..k, n \in 0..1}
Range(s) == {s[i] : i \in 1..Len(s)}
IndexIn(s, x) == CHOOSE i \in 1..Len(s) : s[i] = x

MapKinds  == {"map_dyn", "map_static", "raw_map", "vmap_dyn"}
FastKinds == {"fast_dyn", "fast_static", "raw_fast", "vfast_dyn"}
FunctorKinds == MapKinds \cup FastKinds
(*  map_* / fast_*  : functor_dispatcher over basic_dispatcher / basic_fast_dispatcher, dynamic or static caster
    raw_*           : basic_dispatcher / basic_fast_dispatcher used directly with a user callback type
    v*_dyn          : functor_dispatcher with the dynamic caster over a hierarchy with a virtual base          *)

Tuples(ar, k) == CASE ar = 1 -> {<<a>> : a \in 1..k}
                   [] ar = 2 -> {<<a, b>> : a, b \in 1..k}
                   [] ar = 3 -> {<<a, b, c>> : a, b, c \in 1..k}
                   [] OTHER  -> {}
ZeroReg(ar, k) == [t \in Tuples(ar, k) |-> 0]
MyTuples == Tuples(cfg.ar, cfg.k)
ClsTuple(os) == [i \in 1..Len(os) |-> ClsOf(os[i])]
RegOf(d) == IF d = 1 THEN reg ELSE reg2
Registered == {t \in DOMAIN reg : reg[t] # 0}
Registered2 == {t \in DOMAIN reg2 : reg2[t] # 0}
Live(d) == d = 1 \/ (d = 2 /\ has2)

----------------------------------------------------------------------------
(* Outcomes.                                                                *)
Void == [exc |-> "none", val |-> <<>>]
NoArg == [z |-> 0]
HandledAs(h, sig, os, tg, xs, ret) ==
    [exc |-> "none",
     val |-> [calls |-> 1, ret |-> ret, rep |-> 0, h |-> h, sig |-> sig, dyn |-> ClsTuple(os),
              objs |-> os, tg |-> tg, xv |-> xs, xid |-> TRUE]]
Handled(h, sig, os, xs, ret) == HandledAs(h, sig, os, os, xs, ret)
Err(kind, ret, rep) == [exc |-> kind, val |-> [calls |-> 0, ret |-> ret, rep |-> rep]]
(* how "no handler for this tuple" may be reported by the calls that use XTL_THROW *)
ThrowKinds == IF cfg.fl = "noexc" THEN {"abort", "exception"} ELSE {"exception"}

RECURSIVE SumSeq(_)
SumSeq(s) == IF s = <<>> THEN 0 ELSE Head(s) + SumSeq(Tail(s))
(* what the test fixtures' handlers return (the dispatcher must hand it back unchanged) *)
FunctorRet(h, xs) == h * 100 + SumSeq(xs)

(* What the registered handler does is the user's business; the fixtures' handlers come in four
   behaviours, told apart by their id (the dispatcher must do its job around each of them):
     "ret"    (every other id)  records what it was given and returns FunctorRet
     "throw"  (ids 50..59)      records, then throws a user exception that carries its id
     "nest"   (ids 60..69)      records, then dispatches the same arguments in reverse order (same extras)
                                 through the same dispatcher object and adds the inner result to its own
     "reg"    (ids 70..79)      records, then registers the plain handler id - 60 for the reversed class
                                 tuple in the same dispatcher object (registration from inside a running
                                 handler: NOT covered by the property statement - explored as advisory only)
   Inside a nested dispatch the handlers "nest" and "reg" behave as "ret" (the fixtures stop at depth 1);
   "throw" throws at any depth.  The backends used directly (the raw kinds) take plain callbacks only. *)
BehOfIn(kind, h) == IF kind \in {"raw_map", "raw_fast"} THEN "ret"
                    ELSE CASE h \in 50..59 -> "throw" [] h \in 60..69 -> "nest" [] h \in 70..79 -> "reg" [] OTHER -> "ret"
Reverse(s) == [i \in 1..Len(s) |-> s[Len(s) + 1 - i]]
(* a user exception left the call: it must reach the caller unchanged (code), after exactly n handler
   invocations, the last of which (the thrower) was h for signature sig on the objects os *)
Thrown(n, h, sig, os) == [exc |-> "user", val |-> [calls |-> n, ret |-> 0, rep |-> 0, h |-> h, sig |-> sig, objs |-> os, code |-> h]]
StaticRet(sig)    == 1000 + 10 * sig[1] + sig[2]
VisitRet(c)       == 100 + c

----------------------------------------------------------------------------
(* What is observable of a dispatcher: the outcome of dispatching every     *)
(* tuple of classes (on the first object of each class).  The harness       *)
(* probes this after every call, for every live dispatcher object.          *)
CellOf(r, t) == IF r[t] = 0 THEN [h |-> 0, objs |-> <<>>]
                ELSE [h |-> r[t], objs |-> [i \in 1..Len(t) |-> 10 * t[i]]]
TabOf(r) == CASE cfg.kind = "none" -> <<>>
         [] cfg.ar = 1 -> [a \in 1..cfg.k |-> CellOf(r, <<a>>)]
         [] cfg.ar = 2 -> [a \in 1..cfg.k |-> [b \in 1..cfg.k |-> CellOf(r, <<a, b>>)]]
         [] cfg.ar = 3 -> [a \in 1..cfg.k |-> [b \in 1..cfg.k |-> [c \in 1..cfg.k |-> CellOf(r, <<a, b, c>>)]]]
Tab == TabOf(reg)
ProjAll == [tab |-> Tab, tab2 |-> IF has2 THEN TabOf(reg2) ELSE <<>>]

----------------------------------------------------------------------------
Step(op, a, newreg, newreg2, newhas2, newseen, newhist, res) ==
    /\ pre'  = [reg |-> reg, reg2 |-> reg2, has2 |-> has2]
    /\ reg'  = newreg
    /\ reg2' = newreg2
    /\ has2' = newhas2
    /\ seen' = newseen
    /\ hist' = newhist
    /\ cfg'  = cfg
    /\ last' = [op |-> op, a |-> a, res |-> res]
Obs(op, a, res) == Step(op, a, reg, reg2, has2, seen, hist, res)

(* The property speaks of ONE fast dispatcher per class hierarchy (the per-class indices are static).
   A copy is a second one.  What is explored here: while two fast dispatcher objects are alive, only
   classes that already have an index are registered (then both objects agree about every index);
   registrations of new classes resume when the copy is gone. *)
FreshOK(t) == cfg.kind \in FastKinds /\ has2 => Range(t) \subseteq seen

(* <dispatcher d>.insert<D...>(handler h): afterwards h is THE handler for exactly t, in that object only *)
Insert(d, t, h) ==
    /\ cfg.kind \in FunctorKinds
    /\ Live(d)
    /\ t \in MyTuples
    /\ h > 0
    /\ FreshOK(t)
    /\ Step("Insert", [d |-> d, t |-> t, h |-> h],
            IF d = 1 THEN [reg EXCEPT ![t] = h] ELSE reg,
            IF d = 2 THEN [reg2 EXCEPT ![t] = h] ELSE reg2,
            has2, seen \cup Range(t),
            Append(hist, [op |-> "I", d |-> d, t |-> t, h |-> h, how |-> ""]), Void)

(* <dispatcher d>.erase<D...>(): afterwards nothing is registered for t in that object *)
Erase(d, t) ==
    /\ cfg.kind \in FunctorKinds
    /\ Live(d)
    /\ t \in MyTuples
    /\ Step("Erase", [d |-> d, t |-> t],
            IF d = 1 THEN [reg EXCEPT ![t] = 0] ELSE reg,
            IF d = 2 THEN [reg2 EXCEPT ![t] = 0] ELSE reg2,
            has2, seen,
            Append(hist, [op |-> "E", d |-> d, t |-> t, h |-> 0, how |-> ""]), Void)

(* <dispatcher d>.dispatch(args..., extras...): os = the argument objects, xs = the values of the
   undispatched arguments *)
Dispatch(d, os, xs) ==
    /\ cfg.kind \in FunctorKinds
    /\ Live(d)
    /\ Len(os) = cfg.ar /\ Len(xs) = cfg.nx
    /\ ClsTuple(os) \in MyTuples
    /\ LET t == ClsTuple(os)  r == RegOf(d)  a == [d |-> d, os |-> os, xs |-> xs]
           beh == BehOfIn(cfg.kind, r[t])
           ros == Reverse(os)  rt == ClsTuple(ros)  h2 == r[rt] IN
       CASE r[t] = 0 -> \E ek \in ThrowKinds : Obs("Dispatch", a, Err(ek, 0, 0))
         [] r[t] # 0 /\ beh = "ret" -> Obs("Dispatch", a, Handled(r[t], t, os, xs, FunctorRet(r[t], xs)))
         [] r[t] # 0 /\ beh = "throw" -> Obs("Dispatch", a, Thrown(1, r[t], t, os))
         [] r[t] # 0 /\ beh = "nest" ->
              (* the nested call is a dispatch like any other: exactly the handler for the reversed tuple, or
                 the error report, which leaves the outer handler (the fixture does not catch it) *)
              IF h2 = 0 THEN \E ek \in ThrowKinds : Obs("Dispatch", a, [exc |-> ek, val |-> [calls |-> 1, ret |-> 0, rep |-> 0]])
              ELSE IF BehOfIn(cfg.kind, h2) = "throw" THEN Obs("Dispatch", a, Thrown(2, h2, rt, ros))
              ELSE Obs("Dispatch", a,
                       [exc |-> "none",
                        val |-> [calls |-> 2, ret |-> FunctorRet(r[t], xs) + FunctorRet(h2, xs), rep |-> 0, h |-> r[t], sig |-> t,
                                 dyn |-> t, objs |-> os, tg |-> os, xv |-> xs, xid |-> TRUE,
                                 in |-> [h |-> h2, sig |-> rt, objs |-> ros]]])
         [] r[t] # 0 /\ beh = "reg" ->
              (* advisory reading: the registration made by the running handler takes effect in that object, the
                 running call completes as if nothing had happened *)
              LET nr == [r EXCEPT ![rt] = r[t] - 60] IN
              Step("Dispatch", a, IF d = 1 THEN nr ELSE reg, IF d = 2 THEN nr ELSE reg2, has2, seen,
                   Append(hist, [op |-> "I", d |-> d, t |-> rt, h |-> r[t] - 60, how |-> "reentrant"]),
                   Handled(r[t], t, os, xs, FunctorRet(r[t], xs)))

(* Copies.  Dispatchers are values: a copy dispatches like the original at the time of the copy and
   is independent of it afterwards.
     Clone(how): the second object becomes a copy of the first
         "ctor"   dispatcher second(first)            (an existing second object is destroyed first)
         "assign" second = first                      (needs an existing second object)
     Take(how): the first object takes the second one's value
         "copy"     first = second
         "copyctor" first is replaced by dispatcher(second)
         "move"     first = std::move(second); the moved-from object is then destroyed
         "movector" first is replaced by dispatcher(std::move(second)); the moved-from object is then destroyed
         "swap"     std::swap(first, second)
         "self"     first = first                    (changes nothing)
     Drop2: the second object is destroyed *)
CloneHows == {"ctor", "assign"}
TakeHows  == {"copy", "copyctor", "move", "movector", "swap", "self"}
Clone(how) ==
    /\ cfg.kind \in FunctorKinds
    /\ how \in CloneHows
    /\ how = "assign" => has2
    /\ Step("Clone", [how |-> how], reg, reg, TRUE, seen,
            Append(hist, [op |-> "C", d |-> 2, t |-> <<>>, h |-> 0, how |-> how]), Void)
Take(how) ==
    /\ cfg.kind \in FunctorKinds
    /\ how \in TakeHows
    /\ how # "self" => has2
    /\ Step("Take", [how |-> how],
            IF how = "self" THEN reg ELSE reg2,
            CASE how \in {"move", "movector"} -> ZeroReg(cfg.ar, cfg.k)
              [] how = "swap" -> reg
              [] OTHER -> reg2,
            IF how \in {"move", "movector"} THEN FALSE ELSE has2,
            seen,
            Append(hist, [op |-> "T", d |-> 1, t |-> <<>>, h |-> 0, how |-> how]), Void)
(* New2: the second object becomes a freshly constructed, independent dispatcher (an existing second
   object is destroyed first).  Every dispatcher object has its own registrations.  (For the fast kinds
   this is a second fast dispatcher over the same hierarchy, which the property statement excludes: the
   check uses it there only in its advisory stage.) *)
New2 ==
    /\ cfg.kind \in FunctorKinds
    /\ Step("New2", NoArg, reg, ZeroReg(cfg.ar, cfg.k), TRUE, seen,
            Append(hist, [op |-> "N", d |-> 2, t |-> <<>>, h |-> 0, how |-> ""]), Void)
Drop2 ==
    /\ cfg.kind \in FunctorKinds
    /\ has2
    /\ Step("Drop2", NoArg, reg, ZeroReg(cfg.ar, cfg.k), FALSE, seen,
            Append(hist, [op |-> "D", d |-> 2, t |-> <<>>, h |-> 0, how |-> ""]), Void)

----------------------------------------------------------------------------
(* static_dispatcher<executor, base, lhs list, R, (anti)symmetric, base, rhs list>::dispatch(a, b, exec).
   Its "registrations" are its type lists.  Contract (Loki): a list names a class before its
   ancestors.  An argument whose class is listed reaches the handler for exactly that class.  An
   argument whose class is NOT listed: the property statement ("the handler registered for the tuple
   of dynamic types", "never runs some other handler") and the is-a matching that Loki documents
   (an object of an unlisted derived class is accepted as its listed base) disagree, and the statement
   does not name the case; L1 therefore allows both answers: on_error, or the handler for a listed
   ancestor (then the handler reads the ancestor sub-object, whose tag is 0 in the fixtures). *)
WellOrdered(l) == /\ \A i, j \in 1..Len(l) : i < j => (l[i] # l[j] /\ l[i] \notin Anc(l[j]))
StaticPre(lhs, rhs) == WellOrdered(lhs) /\ WellOrdered(rhs)
(* the static types an argument of class c may be bound to by list l; 0 = no match *)
Resolve(l, c) == IF c \in Range(l) THEN {c} ELSE {0} \cup (Anc(c) \cap Range(l))
ViewTag(o, s) == IF s = ClsOf(o) THEN o ELSE 0
StaticHandled(sig, os) ==
    HandledAs(0, sig, os, [i \in 1..2 |-> ViewTag(os[i], sig[i])], <<>>, StaticRet(sig))

(* cst / cv: how the two type lists are cv-qualified (no influence on what must happen):
     cv = "same"  : both bases and both lists const (cst) or both mutable (~cst);
     cv = "mixed" : lists parallel but differently cv-qualified - base_lhs = const Base with <const classes...>,
                    base_rhs = Base with <classes...> (the rhs type list is then a different type from the lhs list
                    although it names the same classes) *)
CvKinds == {"same", "mixed"}
Static(lhs, rhs, cst, cv, a, b) ==
    /\ StaticPre(lhs, rhs)
    /\ cv \in CvKinds
    /\ \E sa \in Resolve(lhs, ClsOf(a)), sb \in Resolve(rhs, ClsOf(b)) :
       Obs("Static", [lhs |-> lhs, rhs |-> rhs, cst |-> cst, cv |-> cv, os |-> <<a, b>>],
           IF sa # 0 /\ sb # 0 THEN StaticHandled(<<sa, sb>>, <<a, b>>) ELSE Err("on_error", 7, 1))

(* Symmetric dispatch: one action performs dispatch(a, b) and dispatch(b, a).  The property asks
   that both reach the same handler, that the handler is the one for the two dynamic types in one
   of the two orders, and that each argument arrives in the position of its own type.  Which of
   the two orders is the canonical one is not part of the property (both are allowed, consistently). *)
SymOutcomes(sig, a, sa, b, sb) ==
    IF sa = sb
      THEN {StaticHandled(sig, <<a, b>>), StaticHandled(sig, <<b, a>>)}
      ELSE IF sig = <<sa, sb>> THEN {StaticHandled(sig, <<a, b>>)}
                               ELSE {StaticHandled(sig, <<b, a>>)}
StaticSym(tl, cst, cv, a, b) ==
    /\ StaticPre(tl, tl)
    /\ cv \in CvKinds
    /\ LET args == [lhs |-> tl, rhs |-> tl, cst |-> cst, cv |-> cv, os |-> <<a, b>>] IN
       \E sa \in Resolve(tl, ClsOf(a)), sb \in Resolve(tl, ClsOf(b)) :
         IF sa # 0 /\ sb # 0
           THEN \E sig \in {<<sa, sb>>, <<sb, sa>>} :
                \E r1 \in SymOutcomes(sig, a, sa, b, sb), r2 \in SymOutcomes(sig, b, sb, a, sa) :
                   Obs("StaticSym", args, [exc |-> "none", val |-> [ab |-> r1, ba |-> r2]])
           ELSE Obs("StaticSym", args, [exc |-> "none", val |-> [ab |-> Err("on_error", 7, 1), ba |-> Err("on_error", 7, 1)]])

----------------------------------------------------------------------------
(* Acyclic visitor: visitable o accepts the visitor named m of the harness' menu, which visits exactly
   the classes VisitorMenu[m] of o's hierarchy.  v names the variant of base_visitable:
     default / cdefault     : default_catch_all  (returns R())
     throwing / void        : throwing_catch_all
     recording / crecording : a user policy that records what it was given and returns 999
   The match is exact (an object of class D is not visited by a visitor of A only). *)
Variants == {"default", "cdefault", "throwing", "void", "recording", "crecording"}
VisitorMenu == [AB |-> {1, 2}, All |-> {1, 2, 3, 4, 5}, C |-> {3}, None |-> {}, BaseD |-> {4, 5},
                Sep |-> {2, 3},          \* derives from visitor<B> and visitor<C> separately, not through a type list
                Derived |-> {1, 2, 5},   \* derives from the visitor AB and adds D
                WrongConst |-> {}]       \* implements visit for A and B of the other constness: visits nothing here
Accept(v, m, o) ==
    /\ v \in Variants
    /\ m \in DOMAIN VisitorMenu
    /\ LET c == ClsOf(o)  a == [v |-> v, m |-> m, o |-> o] IN
       IF c \in VisitorMenu[m]
         THEN Obs("Accept", a, Handled(0, <<c>>, <<o>>, <<>>, IF v = "void" THEN 0 ELSE VisitRet(c)))
         ELSE CASE v \in {"default", "cdefault"} -> Obs("Accept", a, Err("catch_all", 0, 0))
                [] v \in {"throwing", "void"}    -> \E ek \in ThrowKinds : Obs("Accept", a, Err(ek, 0, 0))
                [] OTHER -> Obs("Accept", a, [exc |-> "catch_all", val |-> [calls |-> 0, ret |-> 999, rep |-> 1, psig |-> c, pobj |-> o]])

(* Cyclic visitor: the visitor names every class of the hierarchy; accept reaches visit(dynamic type).
   rv: "long" (the value visit returns comes back) or "void". *)
Cyclic(cst, rv, o) ==
    /\ rv \in {"long", "void"}
    /\ Obs("Cyclic", [cst |-> cst, rv |-> rv, o |-> o],
           Handled(0, <<ClsOf(o)>>, <<o>>, <<>>, IF rv = "void" THEN 0 ELSE VisitRet(ClsOf(o))))

----------------------------------------------------------------------------
(* Model checker's next-state relation.                                     *)
C(x) == x \in OpClasses

(* menus compiled into the harness (driver.cpp: static_menu, the visitor sets) *)
StaticMenu == {
    [lhs |-> <<1, 2, 3>>, rhs |-> <<1, 2, 3>>, sym |-> FALSE, cst |-> TRUE, cv |-> "same"],
    [lhs |-> <<1, 2, 3>>, rhs |-> <<1, 2, 3>>, sym |-> TRUE, cst |-> TRUE, cv |-> "same"],
    [lhs |-> <<3, 1, 2>>, rhs |-> <<3, 1, 2>>, sym |-> TRUE, cst |-> FALSE, cv |-> "same"],
    [lhs |-> <<2, 1>>, rhs |-> <<3, 2>>, sym |-> FALSE, cst |-> FALSE, cv |-> "same"],
    [lhs |-> <<5, 1, 2, 3, 4>>, rhs |-> <<5, 1, 2, 3, 4>>, sym |-> FALSE, cst |-> TRUE, cv |-> "same"],
    [lhs |-> <<5, 1, 2, 3, 4>>, rhs |-> <<5, 1, 2, 3, 4>>, sym |-> TRUE, cst |-> FALSE, cv |-> "same"],
    [lhs |-> <<5, 2>>, rhs |-> <<3>>, sym |-> FALSE, cst |-> FALSE, cv |-> "same"],
    [lhs |-> <<2, 5, 1>>, rhs |-> <<2, 5, 1>>, sym |-> TRUE, cst |-> TRUE, cv |-> "same"],
    [lhs |-> <<3, 2, 1>>, rhs |-> <<1, 2, 3>>, sym |-> FALSE, cst |-> FALSE, cv |-> "same"],
    [lhs |-> <<1, 4>>, rhs |-> <<2, 4>>, sym |-> FALSE, cst |-> TRUE, cv |-> "same"],
    [lhs |-> <<2, 1, 4>>, rhs |-> <<2, 1, 4>>, sym |-> TRUE, cst |-> FALSE, cv |-> "same"],
    [lhs |-> <<1, 2, 3>>, rhs |-> <<1, 2, 3>>, sym |-> TRUE, cst |-> TRUE, cv |-> "mixed"],
    [lhs |-> <<1, 2, 3>>, rhs |-> <<1, 2, 3>>, sym |-> FALSE, cst |-> TRUE, cv |-> "mixed"],
    [lhs |-> <<3, 1, 2, 4>>, rhs |-> <<3, 1, 2, 4>>, sym |-> TRUE, cst |-> TRUE, cv |-> "mixed"] }
AllObjects == ObjectsOf(5)

XsDomain(nx) == CASE nx = 0 -> {<<>>} [] nx = 1 -> {<<5>>, <<0>>} [] nx = 2 -> {<<5, 9>>, <<2, 0>>} [] OTHER -> {<<1, 2, 4>>, <<0, 9, 0>>}
ObjTuples(ar, k) == CASE ar = 1 -> {<<a>> : a \in ObjectsOf(k)}
                      [] ar = 2 -> {<<a, b>> : a, b \in ObjectsOf(k)}
                      [] OTHER  -> {<<a, b, c>> : a, b, c \in {10 * i : i \in 1..k}}
(* representative argument tuples: first objects of each class, plus the second objects for arity <= 2 *)
SlotsLive == {d \in 1..2 : Live(d)}
BehIds == {1, 50, 60}        \* a plain, a throwing and a nesting handler (the "reg" handlers: advisory scripts only)

NInsert   == C("insert")   /\ \E d \in SlotsLive, t \in MyTuples : Insert(d, t, Len(hist) + 1)          \* a fresh handler per registration
NInsert2  == C("insert2")  /\ \E d \in SlotsLive, t \in MyTuples, h \in 1..2 : Insert(d, t, h)
NErase    == C("erase")    /\ \E d \in SlotsLive, t \in MyTuples : Erase(d, t)
NDispatch == C("dispatch") /\ \E d \in SlotsLive, os \in ObjTuples(cfg.ar, cfg.k), xs \in XsDomain(cfg.nx) : Dispatch(d, os, xs)
NClone    == C("clone")    /\ \E how \in CloneHows : Clone(how)
NTake     == C("clone")    /\ \E how \in TakeHows : Take(how)
NDrop2    == C("clone")    /\ Drop2
NNew2     == C("new2")     /\ New2
NInsertB  == C("insertb")  /\ \E d \in SlotsLive, t \in MyTuples, h \in BehIds : Insert(d, t, h)
NStatic   == C("static")   /\ \E m \in StaticMenu, a, b \in AllObjects : ~m.sym /\ Static(m.lhs, m.rhs, m.cst, m.cv, a, b)
NStaticSym == C("static")  /\ \E m \in StaticMenu, a, b \in AllObjects : m.sym /\ StaticSym(m.lhs, m.cst, m.cv, a, b)
NAccept   == C("accept")   /\ \E v \in Variants, m \in DOMAIN VisitorMenu, o \in AllObjects : Accept(v, m, o)
NCyclic   == C("cyclic")   /\ \E cst \in BOOLEAN, rv \in {"long", "void"}, o \in AllObjects : Cyclic(cst, rv, o)

Next == NInsert \/ NInsert2 \/ NInsertB \/ NErase \/ NDispatch \/ NClone \/ NTake \/ NDrop2 \/ NNew2 \/ NStatic \/ NStaticSym \/ NAccept \/ NCyclic

(* combinations of arity and number of undispatched arguments compiled into the harness *)
CfgOK(c) == /\ (c.ar = 1 => c.nx \in {0, 1, 3}) /\ (c.ar = 2 => c.nx <= 2) /\ (c.ar = 3 => c.nx <= 1)

Init ==
    /\ cfg \in [kind : Kinds, ar : Arities, nx : NXs, k : {K}, fl : {"exc"}]
    /\ CfgOK(cfg)
    /\ reg = ZeroReg(cfg.ar, cfg.k)
    /\ reg2 = ZeroReg(cfg.ar, cfg.k)
    /\ has2 = FALSE
    /\ seen = {}
    /\ hist = <<>>
    /\ last = [op |-> "Init", a |-> NoArg, res |-> Void]
    /\ pre = [reg |-> reg, reg2 |-> reg2, has2 |-> has2]

Spec == Init /\ [][Next]_vars

Bound == Len(hist) <= MaxHist /\ Cardinality(Registered) <= MaxCells /\ Cardinality(Registered2) <= MaxCells

(* S->C enumeration (ACTION_CONSTRAINT): writes, as JSON lines on TLC's output,
   "hist":  every complete history of length MaxHist (VIEW histvars: one state per history);
   "edges": every transition (pre-state, call) of the state graph (VIEW absvars: every table once;
            used without the copy operations, so that the source state is the table of slot 1). *)
Emit ==
    /\ (EmitMode = "hist" /\ Len(hist') = MaxHist /\ Len(hist) < MaxHist) =>
           PrintT("@H@" \o ToJson([cfg |-> cfg', hist |-> hist']))
    /\ (EmitMode = "edges") =>
           PrintT("@E@" \o ToJson([cfg |-> cfg, p |-> Tab, l |-> [op |-> last'.op, a |-> last'.a]]))

----------------------------------------------------------------------------
(* Theorems of the specification itself, checked by TLC (they guard the oracle). *)
TypeOK ==
    /\ cfg.kind \in FunctorKinds \cup {"none"} /\ cfg.ar \in 1..3 /\ cfg.nx \in 0..3 /\ cfg.k \in 1..5
    /\ cfg.fl \in {"exc", "noexc"}
    /\ DOMAIN reg = MyTuples /\ DOMAIN reg2 = MyTuples
    /\ \A t \in DOMAIN reg : reg[t] \in Nat /\ reg2[t] \in Nat
    /\ has2 \in BOOLEAN
    /\ ~has2 => reg2 = ZeroReg(cfg.ar, cfg.k)
    /\ seen \subseteq 1..cfg.k
    /\ last.res.exc \in {"none", "exception", "on_error", "catch_all", "abort", "user"}

(* "registered" means: the last event of the history about t is an Insert, and reg[t] is its handler
   (for executions that never copied a dispatcher) *)
RECURSIVE LastAbout(_, _)
LastAbout(h, t) == IF h = <<>> THEN 0
                   ELSE LET e == h[Len(h)] IN IF e.t = t THEN e.h ELSE LastAbout(SubSeq(h, 1, Len(h) - 1), t)
NoCopies(h) == \A i \in 1..Len(h) : h[i].op \in {"I", "E"} /\ h[i].d = 1
RegIsHistory == NoCopies(hist) => \A t \in DOMAIN reg : reg[t] = LastAbout(hist, t)

(* ... and with copies: the table of an object is determined by the history through the lineage of
   values (an independent formulation: replay the history on a pair of tables) *)
RECURSIVE Replay(_, _)
Replay(h, z) ==
    IF h = <<>> THEN [r1 |-> z, r2 |-> z, two |-> FALSE]
    ELSE LET s == Replay(SubSeq(h, 1, Len(h) - 1), z)
             e == h[Len(h)] IN
         CASE e.op = "I" -> IF e.d = 1 THEN [s EXCEPT !.r1 = [s.r1 EXCEPT ![e.t] = e.h]] ELSE [s EXCEPT !.r2 = [s.r2 EXCEPT ![e.t] = e.h]]
           [] e.op = "E" -> IF e.d = 1 THEN [s EXCEPT !.r1 = [s.r1 EXCEPT ![e.t] = 0]] ELSE [s EXCEPT !.r2 = [s.r2 EXCEPT ![e.t] = 0]]
           [] e.op = "C" -> [s EXCEPT !.r2 = s.r1, !.two = TRUE]
           [] e.op = "D" -> [s EXCEPT !.r2 = z, !.two = FALSE]
           [] e.op = "N" -> [s EXCEPT !.r2 = z, !.two = TRUE]
           [] e.op = "T" -> CASE e.how = "self" -> s
                              [] e.how = "swap" -> [s EXCEPT !.r1 = s.r2, !.r2 = s.r1]
                              [] e.how \in {"move", "movector"} -> [s EXCEPT !.r1 = s.r2, !.r2 = z, !.two = FALSE]
                              [] OTHER -> [s EXCEPT !.r1 = s.r2]
TablesAreHistory == LET s == Replay(hist, ZeroReg(cfg.ar, cfg.k)) IN reg = s.r1 /\ reg2 = s.r2 /\ has2 = s.two

(* an error outcome means no handler ran; a normal outcome means exactly one ran, for the dynamic types
   of the arguments (or, static dispatcher and unlisted class only, an ancestor), and the arguments
   arrived in the positions of their types *)
IsA(c, s) == c = s \/ s \in Anc(c)
IsOutcome(r, exact) ==
    /\ (r.exc \notin {"none", "user"} => r.val.calls \in {0, 1})      \* 1: the error report of a nested dispatch left the outer handler
    /\ (r.exc = "user" => r.val.calls \in {1, 2} /\ r.val.code = r.val.h /\ ClsTuple(r.val.objs) = r.val.sig)
    /\ (r.exc = "none" => /\ r.val.calls \in {1, 2} /\ r.val.rep = 0 /\ r.val.xid
                          /\ exact => r.val.sig = r.val.dyn
                          /\ \A i \in 1..Len(r.val.objs) : /\ ClsOf(r.val.objs[i]) = r.val.dyn[i]
                                                            /\ IsA(r.val.dyn[i], r.val.sig[i]))
OutcomeOK ==
    /\ last.op \in {"Dispatch", "Accept", "Cyclic"} => IsOutcome(last.res, TRUE)
    /\ last.op = "Static" => /\ IsOutcome(last.res, FALSE)
                             /\ (ClsOf(last.a.os[1]) \in Range(last.a.lhs) /\ ClsOf(last.a.os[2]) \in Range(last.a.rhs))
                                   => (last.res.exc = "none" /\ last.res.val.sig = last.res.val.dyn)
    /\ last.op = "StaticSym" =>
          /\ IsOutcome(last.res.val.ab, FALSE) /\ IsOutcome(last.res.val.ba, FALSE)
          /\ last.res.val.ab.exc = last.res.val.ba.exc
          /\ last.res.val.ab.exc = "none" =>
                /\ last.res.val.ab.val.sig = last.res.val.ba.val.sig          \* same handler both ways
                /\ Range(last.res.val.ab.val.objs) = Range(last.a.os)         \* the same two objects
                /\ Range(last.res.val.ba.val.objs) = Range(last.a.os)

(* a dispatch is answered from the table of that object as it was before the call, for exactly the
   dynamic types: the handler registered for that tuple and no other; an unregistered tuple (never
   registered, erased, or only a permutation registered) is an error *)
DispatchExact ==
    last.op = "Dispatch" =>
        LET t == ClsTuple(last.a.os)
            rt == ClsTuple(Reverse(last.a.os))
            r == IF last.a.d = 1 THEN pre.reg ELSE pre.reg2
            v == last.res.val IN
        /\ (r[t] = 0) => (last.res.exc \in {"exception", "abort"} /\ v.calls = 0)          \* nothing ran
        /\ (r[t] # 0) => v.calls >= 1
        /\ last.res.exc = "none" => /\ v.h = r[t] /\ v.sig = t /\ v.objs = last.a.os /\ v.xv = last.a.xs
                                    /\ v.calls = 2 => (v.in.h = r[rt] /\ v.in.h # 0 /\ v.in.sig = rt /\ v.in.objs = Reverse(last.a.os))
        /\ last.res.exc = "user" => \/ (v.calls = 1 /\ v.h = r[t] /\ v.objs = last.a.os)
                                    \/ (v.calls = 2 /\ v.h = r[rt] /\ v.objs = Reverse(last.a.os))
        /\ (last.res.exc \in {"exception", "abort"} /\ v.calls = 1) => r[rt] = 0            \* only a failed nested look-up

(* calls that look something up never change a table; a registration changes exactly one cell of
   exactly one object; a copy equals its source and leaves the source alone *)
RegBeh(d) == LET r == RegOf(d)  t == ClsTuple(last'.a.os) IN BehOfIn(cfg.kind, r[t]) = "reg"
LookupsPure == [][(last'.op \notin {"Insert", "Erase", "Clone", "Take", "Drop2", "New2"} /\ ~(last'.op = "Dispatch" /\ RegBeh(last'.a.d))) =>
                    reg' = reg /\ reg2' = reg2 /\ has2' = has2 /\ hist' = hist]_vars
OneCell     == [][last'.op \in {"Insert", "Erase"} =>
                    /\ \A t \in DOMAIN reg : (t # last'.a.t \/ last'.a.d # 1) => reg'[t] = reg[t]
                    /\ \A t \in DOMAIN reg2 : (t # last'.a.t \/ last'.a.d # 2) => reg2'[t] = reg2[t]
                    /\ has2' = has2]_vars
CopiesAreValues == [][/\ last'.op = "Clone" => (reg2' = reg /\ reg' = reg /\ has2')
                      /\ (last'.op = "Take" /\ last'.a.how \in {"copy", "copyctor"}) => (reg' = reg2 /\ reg2' = reg2 /\ has2')
                      /\ (last'.op = "Take" /\ last'.a.how \in {"move", "movector"}) => (reg' = reg2 /\ ~has2')
                      /\ (last'.op = "Take" /\ last'.a.how = "swap") => (reg' = reg2 /\ reg2' = reg /\ has2')
                      /\ (last'.op = "Take" /\ last'.a.how = "self") => (reg' = reg /\ reg2' = reg2 /\ has2' = has2)
                      /\ last'.op = "New2" => (reg' = reg /\ has2' /\ reg2' = ZeroReg(cfg.ar, cfg.k))
                      /\ last'.op = "Drop2" => (reg' = reg /\ ~has2')]_vars
=============================================================================

------------------------------ MODULE Dispatch ------------------------------
(***************************************************************************)
(* L1 property specification for C17: multimethods and visitors call       *)
(* exactly the handler registered for the tuple of dynamic types.          *)
(*                                                                         *)
(* Written from the property statement (and the Loki contract the headers  *)
(* cite), not from xtl's code.  One dispatcher object per execution:       *)
(*   reg  : the registration table, a function from tuples of classes to   *)
(*          handler ids (0 = no handler registered for that tuple);        *)
(*   hist : the registration history (Insert/Erase events in order);       *)
(*   cfg  : which dispatcher this execution is about (kind, arity, number  *)
(*          of undispatched arguments, number of classes in use).          *)
(* Every public call is one action; its C++ arguments are the action       *)
(* parameters and are recorded, with the expected outcome, in the ghost    *)
(* variable last; pre is the table before the call.                        *)
(*                                                                         *)
(* Classes are numbered 1=A 2=B 3=C 4=Base 5=D; A, B, C derive from Base,   *)
(* D derives from A.  Objects are numbered 10*class + n.                    *)
(*                                                                         *)
(* Outcome of a call:                                                       *)
(*   [exc |-> "none", val |-> [calls, ret, rep, h, sig, dyn, objs, tg, xv,  *)
(*                             xid]]                                        *)
(*       exactly one handler ran (calls = 1): h its id, sig the static     *)
(*       types it was registered for, dyn the dynamic types and objs the   *)
(*       objects (identified by address) it received, in the order it      *)
(*       received them, tg the tags it read through its typed references   *)
(*       (the cast reached the right sub-object), xv the values of the     *)
(*       undispatched arguments it received, xid "they were the caller's   *)
(*       objects", ret the value the call returned (the handler's return   *)
(*       value), rep = 0 (no error was reported);                          *)
(*   [exc |-> "exception" | "on_error" | "catch_all", val |-> [calls |-> 0, *)
(*       ret, rep ...]]  no handler ran and the error was reported through *)
(*       an exception, the executor's on_error, or the catch-all policy.   *)
(*       Which exception type is thrown is not part of the property.       *)
(***************************************************************************)
EXTENDS Naturals, Sequences, FiniteSets, TLC, Json

CONSTANTS Kinds,     \* dispatcher kinds the model checker starts executions for
          Arities,   \* arities  "
          NXs,       \* numbers of undispatched arguments "
          K,         \* number of classes in use by the model checker (1..K)
          MaxHist,   \* model-checking bound on the length of the registration history
          MaxCells,  \* model-checking bound on the number of registered tuples
          OpClasses, \* operation classes enabled in the model checker's next-state relation
          EmitMode   \* S->C: "none" | "hist" (complete histories) | "edges" (state x action)

VARIABLES cfg, reg, hist, last, pre

vars    == <<cfg, reg, hist, last, pre>>
absvars == <<cfg, reg>>
histvars == <<cfg, reg, hist>>

----------------------------------------------------------------------------
(* The class hierarchy (a fact about the harness, shared with driver.cpp).  *)
Universe == 1..5
Anc(c)   == CASE c = 4 -> {} [] c = 5 -> {1, 4} [] OTHER -> {4}     \* proper ancestors
ClsOf(o) == o \div 10
ObjectsOf(k) == {10 * c + n : c \in 1..k, n \in 0..1}
Range(s) == {s[i] : i \in 1..Len(s)}
IndexIn(s, x) == CHOOSE i \in 1..Len(s) : s[i] = x

FunctorKinds == {"map_dyn", "map_static", "fast_dyn", "fast_static"}

Tuples(ar, k) == CASE ar = 1 -> {<<a>> : a \in 1..k}
                   [] ar = 2 -> {<<a, b>> : a, b \in 1..k}
                   [] ar = 3 -> {<<a, b, c>> : a, b, c \in 1..k}
                   [] OTHER  -> {}
ZeroReg(ar, k) == [t \in Tuples(ar, k) |-> 0]
MyTuples == Tuples(cfg.ar, cfg.k)
ClsTuple(os) == [i \in 1..Len(os) |-> ClsOf(os[i])]
Registered == {t \in DOMAIN reg : reg[t] # 0}

----------------------------------------------------------------------------
(* Outcomes.                                                                *)
Void == [exc |-> "none", val |-> <<>>]
NoArg == [z |-> 0]
Handled(h, sig, os, xs, ret) ==
    [exc |-> "none",
     val |-> [calls |-> 1, ret |-> ret, rep |-> 0, h |-> h, sig |-> sig, dyn |-> ClsTuple(os),
              objs |-> os, tg |-> os, xv |-> xs, xid |-> TRUE]]
Err(kind, ret, rep) == [exc |-> kind, val |-> [calls |-> 0, ret |-> ret, rep |-> rep]]

RECURSIVE SumSeq(_)
SumSeq(s) == IF s = <<>> THEN 0 ELSE Head(s) + SumSeq(Tail(s))
(* what the test fixtures' handlers return (the dispatcher must hand it back unchanged) *)
FunctorRet(h, xs) == h * 100 + SumSeq(xs)
StaticRet(sig)    == 1000 + 10 * sig[1] + sig[2]
VisitRet(c)       == 100 + c

----------------------------------------------------------------------------
(* What is observable of a dispatcher: the outcome of dispatching every     *)
(* tuple of classes (on the first object of each class).  The harness       *)
(* probes this after every call.                                            *)
Cell(t) == IF reg[t] = 0 THEN [h |-> 0, objs |-> <<>>]
           ELSE [h |-> reg[t], objs |-> [i \in 1..Len(t) |-> 10 * t[i]]]
Tab == CASE cfg.kind = "none" -> <<>>
         [] cfg.ar = 1 -> [a \in 1..cfg.k |-> Cell(<<a>>)]
         [] cfg.ar = 2 -> [a \in 1..cfg.k |-> [b \in 1..cfg.k |-> Cell(<<a, b>>)]]
         [] cfg.ar = 3 -> [a \in 1..cfg.k |-> [b \in 1..cfg.k |-> [c \in 1..cfg.k |-> Cell(<<a, b, c>>)]]]
ProjAll == [tab |-> Tab]

----------------------------------------------------------------------------
Step(op, a, newreg, newhist, res) ==
    /\ pre'  = [reg |-> reg]
    /\ reg'  = newreg
    /\ hist' = newhist
    /\ cfg'  = cfg
    /\ last' = [op |-> op, a |-> a, res |-> res]
Obs(op, a, res) == Step(op, a, reg, hist, res)

(* functor_dispatcher<...>::insert<D...>(handler h): afterwards h is THE handler for exactly t *)
Insert(t, h) ==
    /\ cfg.kind \in FunctorKinds
    /\ t \in MyTuples
    /\ h > 0
    /\ Step("Insert", [t |-> t, h |-> h], [reg EXCEPT ![t] = h], Append(hist, [op |-> "I", t |-> t, h |-> h]), Void)

(* functor_dispatcher<...>::erase<D...>(): afterwards nothing is registered for t *)
Erase(t) ==
    /\ cfg.kind \in FunctorKinds
    /\ t \in MyTuples
    /\ Step("Erase", [t |-> t], [reg EXCEPT ![t] = 0], Append(hist, [op |-> "E", t |-> t, h |-> 0]), Void)

(* functor_dispatcher<...>::dispatch(args..., extras...): os = the argument objects, xs = the
   values of the undispatched arguments *)
Dispatch(os, xs) ==
    /\ cfg.kind \in FunctorKinds
    /\ Len(os) = cfg.ar /\ Len(xs) = cfg.nx
    /\ ClsTuple(os) \in MyTuples
    /\ LET t == ClsTuple(os) IN
       Obs("Dispatch", [os |-> os, xs |-> xs],
           IF reg[t] # 0 THEN Handled(reg[t], t, os, xs, FunctorRet(reg[t], xs))
                         ELSE Err("exception", 0, 0))

----------------------------------------------------------------------------
(* static_dispatcher<executor, base, lhs list, R, (anti)symmetric, base, rhs list>::dispatch(a, b, exec).
   Its "registrations" are its type lists.  Contract (Loki): a list names a class before its
   ancestors, and an argument whose class is not listed has no listed ancestor either (otherwise
   the is-a match of the ancestor is what the user asked for; not explored here). *)
WellOrdered(l) == /\ \A i, j \in 1..Len(l) : i < j => (l[i] # l[j] /\ l[i] \notin Anc(l[j]))
Covered(l, c)  == c \in Range(l) \/ Anc(c) \cap Range(l) = {}
StaticPre(lhs, rhs, a, b) ==
    /\ WellOrdered(lhs) /\ WellOrdered(rhs)
    /\ Covered(lhs, ClsOf(a)) /\ Covered(rhs, ClsOf(b))

Static(lhs, rhs, cst, a, b) ==
    /\ StaticPre(lhs, rhs, a, b)
    /\ LET ca == ClsOf(a)  cb == ClsOf(b) IN
       Obs("Static", [lhs |-> lhs, rhs |-> rhs, cst |-> cst, os |-> <<a, b>>],
           IF ca \in Range(lhs) /\ cb \in Range(rhs)
             THEN Handled(0, <<ca, cb>>, <<a, b>>, <<>>, StaticRet(<<ca, cb>>))
             ELSE Err("on_error", 7, 1))

(* Symmetric dispatch: one action performs dispatch(a, b) and dispatch(b, a).  The property asks
   that both reach the same handler, that the handler is the one for the two dynamic types in one
   of the two orders, and that each argument arrives in the position of its own type.  Which of
   the two orders is the canonical one is not part of the property (both are allowed, consistently). *)
SymOutcomes(sig, a, b) ==
    IF ClsOf(a) = ClsOf(b)
      THEN {Handled(0, sig, <<a, b>>, <<>>, StaticRet(sig)), Handled(0, sig, <<b, a>>, <<>>, StaticRet(sig))}
      ELSE IF sig = <<ClsOf(a), ClsOf(b)>> THEN {Handled(0, sig, <<a, b>>, <<>>, StaticRet(sig))}
                                           ELSE {Handled(0, sig, <<b, a>>, <<>>, StaticRet(sig))}
StaticSym(tl, cst, a, b) ==
    /\ StaticPre(tl, tl, a, b) /\ StaticPre(tl, tl, b, a)
    /\ LET ca == ClsOf(a)  cb == ClsOf(b)
           args == [lhs |-> tl, rhs |-> tl, cst |-> cst, os |-> <<a, b>>] IN
       IF ca \in Range(tl) /\ cb \in Range(tl)
         THEN \E sig \in {<<ca, cb>>, <<cb, ca>>} :
              \E r1 \in SymOutcomes(sig, a, b), r2 \in SymOutcomes(sig, b, a) :
                 Obs("StaticSym", args, [exc |-> "none", val |-> [ab |-> r1, ba |-> r2]])
         ELSE Obs("StaticSym", args, [exc |-> "none", val |-> [ab |-> Err("on_error", 7, 1), ba |-> Err("on_error", 7, 1)]])

----------------------------------------------------------------------------
(* Acyclic visitor: visitable o accepts a visitor that visits exactly the classes in vis
   (a sequence of class ids).  v names the variant of base_visitable:
     default / cdefault     : default_catch_all  (returns R())
     throwing / void        : throwing_catch_all
     recording / crecording : a user policy that records what it was given and returns 999 *)
Variants == {"default", "cdefault", "throwing", "void", "recording", "crecording"}
Accept(v, vis, o) ==
    /\ v \in Variants
    /\ LET c == ClsOf(o) IN
       Obs("Accept", [v |-> v, vis |-> vis, o |-> o],
           IF c \in Range(vis)
             THEN Handled(0, <<c>>, <<o>>, <<>>, IF v = "void" THEN 0 ELSE VisitRet(c))
             ELSE CASE v \in {"default", "cdefault"} -> Err("catch_all", 0, 0)
                    [] v \in {"throwing", "void"}    -> Err("exception", 0, 0)
                    [] OTHER -> [exc |-> "catch_all", val |-> [calls |-> 0, ret |-> 999, rep |-> 1, psig |-> c, pobj |-> o]])

(* Cyclic visitor: the visitor names every class of the hierarchy; accept reaches visit(dynamic type) *)
Cyclic(cst, o) ==
    Obs("Cyclic", [cst |-> cst, o |-> o], Handled(0, <<ClsOf(o)>>, <<o>>, <<>>, VisitRet(ClsOf(o))))

----------------------------------------------------------------------------
(* Model checker's next-state relation.                                     *)
C(x) == x \in OpClasses

(* menus compiled into the harness (driver.cpp: static_menu, the visitor sets) *)
StaticMenu == {
    [lhs |-> <<1, 2, 3>>, rhs |-> <<1, 2, 3>>, sym |-> FALSE, cst |-> TRUE],
    [lhs |-> <<1, 2, 3>>, rhs |-> <<1, 2, 3>>, sym |-> TRUE, cst |-> TRUE],
    [lhs |-> <<3, 1, 2>>, rhs |-> <<3, 1, 2>>, sym |-> TRUE, cst |-> FALSE],
    [lhs |-> <<2, 1>>, rhs |-> <<3, 2>>, sym |-> FALSE, cst |-> FALSE],
    [lhs |-> <<5, 1, 2, 3, 4>>, rhs |-> <<5, 1, 2, 3, 4>>, sym |-> FALSE, cst |-> TRUE],
    [lhs |-> <<5, 1, 2, 3, 4>>, rhs |-> <<5, 1, 2, 3, 4>>, sym |-> TRUE, cst |-> FALSE],
    [lhs |-> <<5, 2>>, rhs |-> <<3>>, sym |-> FALSE, cst |-> FALSE],
    [lhs |-> <<2, 5, 1>>, rhs |-> <<2, 5, 1>>, sym |-> TRUE, cst |-> TRUE],
    [lhs |-> <<3, 2, 1>>, rhs |-> <<1, 2, 3>>, sym |-> FALSE, cst |-> FALSE] }
VisitorSets == {<<1, 2>>, <<1, 2, 3, 4, 5>>, <<3>>, <<>>, <<4, 5>>}
AllObjects == ObjectsOf(5)

XsDomain(nx) == CASE nx = 0 -> {<<>>} [] nx = 1 -> {<<5>>, <<0>>} [] OTHER -> {<<5, 9>>, <<2, 0>>}
ObjTuples(ar, k) == CASE ar = 1 -> {<<a>> : a \in ObjectsOf(k)}
                      [] ar = 2 -> {<<a, b>> : a, b \in ObjectsOf(k)}
                      [] OTHER  -> {<<a, b, c>> : a, b, c \in {10 * i : i \in 1..k}}
(* representative argument tuples: first objects of each class, plus the second objects for arity <= 2 *)

NInsert   == C("insert")   /\ \E t \in MyTuples : Insert(t, Len(hist) + 1)          \* a fresh handler per registration
NInsert2  == C("insert2")  /\ \E t \in MyTuples, h \in 1..2 : Insert(t, h)
NErase    == C("erase")    /\ \E t \in MyTuples : Erase(t)
NDispatch == C("dispatch") /\ \E os \in ObjTuples(cfg.ar, cfg.k), xs \in XsDomain(cfg.nx) : Dispatch(os, xs)
NStatic   == C("static")   /\ \E m \in StaticMenu, a, b \in AllObjects : ~m.sym /\ Static(m.lhs, m.rhs, m.cst, a, b)
NStaticSym == C("static")  /\ \E m \in StaticMenu, a, b \in AllObjects : m.sym /\ StaticSym(m.lhs, m.cst, a, b)
NAccept   == C("accept")   /\ \E v \in Variants, vis \in VisitorSets, o \in AllObjects : Accept(v, vis, o)
NCyclic   == C("cyclic")   /\ \E cst \in BOOLEAN, o \in AllObjects : Cyclic(cst, o)

Next == NInsert \/ NInsert2 \/ NErase \/ NDispatch \/ NStatic \/ NStaticSym \/ NAccept \/ NCyclic

Init ==
    /\ cfg \in [kind : Kinds, ar : Arities, nx : NXs, k : {K}]
    /\ (cfg.ar = 1 => cfg.nx <= 1) /\ (cfg.ar = 3 => cfg.nx <= 1)       \* combinations compiled into the harness
    /\ reg = ZeroReg(cfg.ar, cfg.k)
    /\ hist = <<>>
    /\ last = [op |-> "Init", a |-> NoArg, res |-> Void]
    /\ pre = [reg |-> reg]

Spec == Init /\ [][Next]_vars

Bound == Len(hist) <= MaxHist /\ Cardinality(Registered) <= MaxCells

(* S->C enumeration (ACTION_CONSTRAINT): writes, as JSON lines on TLC's output,
   "hist":  every complete registration history of length MaxHist (VIEW histvars: one state per history);
   "edges": every transition (pre-state, call) of the state graph (VIEW absvars: every table once). *)
Emit ==
    /\ (EmitMode = "hist" /\ Len(hist') = MaxHist /\ Len(hist) < MaxHist) =>
           PrintT("@H@" \o ToJson([cfg |-> cfg', hist |-> hist']))
    /\ (EmitMode = "edges") =>
           PrintT("@E@" \o ToJson([cfg |-> cfg, p |-> Tab, l |-> [op |-> last'.op, a |-> last'.a]]))

----------------------------------------------------------------------------
(* Theorems of the specification itself, checked by TLC (they guard the oracle). *)
TypeOK ==
    /\ cfg.kind \in FunctorKinds \cup {"none"} /\ cfg.ar \in 1..3 /\ cfg.nx \in 0..2 /\ cfg.k \in 1..5
    /\ DOMAIN reg = MyTuples
    /\ \A t \in DOMAIN reg : reg[t] \in Nat
    /\ last.res.exc \in {"none", "exception", "on_error", "catch_all"}

(* "registered" means: the last event of the history about t is an Insert, and reg[t] is its handler *)
RECURSIVE LastAbout(_, _)
LastAbout(h, t) == IF h = <<>> THEN 0
                   ELSE LET e == h[Len(h)] IN IF e.t = t THEN e.h ELSE LastAbout(SubSeq(h, 1, Len(h) - 1), t)
RegIsHistory == \A t \in DOMAIN reg : reg[t] = LastAbout(hist, t)

(* an error outcome means no handler ran; a normal outcome means exactly one ran, for exactly the
   dynamic types of the arguments, and the arguments arrived in the positions of their types *)
IsOutcome(r) == /\ (r.exc # "none" => r.val.calls = 0)
                /\ (r.exc = "none" => /\ r.val.calls = 1 /\ r.val.rep = 0
                                      /\ r.val.sig = r.val.dyn /\ r.val.xid
                                      /\ \A i \in 1..Len(r.val.objs) : ClsOf(r.val.objs[i]) = r.val.sig[i])
OutcomeOK ==
    /\ last.op \in {"Dispatch", "Static", "Accept", "Cyclic"} => IsOutcome(last.res)
    /\ last.op = "StaticSym" =>
          /\ IsOutcome(last.res.val.ab) /\ IsOutcome(last.res.val.ba)
          /\ last.res.val.ab.exc = last.res.val.ba.exc
          /\ last.res.val.ab.exc = "none" =>
                /\ last.res.val.ab.val.sig = last.res.val.ba.val.sig          \* same handler both ways
                /\ Range(last.res.val.ab.val.objs) = Range(last.a.os)         \* the same two objects
                /\ Range(last.res.val.ba.val.objs) = Range(last.a.os)

(* a dispatch is answered from the table as it was before the call, for exactly the dynamic types:
   the handler registered for that tuple and no other; an unregistered tuple (never registered,
   erased, or only a permutation registered) is an error *)
DispatchExact ==
    last.op = "Dispatch" =>
        LET t == ClsTuple(last.a.os) IN
        /\ (pre.reg[t] # 0) = (last.res.exc = "none")
        /\ last.res.exc = "none" => /\ last.res.val.h = pre.reg[t] /\ last.res.val.sig = t
                                    /\ last.res.val.objs = last.a.os /\ last.res.val.xv = last.a.xs

(* calls that look something up never change the table; a registration changes exactly one cell *)
LookupsPure == [][last'.op \notin {"Insert", "Erase"} => reg' = reg /\ hist' = hist]_vars
OneCell     == [][last'.op \in {"Insert", "Erase"} =>
                    \A t \in DOMAIN reg : t # last'.a.t => reg'[t] = reg[t]]_vars
=============================================================================

SPECIFICATION Spec
CONSTANTS
  N = 3
  Policies = {"throwing"}
  Layouts = {"packed", "strlen"}
  Chars <- Chars12
  Lits <- LitsN3q
  PosDom <- Pos3q
  SubDom <- SubN3q
  OtherVals <- OtherN3q
  Junk = {9}
  AliasMode = "repaired"
CONSTRAINT OtherBound
VIEW absview
INVARIANTS RepInv NoAccessOutside
PROPERTIES Refines FailedStutters

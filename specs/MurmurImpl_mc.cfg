SPECIFICATION FairSpec
CONSTANTS
  Keys <- KeysQ
  Seeds <- SeedsQ
INVARIANTS Refines ReadsInside LoadIsLittleEndian
PROPERTY Terminates

------------------------------ MODULE VariantMC ------------------------------
(* Model-checking instance of Variant (L1 alone): a representative set of calls, the      *)
(* implementation replaced by "any element events the lifetime rules allow" (<= MaxEv per  *)
(* call), End offering every projection consistent with the storage.  Checks the theorems  *)
(* of the spec itself: whatever an implementation does, if L1 accepts it then between calls *)
(* each variant owns exactly one live payload matching what it reports (Quiescent), a       *)
(* variant turns valueless only in a call that threw, observers change nothing.             *)
EXTENDS Variant

(* (round 4) Laws of the relational operators over PARTIALLY ordered payload values, checked by TLC once at start-up:       *)
(* with an unordered value on either side of the same alternative every operator but != answers FALSE - so <= is NOT        *)
(* "not >" and >= is NOT "not <" there (an implementation that derives one operator from another is rejected by L1);        *)
(* on ordered values the usual derivations do hold; operands holding different alternatives never consult the values.      *)
RelOps == {"eq", "ne", "lt", "gt", "le", "ge"}
LawVals == {0, 1, 2, MOVED, UNORD}
ASSUME PartialOrderLaws ==
    \A i \in Alts, a \in LawVals, b \in LawVals :
        LET x == Holds(i, a, 0)  y == Holds(i, b, 0)  un == a = UNORD \/ b = UNORD IN
        /\ un => \A r \in RelOps : RelRes(r, x, y) = (r = "ne")
        /\ RelRes("ne", x, y) = ~RelRes("eq", x, y)
        /\ (RelRes("le", x, y) = ~RelRes("gt", x, y)) = ~un
        /\ (RelRes("ge", x, y) = ~RelRes("lt", x, y)) = ~un
        /\ RelRes("le", x, y) = RelRes("ge", y, x) /\ RelRes("lt", x, y) = RelRes("gt", y, x)
ASSUME IndexOrderLaws ==
    \A i \in Alts, j \in Alts, a \in LawVals, b \in LawVals : i < j =>
        LET x == Holds(i, a, 0)  y == Holds(j, b, 0) IN
        /\ RelRes("lt", x, y) /\ RelRes("le", x, y) /\ RelRes("ne", x, y)
        /\ ~RelRes("gt", x, y) /\ ~RelRes("ge", x, y) /\ ~RelRes("eq", x, y)
        /\ \A r \in RelOps : RelRes(r, Valueless, x) = (r \in {"lt", "le", "ne"}) /\ RelRes(r, Valueless, Valueless) = (r \in {"eq", "le", "ge"})
SmallCalls ==
    {cl \in MCCalls :
        /\ cl.c \in {"CtorDefault", "CtorValue", "CtorMove", "Destroy", "Emplace", "ConvAssign", "CopyAssign", "Swap", "Get", "Rel", "Visit"}
        /\ cl.c \in Valued => cl.a.alt \in {0, 1, 2} /\ cl.a.ak \in {"value", "move"}
        /\ cl.c = "Rel" => cl.a.rel \in {"lt", "ge"} /\ cl.a.k = 1 /\ cl.a.o = 2
        /\ cl.c = "Get" => cl.a.alt \in {0, 2}
        /\ cl.c = "Visit" => Len(cl.a.ks) = 2
        /\ cl.c = "Swap" => cl.a.k = 1 /\ cl.a.o = 2
        /\ cl.c \in {"CopyAssign"} => cl.a.k # cl.a.o}
(* quick tier: valued calls on variant 1 only, alternatives int and TM *)
TinyCalls ==
    {cl \in SmallCalls :
        /\ cl.c \in Valued => cl.a.k = 1 /\ cl.a.alt \in {0, 2} /\ cl.a.ak = "value"
        /\ cl.c \in {"CtorMove", "CopyAssign"} => cl.a.k = 2
        /\ cl.c \in {"Get", "Destroy"} => cl.a.k = 1
        /\ cl.c = "Visit" => cl.a.ks = <<1, 2>>}
=============================================================================

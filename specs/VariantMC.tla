------------------------------ MODULE VariantMC ------------------------------
(* Model-checking instance of Variant (L1 alone): a representative set of calls, the      *)
(* implementation replaced by "any element events the lifetime rules allow" (<= MaxEv per  *)
(* call), End offering every projection consistent with the storage.  Checks the theorems  *)
(* of the spec itself: whatever an implementation does, if L1 accepts it then between calls *)
(* each variant owns exactly one live payload matching what it reports (Quiescent), a       *)
(* variant turns valueless only in a call that threw, observers change nothing.             *)
EXTENDS Variant
SmallCalls ==
    {cl \in MCCalls :
        /\ cl.c \in {"CtorDefault", "CtorValue", "CtorMove", "Destroy", "Emplace", "ConvAssign", "CopyAssign", "Swap", "Get", "Rel", "Visit"}
        /\ cl.c \in Valued => cl.a.alt \in {0, 1, 2} /\ cl.a.ak \in {"value", "move"}
        /\ cl.c = "Rel" => cl.a.rel \in {"lt", "ge"} /\ cl.a.k = 1 /\ cl.a.o = 2
        /\ cl.c = "Get" => cl.a.alt \in {0, 2}
        /\ cl.c = "Visit" => Len(cl.a.ks) = 2
        /\ cl.c = "Swap" => cl.a.k = 1 /\ cl.a.o = 2
        /\ cl.c \in {"CopyAssign"} => cl.a.k # cl.a.o}
(* quick tier: valued calls on variant 1 only, alternatives int and TM *)
TinyCalls ==
    {cl \in SmallCalls :
        /\ cl.c \in Valued => cl.a.k = 1 /\ cl.a.alt \in {0, 2} /\ cl.a.ak = "value"
        /\ cl.c \in {"CtorMove", "CopyAssign"} => cl.a.k = 2
        /\ cl.c \in {"Get", "Destroy"} => cl.a.k = 1
        /\ cl.c = "Visit" => cl.a.ks = <<1, 2>>}
=============================================================================

----------------------------- MODULE FixedString -----------------------------
(***************************************************************************)
(* L1 property specification for C01 / C02 (and the fixed-string clause of *)
(* C14): xtl::xbasic_fixed_string<CT, N, ST, EP> as "a std::basic_string   *)
(* bounded by its capacity N".  Written from the property statements and   *)
(* from the C++ standard's description of std::basic_string ([string.*]),  *)
(* not from xtl's code.                                                    *)
(*                                                                         *)
(* Two objects obj[1], obj[2] (sources of the self_type overloads, swap,   *)
(* relational operators, operator+).  Every public call is one action; the *)
(* C++ arguments are the action parameters and are recorded, with the      *)
(* expected return value / exception, in the ghost variable last.  pre is  *)
(* the abstract state before the call (so that every distinct state of the *)
(* unviewed spec is one transition).                                       *)
(*                                                                         *)
(* Encodings.  A character is its code unit (a natural number, 0 = NUL).   *)
(* A string is a sequence of characters.  Positions and counts are         *)
(* naturals; NPOS (-1) stands for npos and, as a count, for "any count >=  *)
(* what is left"; DFLT (-2) stands for "argument omitted in the call": the *)
(* default is part of the declaration and so part of the action.  An       *)
(* iterator is its offset from begin().                                    *)
(*                                                                         *)
(* Source kinds (how the characters of an argument are passed):            *)
(*   "ptrn" (pointer,count: embedded NUL allowed)  "ptr" (C string)        *)
(*   "str" (std::basic_string)  "il" (initializer_list)  "itv"/"itl"       *)
(*   (iterator pair of a vector / list)  "ch" (one character)              *)
(*   "obj" (the other fixed string)  "objm" (the other one as an rvalue).  *)
(* Aliasing sources - the object itself is (part of) its own argument, as  *)
(* std::basic_string allows for every one of these overloads:              *)
(*   "self"   s.f(.., s ..)          where "obj" is allowed                *)
(*   "selfp"  s.f(.., s.data()+off, cnt)        where "ptrn" is allowed    *)
(*   "selfz"  s.f(.., s.c_str()+off)            where "ptr" is allowed     *)
(*   "selfit" s.f(.., s.begin()+off, s.begin()+off+cnt)  where "itv" is    *)
(*            ("selfit": const_iterator pair from cbegin(); "selfmit": the   *)
(*            mutable iterators of begin(); "selfrit": reverse iterators     *)
(*            over the same characters, which then arrive in reverse order)  *)
(* Iterator-pair kinds from other containers: "itv" vector const_iterator,  *)
(* "itl" list, "itp" const CT*, "itpm" CT*, "its" std::basic_string::iterator*)
(* For these the src field of the call is the descriptor <<>>, <<off,cnt>>,*)
(* <<off>>, <<off,cnt>>; the characters are those the object held BEFORE   *)
(* the call (the standard: as if the argument were copied first).          *)
(***************************************************************************)
EXTENDS Integers, Sequences, FiniteSets, TLC, Json

CONSTANTS Caps,      \* capacities N the model checker may choose at Init
          Policies,  \* subset of {"silent", "throwing"}
          Layouts,   \* subset of {"packed", "sizefield", "strlen"}
          Chars,     \* characters used for fill / written characters by the model checker
          Lits,      \* literal source sequences used by the model checker
          PosDom,    \* positions and counts used by the model checker (naturals and NPOS)
          SubDom,    \* <<pos2, count2>> pairs for the sub-string overloads
          Targets,   \* objects the model checker applies operations to
          OtherInit, \* values the non-target object may be given directly
          Classes,   \* operation classes enabled in the next-state relation
          EmitOps    \* S->C: operations whose transitions are written out (see Emit)

VARIABLES cf,    \* configuration of this execution: [n, policy, layout]
          obj,   \* obj[k]: the abstract string of object k
          last,  \* ghost: [op, k, a, res] of the call just performed
          pre    \* ghost: [obj] before that call

vars    == <<cf, obj, last, pre>>
absvars == <<cf, obj>>

NPOS == -1
DFLT == -2
Other(k) == 3 - k
Cap      == cf.n
Throwing == cf.policy = "throwing"
NulOK    == cf.layout # "strlen"      \* the strlen-sized layout cannot hold NUL characters

----------------------------------------------------------------------------
(* Sequence algebra: what std::basic_string would hold / return.           *)

Min(a, b)  == IF a < b THEN a ELSE b
Fill(n, c) == [i \in 1..n |-> c]
Rev(v)     == [i \in 1..Len(v) |-> v[Len(v) + 1 - i]]
NulFree(v) == \A i \in 1..Len(v) : v[i] # 0
Has(v, c)  == \E i \in 1..Len(v) : v[i] = c
Storable(v) == NulOK \/ NulFree(v)

Or(p, d)      == IF p = DFLT THEN d ELSE p                 \* defaulted argument
Bad(p, len)   == p = NPOS \/ p > len                       \* "position greater than the relevant length"
Cnt(n, rest)  == IF n = NPOS \/ n > rest THEN rest ELSE n  \* min(count, rest)
Sub(v, p, n)  == SubSeq(v, p + 1, p + Cnt(n, Len(v) - p))  \* v.substr(p, n), needs ~Bad(p, Len(v))
Ins(s, i, v)  == SubSeq(s, 1, i) \o v \o SubSeq(s, i + 1, Len(s))
Del(s, i, n)  == SubSeq(s, 1, i) \o SubSeq(s, i + Cnt(n, Len(s) - i) + 1, Len(s))
Repl(s, p, n, v) == SubSeq(s, 1, p) \o v \o SubSeq(s, p + Cnt(n, Len(s) - p) + 1, Len(s))
ResizeSeq(s, n, c) == [i \in 1..n |-> IF i <= Len(s) THEN s[i] ELSE c]
Before(v, c)  == IF Has(v, c) THEN SubSeq(v, 1, (CHOOSE i \in 1..Len(v) : v[i] = c /\ \A j \in 1..(i - 1) : v[j] # c) - 1) ELSE v

(* char_traits compare code units as unsigned values; compare() reports a sign *)
SetMin(S) == CHOOSE x \in S : \A y \in S : x <= y
SetMax(S) == CHOOSE x \in S : \A y \in S : x >= y
Cmp(a, b) ==
    LET d == {i \in 1..Min(Len(a), Len(b)) : a[i] # b[i]} IN
    IF d = {} THEN (IF Len(a) < Len(b) THEN -1 ELSE IF Len(a) > Len(b) THEN 1 ELSE 0)
    ELSE IF a[SetMin(d)] < b[SetMin(d)] THEN -1 ELSE 1

(* [string.find] .. [string.find.last.not.of]: xpos is the lowest / highest position such that ... *)
GE(x, p) == p # NPOS /\ x >= p
LE(x, p) == p = NPOS \/ x <= p
MatchAt(s, v, x) == x + Len(v) <= Len(s) /\ \A i \in 1..Len(v) : s[x + i] = v[i]
LowOr(S)  == IF S = {} THEN NPOS ELSE SetMin(S)
HighOr(S) == IF S = {} THEN NPOS ELSE SetMax(S)
FindSeq(s, v, p)   == LowOr({x \in 0..Len(s) : GE(x, p) /\ MatchAt(s, v, x)})
RFindSeq(s, v, p)  == HighOr({x \in 0..Len(s) : LE(x, p) /\ MatchAt(s, v, x)})
FirstOf(s, v, p)   == LowOr({x \in 0..(Len(s) - 1) : GE(x, p) /\ Has(v, s[x + 1])})
FirstNotOf(s, v, p) == LowOr({x \in 0..(Len(s) - 1) : GE(x, p) /\ ~Has(v, s[x + 1])})
LastOf(s, v, p)    == HighOr({x \in 0..(Len(s) - 1) : LE(x, p) /\ Has(v, s[x + 1])})
LastNotOf(s, v, p) == HighOr({x \in 0..(Len(s) - 1) : LE(x, p) /\ ~Has(v, s[x + 1])})

FindFams == {"find", "rfind", "ffo", "ffno", "flo", "flno"}
FindDefault(fam) == IF fam \in {"find", "ffo", "ffno"} THEN 0 ELSE NPOS   \* defaults in the declarations
FindRes(fam, s, v, p) ==
    CASE fam = "find"  -> FindSeq(s, v, p)
      [] fam = "rfind" -> RFindSeq(s, v, p)
      [] fam = "ffo"   -> FirstOf(s, v, p)
      [] fam = "ffno"  -> FirstNotOf(s, v, p)
      [] fam = "flo"   -> LastOf(s, v, p)
      [] fam = "flno"  -> LastNotOf(s, v, p)

RelOps == {"eq", "ne", "lt", "le", "gt", "ge"}
RelRes(rop, a, b) == LET c == Cmp(a, b) IN
    CASE rop = "eq" -> c = 0 [] rop = "ne" -> c # 0 [] rop = "lt" -> c < 0
      [] rop = "le" -> c <= 0 [] rop = "gt" -> c > 0 [] rop = "ge" -> c >= 0

----------------------------------------------------------------------------
(* What every observer reports about one object (compared after each call). *)

Proj(k) == LET s == obj[k] IN
    [size  |-> Len(s),                \* size()
     len   |-> Len(s),                \* length()
     empty |-> Len(s) = 0,            \* empty()
     max   |-> Cap,                   \* max_size()
     chars |-> s,                     \* data()[0 .. size())
     term  |-> 0,                     \* data()[size()]: the terminating NUL
     dist  |-> Len(s),                \* end() - begin()
     fwd   |-> s,                     \* *it for it in [begin(), end())
     rev   |-> Rev(s),                \* *it for it in [rbegin(), rend())
     g     |-> TRUE,                  \* the memory on both sides of the object is untouched
     (* round 3: a second, independent route to every observable *)
     cd    |-> Len(s),                \* cend() - cbegin()
     rd    |-> Len(s),                \* rend() - rbegin()  (and crend() - crbegin())
     slen  |-> Len(Before(s, 0)),     \* traits_type::length(c_str()) / std::strlen: the first NUL ends a C string
     rts   |-> Len(Before(s, 0)),     \* std::basic_string(c_str()).size(): the round trip through a C string
     rtn   |-> Len(s),                \* std::basic_string(data(), size()).size() with every character equal to data()[i]
     cp    |-> TRUE,                  \* c_str() = data() (both const) = the non-const data()
     ib    |-> TRUE,                  \* begin() = cbegin() = data(), end() = cend() = data() + size()
     rb    |-> TRUE]                  \* rbegin().base() = end(), rend().base() = begin(), likewise crbegin / crend
(* operator== for all pairs of the two objects (row = left operand) *)
ProjAll == [o |-> <<Proj(1), Proj(2)>>,
            eq |-> <<<<TRUE, obj[1] = obj[2]>>, <<obj[2] = obj[1], TRUE>>>>]

----------------------------------------------------------------------------
Ok(v)  == [exc |-> "none", val |-> v]
Exc(e) == [exc |-> e, val |-> <<>>]
Void   == Ok(<<>>)
Self   == Ok([self |-> TRUE])                       \* the call returned *this
It(i)  == Ok([it |-> i])                            \* returned iterator, as offset from begin()
StrVal(v) == [chars |-> v, size |-> Len(v), term |-> 0]   \* a returned fixed string
NoArg  == [z |-> 0]

Do2(op, k, a, newk, newo, res) ==
    /\ pre'  = [obj |-> obj]
    /\ obj'  = [obj EXCEPT ![k] = newk, ![Other(k)] = newo]
    /\ cf'   = cf
    /\ last' = [op |-> op, k |-> k, a |-> a, res |-> res]
Mut(op, k, a, newk, res) == Do2(op, k, a, newk, obj[Other(k)], res)
Obs(op, k, a, res)       == Mut(op, k, a, obj[k], res)

(* The three ways a call can end.  rng: a position argument is greater than the relevant     *)
(* length; big: the result is defined and longer than N.  When both hold the standard does   *)
(* not fix which exception is thrown, so both are allowed.  Under the silent policy exceeding *)
(* N is a violated precondition of the caller: no step.  A failed call changes nothing.       *)
Outcome(op, k, a, rng, big, newk, okres) ==
    \/ rng /\ Obs(op, k, a, Exc("out_of_range"))
    \/ big /\ Throwing /\ Obs(op, k, a, Exc("length_error"))
    \/ ~rng /\ ~big /\ Storable(newk) /\ Mut(op, k, a, newk, okres)

(* The state of an object that was passed as an rvalue is unspecified but valid: mv is any string *)
MovedOK(mv) == Len(mv) <= Cap /\ Storable(mv)
OutcomeMv(op, k, a, big, newk, mv, okres) ==
    \/ big /\ Throwing /\ Obs(op, k, a, Exc("length_error"))
    \/ ~big /\ Storable(newk) /\ MovedOK(mv) /\ Do2(op, k, a, newk, mv, okres)

TooBig(n) == n = NPOS \/ n > Cap              \* a requested length (npos included) beyond N
ObjKinds == {"obj", "objm"}
AliasKinds == {"self", "selfp", "selfz", "selfit", "selfmit", "selfrit"}
SelfItKinds == {"selfit", "selfmit", "selfrit"}
ItKinds     == {"itv", "itl", "itp", "itpm", "its"}          \* iterator pairs of other containers / arrays
(* the iterator-range overloads are templates: whatever takes "itv" takes every iterator kind *)
AllIt(S)    == IF "itv" \in S THEN S \cup ItKinds ELSE S
(* the overload that takes kind x also takes the aliasing form of x *)
WithAlias(S) == S \cup (IF "obj" \in S THEN {"self"} ELSE {}) \cup (IF "ptrn" \in S THEN {"selfp"} ELSE {})
                  \cup (IF "ptr" \in S THEN {"selfz"} ELSE {}) \cup (IF "itv" \in S THEN SelfItKinds \cup ItKinds ELSE {})
(* the characters a source denotes: w itself, or - aliasing - a part of the object's own value before the call *)
Src(k, sk, w) ==
    CASE sk = "self" -> obj[k]
      [] sk \in {"selfp", "selfit", "selfmit"} -> SubSeq(obj[k], w[1] + 1, w[1] + w[2])
      [] sk = "selfrit" -> Rev(SubSeq(obj[k], w[1] + 1, w[1] + w[2]))
      [] sk = "selfz" -> Before(SubSeq(obj[k], w[1] + 1, Len(obj[k])), 0)       \* a C string ends at the first NUL
      [] OTHER -> w
SrcOK(k, sk, w) ==
    /\ sk \in ObjKinds => w = obj[Other(k)]
    /\ sk \in {"ptr", "str"} => NulFree(w)
    /\ sk = "ch" => Len(w) = 1
    /\ sk = "self" => w = <<>>
    /\ sk \in {"selfp"} \cup SelfItKinds => Len(w) = 2 /\ w[1] \in 0..Len(obj[k]) /\ w[2] \in 0..(Len(obj[k]) - w[1])
    /\ sk = "selfz" => Len(w) = 1 /\ w[1] \in 0..Len(obj[k])
MvOK(k, sk, mv) == sk # "objm" => mv = obj[Other(k)]

----------------------------------------------------------------------------
(* Construction: object k is replaced by a newly constructed one.  A constructor that throws *)
(* constructs nothing; the old object stays.                                                  *)
CtorDefault(k) == Mut("CtorDefault", k, NoArg, <<>>, Void)
CtorFill(k, n, ch) ==
    Outcome("CtorFill", k, [n |-> n, ch |-> ch], FALSE, TooBig(n), Fill(n, ch), Void)
CtorSub(k, sk, v, p, n) ==
    /\ sk \in {"obj", "str"} /\ SrcOK(k, sk, v)
    /\ LET rng == Bad(p, Len(v)) IN
       Outcome("CtorSub", k, [sk |-> sk, src |-> v, pos |-> p, n |-> n], rng,
               ~rng /\ Len(Sub(v, p, Or(n, NPOS))) > Cap, Sub(v, p, Or(n, NPOS)), Void)
CtorSeq(k, sk, v, mv) ==
    /\ sk \in AllIt({"ptrn", "ptr", "il", "itv", "itl", "str", "obj", "objm"}) /\ SrcOK(k, sk, v) /\ MvOK(k, sk, mv)
    /\ OutcomeMv("CtorSeq", k, [sk |-> sk, src |-> v], Len(v) > Cap, v, mv, Void)
(* strlen layout only: the object is a view of N+1 cells of caller memory (numpy string); its *)
(* value is what precedes the first NUL; whatever follows is stale and must never matter.      *)
Overlay(k, cells) ==
    /\ cf.layout = "strlen" /\ Len(cells) = Cap + 1 /\ Has(cells, 0)
    /\ Mut("Overlay", k, [cells |-> cells], Before(cells, 0), Void)

(* Assignment *)
AssignFill(k, ov, n, ch) ==
    /\ ov \in {"assign", "opch"} /\ (ov = "opch" => n = 1)
    /\ Outcome("AssignFill", k, [ov |-> ov, n |-> n, ch |-> ch], FALSE, TooBig(n), Fill(n, ch), Self)
AssignSub(k, sk, w, p, n) ==
    /\ sk \in WithAlias({"obj", "str"}) /\ SrcOK(k, sk, w)
    /\ LET v == Src(k, sk, w)  rng == Bad(p, Len(v)) IN
       Outcome("AssignSub", k, [sk |-> sk, src |-> w, pos |-> p, n |-> n], rng,
               ~rng /\ Len(Sub(v, p, Or(n, NPOS))) > Cap, Sub(v, p, Or(n, NPOS)), Self)
AssignSeq(k, ov, sk, w, mv) ==
    /\ ov \in {"assign", "op"} /\ SrcOK(k, sk, w) /\ MvOK(k, sk, mv)
    /\ sk \in WithAlias(IF ov = "assign" THEN {"ptrn", "ptr", "il", "itv", "itl", "str", "obj", "objm"}
                                          ELSE {"ptr", "il", "str", "obj", "objm"})
    /\ LET v == Src(k, sk, w) IN
       OutcomeMv("AssignSeq", k, [ov |-> ov, sk |-> sk, src |-> w], Len(v) > Cap, v, mv, Self)

(* Element access.  c = 1: through a const reference to the object. *)
At(k, c, i) ==
    Obs("At", k, [c |-> c, i |-> i],
        IF i # NPOS /\ i < Len(obj[k]) THEN Ok([ch |-> obj[k][i + 1]]) ELSE Exc("out_of_range"))
Index(k, c, i) ==
    /\ i # NPOS /\ i <= Len(obj[k])          \* operator[](size()) is the terminator
    /\ Obs("Index", k, [c |-> c, i |-> i], Ok([ch |-> IF i = Len(obj[k]) THEN 0 ELSE obj[k][i + 1]]))
Front(k, c) == Len(obj[k]) > 0 /\ Obs("Front", k, [c |-> c], Ok([ch |-> obj[k][1]]))
Back(k, c)  == Len(obj[k]) > 0 /\ Obs("Back", k, [c |-> c], Ok([ch |-> obj[k][Len(obj[k])]]))
(* a character written through a non-const reference / iterator / data() *)
WritePaths == {"index", "at", "front", "back", "iter", "riter", "data"}
Write(k, path, i, ch) ==
    /\ path \in WritePaths /\ i # NPOS /\ i < Len(obj[k])
    /\ path = "front" => i = 0
    /\ path = "back" => i = Len(obj[k]) - 1
    /\ Storable(<<ch>>)
    /\ Mut("Write", k, [path |-> path, i |-> i, ch |-> ch], [obj[k] EXCEPT ![i + 1] = ch], Void)
IterKinds == {"begin", "cbegin", "rbegin", "crbegin", "cstr", "data"}
Iterate(k, kind) ==
    /\ kind \in IterKinds
    /\ Obs("Iterate", k, [kind |-> kind],
           Ok([seq |-> CASE kind \in {"begin", "cbegin"} -> obj[k]
                         [] kind \in {"rbegin", "crbegin"} -> Rev(obj[k])
                         [] OTHER -> obj[k] \o <<0>>]))      \* c_str() / data() including the terminator

(* Operations *)
Clear(k) == Mut("Clear", k, NoArg, <<>>, Void)
PushBack(k, ov, ch) ==
    /\ ov \in {"push_back", "opch"}
    /\ Outcome("PushBack", k, [ov |-> ov, ch |-> ch], FALSE, Len(obj[k]) + 1 > Cap, Append(obj[k], ch),
               IF ov = "opch" THEN Self ELSE Void)
PopBack(k) == Len(obj[k]) > 0 /\ Mut("PopBack", k, NoArg, SubSeq(obj[k], 1, Len(obj[k]) - 1), Void)
Substr(k, p, n) ==
    LET s == obj[k]  pp == Or(p, 0)  nn == Or(n, NPOS) IN
    Obs("Substr", k, [pos |-> p, n |-> n],
        IF Bad(pp, Len(s)) THEN Exc("out_of_range") ELSE Ok(StrVal(Sub(s, pp, nn))))
(* copy(dest, n, pos): dest is a caller buffer of dn cells pre-filled with fill *)
Copy(k, n, p, dn, fill) ==
    LET s == obj[k]  pp == Or(p, 0) IN
    /\ ~Bad(pp, Len(s)) => Cnt(n, Len(s) - pp) <= dn
    /\ Obs("Copy", k, [n |-> n, pos |-> p, dn |-> dn, fill |-> fill],
           IF Bad(pp, Len(s)) THEN Exc("out_of_range")
           ELSE LET sub == Sub(s, pp, n) IN Ok([cnt |-> Len(sub), dest |-> sub \o Fill(dn - Len(sub), fill)]))
Resize1(k, n) ==
    Outcome("Resize1", k, [n |-> n], FALSE, TooBig(n), ResizeSeq(obj[k], n, 0), Void)
Resize2(k, n, ch) ==
    Outcome("Resize2", k, [n |-> n, ch |-> ch], FALSE, TooBig(n), ResizeSeq(obj[k], n, ch), Void)
Swap(k, ov) ==
    \/ /\ ov \in {"member", "free"}
       /\ Do2("Swap", k, [ov |-> ov], obj[Other(k)], obj[k], Void)
    \/ /\ ov \in {"memberself", "freeself"}                      \* s.swap(s), swap(s, s): nothing changes
       /\ Mut("Swap", k, [ov |-> ov], obj[k], Void)

(* insert *)
InsertFill(k, idx, n, ch) ==
    LET s == obj[k] IN
    Outcome("InsertFill", k, [idx |-> idx, n |-> n, ch |-> ch], Bad(idx, Len(s)), Len(s) + n > Cap,
            Ins(s, idx, Fill(n, ch)), Self)
InsertSeq(k, idx, sk, w) ==
    /\ sk \in WithAlias({"ptr", "ptrn", "obj", "str"}) /\ SrcOK(k, sk, w)
    /\ LET s == obj[k]  v == Src(k, sk, w) IN
       Outcome("InsertSeq", k, [idx |-> idx, sk |-> sk, src |-> w], Bad(idx, Len(s)), Len(s) + Len(v) > Cap,
               Ins(s, idx, v), Self)
InsertSub(k, idx, sk, w, p, n) ==
    /\ sk \in WithAlias({"obj", "str"}) /\ SrcOK(k, sk, w)
    /\ LET s == obj[k]  v == Src(k, sk, w)  badp == Bad(p, Len(v)) IN
       Outcome("InsertSub", k, [idx |-> idx, sk |-> sk, src |-> w, pos |-> p, n |-> n],
               Bad(idx, Len(s)) \/ badp, ~badp /\ Len(s) + Len(Sub(v, p, Or(n, NPOS))) > Cap,
               Ins(s, idx, Sub(v, p, Or(n, NPOS))), Self)
(* iterator forms; the position may be end() *)
InsertIt(k, ov, it, n, ch) ==
    /\ ov \in {"ch", "fill"} /\ (ov = "ch" => n = 1)
    /\ it \in 0..Len(obj[k])
    /\ Outcome("InsertIt", k, [ov |-> ov, it |-> it, n |-> n, ch |-> ch], FALSE, Len(obj[k]) + n > Cap,
               Ins(obj[k], it, Fill(n, ch)), It(it))
InsertItSeq(k, it, sk, w) ==
    /\ sk \in WithAlias({"il", "itv", "itl"}) /\ SrcOK(k, sk, w)
    /\ it \in 0..Len(obj[k])
    /\ LET v == Src(k, sk, w) IN
       Outcome("InsertItSeq", k, [it |-> it, sk |-> sk, src |-> w], FALSE, Len(obj[k]) + Len(v) > Cap,
               Ins(obj[k], it, v), It(it))

(* erase *)
Erase(k, idx, n) ==
    LET s == obj[k]  ii == Or(idx, 0)  nn == Or(n, NPOS) IN
    Outcome("Erase", k, [idx |-> idx, n |-> n], Bad(ii, Len(s)), FALSE, Del(s, ii, nn), Self)
EraseIt(k, it) ==
    /\ it \in 0..(Len(obj[k]) - 1)
    /\ Mut("EraseIt", k, [it |-> it], Del(obj[k], it, 1), It(it))
EraseRange(k, f, l) ==
    /\ f \in 0..Len(obj[k]) /\ l \in f..Len(obj[k])
    /\ Mut("EraseRange", k, [f |-> f, l |-> l], Del(obj[k], f, l - f), It(f))

(* append, operator+= *)
AppendFill(k, n, ch) ==
    Outcome("AppendFill", k, [n |-> n, ch |-> ch], FALSE, Len(obj[k]) + n > Cap, obj[k] \o Fill(n, ch), Self)
AppendSeq(k, ov, sk, w) ==
    /\ ov \in {"append", "op"} /\ SrcOK(k, sk, w)
    /\ sk \in WithAlias(IF ov = "append" THEN {"obj", "str", "ptrn", "ptr", "il", "itv", "itl"} ELSE {"obj", "str", "ptr", "il"})
    /\ LET v == Src(k, sk, w) IN
       Outcome("AppendSeq", k, [ov |-> ov, sk |-> sk, src |-> w], FALSE, Len(obj[k]) + Len(v) > Cap, obj[k] \o v, Self)
AppendSub(k, sk, w, p, n) ==
    /\ sk \in WithAlias({"obj", "str"}) /\ SrcOK(k, sk, w)
    /\ LET v == Src(k, sk, w)  rng == Bad(p, Len(v)) IN
       Outcome("AppendSub", k, [sk |-> sk, src |-> w, pos |-> p, n |-> n], rng,
               ~rng /\ Len(obj[k]) + Len(Sub(v, p, Or(n, NPOS))) > Cap, obj[k] \o Sub(v, p, Or(n, NPOS)), Self)

(* compare: only the sign of the result is specified *)
Sign(x) == [sign |-> x]
Compare(k, sk, w) ==
    /\ sk \in WithAlias({"obj", "str", "ptr"}) /\ SrcOK(k, sk, w)
    /\ Obs("Compare", k, [sk |-> sk, src |-> w], Ok(Sign(Cmp(obj[k], Src(k, sk, w)))))
Compare1(k, p1, n1, sk, w) ==          \* (pos1, count1, str) / (pos1, count1, s) / (pos1, count1, s, count2)
    /\ sk \in WithAlias({"obj", "str", "ptr", "ptrn"}) /\ SrcOK(k, sk, w)
    /\ Obs("Compare1", k, [pos1 |-> p1, n1 |-> n1, sk |-> sk, src |-> w],
           IF Bad(p1, Len(obj[k])) THEN Exc("out_of_range") ELSE Ok(Sign(Cmp(Sub(obj[k], p1, n1), Src(k, sk, w)))))
Compare2(k, p1, n1, sk, w, p2, n2) ==
    /\ sk \in WithAlias({"obj", "str"}) /\ SrcOK(k, sk, w)
    /\ LET v == Src(k, sk, w) IN
       Obs("Compare2", k, [pos1 |-> p1, n1 |-> n1, sk |-> sk, src |-> w, pos2 |-> p2, n2 |-> n2],
           IF Bad(p1, Len(obj[k])) \/ Bad(p2, Len(v)) THEN Exc("out_of_range")
           ELSE Ok(Sign(Cmp(Sub(obj[k], p1, n1), Sub(v, p2, Or(n2, NPOS))))))

(* replace *)
Replace(k, p, n, sk, w) ==
    /\ sk \in WithAlias({"obj", "str", "ptrn", "ptr"}) /\ SrcOK(k, sk, w)
    /\ LET s == obj[k]  v == Src(k, sk, w)  rng == Bad(p, Len(s)) IN
       Outcome("Replace", k, [pos |-> p, n |-> n, sk |-> sk, src |-> w], rng,
               ~rng /\ Len(Repl(s, p, n, v)) > Cap, Repl(s, p, n, v), Self)
ReplaceSub(k, p, n, sk, w, p2, n2) ==
    /\ sk \in WithAlias({"obj", "str"}) /\ SrcOK(k, sk, w)
    /\ LET s == obj[k]  v == Src(k, sk, w)  rng == Bad(p, Len(s)) \/ Bad(p2, Len(v)) IN
       Outcome("ReplaceSub", k, [pos |-> p, n |-> n, sk |-> sk, src |-> w, pos2 |-> p2, n2 |-> n2], rng,
               ~rng /\ Len(Repl(s, p, n, Sub(v, p2, Or(n2, NPOS)))) > Cap, Repl(s, p, n, Sub(v, p2, Or(n2, NPOS))), Self)
ReplaceFill(k, p, n, n2, ch) ==
    LET s == obj[k]  rng == Bad(p, Len(s)) IN
    Outcome("ReplaceFill", k, [pos |-> p, n |-> n, n2 |-> n2, ch |-> ch], rng,
            ~rng /\ Len(Repl(s, p, n, Fill(n2, ch))) > Cap, Repl(s, p, n, Fill(n2, ch)), Self)
(* iterator forms; the range [f, l) may be empty *)
ReplaceIt(k, f, l, sk, w) ==
    /\ sk \in WithAlias({"obj", "str", "ptrn", "ptr", "il", "itv", "itl"}) /\ SrcOK(k, sk, w)
    /\ f \in 0..Len(obj[k]) /\ l \in f..Len(obj[k])
    /\ LET v == Src(k, sk, w) IN
       Outcome("ReplaceIt", k, [f |-> f, l |-> l, sk |-> sk, src |-> w], FALSE,
               Len(obj[k]) - (l - f) + Len(v) > Cap, Repl(obj[k], f, l - f, v), Self)
ReplaceItFill(k, f, l, n2, ch) ==
    /\ f \in 0..Len(obj[k]) /\ l \in f..Len(obj[k])
    /\ Outcome("ReplaceItFill", k, [f |-> f, l |-> l, n2 |-> n2, ch |-> ch], FALSE,
               Len(obj[k]) - (l - f) + n2 > Cap, Repl(obj[k], f, l - f, Fill(n2, ch)), Self)

(* search: six families x five overloads; p = DFLT is the call without a position *)
Find(k, fam, sk, w, p) ==
    /\ fam \in FindFams /\ sk \in WithAlias({"obj", "str", "ptrn", "ptr", "ch"}) /\ SrcOK(k, sk, w)
    /\ sk \in {"ptrn", "selfp"} => p # DFLT       \* (s, pos, count) has no default
    /\ Obs("Find", k, [fam |-> fam, sk |-> sk, src |-> w, pos |-> p],
           Ok([pos |-> FindRes(fam, obj[k], Src(k, sk, w), Or(p, FindDefault(fam)))]))

(* relational operators; "ptrL"/"strL": the fixed string is the right operand *)
Rel(k, rop, sk, w) ==
    /\ rop \in RelOps /\ sk \in {"obj", "ptr", "ptrL", "str", "strL", "self", "selfz"}
    /\ sk \in {"ptrL", "strL"} => NulFree(w)
    /\ SrcOK(k, sk, w)
    /\ LET v == Src(k, sk, w) IN
       Obs("Rel", k, [rop |-> rop, sk |-> sk, src |-> w],
           Ok([b |-> IF sk \in {"ptrL", "strL"} THEN RelRes(rop, v, obj[k]) ELSE RelRes(rop, obj[k], v)]))

(* operator+ : left operand obj[k] ("self", "selfm" = as rvalue) or a C string / character;     *)
(* right operand obj[Other(k)] ("obj", "objm") or a C string / character.  Operands unchanged,   *)
(* except that an operand passed as an rvalue is afterwards in a valid but unspecified state.    *)
ConcatCombos == {<<"self", "obj">>, <<"self", "ptr">>, <<"self", "ch">>, <<"ptr", "obj">>, <<"ch", "obj">>,
                 <<"selfm", "obj">>, <<"self", "objm">>, <<"selfm", "objm">>, <<"selfm", "ptr">>, <<"selfm", "ch">>,
                 <<"ptr", "objm">>, <<"ch", "objm">>, <<"self", "self">>}        \* the last one: s + s
Concat(k, lk, rk, v, mvk, mvo) ==
    /\ <<lk, rk>> \in ConcatCombos
    /\ NulFree(v)
    /\ (lk = "ch" \/ rk = "ch") => Len(v) = 1
    /\ (lk \in {"self", "selfm"} /\ rk \in {"obj", "objm", "self"}) => v = <<>>
    /\ lk # "selfm" => mvk = obj[k]
    /\ rk # "objm" => mvo = obj[Other(k)]
    /\ LET lv == IF lk \in {"self", "selfm"} THEN obj[k] ELSE v
           rv == IF rk \in {"obj", "objm"} THEN obj[Other(k)] ELSE IF rk = "self" THEN obj[k] ELSE v
           a  == [lk |-> lk, rk |-> rk, src |-> v]
       IN \/ Len(lv \o rv) > Cap /\ Throwing /\ Obs("Concat", k, a, Exc("length_error"))
          \/ Len(lv \o rv) <= Cap /\ MovedOK(mvk) /\ MovedOK(mvo) /\ Do2("Concat", k, a, mvk, mvo, Ok(StrVal(lv \o rv)))

(* std::basic_string interoperability and streams (NUL-free contents only: these go through C strings) *)
ToStd(k)     == NulFree(obj[k]) /\ Obs("ToStd", k, NoArg, Ok([chars |-> obj[k], size |-> Len(obj[k])]))
StreamOut(k) == NulFree(obj[k]) /\ Obs("StreamOut", k, NoArg, Ok([chars |-> obj[k], size |-> Len(obj[k])]))
WS == {9, 10, 11, 12, 13, 32}
(* operator>> : modelled for a non-empty input without white space (the whole input is the word) *)
StreamIn(k, text) ==
    /\ Len(text) > 0 /\ NulFree(text) /\ \A i \in 1..Len(text) : text[i] \notin WS
    /\ Outcome("StreamIn", k, [text |-> text], FALSE, Len(text) > Cap, text, Void)
(* getline(is, str[, delim]) : everything before the first delimiter (default '\n') *)
GetLine(k, text, delim, rv) ==
    /\ NulFree(text) /\ delim # 0
    /\ LET line == Before(text, Or(delim, 10)) IN
       Outcome("GetLine", k, [text |-> text, delim |-> delim, rv |-> rv], FALSE, Len(line) > Cap, line, Void)

----------------------------------------------------------------------------
(* Round 3 - behaviour of the component that the sentences of C01 / C02 do not name: formatted stream input and     *)
(* output in general, json conversion, fixed strings as keys of associative containers, as payloads of variant /   *)
(* any, and conversions between fixed strings of different capacity / layout / policy.  The definitions are the    *)
(* standard's for std::basic_string ([string.io], [istream::sentry], [ostream.formatted.reqmts]); a deviation of   *)
(* the code from these actions is ADVISORY (reported, never a verdict).                                            *)
IsWS(c)      == c \in WS
RECURSIVE LeadWS(_), TokLen(_)
LeadWS(v)    == IF v = <<>> \/ ~IsWS(Head(v)) THEN 0 ELSE 1 + LeadWS(Tail(v))     \* white space a sentry skips
TokLen(v)    == IF v = <<>> \/ IsWS(Head(v)) THEN 0 ELSE 1 + TokLen(Tail(v))      \* characters up to the next white space
IoRes(eof, fail, w, rest) == Ok([eof |-> eof, fail |-> fail, w |-> w, rest |-> rest])

(* is >> str.  text: what the stream still holds; w: is.width(); skip: the skipws flag; ok: is.good() before the call; *)
(* oe: the eofbit observed, which the standard leaves open in exactly one corner (the n-th character stored is also   *)
(* the last one of the input: whether the implementation looks one character ahead).                                  *)
(* Result: eofbit, failbit, width() and the number of unread characters after the call.                               *)
Extract(k, text, w, skip, ok, oe) ==
    LET a     == [text |-> text, w |-> w, skip |-> skip, ok |-> ok]
        lead  == IF skip THEN LeadWS(text) ELSE 0
        rest0 == SubSeq(text, lead + 1, Len(text))
        tl    == TokLen(rest0)
        n     == IF w > 0 /\ w < tl THEN w ELSE tl
        word  == SubSeq(rest0, 1, n)
        atend == n = Len(rest0)
        lim   == w > 0 /\ n = w                       \* stopped because width() characters were stored
    IN
    \/ ~ok /\ Obs("Extract", k, a, IoRes(FALSE, TRUE, w, Len(text)))                        \* sentry fails: nothing happens
    \/ ok /\ skip /\ rest0 = <<>> /\ Obs("Extract", k, a, IoRes(TRUE, TRUE, w, 0))          \* sentry meets the end: str unchanged
    \/ ok /\ ~(skip /\ rest0 = <<>>) /\ n = 0                                               \* str.erase(), nothing extracted
          /\ Mut("Extract", k, a, <<>>, IoRes(rest0 = <<>>, TRUE, 0, Len(rest0)))
    \/ ok /\ n > 0 /\ n <= Cap /\ Storable(word) /\ (oe = atend \/ (atend /\ lim))
          /\ Mut("Extract", k, a, word, IoRes(oe, FALSE, 0, Len(rest0) - n))
    (* a word longer than N: C02 reads "an operation whose result would be longer than N" (length_error, nothing     *)
    (* changed); [string.io] reads "n = str.max_size()" characters are extracted.  Both are conforming answers.        *)
    \/ ok /\ n > Cap /\ Throwing /\ Obs("Extract", k, a, Exc("length_error"))
    \/ ok /\ n > Cap /\ Storable(SubSeq(rest0, 1, Cap))
          /\ Mut("Extract", k, a, SubSeq(rest0, 1, Cap), IoRes(FALSE, Cap = 0, 0, Len(rest0) - Cap))

(* getline(is, str, delim) with the state of the stream: characters up to the delimiter (extracted, not stored) *)
GetLineX(k, text, delim, ok) ==
    LET a     == [text |-> text, delim |-> delim, ok |-> ok]
        d     == Or(delim, 10)
        line  == Before(text, d)
        found == Has(text, d)
    IN
    \/ ~ok /\ Obs("GetLineX", k, a, IoRes(FALSE, TRUE, 0, Len(text)))
    \/ ok /\ Len(line) <= Cap /\ Storable(line)
          /\ Mut("GetLineX", k, a, line, IoRes(~found, text = <<>>, 0, IF found THEN Len(text) - Len(line) - 1 ELSE 0))
    \/ ok /\ Len(line) > Cap /\ Throwing /\ Obs("GetLineX", k, a, Exc("length_error"))
    \/ ok /\ Len(line) > Cap /\ Storable(SubSeq(text, 1, Cap))                 \* max_size() characters stored: failbit
          /\ Mut("GetLineX", k, a, SubSeq(text, 1, Cap), IoRes(FALSE, TRUE, 0, Len(text) - Cap))

(* os << str with os.width(w), os.fill(fc), adjustfield adj: padded to the width, width() reset to 0 *)
Adjusts == {"none", "left", "right", "internal"}
Put(k, w, fc, adj) ==
    LET s   == obj[k]
        pad == IF w > Len(s) THEN w - Len(s) ELSE 0
        out == IF adj = "left" THEN s \o Fill(pad, fc) ELSE Fill(pad, fc) \o s
    IN /\ adj \in Adjusts
       /\ Obs("Put", k, [w |-> w, fill |-> fc, adj |-> adj], Ok([chars |-> out, size |-> Len(out), w |-> 0]))

(* xjson.hpp: to_json gives a json string with the characters; from_json assigns them *)
JsonOut(k)        == NulFree(obj[k]) /\ Obs("JsonOut", k, NoArg, Ok([chars |-> obj[k], size |-> Len(obj[k]), str |-> TRUE]))
JsonIn(k, text)   == NulFree(text) /\ Outcome("JsonIn", k, [text |-> text], FALSE, Len(text) > Cap, text, Void)

(* both objects as keys: std::map (operator<) and std::unordered_map (std::hash + operator==).  m[A] = 1; m[B] = 2.  *)
(* heq: hash(A) = hash(B) as observed; equal strings must have equal hashes, different ones may.                      *)
MapKey(k, heq) ==
    LET same == obj[k] = obj[Other(k)] IN
    /\ same => heq
    /\ Obs("MapKey", k, NoArg, Ok([msz |-> IF same THEN 1 ELSE 2, mval |-> IF same THEN 2 ELSE 1,
                                   usz |-> IF same THEN 1 ELSE 2, uval |-> IF same THEN 2 ELSE 1,
                                   first |-> IF Cmp(obj[k], obj[Other(k)]) <= 0 THEN 1 ELSE 2,    \* which key a std::map lists first
                                   heq |-> heq]))

(* the object as payload of xtl::variant<int, fs> / xtl::any: copies, moves and re-emplacement keep the contents *)
PayloadKinds == {"variant_copy", "variant_move", "variant_assign", "variant_emplace", "any_copy", "any_move", "any_assign"}
Payload(k, kind) == kind \in PayloadKinds /\ Obs("Payload", k, [kind |-> kind], Ok(StrVal(obj[k])))

(* another fixed-string type (dst: "big" 2N+7 characters, silent policy; "strlen" the strlen-sized layout; "field" a    *)
(* capacity with a separate length field) built from this object, by route "z" c_str(), "pn" (data(), size()), "it"     *)
(* (begin(), end()), "str" the conversion to std::basic_string; and this object assigned from such a string.            *)
CrossDsts   == {"big", "strlen", "field"}
CrossRoutes == {"z", "pn", "it", "str"}
CrossTo(k, dst, route) ==
    /\ dst \in CrossDsts /\ route \in CrossRoutes
    /\ (dst = "strlen" \/ route \in {"z", "str"}) => NulFree(obj[k])
    /\ Obs("CrossTo", k, [dst |-> dst, route |-> route], Ok(StrVal(obj[k])))
CrossFrom(k, dst, route, v) ==
    /\ dst \in CrossDsts /\ route \in CrossRoutes
    /\ (dst = "strlen" \/ route \in {"z", "str"}) => NulFree(v)
    /\ Outcome("CrossFrom", k, [dst |-> dst, route |-> route, src |-> v], FALSE, Len(v) > Cap, v, Self)

ExtOps == {"Extract", "GetLineX", "Put", "JsonOut", "JsonIn", "MapKey", "Payload", "CrossTo", "CrossFrom"}
ExtObservers == {"Put", "JsonOut", "MapKey", "Payload", "CrossTo"}
(* inputs for the model checker: 1, 2 are characters; 32, 9, 10 white space *)
ExtTexts == {<<>>, <<32>>, <<1>>, <<1, 2>>, <<32, 1, 2>>, <<1, 32, 2>>, <<1, 2, 1, 2>>, <<32, 9, 1, 2, 1, 2, 32>>, <<1, 10, 2>>, <<10>>,
             <<1, 2, 1, 2, 1>>, <<2, 2, 10, 1>>}

----------------------------------------------------------------------------
(* Bounded argument domains for the model checker *)
Strs(n)  == UNION {[1..m -> Chars] : m \in 0..n}
Nats     == {p \in PosDom : p >= 0}
PosD     == PosDom \cup {DFLT}
NFLits   == {v \in Lits : NulFree(v)}
OneCh    == {<<c>> : c \in Chars}
Its(k)   == 0..Len(obj[k])
Ranges(k) == {<<f, l>> \in Its(k) \X Its(k) : f <= l}
O(k)     == obj[Other(k)]
Lit(sk)  == IF sk \in {"ptr", "str", "ptrL", "strL"} THEN NFLits ELSE Lits
(* sources for a set of kinds: the other object for obj kinds, every literal for the others *)
Srcs(k, kinds) == {<<sk, v>> \in kinds \X (Lits \cup {O(k)}) :
                      IF sk \in ObjKinds THEN v = O(k) ELSE v \in Lit(sk)}

(* aliasing sources of object k: <<kind, descriptor>> for every part of its current value *)
ASrcs(k, kinds) ==
    LET n == Len(obj[k]) IN
      (IF "self" \in kinds THEN {<<"self", <<>>>>} ELSE {})
      \cup UNION {{<<sk, <<off, cnt>>>> : cnt \in 0..(n - off)} : sk \in kinds \cap ({"selfp"} \cup SelfItKinds), off \in 0..n}
      \cup {<<"selfz", <<off>>>> : off \in (IF "selfz" \in kinds THEN 0..n ELSE {})}

(* the object the model checker does not operate on starts with one of the values OtherInit *)
InitOther == IF OtherInit = {} THEN {<<>>} ELSE OtherInit
Init ==
    /\ cf \in [n : Caps, policy : Policies, layout : Layouts]
    /\ \E v \in InitOther : obj = <<<<>>, v>> /\ pre = [obj |-> <<<<>>, v>>]
    /\ last = [op |-> "Init", k |-> 0, a |-> NoArg, res |-> Void]
(* ... and is not explored beyond those values (swap and rvalue operands would otherwise spread it) *)
OtherBound == \A k \in {1, 2} \ Targets : obj[k] \in InitOther

C(c) == c \in Classes
NextT(k) ==
    \/ C("ctor") /\ CtorDefault(k)
    \/ C("ctor") /\ \E n \in Nats, ch \in Chars : CtorFill(k, n, ch)
    \/ C("ctor") /\ \E x \in Srcs(k, {"str"}), p \in PosDom, n \in PosD : CtorSub(k, x[1], x[2], p, n)
    \/ C("pair") /\ \E p \in PosDom, n \in PosD : CtorSub(k, "obj", O(k), p, n) \/ AssignSub(k, "obj", O(k), p, n) \/ AppendSub(k, "obj", O(k), p, n)
    \/ C("ctor") /\ \E x \in Srcs(k, {"ptrn", "ptr", "il", "itv", "itl", "str"}) : CtorSeq(k, x[1], x[2], O(k))
    \/ C("pair") /\ \E sk \in ObjKinds : CtorSeq(k, sk, O(k), O(k)) \/ (\E ov \in {"assign", "op"} : AssignSeq(k, ov, sk, O(k), O(k)))
    \/ C("assign") /\ \E ov \in {"assign", "opch"}, n \in Nats, ch \in Chars : AssignFill(k, ov, n, ch)
    \/ C("assign") /\ \E x \in Srcs(k, {"str"}), p \in PosDom, n \in PosD : AssignSub(k, x[1], x[2], p, n) \/ AppendSub(k, x[1], x[2], p, n)
    \/ C("assign") /\ \E ov \in {"assign", "op"}, x \in Srcs(k, {"ptrn", "ptr", "il", "itv", "itl", "str"}) : AssignSeq(k, ov, x[1], x[2], O(k))
    \/ C("access") /\ \E c \in {0, 1} : Front(k, c) \/ Back(k, c) \/ (\E i \in PosDom : At(k, c, i) \/ Index(k, c, i))
    \/ C("access") /\ \E path \in WritePaths, i \in Nats, ch \in Chars : Write(k, path, i, ch)
    \/ C("access") /\ \E kind \in IterKinds : Iterate(k, kind)
    \/ C("size") /\ (Clear(k) \/ PopBack(k) \/ \E ov \in {"push_back", "opch"}, ch \in Chars : PushBack(k, ov, ch))
    \/ C("size") /\ \E n \in PosDom : Resize1(k, n) \/ (\E ch \in Chars : Resize2(k, n, ch))
    \/ C("pair") /\ \E ov \in {"member", "free"} : Swap(k, ov)
    \/ C("sub") /\ \E p \in PosD, n \in PosD : Substr(k, p, n) \/ Erase(k, p, n)
    \/ C("sub") /\ \E p \in PosD, n \in PosDom :
           LET pp == Or(p, 0)  dn == IF Bad(pp, Len(obj[k])) THEN 0 ELSE Cnt(n, Len(obj[k]) - pp) IN
           \E extra \in {0, 1} : Copy(k, n, p, dn + extra, 126)
    \/ C("insert") /\ \E idx \in PosDom, n \in Nats, ch \in Chars : InsertFill(k, idx, n, ch)
    \/ C("insert") /\ \E idx \in PosDom, x \in Srcs(k, {"ptr", "ptrn", "str"}) : InsertSeq(k, idx, x[1], x[2])
    \/ C("pair") /\ \E idx \in PosDom : InsertSeq(k, idx, "obj", O(k))
    \/ C("insert") /\ \E idx \in PosDom, x \in Srcs(k, {"str"}), q \in SubDom : InsertSub(k, idx, x[1], x[2], q[1], q[2])
    \/ C("pair") /\ \E idx \in PosDom, q \in SubDom : InsertSub(k, idx, "obj", O(k), q[1], q[2])
    \/ C("insert") /\ \E it \in Its(k), ch \in Chars : InsertIt(k, "ch", it, 1, ch) \/ (\E n \in Nats : InsertIt(k, "fill", it, n, ch))
    \/ C("insert") /\ \E it \in Its(k), x \in Srcs(k, {"il", "itv", "itl"}) : InsertItSeq(k, it, x[1], x[2])
    \/ C("erase") /\ ((\E it \in Its(k) : EraseIt(k, it)) \/ (\E r \in Ranges(k) : EraseRange(k, r[1], r[2])))
    \/ C("append") /\ \E n \in Nats, ch \in Chars : AppendFill(k, n, ch)
    \/ C("append") /\ \E ov \in {"append", "op"}, x \in Srcs(k, {"str", "ptrn", "ptr", "il", "itv", "itl"}) : AppendSeq(k, ov, x[1], x[2])
    \/ C("pair") /\ \E ov \in {"append", "op"} : AppendSeq(k, ov, "obj", O(k))
    \/ C("compare") /\ \E x \in Srcs(k, {"str", "ptr"}) : Compare(k, x[1], x[2])
    \/ C("pair") /\ Compare(k, "obj", O(k))
    \/ C("compare") /\ \E p \in PosDom, n \in PosDom, x \in Srcs(k, {"str", "ptr", "ptrn"}) : Compare1(k, p, n, x[1], x[2])
    \/ C("pair") /\ \E p \in PosDom, n \in PosDom : Compare1(k, p, n, "obj", O(k))
    \/ C("compare") /\ \E p \in PosDom, n \in PosDom, x \in Srcs(k, {"str"}), q \in SubDom : Compare2(k, p, n, x[1], x[2], q[1], q[2])
    \/ C("pair") /\ \E p \in PosDom, n \in PosDom, q \in SubDom : Compare2(k, p, n, "obj", O(k), q[1], q[2])
    \/ C("replace") /\ \E p \in PosDom, n \in PosDom, x \in Srcs(k, {"str", "ptrn", "ptr"}) : Replace(k, p, n, x[1], x[2])
    \/ C("pair") /\ \E p \in PosDom, n \in PosDom : Replace(k, p, n, "obj", O(k))
    \/ C("replace") /\ \E p \in PosDom, n \in PosDom, x \in Srcs(k, {"str"}), q \in SubDom : ReplaceSub(k, p, n, x[1], x[2], q[1], q[2])
    \/ C("pair") /\ \E p \in PosDom, n \in PosDom, q \in SubDom : ReplaceSub(k, p, n, "obj", O(k), q[1], q[2])
    \/ C("replace") /\ \E p \in PosDom, n \in PosDom, n2 \in Nats, ch \in Chars : ReplaceFill(k, p, n, n2, ch)
    \/ C("replace") /\ \E r \in Ranges(k), x \in Srcs(k, {"str", "ptrn", "ptr", "il", "itv", "itl"}) : ReplaceIt(k, r[1], r[2], x[1], x[2])
    \/ C("pair") /\ \E r \in Ranges(k) : ReplaceIt(k, r[1], r[2], "obj", O(k))
    \/ C("replace") /\ \E r \in Ranges(k), n2 \in Nats, ch \in Chars : ReplaceItFill(k, r[1], r[2], n2, ch)
    \/ C("find") /\ \E fam \in FindFams, p \in PosD :
           \/ \E x \in Srcs(k, {"str", "ptrn", "ptr"}) : Find(k, fam, x[1], x[2], p)
           \/ \E v \in OneCh : Find(k, fam, "ch", v, p)
    \/ C("pair") /\ \E fam \in FindFams, p \in PosD : Find(k, fam, "obj", O(k), p)
    \/ C("rel") /\ \E rop \in RelOps, sk \in {"ptr", "ptrL", "str", "strL"}, v \in NFLits : Rel(k, rop, sk, v)
    \/ C("pair") /\ \E rop \in RelOps : Rel(k, rop, "obj", O(k))
    \/ C("pair") /\ \E cc \in ConcatCombos : cc[1] \in {"self", "selfm"} /\ cc[2] \in {"obj", "objm"} /\ Concat(k, cc[1], cc[2], <<>>, obj[k], O(k))
    \/ C("concat") /\ \E cc \in ConcatCombos, v \in NFLits : Concat(k, cc[1], cc[2], v, obj[k], O(k))
    \/ C("io") /\ (ToStd(k) \/ StreamOut(k))
    \/ C("io") /\ \E v \in NFLits : StreamIn(k, v) \/ (\E d \in {DFLT, 2}, rv \in {0, 1} : GetLine(k, v, d, rv))
    \/ C("overlay") /\ \E cells \in [1..(Cap + 1) -> Chars] : Overlay(k, cells)
    \/ C("alias") /\ \E p \in PosDom, n \in PosD : AssignSub(k, "self", <<>>, p, n) \/ AppendSub(k, "self", <<>>, p, n)
    \/ C("alias") /\ \E ov \in {"assign", "op"}, x \in ASrcs(k, AliasKinds) : AssignSeq(k, ov, x[1], x[2], O(k)) \/ AppendSeq(k, ov, x[1], x[2])
    \/ C("alias") /\ \E idx \in PosDom, x \in ASrcs(k, {"self", "selfp", "selfz"}) : InsertSeq(k, idx, x[1], x[2])
    \/ C("alias") /\ \E idx \in PosDom, q \in SubDom : InsertSub(k, idx, "self", <<>>, q[1], q[2])
    \/ C("alias") /\ \E it \in Its(k), x \in ASrcs(k, SelfItKinds) : InsertItSeq(k, it, x[1], x[2])
    \/ C("iter") /\ \E x \in Srcs(k, {"itp", "itpm", "its"}) : CtorSeq(k, x[1], x[2], O(k)) \/ AssignSeq(k, "assign", x[1], x[2], O(k)) \/ AppendSeq(k, "append", x[1], x[2])
    \/ C("iter") /\ \E it \in Its(k), x \in Srcs(k, {"itp", "itpm", "its"}) : InsertItSeq(k, it, x[1], x[2])
    \/ C("iter") /\ \E r \in Ranges(k), x \in Srcs(k, {"itp", "itpm", "its"}) : ReplaceIt(k, r[1], r[2], x[1], x[2])
    \/ C("alias") /\ \E x \in ASrcs(k, {"self", "selfz"}) : Compare(k, x[1], x[2]) \/ (\E rop \in RelOps : Rel(k, rop, x[1], x[2]))
    \/ C("alias") /\ \E p \in PosDom, n \in PosDom, x \in ASrcs(k, {"self", "selfp", "selfz"}) : Compare1(k, p, n, x[1], x[2]) \/ Replace(k, p, n, x[1], x[2])
    \/ C("alias") /\ \E p \in PosDom, n \in PosDom, q \in SubDom : Compare2(k, p, n, "self", <<>>, q[1], q[2]) \/ ReplaceSub(k, p, n, "self", <<>>, q[1], q[2])
    \/ C("alias") /\ \E r \in Ranges(k), x \in ASrcs(k, AliasKinds) : ReplaceIt(k, r[1], r[2], x[1], x[2])
    \/ C("alias") /\ \E fam \in FindFams, p \in PosD, x \in ASrcs(k, {"self", "selfp", "selfz"}) : Find(k, fam, x[1], x[2], p)
    \/ C("alias") /\ (Concat(k, "self", "self", <<>>, obj[k], O(k)) \/ \E ov \in {"memberself", "freeself"} : Swap(k, ov))
    \/ C("ext") /\ \E text \in ExtTexts, w \in {0, 1, 2, Cap, Cap + 1}, skip \in BOOLEAN, ok \in BOOLEAN, oe \in BOOLEAN : Extract(k, text, w, skip, ok, oe)
    \/ C("ext") /\ \E text \in ExtTexts, d \in {DFLT, 2}, ok \in BOOLEAN : GetLineX(k, text, d, ok)
    \/ C("ext") /\ \E w \in {0, 1, Cap, Cap + 2}, adj \in Adjusts : Put(k, w, 42, adj)
    \/ C("ext") /\ (JsonOut(k) \/ \E text \in ExtTexts : JsonIn(k, text))
    \/ C("ext") /\ \E heq \in BOOLEAN : MapKey(k, heq)
    \/ C("ext") /\ \E kind \in PayloadKinds : Payload(k, kind)
    \/ C("ext") /\ \E dst \in CrossDsts, route \in CrossRoutes : CrossTo(k, dst, route) \/ (\E v \in Lits : CrossFrom(k, dst, route, v))
    \/ C("nav") /\ \E v \in Strs(Cap) : Storable(v) /\ Mut("Nav", k, NoArg, v, Void)   \* not a call: lets the model checker
                                                                                    \* reach every value (never emitted)

Next == \E k \in Targets : NextT(k)
Spec == Init /\ [][Next]_vars

(* S->C enumeration: with VIEW absvars every abstract state is expanded once.  This action      *)
(* constraint writes each transition (pre-state, call, expected result and expected projection) *)
(* as one JSON line on TLC's output; replay scripts are built from these lines.                 *)
Emit == (last'.op \in EmitOps) =>
            PrintT("@E@" \o ToJson([c |-> cf, p |-> pre'.obj, l |-> last', q |-> ProjAll']))

----------------------------------------------------------------------------
(* Invariants and theorems of the specification itself (they guard the oracle). *)
TypeOK ==
    /\ cf.n \in Caps /\ cf.policy \in Policies /\ cf.layout \in Layouts
    /\ \A k \in {1, 2} : Len(obj[k]) <= Cap /\ Storable(obj[k])
    /\ last.res.exc \in {"none", "out_of_range", "length_error"}

FailedChangesNothing == [][last'.res.exc # "none" => obj' = obj]_vars
ObserverOps == {"At", "Index", "Front", "Back", "Iterate", "Substr", "Copy", "Compare", "Compare1", "Compare2",
                "Find", "Rel", "ToStd", "StreamOut"} \cup ExtObservers
ObserversPure == [][last'.op \in ObserverOps => obj' = obj]_vars
ReturnedIteratorInRange == [][(last'.res.exc = "none" /\ last'.op \in {"InsertIt", "InsertItSeq", "EraseIt", "EraseRange"})
                                 => last'.res.val.it \in 0..Len(obj'[last'.k])]_vars
SilentNeverLengthError == [][cf.policy = "silent" => last'.res.exc # "length_error"]_vars

(* an independent, scanning definition of the search functions (how a reference implementation  *)
(* would loop); the set-based definitions above must agree with it                               *)
RECURSIVE ScanUp(_, _, _), ScanDown(_, _)
ScanUp(G, x, hi) == IF x > hi THEN NPOS ELSE IF x \in G THEN x ELSE ScanUp(G, x + 1, hi)
ScanDown(G, x)   == IF x < 0 THEN NPOS ELSE IF x \in G THEN x ELSE ScanDown(G, x - 1)
RefFind(fam, s, v, p) ==
    LET n == Len(s)
        start == IF p = NPOS THEN n + 1 ELSE p
        M     == {x \in 0..n : MatchAt(s, v, x)}
        In    == {x \in 0..(n - 1) : Has(v, s[x + 1])}
        NotIn == {x \in 0..(n - 1) : ~Has(v, s[x + 1])}
    IN CASE fam = "find"  -> ScanUp(M, start, n)
         [] fam = "ffo"   -> ScanUp(In, start, n - 1)
         [] fam = "ffno"  -> ScanUp(NotIn, start, n - 1)
         [] fam = "rfind" -> ScanDown(M, Min(start, n))
         [] fam = "flo"   -> ScanDown(In, Min(start, n - 1))
         [] fam = "flno"  -> ScanDown(NotIn, Min(start, n - 1))

(* laws of the round-3 actions: on the inputs the older actions cover they say the same *)
ExtLaws == \A text \in ExtTexts :
    /\ LeadWS(text) + TokLen(SubSeq(text, LeadWS(text) + 1, Len(text))) <= Len(text)
    /\ (text # <<>> /\ \A i \in 1..Len(text) : ~IsWS(text[i])) => (LeadWS(text) = 0 /\ TokLen(text) = Len(text))    \* StreamIn's domain
    /\ TokLen(text) = Len(text) \/ IsWS(text[TokLen(text) + 1])
    /\ \A i \in 1..TokLen(text) : ~IsWS(text[i])
ExtStep == [][last'.op \in ExtOps /\ last'.res.exc = "none" =>
                 /\ last'.op \in {"Extract", "GetLineX"} =>
                        /\ last'.res.val.rest \in 0..Len(last'.a.text)
                        /\ (last'.res.val.fail /\ last'.a.ok /\ last'.op = "Extract") => (obj'[last'.k] = <<>> \/ obj'[last'.k] = obj[last'.k])
                        /\ ~last'.a.ok => obj' = obj
                 /\ last'.op = "Put" => (last'.res.val.size >= last'.a.w /\ last'.res.val.size >= Len(obj[last'.k]))
                 /\ last'.op \in {"Payload", "CrossTo", "JsonOut"} => last'.res.val.chars = obj[last'.k]]_vars

LawSrcs == Lits \cup {obj[2]}
Laws == LET s == obj[1] IN
    /\ \A v \in LawSrcs :
        /\ Cmp(s, v) = 0 - Cmp(v, s) /\ (Cmp(s, v) = 0 <=> s = v)
        /\ \A i \in 0..Len(s) :
            /\ Del(Ins(s, i, v), i, Len(v)) = s
            /\ \A n \in PosDom : n >= 0 \/ n = NPOS => Repl(s, i, n, v) = Ins(Del(s, i, n), i, v)
            /\ Sub(Ins(s, i, v), i, Len(v)) = v
        /\ \A fam \in FindFams, p \in PosDom : FindRes(fam, s, v, p) = RefFind(fam, s, v, p)
        (* searching backwards is searching forwards in the mirrored strings *)
        /\ LET r == RFindSeq(s, v, NPOS)  f == FindSeq(Rev(s), Rev(v), 0) IN
              (r = NPOS <=> f = NPOS) /\ (r # NPOS => r = Len(s) - Len(v) - f)
        /\ LET r == LastOf(s, v, NPOS)  f == FirstOf(Rev(s), v, 0) IN
              (r = NPOS <=> f = NPOS) /\ (r # NPOS => r = Len(s) - 1 - f)
    /\ Cmp(s, s) = 0 /\ Rev(Rev(s)) = s
    /\ Sub(s, 0, NPOS) = s /\ Del(s, 0, NPOS) = <<>> /\ Sub(s, Len(s), NPOS) = <<>>
=============================================================================

----------------------------- MODULE AnyTypes -----------------------------
(***************************************************************************)
(* C06, compile-time part: which any_cast calls exist and what they return,*)
(* which operations are noexcept, and the type relations the property      *)
(* rests on ("any_cast ... returning the stored object, and otherwise      *)
(* yields nullptr or throws bad_any_cast", "a moved-from any stays valid", *)
(* swap/reset/observers never throw).  Written from [any.nonmembers] /      *)
(* [any.class] in the two published forms of the specification (Library    *)
(* Fundamentals TS N4562 and C++17), not from xtl's header.                *)
(*                                                                         *)
(* A type is a term over one symbolic stored type U:                       *)
(*    [c |-> const?, ref |-> "none" | "lref" | "rref" | "ptr"]             *)
(* ("ptr": pointer to (const) U).  TLC enumerates the rows; each row is    *)
(* written as JSON and the runner turns it into static_asserts and calls   *)
(* that are compiled against xtl/xany.hpp for several concrete U.          *)
(*    must  - both specifications make the call well-formed: it has to     *)
(*            compile and to return exactly the stated type;               *)
(*    open  - the two specifications differ: the runner probes whether     *)
(*            the call compiles and, if so, exercises it at run time;      *)
(*    ill   - ill-formed in both: nothing is demanded.                     *)
(***************************************************************************)
EXTENDS Naturals, Sequences, FiniteSets, TLC, Json

Operands == {"any&", "const any&", "any&&", "any*", "const any*"}
RefOperands == {"any&", "const any&", "any&&"}
Targets  == {[c |-> c, ref |-> r] : c \in BOOLEAN, r \in {"none", "lref", "rref"}}     \* ValueType: U, const U, U&, const U&, U&&, const U&&
OpConst(o) == o \in {"const any&", "const any*"}

(* N4562 [any.nonmembers]: the reference overloads return  *any_cast<X>(&operand)  where X is                 *)
(* add_const_t<remove_reference_t<ValueType>> for a const any and remove_reference_t<ValueType> otherwise:    *)
(* an LVALUE of type (const) U initialises the result.                                                        *)
N4562OK(o, t) ==
    LET srcConst == OpConst(o) \/ t.c IN          \* the lvalue the result is initialised from is const
    CASE t.ref = "none" -> TRUE                     \* a copy of a (const) lvalue
      [] t.ref = "lref" -> t.c \/ ~srcConst         \* a non-const reference needs a non-const lvalue
      [] t.ref = "rref" -> FALSE                    \* an rvalue reference does not bind to an lvalue

(* C++17 [any.nonmembers]: requires is_constructible_v<ValueType, S> where S is  const U&  for a const any,    *)
(* U&  for an lvalue any,  U  (an rvalue) for an rvalue any; the result is static_cast<ValueType>(...).        *)
Cpp17OK(o, t) ==
    CASE o = "const any&" -> t.ref = "none" \/ (t.ref = "lref" /\ t.c)
      [] o = "any&"       -> t.ref = "none" \/ t.ref = "lref"
      [] o = "any&&"      -> t.ref = "none" \/ t.ref = "rref" \/ (t.ref = "lref" /\ t.c)

Status(o, t) == IF N4562OK(o, t) /\ Cpp17OK(o, t) THEN "must"
                ELSE IF N4562OK(o, t) \/ Cpp17OK(o, t) THEN "open" ELSE "ill"

CastRows ==
       {[kind |-> "cast", operand |-> o, target |-> t, status |-> Status(o, t), ret |-> t, nothrow |-> FALSE]
            : o \in RefOperands, t \in Targets}
  \cup {[kind |-> "cast", operand |-> o, target |-> [c |-> c, ref |-> "none"], status |-> "must",
         ret |-> [c |-> c \/ OpConst(o), ref |-> "ptr"], nothrow |-> TRUE]
            : o \in {"any*", "const any*"}, c \in BOOLEAN}

NoexceptOps == {"move_ctor", "move_assign", "swap", "std_swap", "reset", "clear", "has_value", "empty", "type"}
Traits == {"bad_any_cast_is_a_bad_cast", "copy_constructible", "copy_assignable", "move_constructible",
           "constructible_from_value", "constructible_from_array", "constructible_from_function", "assignable_from_value",
           (* [any.cons]/[any.assign]: the converting constructor / assignment do not participate when decay_t<ValueType> is any, so an
              any source of EVERY value category (any&, const any&, any&&, const any&&) goes to the copy or move members; in
              particular a const rvalue any is copied (run time: CopyConstruct / CopyAssign with nc = 2) *)
           "copy_from_const_rvalue"}
NoTerm == [c |-> FALSE, ref |-> "none"]
OtherRows ==
       {[kind |-> "noexcept", operand |-> w, target |-> NoTerm, status |-> "must", ret |-> NoTerm, nothrow |-> TRUE] : w \in NoexceptOps}
  \cup {[kind |-> "trait", operand |-> w, target |-> NoTerm, status |-> "must", ret |-> NoTerm, nothrow |-> FALSE] : w \in Traits}

Rows == CastRows \cup OtherRows

VARIABLE row
Init == row \in Rows
Next == UNCHANGED row
Spec == Init /\ [][Next]_row

EmitRows == PrintT("@R@" \o ToJson(row))

----------------------------------------------------------------------------
(* Theorems about the table itself (they guard the oracle) *)
RefRow(o, t) == CHOOSE r \in CastRows : r.operand = o /\ r.target = t
TypeOK == row.status \in {"must", "open", "ill"} /\ row.kind \in {"cast", "noexcept", "trait"}
(* the stored object can always be read: by value and by reference to const, from every kind of operand *)
AlwaysReadable == \A o \in RefOperands :
    /\ RefRow(o, [c |-> FALSE, ref |-> "none"]).status = "must"
    /\ RefRow(o, [c |-> TRUE, ref |-> "lref"]).status = "must"
(* a const any never hands out a way to modify the stored object *)
ConstCorrect ==
    (row.kind = "cast" /\ OpConst(row.operand) /\ row.status # "ill") =>
        (row.ret.ref = "none" \/ row.ret.c)
(* the pointer overloads never throw and point to exactly (const) U *)
PointerRows == (row.kind = "cast" /\ row.operand \in {"any*", "const any*"}) =>
                   row.nothrow /\ row.ret.ref = "ptr" /\ row.status = "must" /\ (row.ret.c = (row.target.c \/ OpConst(row.operand)))
(* a reference overload returns exactly the type that was asked for *)
ReturnsValueType == (row.kind = "cast" /\ row.operand \in RefOperands) => row.ret = row.target
(* what is demanded is accepted by both specifications *)
MustIsCommon == (row.kind = "cast" /\ row.operand \in RefOperands) =>
                   ((row.status = "must") = (N4562OK(row.operand, row.target) /\ Cpp17OK(row.operand, row.target)))
=============================================================================

------------------------------ MODULE SpanImpl ------------------------------
(***************************************************************************)
(* L2 for C16: the precondition checks and the pointer/size arithmetic of   *)
(* the run-time sub-view functions, transcribed from xspan_impl.hpp with    *)
(* index_type arithmetic made explicit as arithmetic modulo 2^W.  TLC       *)
(* evaluates, for EVERY size and EVERY argument value of a W-bit word, that *)
(* the transcription accepts exactly the calls the L1 contract (Span.tla,   *)
(* stated on mathematical integers) accepts, and that an accepted call      *)
(* yields exactly L1's window, which lies inside the parent.                *)
(* Advisory (MODEL-DRIFT) only: verdicts come from Span.tla.                *)
(***************************************************************************)
EXTENDS Integers, TLC

CONSTANT W                       \* bits of index_type in this model (the code has 64)
M    == 2 ^ W
MAXW == M - 1                    \* SIZE_MAX; static_cast<index_type>(dynamic_extent)
Word == 0..MAXW
Add(x, y) == (x + y) % M         \* unsigned + wraps
Sub(x, y) == (x - y + M) % M     \* unsigned - wraps

VARIABLES size, o, c, fn         \* one state = one call fn(o, c) on a span of `size` elements
vars == <<size, o, c, fn>>

Fns == {"first", "last", "subspan", "index", "at"}
Init == size \in 0..(MAXW - 1) /\ o \in Word /\ c \in Word /\ fn \in Fns
Next == UNCHANGED vars
Spec == Init /\ [][Next]_vars

(* ---- transcription of the code: TCB_SPAN_EXPECT conditions and the returned {pointer offset, size} *)
ImplOK ==
    CASE fn = "first"   -> c <= size                                             \* count >= 0 && count <= size()
      [] fn = "last"    -> c <= size
      [] fn = "subspan" -> o <= size /\ (c = MAXW \/ c <= Sub(size, o))          \* xspan_impl.hpp subspan(offset, count)
      [] fn = "index"   -> o < size                                              \* idx >= 0 && idx < size()
      [] fn = "at"      -> ~(o >= size)                                          \* throws iff idx < 0 || idx >= size()
ImplView ==
    CASE fn = "first"   -> [off |-> 0, len |-> c]                                \* {data(), count}
      [] fn = "last"    -> [off |-> Sub(size, c), len |-> c]                     \* {data() + (size() - count), count}
      [] fn = "subspan" -> [off |-> o, len |-> IF c = MAXW THEN Sub(size, o) ELSE c]
      [] OTHER          -> [off |-> o, len |-> 1]                                \* *(data() + idx)
(* the check as it stood before the repair (proposed_fixes/C16-01): the sum wraps *)
OldSubspanOK == o <= size /\ (c = MAXW \/ Add(o, c) <= size)

(* ---- L1 contract on mathematical integers (Span.tla: ArgLeq / SubOK / ArgLt) *)
SpecOK ==
    CASE fn = "first"   -> c <= size
      [] fn = "last"    -> c <= size
      [] fn = "subspan" -> o <= size /\ (c = MAXW \/ o + c <= size)
      [] OTHER          -> o < size
SpecView ==
    CASE fn = "first"   -> [off |-> 0, len |-> c]
      [] fn = "last"    -> [off |-> size - c, len |-> c]
      [] fn = "subspan" -> [off |-> o, len |-> IF c = MAXW THEN size - o ELSE c]
      [] OTHER          -> [off |-> o, len |-> 1]

Refines == /\ ImplOK <=> SpecOK
           /\ ImplOK => ImplView = SpecView /\ ImplView.off + ImplView.len <= size
(* used by SpanImpl_old.cfg to show that the unrepaired check does NOT refine L1 *)
OldRefines == fn = "subspan" => (OldSubspanOK <=> SpecOK)
=============================================================================

------------------------------ MODULE SpanImpl ------------------------------
(***************************************************************************)
(* L2 for C16: the precondition checks and the pointer/size arithmetic of   *)
(* the run-time sub-view functions, transcribed from xspan_impl.hpp with    *)
(* index_type arithmetic made explicit as arithmetic modulo 2^W.  TLC       *)
(* evaluates, for EVERY size and EVERY argument value of a W-bit word, that *)
(* the transcription accepts exactly the calls the L1 contract (Span.tla,   *)
(* stated on mathematical integers) accepts, and that an accepted call      *)
(* yields exactly L1's window, which lies inside the parent.                *)
(* Advisory (MODEL-DRIFT) only: verdicts come from Span.tla.                *)
(***************************************************************************)
EXTENDS Integers, TLC

CONSTANT W                       \* bits of index_type in this model (the code has 64)
M    == 2 ^ W
MAXW == M - 1                    \* SIZE_MAX; static_cast<index_type>(dynamic_extent)
Word == 0..MAXW
Add(x, y) == (x + y) % M         \* unsigned + wraps
Sub(x, y) == (x - y + M) % M     \* unsigned - wraps

VARIABLES size, o, c, fn         \* one state = one call fn(o, c) on a span of `size` elements
vars == <<size, o, c, fn>>

(* two's complement reading of a word: the template arguments Count and Offset are std::ptrdiff_t *)
Signed(x) == IF x >= M \div 2 THEN x - M ELSE x
Unsigned(z) == (z + M) % M       \* conversion of a signed value in -M/2 .. M/2-1 to index_type
(* ptrdiff_t + ptrdiff_t: the mathematical sum if it is representable; otherwise the addition overflows (undefined    *)
(* behaviour in C++; gcc and clang fold the constant with wrap-around and warn) - modelled as the wrapped value, so *)
(* that TLC shows the check still rejects in that case                                                              *)
WrapS(z) == Signed(Unsigned(((z % M) + M) % M))

Fns == {"first", "last", "subspan", "index", "at", "firstS", "lastS", "subspanS"}
(* sizes of real spans are at most PTRDIFF_MAX (a view of more elements cannot exist): 0 .. M/2 - 1 for the template *)
(* forms, whose arguments are signed; the run-time forms are checked for every size below SIZE_MAX                  *)
Init == /\ size \in 0..(MAXW - 1) /\ o \in Word /\ c \in Word /\ fn \in Fns
        /\ fn \in {"firstS", "lastS", "subspanS"} => size < M \div 2
Next == UNCHANGED vars
Spec == Init /\ [][Next]_vars

(* ---- transcription of the code: TCB_SPAN_EXPECT conditions and the returned {pointer offset, size} *)
ImplOK ==
    CASE fn = "first"   -> c <= size                                             \* count >= 0 && count <= size()
      [] fn = "last"    -> c <= size
      [] fn = "subspan" -> o <= size /\ (c = MAXW \/ c <= Sub(size, o))          \* xspan_impl.hpp subspan(offset, count)
      [] fn = "index"   -> o < size                                              \* idx >= 0 && idx < size()
      [] fn = "at"      -> ~(o >= size)                                          \* throws iff idx < 0 || idx >= size()
      \* template forms: Count >= 0 && Count <= size()  (Count is converted to index_type for the second comparison)
      [] fn = "firstS"  -> Signed(c) >= 0 /\ Unsigned(Signed(c)) <= size
      [] fn = "lastS"   -> Signed(c) >= 0 /\ Unsigned(Signed(c)) <= size
      \* (Offset >= 0 && Offset <= size()) && (Count == dynamic_extent || (Count >= 0 && Offset + Count <= size())):
      \* Offset + Count is a signed addition, its result is converted to index_type
      [] fn = "subspanS" -> /\ Signed(o) >= 0 /\ Unsigned(Signed(o)) <= size
                            /\ (Signed(c) = -1 \/ (Signed(c) >= 0 /\ Unsigned(WrapS(Signed(o) + Signed(c))) <= size))
ImplView ==
    CASE fn = "first"   -> [off |-> 0, len |-> c]                                \* {data(), count}
      [] fn = "last"    -> [off |-> Sub(size, c), len |-> c]                     \* {data() + (size() - count), count}
      [] fn = "subspan" -> [off |-> o, len |-> IF c = MAXW THEN Sub(size, o) ELSE c]
      [] fn = "firstS"  -> [off |-> 0, len |-> c]
      [] fn = "lastS"   -> [off |-> Sub(size, c), len |-> c]
      [] fn = "subspanS" -> [off |-> o, len |-> IF c = MAXW THEN Sub(size, o) ELSE c]
      [] OTHER          -> [off |-> o, len |-> 1]                                \* *(data() + idx)
(* the check as it stood before the repair (proposed_fixes/C16-01): the sum wraps *)
OldSubspanOK == o <= size /\ (c = MAXW \/ Add(o, c) <= size)

(* ---- L1 contract on mathematical integers (Span.tla: ArgLeq / SubOK / ArgLt) *)
SpecOK ==
    CASE fn = "first"   -> c <= size
      [] fn = "last"    -> c <= size
      [] fn = "subspan" -> o <= size /\ (c = MAXW \/ o + c <= size)
      \* template arguments are mathematical integers in -M/2 .. M/2-1; -1 is dynamic_extent
      [] fn \in {"firstS", "lastS"} -> Signed(c) >= 0 /\ Signed(c) <= size
      [] fn = "subspanS" -> Signed(o) >= 0 /\ Signed(o) <= size /\ (Signed(c) = -1 \/ (Signed(c) >= 0 /\ Signed(o) + Signed(c) <= size))
      [] OTHER          -> o < size
SpecView ==
    CASE fn = "first"   -> [off |-> 0, len |-> c]
      [] fn = "last"    -> [off |-> size - c, len |-> c]
      [] fn = "subspan" -> [off |-> o, len |-> IF c = MAXW THEN size - o ELSE c]
      [] fn = "firstS"  -> [off |-> 0, len |-> c]
      [] fn = "lastS"   -> [off |-> size - c, len |-> c]
      [] fn = "subspanS" -> [off |-> o, len |-> IF c = MAXW THEN size - o ELSE c]
      [] OTHER          -> [off |-> o, len |-> 1]

Refines == /\ ImplOK <=> SpecOK
           /\ ImplOK => ImplView = SpecView /\ ImplView.off + ImplView.len <= size
(* used by SpanImpl_old.cfg to show that the unrepaired check does NOT refine L1 *)
OldRefines == fn = "subspan" => (OldSubspanOK <=> SpecOK)
=============================================================================

SPECIFICATION ISpec
CONSTANTS
  Alphabet = {"a", ".", "u", "p"}
  MaxDepthI = 4
  MaxCompI = 2
  BufSizes = {1, 2, 4, 8, 16}
  Base = 0
  Depths = {}
  Totals = {}
  Extras = {}
  Patterns = {}
  Vias = {}
  NameMax = 255
  PathMax = 4095
INVARIANTS Agrees BufferBound
PROPERTY Terminates

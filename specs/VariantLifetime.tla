-------------------------- MODULE VariantLifetime --------------------------
(***************************************************************************)
(* Lifetime vocabulary for C05 (DESIGN.md Appendix C, inlined for the       *)
(* variant check).  Every payload object of a lifetime-tracked alternative  *)
(* has an identity: the harness numbers objects by construction order, an   *)
(* id is never reused.  "Constructed once, never used after destruction,    *)
(* destroyed exactly once" is the *enabledness* of the element events:      *)
(*   LCtor   needs a fresh id, a live source for copy/move, and storage     *)
(*           that holds no live object;                                     *)
(*   LDtor   needs a live id (so a second destruction, or the destruction   *)
(*           of something never constructed, is not a step of the spec);    *)
(*   LAssign needs live source and destination.                             *)
(* The payload types are test fixtures, so what a copy / move / assignment  *)
(* does to the *values* is fixed here: a copy copies, a move copies and      *)
(* leaves MOVED in the source.                                              *)
(***************************************************************************)
EXTENDS Integers, FiniteSets

(* The alternative set of the variant type under test (4 alternatives, numbered 0..3):          *)
(*   TrackedAlts  alternatives whose objects emit lifetime events (instrumented payload types); *)
(*                the others are trivial types (int, trivially copyable structs) without events *)
(*   NTMAlts      alternatives with is_nothrow_move_constructible / _assignable                  *)
(* set "mixed": <int, NT, TM, TM2>  TrackedAlts = {1,2,3}, NTMAlts = {0,1}                      *)
(* set "triv" : <int, Tv1, Tv2, Tv3> all trivially copyable / destructible: {} , {0,1,2,3}       *)
(* set "td"   : <TD, NT, TM, int>   alternative 0 has a throwing default constructor: {0,1,2}, {1,3} *)
CONSTANTS TrackedAlts, NTMAlts

VARIABLES nid,    \* highest id handed out so far: ids 1..nid have been constructed
          live,   \* ids constructed and not yet destroyed
          obj     \* obj[id] = [alt, val, home] for id \in live

lvars == <<nid, live, obj>>

MOVED == -1       \* value of a moved-from payload object
TEMP  == 0        \* home of an object outside the variants' storage (argument, temporary, local)

NoThrowMove(a) == a \in NTMAlts    \* is_nothrow_move_constructible / assignable
(* element operations that may throw (they consult the fault fuse) *)
(* UntrackedThrowAlts: alternatives WITHOUT lifetime events (trivially copyable and destructible) whose constructor /
   assignment from a value may nevertheless throw - after having written to its storage.  Only the fixture set in which
   NO alternative has lifetime events (set "triv": <int, Tv1, Tv2, Tv3>, TrackedAlts = {}) has one: its alternative 3. *)
TrivThrowAlts == {3}
UntrackedThrowAlts == IF TrackedAlts = {} THEN TrivThrowAlts ELSE {}
CanThrow(a, kind) == \/ /\ a \in TrackedAlts
                        /\ \/ kind \in {"value", "copy"}
                           \/ kind \in {"move", "self"} /\ ~NoThrowMove(a)
                     \/ a \in UntrackedThrowAlts /\ kind = "value"

Put(o, id, r) == [i \in (DOMAIN o) \cup {id} |-> IF i = id THEN r ELSE o[i]]
Drop(o, id)   == [i \in (DOMAIN o) \ {id} |-> o[i]]

LInit == nid = 0 /\ live = {} /\ obj = <<>>

LiveIn(h) == {i \in live : obj[i].home = h}

LCtor(id, alt, kind, src, home, val) ==
    /\ id = nid + 1                                  \* constructed once: a fresh identity
    /\ alt \in TrackedAlts
    /\ kind \in {"value", "copy", "move"}
    /\ kind = "value" => src = 0
    /\ kind \in {"copy", "move"} =>
          /\ src \in live                            \* the source is not used after its destruction
          /\ obj[src].alt = alt
          /\ val = obj[src].val
    /\ home # TEMP => LiveIn(home) = {}              \* never constructed over a live object
    /\ nid' = id
    /\ live' = live \cup {id}
    /\ obj' = LET o1 == Put(obj, id, [alt |-> alt, val |-> val, home |-> home])
              IN IF kind = "move" THEN [o1 EXCEPT ![src].val = MOVED] ELSE o1

LDtor(id) ==
    /\ id \in live                                   \* destroyed exactly once, and only if constructed
    /\ live' = live \ {id}
    /\ obj' = Drop(obj, id)
    /\ nid' = nid

LAssign(dst, src, kind, val) ==
    /\ dst \in live
    /\ kind \in {"value", "copy", "move", "self"}
    /\ kind = "value" => src = 0
    /\ kind \in {"copy", "move", "self"} =>
          /\ src \in live
          /\ obj[src].alt = obj[dst].alt
          /\ val = obj[src].val
    /\ kind = "move" => src # dst
    /\ kind = "self" => src = dst
    /\ obj' = LET o1 == [obj EXCEPT ![dst].val = val]
              IN IF kind = "move" THEN [o1 EXCEPT ![src].val = MOVED] ELSE o1
    /\ UNCHANGED <<nid, live>>

LifetimeTypeOK ==
    /\ nid \in Nat
    /\ live \subseteq 1..nid
    /\ DOMAIN obj = live
    /\ \A i \in live : obj[i].alt \in TrackedAlts /\ obj[i].home \in {TEMP, 1, 2}
    /\ \A h \in {1, 2} : Cardinality(LiveIn(h)) <= 1
=============================================================================

---------------------------- MODULE LiftedExtMC ----------------------------
(* Model-checking instances of LiftedExt *)
EXTENDS LiftedExt
AllTys   == {"cpx", "nest", "dbit", "mbit"}
NQuick   == [cpx |-> 3, nest |-> 3, dbit |-> 6, mbit |-> 4]
NThorough == [cpx |-> 5, nest |-> 4, dbit |-> 10, mbit |-> 10]
=============================================================================

SPECIFICATION Spec
CONSTANT YS <- YQuick
CONSTANT Stride = 64
INVARIANT Laws08
CHECK_DEADLOCK FALSE

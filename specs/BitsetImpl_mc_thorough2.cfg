SPECIFICATION Spec
CONSTANTS
  W = 2
  MaxBits = 5
  MaxShift = 6
  MoveKeepsSize = FALSE
  ObserveMoved = TRUE
  Targets <- Both
  SplitNext = FALSE
  OtherSeqs <- NoOther
CONSTRAINT SizeBound
VIEW absview
INVARIANTS RepInv ObserversAgree
PROPERTIES Refines

SPECIFICATION Spec
CONSTANTS
  W = 2
  MaxBits = 5
  MaxShift = 6
CONSTRAINT SizeBound
VIEW absview
INVARIANTS RepInv ObserversAgree
PROPERTIES Refines

---------------------------- MODULE ComplexTypes ----------------------------
(***************************************************************************)
(* C10, compile-time part: the TYPE of every xcomplex expression the        *)
(* property talks about, for every combination of closure kinds             *)
(* (val: xcomplex<T,T,b>, ref: xcomplex<T&,T&,b>, cref: xcomplex<const T&,  *)
(* const T&,b>), ieee_compliant flags and scalar types.  The rule is the    *)
(* property's: results are "identical for value and reference closures" -   *)
(* a binary or unary operator and a forwarded function return a VALUE       *)
(* closure over the element type (never a closure that aliases an operand,  *)
(* never std::complex), Annex G applies as soon as one operand asks for it  *)
(* (ieee1 \/ ieee2), compound assignment returns the target itself, == and  *)
(* != return bool, abs/arg/norm the element type.  TLC enumerates the table *)
(* and checks its laws; checks/c10.py turns every row into a static_assert  *)
(* over decltype (a row that fails, or no longer compiles, is a violation   *)
(* that names the expression - found before any harness is built).          *)
(***************************************************************************)
EXTENDS TLC, Json, Sequences, FiniteSets

VARIABLE e

Kinds  == {"val", "ref", "cref"}
MKinds == {"val", "ref"}                       \* closures that can be assigned through
B      == BOOLEAN
Ops    == {"add", "sub", "mul", "div"}
STs    == {"T", "int", "long", "float", "double", "ldouble"}
UnFns  == {"neg", "pos", "conj", "proj", "exp", "log", "log10", "sqrt", "sin", "cos", "tan", "asin", "acos", "atan",
           "sinh", "cosh", "tanh", "asinh", "acosh", "atanh"}
ReFns  == {"abs", "arg", "norm"}

(* one record shape for every expression (unused fields hold "-" / FALSE)                                     *)
(*   f: family, g: operator or function, kl/bl: closure kind and flag of the (left) xcomplex operand,          *)
(*   kr/br: of the right one, st: C++ type of a scalar operand                                                  *)
E(f, g, kl, bl, kr, br, st) == [f |-> f, g |-> g, kl |-> kl, bl |-> bl, kr |-> kr, br |-> br, st |-> st]

Exprs ==
    {E("bin", o, kl, bl, kr, br, "-") : o \in Ops, kl \in Kinds, bl \in B, kr \in Kinds, br \in B}             \* x o y
    \cup {E(f, o, kl, bl, "-", FALSE, st) : f \in {"binsr", "binsl"}, o \in Ops, kl \in Kinds, bl \in B, st \in STs}   \* x o s, s o x
    \cup {E("cmp", o, kl, bl, kr, br, "-") : o \in Ops, kl \in MKinds, bl \in B, kr \in Kinds, br \in B}       \* x o= y
    \cup {E("cmps", o, kl, bl, "-", FALSE, st) : o \in Ops, kl \in MKinds, bl \in B, st \in STs}                \* x o= s
    \cup {E("asg", "=", kl, bl, kr, br, "-") : kl \in MKinds, bl \in B, kr \in Kinds, br \in B}                \* x = y
    \cup {E("asgs", "=", kl, bl, "-", FALSE, st) : kl \in MKinds, bl \in B, st \in STs}                         \* x = s
    \cup {E("un", g, kl, bl, "-", FALSE, "-") : g \in UnFns, kl \in Kinds, bl \in B}                            \* -x, conj(x), exp(x) ...
    \cup {E("refn", g, kl, bl, "-", FALSE, "-") : g \in ReFns, kl \in Kinds, bl \in B}                          \* abs(x), arg(x), norm(x)
    \cup {E("eq", g, kl, bl, kr, br, "-") : g \in {"eq", "ne"}, kl \in Kinds, bl \in B, kr \in Kinds, br \in B} \* x == y, x != y
    \cup {E("pow", "cc", kl, bl, kr, br, "-") : kl \in Kinds, bl \in B, kr \in Kinds, br \in B}                  \* pow(x, y)
    \cup {E("pow", g, kl, bl, "-", FALSE, st) : g \in {"cs", "sc"}, kl \in Kinds, bl \in B, st \in {"T", "int"}} \* pow(x, s), pow(s, x)
    \cup {E("direct", o, kl, bl, "-", FALSE, "-") : o \in Ops, kl \in Kinds, bl \in B}                          \* x o std::complex<T>
    \cup {E("conv", g, kl, bl, "-", FALSE, "-") : g \in {"tostd", "fromstd", "tovalue"}, kl \in Kinds, bl \in B}

(* a deleted call: a T& closure cannot be copy-assigned from an object of its own type (C++ deletes the copy *)
(* assignment of a class with reference members); every other combination exists                              *)
Exists(x) == ~(x.f = "asg" /\ x.kl = "ref" /\ x.kr = "ref" /\ x.bl = x.br)

(* types: [c |-> "xc", ieee]  xcomplex<T, T, ieee> (a value closure)   [c |-> "self"] the left operand itself (an lvalue) *)
(*        [c |-> "T"]  the element type    [c |-> "bool"]    [c |-> "std"]  std::complex<T>    [c |-> "true"] a trait holds  *)
Ty(c, i) == [c |-> c, ieee |-> i]
TypeOf(x) ==
    CASE x.f = "bin" -> Ty("xc", x.bl \/ x.br)
      [] x.f \in {"binsr", "binsl"} -> Ty("xc", x.bl)
      [] x.f \in {"cmp", "cmps", "asg", "asgs"} -> Ty("self", x.bl)
      [] x.f = "un" -> Ty("xc", x.bl)
      [] x.f = "refn" -> Ty("T", FALSE)
      [] x.f = "eq" -> Ty("bool", FALSE)
      [] x.f = "pow" -> Ty("xc", IF x.g = "cc" THEN x.bl \/ x.br ELSE x.bl)
      [] x.f = "direct" -> Ty("std", FALSE)
      [] x.f = "conv" -> Ty("true", FALSE)

Init == /\ e \in {x \in Exprs : Exists(x)}
        /\ PrintT("@T@" \o ToJson([e |-> e, ty |-> TypeOf(e)]))
Next == UNCHANGED e
Spec == Init /\ [][Next]_e

Swapped(x) == [x EXCEPT !.kl = x.kr, !.bl = x.br, !.kr = x.kl, !.br = x.bl]
TypeLaws ==
    /\ (e.f \in {"bin", "eq"} \/ (e.f = "pow" /\ e.g = "cc") => TypeOf(Swapped(e)) = TypeOf(e))        \* operand order does not change the type
    /\ (TypeOf(e).c = "xc" /\ (e.bl \/ e.br) /\ e.f \in {"bin"} => TypeOf(e).ieee)                     \* Annex G as soon as one operand asks for it
    /\ TypeOf(e) = TypeOf([e EXCEPT !.kl = "val", !.kr = IF e.kr = "-" THEN "-" ELSE "val"])           \* identical for value and reference closures
    /\ TypeOf(e).c \in {"xc", "self", "T", "bool", "std", "true"}
=============================================================================

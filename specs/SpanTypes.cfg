SPECIFICATION Spec
CONSTANTS
  MaxE = 4
  ESZ = 4
INVARIANTS RowsSane EmitRow

SPECIFICATION Spec
CONSTANTS
  Ks <- KsT
  Ds <- DsT
INVARIANT Row

SPECIFICATION Spec
CONSTANTS
  Mode = "laws"
  Ts <- AllTs
  FormsOn <- AllForms
  PatSet = "few"
  ExpSet = "few"
  STs <- AllSTs
INVARIANTS Laws

SPECIFICATION Spec
CONSTANTS
  GenText <- FullText
  GenMaxText = 5
  GenBytes <- FullBytes
  GenMaxBytes = 3
INVARIANT Inv

SPECIFICATION Spec
CONSTANTS
  Cfgs <- CfgsVec
  MaxLen = 4
  Vals = {0, 1}
  Targets = {1}
  OtherInit <- RepOther
  ILArgs <- AllIL
  Classes <- AllClasses
  EmitOps <- AllOps
CONSTRAINT SizeBound
ACTION_CONSTRAINT Emit
VIEW absvars

SPECIFICATION SpecB
CONSTANTS
  Modes <- ThreeModes
  MaxN = 3
  MaxDepth = 3
  MaxE = 4
  Huge = {0, 1, 2}
  Kinds <- AllKinds
  Classes <- AllClasses
  EmitOps <- NoEmit
VIEW absvars
INVARIANTS TypeOK Inside
PROPERTIES ObserversPure FailedChangesNothing ContractOnlyWhenChecking SubInsideSource WriteLaw

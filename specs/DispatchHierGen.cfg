SPECIFICATION Spec
CONSTANTS
  NT = 3
  MaxLen = 3
CHECK_DEADLOCK FALSE

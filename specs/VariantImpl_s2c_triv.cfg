SPECIFICATION Spec
CONSTANTS
  TrackedAlts = {}
  NTMAlts = {0, 1, 2, 3}
  Strict = TRUE
  Vals = {1, 7777}
  MaxFuse = 1
  MaxEv = 0
  CallSet <- MCCalls
  EmitOn = TRUE
VIEW iview
ACTION_CONSTRAINT Emit

SPECIFICATION Spec
CONSTANTS
  W = 3
  MaxBits = 7
  MaxShift = 8
  MoveKeepsSize = FALSE
  ObserveMoved = TRUE
  Targets <- OnlyFirst
  SplitNext = TRUE
  OtherSeqs <- AllOther
CONSTRAINT SizeBound
VIEW absview
INVARIANTS RepInv ObserversAgree
PROPERTIES Refines

#!/bin/bash
# usage: confirm_benign.sh <worktree> <n> <PID[,PID..]> <name> [tier]
# A property-PRESERVING change (written by an independent sub-agent that saw only the property text): apply it in the
# scratch worktree, build and run the full upstream suite, run the agent's model-based demo (must print OK), run
# ./verif check <PID> against the changed include tree (must exit 0 without VIOLATION lines) and file the result under
# /verif/benign/<name>/.  A check that exits 1 here is either a false alarm of the check or a change that is not benign
# after all: decide by reading, never by loosening a check that is right.
WT=$1; N=$2; PID=$3; NAME=$4; TIER=${5:-quick}
OUT=$WT/out/$N; DEST=/verif/benign/$NAME; mkdir -p $DEST
cd $WT || exit 2
git checkout -- include
git apply --check $OUT/patch.diff || { echo "patch does not apply"; exit 2; }
git apply $OUT/patch.diff
B=$WT/_cbuild
if [ ! -d $B ]; then cmake -G Ninja -S $WT -B $B -DBUILD_TESTS=ON -DCMAKE_BUILD_TYPE=RelWithDebInfo -DCMAKE_CXX_FLAGS=-Wno-error -Ddoctest_DIR=/usr/lib/cmake/doctest -Dnlohmann_json_DIR=/root/miniconda/share/cmake/nlohmann_json >/dev/null 2>&1; fi
cmake --build $B -j6 >$DEST/build.log 2>&1; BRC=$?
ctest --test-dir $B -j6 --timeout 900 >$DEST/ctest.log 2>&1; TRC=$?
SUITE=$(grep -E "tests passed|tests failed" $DEST/ctest.log | tail -1)
g++ -std=c++14 -O1 -I $WT/include $OUT/demo.cpp -o $WT/demo_$N 2>$DEST/demo_build.log; (timeout 900 $WT/demo_$N >$DEST/demo_with.log 2>&1); DW=$?
cd ${VERIF_DIR:-/verif}
: > $DEST/summary.txt
for P in ${PID//,/ }; do
  VERIF_REPO_INCLUDE=$WT/include ./verif check $P --tier $TIER >$DEST/check_$P.log 2>&1; echo "check $P rc=$? : $(grep -c '^VIOLATION' $DEST/check_$P.log) VIOLATION lines" | tee -a $DEST/summary.txt
done
cd $WT; git checkout -- include
cp $OUT/patch.diff $OUT/demo.cpp $DEST/; cp $OUT/README.md $DEST/README.md 2>/dev/null
echo "build rc=$BRC ctest rc=$TRC ($SUITE) demo_with rc=$DW" | tee -a $DEST/summary.txt
rm -f $WT/demo_$N $DEST/build.log $DEST/demo_build.log
for f in $DEST/check_*.log; do (head -c 1500 $f; echo; echo ...; tail -c 4500 $f) > $f.t && mv $f.t $f; done
tail -5 $DEST/ctest.log > $DEST/ctest.t && mv $DEST/ctest.t $DEST/ctest.log
head -c 2000 $DEST/demo_with.log > $DEST/demo_with.t && mv $DEST/demo_with.t $DEST/demo_with.log
python3 - "$DEST" "$PID" <<'P'
import json, re, sys, os
d, pid = sys.argv[1], sys.argv[2]
s = open(os.path.join(d, "summary.txt")).read()
checks = {m.group(1): {"exit": int(m.group(2)), "violation_lines": int(m.group(3))} for m in re.finditer(r"check (\w+) rc=(\d+) : (\d+) VIOLATION", s)}
m = re.search(r"build rc=(\d+) ctest rc=(\d+) \((.*?)\) demo_with rc=(\d+)", s)
meta = {"preserves_property": pid, "source": "independent sub-agent given only the property text and a scratch worktree, asked for a change that keeps the property true",
        "confirmed": {"compiles": m.group(1) == "0", "upstream_suite_with_change": m.group(3), "demo_exit_with_change": int(m.group(4))},
        "checks": checks, "quiet": all(c["exit"] == 0 and c["violation_lines"] == 0 for c in checks.values())}
json.dump(meta, open(os.path.join(d, "meta.json"), "w"), indent=1)
print(os.path.basename(d), "quiet" if meta["quiet"] else "ALARM", checks)
P

#!/usr/bin/env python3
"""Prints the prompt for a fresh seeding sub-agent: property text + scratch worktree only (nothing from /verif)."""
import json, sys, os, subprocess
pid, tag, focus = sys.argv[1], sys.argv[2], (sys.argv[3] if len(sys.argv) > 3 else "")
count = int(sys.argv[4]) if len(sys.argv) > 4 else 2
WORDS = {2: "TWO", 3: "THREE", 4: "FOUR"}
ROOT = os.path.dirname(os.path.dirname(os.path.abspath(__file__)))
p = [json.loads(l) for l in open(os.path.join(ROOT, "properties.jsonl")) if json.loads(l)["id"] == pid][0]
wt = "/tmp/seed-%s-%s" % (pid, tag)
import glob
done = []
for mf in sorted(glob.glob(os.path.join(ROOT, "seeded", "*", "meta.json"))):
    m = json.load(open(mf))
    if pid in str(m.get("breaks_property", "")).replace(" ", "").split(","):
        done.append("   - %s (%s)" % (os.path.basename(os.path.dirname(mf)).split("-", 1)[1], m.get("needs_to_manifest", "")))
avoid = ("Other people have already delivered changes built on the following mechanisms; do NOT repeat any of them, find different ones (different functions, overloads, configurations, code paths):\n" + "\n".join(done)) if done and os.environ.get("SEED_AVOID", "1") == "1" else ""
if not os.path.exists(wt):
    subprocess.check_call(["git", "-C", "/repo", "worktree", "add", "--detach", wt, "HEAD"], stdout=subprocess.DEVNULL, stderr=subprocess.DEVNULL)
print("""You are helping to evaluate a verification framework by writing realistic *breaking changes* for a C++ library. You work ONLY inside the scratch git worktree {wt} (a checkout of the header-only C++14 library xtensor-stack/xtl: headers in include/xtl, tests in test/). Do not read or write anything under /verif or /repo (the worktree is your copy). No network.

The property (a semantic guarantee users of xtl rely on) is:

{prop}

Task: produce {countw} different, independent changes to the library sources (include/xtl/*.hpp) in the worktree, each of which
 (a) BREAKS the property above (some input / sequence of operations / configuration now gives a wrong result that the statement forbids),
 (b) still COMPILES and still PASSES the entire existing test suite, unmodified (build: `cmake -G Ninja -S {wt} -B {wt}/_build -DBUILD_TESTS=ON -DCMAKE_BUILD_TYPE=RelWithDebInfo -DCMAKE_CXX_FLAGS=-Wno-error -Ddoctest_DIR=/usr/lib/cmake/doctest -Dnlohmann_json_DIR=/root/miniconda/share/cmake/nlohmann_json && cmake --build {wt}/_build -j8 && ctest --test-dir {wt}/_build -j8`; all 24 ctest entries must pass),
 (c) looks like something a maintainer could plausibly commit (a refactoring slip, an "optimisation", an off-by-one, a dropped normalisation step, a wrong operand, a reordered pair of steps, a removed guard on one overload) – not vandalism, no dead code, no comments pointing at the change,
 (d) needs something SPECIFIC to manifest – a multi-step sequence of operations, a particular size/alignment/boundary value, an unusual input, a particular template configuration, or two cooperating sites that each look fine alone – rather than being exposed at once by ordinary use. {focus}

{avoid}

For each change deliver, in {wt}/out/<n>/ (n = 1..{count}):
 * patch.diff – `git diff` of the library change only (relative to the worktree root, applies with `git apply` on a clean checkout),
 * demo.cpp – a small standalone program (g++ -std=c++14 -I include demo.cpp) that exits 0 and prints OK on the unchanged library and exits non-zero (prints what went wrong) with the change applied; it must demonstrate a violation of the property *statement*, not merely a difference in unspecified behaviour,
 * README.md – which clause of the property is broken, what is needed for it to manifest, and why the existing tests do not notice.
Verify all of it yourself: for each change, on a clean worktree state (`git -C {wt} checkout -- include`) apply the patch, build+run the full test suite (must pass), build+run demo.cpp (must fail); then revert and run demo.cpp again (must pass). Leave the worktree clean of the library change at the end (`git -C {wt} checkout -- include`), keep only out/. Remove {wt}/_build when finished. The changes must touch different mechanisms. Report in your final message, for each change: one-paragraph description, the exact commands you ran and their outcomes.""".format(wt=wt, prop=json.dumps(p, indent=1), focus=focus, avoid=avoid, count=count, countw=WORDS.get(count, str(count))))

#!/usr/bin/env python3
"""Validates MANIFEST.json and every evidence/*.json against the schemas (uses the tooling venv's jsonschema)."""
import json, sys, glob, jsonschema
ok = True
m = json.load(open('/verif/MANIFEST.json'))
try:
    jsonschema.validate(m, json.load(open('/root/.vp/MANIFEST.schema.json'))); print("MANIFEST ok: %d checks, %d n/a" % (len(m['checks']), len(m.get('not_applicable', []))))
except Exception as e:
    ok = False; print("MANIFEST INVALID:", str(e)[:500])
s = json.load(open('/root/.vp/EVIDENCE.schema.json'))
claimed = {c['property_id']: c for c in m['checks']}
for f in sorted(glob.glob('/verif/evidence/*.json')):
    e = json.load(open(f))
    try:
        jsonschema.validate(e, s)
        c = claimed.get(e['property_id'])
        lvl = c['level_claimed']['category'] if c else '-'
        flag = '' if (not c or lvl == e['level']) else '  LEVEL MISMATCH (claimed %s)' % lvl
        print(e['property_id'], 'ok', e['level'], e['tier'], 'wall', e['wall_s'], 'viol', e.get('violations'), flag)
        if flag: ok = False
    except Exception as x:
        ok = False; print(f, "INVALID:", str(x)[:400])
sys.exit(0 if ok else 1)

#!/usr/bin/env python3
"""seed_meta.py <name> <property> <needs> : writes seeded/<name>/meta.json from summary.txt"""
import json, sys, os, re
name, prop, needs = sys.argv[1], sys.argv[2], sys.argv[3]
history = sys.argv[4] if len(sys.argv) > 4 else ""
d = os.path.join(os.path.dirname(os.path.dirname(os.path.abspath(__file__))), "seeded", name)
s = open(os.path.join(d, "summary.txt")).read()
checks = {m.group(1): {"exit": int(m.group(2)), "violation_lines": int(m.group(3))} for m in re.finditer(r"check (\w+) rc=(\d+) : (\d+) VIOLATION", s)}
m = re.search(r"build rc=(\d+) ctest rc=(\d+) \((.*?)\) demo_with rc=(\d+) demo_without rc=(\d+)", s)
meta = {"breaks_property": prop, "needs_to_manifest": needs,
        "source": "independent sub-agent given only the property text and a scratch worktree",
        "confirmed": {"compiles": m.group(1) == "0", "upstream_suite_with_change": m.group(3), "demo_exit_with_change": int(m.group(4)), "demo_exit_without_change": int(m.group(5))},
        "ran": "tools/confirm_seed.sh (apply patch in scratch worktree, build + ctest full upstream suite, run demo with/without, VERIF_REPO_INCLUDE=<worktree>/include ./verif check <id> --tier quick)",
        "checks": checks,
        "caught": all(c["exit"] == 1 and c["violation_lines"] > 0 for c in checks.values()) if checks else False}
if history:
    meta["history"] = history
json.dump(meta, open(os.path.join(d, "meta.json"), "w"), indent=1)
print(name, "caught" if meta["caught"] else "MISSED", checks)

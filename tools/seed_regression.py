#!/usr/bin/env python3
"""Re-runs the quick check of every seeded change (seeded/*/patch.diff applied to a scratch copy of /repo/include)
and reports which are (still) caught.  usage: seed_regression.py [--jobs N] [--only PID[,PID..]] [--names NAME[,NAME..]] [--verif DIR]
Properties run in parallel, the seeds of one property sequentially (they share .work/<PID>)."""
import json, os, sys, glob, shutil, subprocess, argparse, time
from concurrent.futures import ThreadPoolExecutor
ap = argparse.ArgumentParser()
ap.add_argument("--jobs", type=int, default=4)
ap.add_argument("--only", default="")
ap.add_argument("--verif", default="/verif")
ap.add_argument("--names", default="", help="comma-separated seeded/<name> directories to restrict to")
a = ap.parse_args()
ROOT = "/verif"
only = set(x for x in a.only.split(",") if x)
names = set(x for x in a.names.split(",") if x)
by_pid = {}
for f in sorted(glob.glob(os.path.join(ROOT, "seeded", "*", "meta.json"))):
    m = json.load(open(f))
    if names and os.path.basename(os.path.dirname(f)) not in names:
        continue
    if m.get("outside_claim") and not names:
        continue            # documented example of what a claim does not cover: expected to pass the check
    for pid in m["checks"]:
        if only and pid not in only:
            continue
        by_pid.setdefault(pid, []).append(os.path.dirname(f))
scratch = "/var/tmp/xtl-seedreg-%s-%d" % ("_".join(sorted(only)) or "all", os.getpid())
shutil.rmtree(scratch, ignore_errors=True)


def run_pid(pid):
    out = []
    for d in by_pid[pid]:
        name = os.path.basename(d)
        tree = os.path.join(scratch, pid + "-" + name)
        os.makedirs(tree)
        shutil.copytree("/repo/include", os.path.join(tree, "include"))
        p = subprocess.run(["patch", "-p1", "-s", "-d", tree, "-i", os.path.join(d, "patch.diff")], capture_output=True, text=True)
        if p.returncode != 0:
            out.append((pid, name, "patch-failed", 0, 0)); shutil.rmtree(tree); continue
        env = dict(os.environ); env["VERIF_REPO_INCLUDE"] = os.path.join(tree, "include")
        env["VERIF_NCPU"] = str(max(2, (os.cpu_count() or 8) // a.jobs))
        t = time.time()
        r = subprocess.run([os.path.join(a.verif, "verif"), "check", pid, "--tier", "quick"], capture_output=True, text=True, env=env, cwd=a.verif)
        nv = sum(1 for l in r.stdout.splitlines() if l.startswith("VIOLATION"))
        out.append((pid, name, r.returncode, nv, round(time.time() - t)))
        print("%s %-45s rc=%s violations=%d %ds" % (pid, name, r.returncode, nv, time.time() - t), flush=True)
        shutil.rmtree(tree)
    return out


res = []
with ThreadPoolExecutor(max_workers=a.jobs) as ex:
    for o in ex.map(run_pid, sorted(by_pid)):
        res += o
shutil.rmtree(scratch, ignore_errors=True)
bad = [r for r in res if not (r[2] == 1 and r[3] > 0)]
print("seeded changes re-run: %d, caught: %d" % (len(res), len(res) - len(bad)))
for r in bad:
    print("NOT CAUGHT:", r)
sys.exit(1 if bad else 0)

#!/usr/bin/env python3
"""Regenerates /verif/MANIFEST.json from tools/claims/<ID>.json (one file per claimed property:
category, text, design_ref, note, technique) and tools/not_applicable.json."""
import json, os, glob
ROOT = os.path.dirname(os.path.dirname(os.path.abspath(__file__)))
props = [json.loads(l) for l in open(os.path.join(ROOT, "properties.jsonl"))]
CHECKS = {os.path.basename(f)[:-5]: json.load(open(f)) for f in glob.glob(os.path.join(ROOT, "tools", "claims", "C*.json"))}
NA = json.load(open(os.path.join(ROOT, "tools", "not_applicable.json")))


def main():
    checks, na = [], []
    for p in props:
        pid = p["id"]
        if pid in CHECKS:
            c = CHECKS[pid]
            checks.append({
                "property_id": pid,
                "quick_cmd": "./verif check %s --tier quick" % pid,
                "thorough_cmd": "./verif check %s --tier thorough" % pid,
                "evidence_file": "/verif/evidence/%s.json" % pid,
                "replay_cmd_template": "./verif replay %s {path}" % pid,
                "engine": "verif",
                "level_claimed": {"category": c["category"], "text": c["text"], "design_ref": c["design_ref"]},
                "level_note": c["note"],
                "technique": c["technique"]})
        else:
            na.append({"property_id": pid, "reason": NA.get(pid, "check not built yet (DESIGN.md section 11 gives the order); not claimed")})
    m = {"version": 1,
         "setup_cmd": "./verif setup",
         "hooks": {"guard": "XTL_VERIF",
                   "enable": "no hooks in /repo: harnesses include /repo/include directly; -DXTL_VERIF is reserved and unused",
                   "baseline_off_cmd": "cmake --build /repo/_build && ctest --test-dir /repo/_build -j8 --timeout 900",
                   "source_commits": [], "add_only": True},
         "engines": [{"name": "verif", "path": "/verif/verif", "serves_properties": sorted(CHECKS),
                      "kind_free_text": "python3 runner: TLC model checking of TLA+ specs (specs/) + C++ conformance harnesses (harness/): "
                                        "trace validation of recorded executions and replay of TLC-generated behaviours"}],
         "checks": checks,
         "notes": "See DESIGN.md. Exit status of every check: 0 held, 1 violation (VIOLATION line), 2 machinery error. "
                  "known_findings.json lists repaired (fix: commits) and open findings.",
         "not_applicable": na}
    json.dump(m, open(os.path.join(ROOT, "MANIFEST.json"), "w"), indent=1)
    print("MANIFEST: %d checks, %d not_applicable" % (len(checks), len(na)))


if __name__ == "__main__":
    main()

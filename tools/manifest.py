#!/usr/bin/env python3
"""Regenerates /verif/MANIFEST.json from the table below (single source of truth)."""
import json, os
ROOT = os.path.dirname(os.path.dirname(os.path.abspath(__file__)))
props = [json.loads(l) for l in open(os.path.join(ROOT, "properties.jsonl"))]

CHECKS = {
 "C03": dict(
  category="model_checking",
  text="TLC model-checks the L1 spec Bitset.tla (two bit sequences, every public operation as an action) and checks that "
       "the block-level transcription of the code BitsetImpl.tla refines it and keeps unused bits zero, exhaustively for "
       "small widths/sizes; the spec is bound to the code in both directions: every L1 transition out of representative "
       "states at block width 8 and TLC simulation walks are replayed on real xdynamic_bitset/view objects, and seeded "
       "random call sequences on uint8/16/32/64 blocks are recorded; every recorded step (result, bits, iteration, raw "
       "blocks, count/any/all/none, ==, view guard memory) is validated by TLC against L1.",
  design_ref="DESIGN.md section 6 (C03)",
  note="Trusted: TLC, the L1 spec (guarded by its own TLC-checked laws), the harness projection through the public API. "
       "Bounded: L1/L2 exhaustive only for W in {2,3}, <=4-7 bits; real-code coverage is per explored history, not all histories. "
       "Moved-from objects, allocators, reserve/capacity are not modelled.",
  technique="TLA+ L1/L2 specs model-checked with TLC + trace validation of recorded executions and replay of TLC-generated behaviours"),
}

NA = {
 "C19": "compile/link matrix over compilers, standards and flags: there is no state, transition or computable expected value to specify in TLA+ (DESIGN.md section 7)",
}

def main():
    checks, na = [], []
    for p in props:
        pid = p["id"]
        if pid in CHECKS:
            c = CHECKS[pid]
            checks.append({
                "property_id": pid,
                "quick_cmd": "./verif check %s --tier quick" % pid,
                "thorough_cmd": "./verif check %s --tier thorough" % pid,
                "evidence_file": "/verif/evidence/%s.json" % pid,
                "replay_cmd_template": "./verif replay %s {path}" % pid,
                "engine": "verif",
                "level_claimed": {"category": c["category"], "text": c["text"], "design_ref": c["design_ref"]},
                "level_note": c["note"],
                "technique": c["technique"]})
        else:
            na.append({"property_id": pid, "reason": NA.get(pid, "check not built yet in this round (DESIGN.md section 11 gives the order); not claimed")})
    m = {"version": 1,
         "setup_cmd": "./verif setup",
         "hooks": {"guard": "XTL_VERIF",
                   "enable": "no hooks in /repo: harnesses include /repo/include directly; -DXTL_VERIF is reserved and unused",
                   "baseline_off_cmd": "cmake --build /repo/_build && ctest --test-dir /repo/_build -j8 --timeout 900",
                   "source_commits": [], "add_only": True},
         "engines": [{"name": "verif", "path": "/verif/verif", "serves_properties": sorted(CHECKS),
                      "kind_free_text": "python3 runner: TLC model checking of TLA+ specs (specs/) + C++ conformance harnesses (harness/): "
                                        "trace validation of recorded executions and replay of TLC-generated behaviours"}],
         "checks": checks,
         "notes": "See DESIGN.md. Exit status of every check: 0 held, 1 violation (VIOLATION line), 2 machinery error. "
                  "known_findings.json lists repaired (fix: commits) and open findings.",
         "not_applicable": na}
    json.dump(m, open(os.path.join(ROOT, "MANIFEST.json"), "w"), indent=1)
    print("MANIFEST: %d checks, %d not_applicable" % (len(checks), len(na)))

if __name__ == "__main__":
    main()

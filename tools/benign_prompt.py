#!/usr/bin/env python3
"""Prints the prompt for a fresh sub-agent that writes property-PRESERVING changes (refactorings that alter only
unspecified or internal behaviour): the false-alarm test of the checks.  usage: benign_prompt.py PID tag [count]"""
import json, sys, os, subprocess
pid, tag = sys.argv[1], sys.argv[2]
count = int(sys.argv[3]) if len(sys.argv) > 3 else 3
ROOT = os.path.dirname(os.path.dirname(os.path.abspath(__file__)))
p = [json.loads(l) for l in open(os.path.join(ROOT, "properties.jsonl")) if json.loads(l)["id"] == pid][0]
wt = "/tmp/benign-%s-%s" % (pid, tag)
if not os.path.exists(wt):
    subprocess.check_call(["git", "-C", "/repo", "worktree", "add", "--detach", wt, "HEAD"], stdout=subprocess.DEVNULL, stderr=subprocess.DEVNULL)
print("""You are helping to evaluate a verification framework for a C++ library by writing realistic changes that do NOT break a given property, in order to find out whether the framework raises false alarms. You work ONLY inside the scratch git worktree {wt} (a checkout of the header-only C++14 library xtensor-stack/xtl: headers in include/xtl, tests in test/). Do not read or write anything under /verif or /repo (the worktree is your copy). No network. Other jobs share this machine: use -j4 at most.

The property (a semantic guarantee users of xtl rely on) is:

{prop}

Task: produce {count} different, independent changes to the library sources (include/xtl/*.hpp) in the worktree, each of which
 (a) KEEPS the property above true in every detail: every result, state, exception and memory-safety guarantee that the statement demands is exactly as before, for every input and history the quantifier covers;
 (b) still compiles and still passes the entire existing test suite, unmodified (build: `cmake -G Ninja -S {wt} -B {wt}/_build -DBUILD_TESTS=ON -DCMAKE_BUILD_TYPE=RelWithDebInfo -DCMAKE_CXX_FLAGS=-Wno-error -Ddoctest_DIR=/usr/lib/cmake/doctest -Dnlohmann_json_DIR=/root/miniconda/share/cmake/nlohmann_json && cmake --build {wt}/_build -j4 && ctest --test-dir {wt}/_build -j4`; all 24 ctest entries must pass);
 (c) is a realistic maintenance change of substance (not whitespace, comments or a pure rename): a different but equally correct algorithm for one operation, a reordering of independent steps, a different internal representation detail, different contents of storage the property calls unspecified or does not mention (bytes behind a terminator, padding, moved-from states that remain valid, capacity growth, which of two equal elements is returned, NaN payloads, the text of an exception message, the concrete exception type where the statement does not fix it), an added fast path that returns the same answers, a helper function split or merged, an extra defensive check that can never fire, a changed private member layout, a constexpr/noexcept/inline annotation that does not change behaviour;
 (d) is nevertheless the kind of change that could trip a checker that has over-fitted the current implementation (compares internal buffers, relies on private names, on the exact sequence of element operations where the statement allows several, on incidental values).
Be careful with (a): if in doubt whether the statement pins something down, do not change it. For each change deliver, in {wt}/out/<n>/ (n = 1..{count}):
 * patch.diff - `git diff` of the library change only (relative to the worktree root, applies with `git apply` on a clean checkout),
 * demo.cpp - a small standalone program (g++ -std=c++14 -I include demo.cpp) that exercises the operations you touched against an independent model of what the property demands (std::string / std::vector<bool> / plain arithmetic ...) on many inputs, boundaries included, and exits 0 printing OK both with and without the change,
 * README.md - what changed, what observable-but-unspecified or internal difference it makes (if any), and the argument why every clause of the property still holds.
Verify all of it yourself: for each change, on a clean worktree state (`git -C {wt} checkout -- include`) apply the patch, build and run the full test suite (must pass), build and run demo.cpp (must print OK); then revert. Leave the worktree clean of the library change at the end, keep only out/. Remove {wt}/_build when finished. Report in your final message, for each change: one-paragraph description and the commands you ran with their outcomes.""".format(wt=wt, prop=json.dumps(p, indent=1), count=count))

#!/bin/bash
# usage: confirm_seed.sh <worktree> <n> <PID> <name> [tier]
# Confirms a seeded change (compiles, full upstream suite passes, demo fails with / passes without),
# runs ./verif check <PID> against the changed include tree, and files it under /verif/seeded/<name>/.
WT=$1; N=$2; PID=$3; NAME=$4; TIER=${5:-quick}
OUT=$WT/out/$N; DEST=/verif/seeded/$NAME; mkdir -p $DEST
cd $WT || exit 2
git checkout -- include
git apply --check $OUT/patch.diff || { echo "patch does not apply"; exit 2; }
git apply $OUT/patch.diff
B=$WT/_cbuild
if [ ! -d $B ]; then cmake -G Ninja -S $WT -B $B -DBUILD_TESTS=ON -DCMAKE_BUILD_TYPE=RelWithDebInfo -DCMAKE_CXX_FLAGS=-Wno-error -Ddoctest_DIR=/usr/lib/cmake/doctest -Dnlohmann_json_DIR=/root/miniconda/share/cmake/nlohmann_json >/dev/null 2>&1; fi
cmake --build $B -j8 >$DEST/build.log 2>&1; BRC=$?
ctest --test-dir $B -j8 --timeout 900 >$DEST/ctest.log 2>&1; TRC=$?
SUITE=$(grep -E "tests passed|tests failed" $DEST/ctest.log | tail -1)
g++ -std=c++14 -I $WT/include $OUT/demo.cpp -o $WT/demo_$N 2>$DEST/demo_build.log; ($WT/demo_$N >$DEST/demo_with.log 2>&1); DW=$?
cd ${VERIF_DIR:-/verif}
for P in ${PID//,/ }; do
  VERIF_REPO_INCLUDE=$WT/include ./verif check $P --tier $TIER >$DEST/check_$P.log 2>&1; echo "check $P rc=$? : $(grep -c '^VIOLATION' $DEST/check_$P.log) VIOLATION lines" | tee -a $DEST/summary.txt
done
cd $WT; git checkout -- include
g++ -std=c++14 -I $WT/include $OUT/demo.cpp -o $WT/demo_$N 2>>$DEST/demo_build.log; ($WT/demo_$N >$DEST/demo_without.log 2>&1); DO=$?
cp $OUT/patch.diff $OUT/demo.cpp $DEST/; cp $OUT/README.md $DEST/README.md 2>/dev/null
echo "build rc=$BRC ctest rc=$TRC ($SUITE) demo_with rc=$DW demo_without rc=$DO" | tee -a $DEST/summary.txt
rm -f $WT/demo_$N
# trim logs
rm -f $DEST/build.log $DEST/demo_build.log
for f in $DEST/check_*.log; do head -c 6000 $f > $f.t && mv $f.t $f; done
tail -5 $DEST/ctest.log > $DEST/ctest.t && mv $DEST/ctest.t $DEST/ctest.log
for f in $DEST/demo_with.log $DEST/demo_without.log; do head -c 3000 $f > $f.t && mv $f.t $f; done

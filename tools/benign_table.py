#!/usr/bin/env python3
"""Rewrites the region between <!-- BENIGN-TABLE-BEGIN --> and <!-- BENIGN-TABLE-END --> in DESIGN.md from benign/*/meta.json."""
import json, glob, os, re
ROOT = os.path.dirname(os.path.dirname(os.path.abspath(__file__)))
rows = []
for f in sorted(glob.glob(os.path.join(ROOT, "benign", "*", "meta.json"))):
    m = json.load(open(f))
    name = os.path.basename(os.path.dirname(f))
    checks = ", ".join("%s: exit %d, %d VIOLATION lines" % (k, v["exit"], v["violation_lines"]) for k, v in sorted(m["checks"].items()))
    rows.append("| `%s` | %s | %s | %s | %s |" % (name, m["preserves_property"], m.get("what", ""), "quiet" if m["quiet"] else "**ALARM**", checks + ((" - " + m["note"]) if m.get("note") else "")))
table = ["| change (`benign/<name>/`) | property | what changes | checks | quick check result |", "|---|---|---|---|---|"] + rows
p = os.path.join(ROOT, "DESIGN.md")
s = open(p).read()
s2 = re.sub(r"(<!-- BENIGN-TABLE-BEGIN -->\n).*?(<!-- BENIGN-TABLE-END -->)", lambda m: m.group(1) + "\n".join(table) + "\n" + m.group(2), s, flags=re.S)
open(p, "w").write(s2)
print("%d benign changes, %d quiet" % (len(rows), sum(1 for r in rows if "| quiet |" in r)))

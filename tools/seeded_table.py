#!/usr/bin/env python3
"""Rewrites the region between <!-- SEEDED-TABLE-BEGIN --> and <!-- SEEDED-TABLE-END --> in DESIGN.md
from seeded/*/meta.json."""
import json, glob, os, re
ROOT = os.path.dirname(os.path.dirname(os.path.abspath(__file__)))
rows = []
for f in sorted(glob.glob(os.path.join(ROOT, "seeded", "*", "meta.json"))):
    m = json.load(open(f))
    name = os.path.basename(os.path.dirname(f))
    checks = ", ".join("%s: exit %d, %d VIOLATION lines" % (k, v["exit"], v["violation_lines"]) for k, v in sorted(m["checks"].items()))
    note = m.get("history", "")
    rows.append("| `%s` | %s | %s | %s | %s%s |" % (name, m["breaks_property"], m["needs_to_manifest"].replace("|", "/"),
                                                 "yes" if m["caught"] else ("no (outside the claim)" if m.get("outside_claim") else "**NO**"), checks, (" — " + note) if note else ""))
table = ["| seeded change (`seeded/<name>/`) | property | needs, to manifest | caught | quick check result |", "|---|---|---|---|---|"] + rows
p = os.path.join(ROOT, "DESIGN.md")
s = open(p).read()
s2 = re.sub(r"(<!-- SEEDED-TABLE-BEGIN -->\n).*?(<!-- SEEDED-TABLE-END -->)", lambda m: m.group(1) + "\n".join(table) + "\n" + m.group(2), s, flags=re.S)
open(p, "w").write(s2)
print("%d seeded changes, %d caught" % (len(rows), sum(1 for r in rows if "| yes |" in r)))

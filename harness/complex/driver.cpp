// C10 conformance harness (Annex G): evaluates the real xtl::xcomplex<..., true> multiplication and
// division on representatives of every operand class combination and prints what it observed.
// It contains no oracle: it instantiates, executes, classifies and prints.
//
//   driver classes <seed>   table: one row per operator form x operand class combination (both float and
//                           double, every operator variant): the set of result class pairs observed over
//                           all representatives, their number and a checksum of the result bit patterns
//   driver extreme          cases {"t","q","u","n","m","k"} on stdin: evaluates (n * 2^m) / (u * 2^k) and
//                           prints both quotient parts as sign / exponent / mantissa limbs (variants vv vc rc; for a real
//                           dividend also scalar / complex: sv sk; for a real divisor also complex / scalar: vs vsc)
//   driver detail <float|double> <form> <a> <b> <c> <d> <seed>
//                           every representative of one class combination with the concrete results
//   driver exact            cases of specs/ComplexExact.tla on stdin ({"t","b","f","x","m","y","k","st"}): evaluates
//                           (x * 2^m) (op) (y * 2^k) in every operator variant (also mixed ieee flags and every scalar
//                           C++ type) and prints both parts of every result as sign / exponent / mantissa limbs
//   driver fn               cases of specs/ComplexFn.tla on stdin ({"t","b","fn","x","y"}): evaluates the function on
//                           value / T& / const T& closures and the same function of <complex> on std::complex<T>
//
// Classes of a component: nan pinf ninf pz nz pfin nfin.  Representatives of a finite class: 1, 2.5, a
// tiny normal, a huge normal and two seeded values from anywhere in the normal exponent range.
// Operator variants:  vv  value (op) value             vc  value (op)= value
//                     rk  T& closure (op) const T& closure     rc  T& closure (op)= value  (read the referents)
//                     kv  const T& closure (op) value
//                     vw  value<ieee> (op) value<!ieee>        wv  value<!ieee> (op) value<ieee>   (mixed flags)
//   driver acc              cases of specs/ComplexAcc.tla on stdin: general finite operands as sign / integer limbs / exponent
// -DDRV_PART=1 builds only the Annex G modes (classes, extreme, detail), -DDRV_PART=2 only exact, -DDRV_PART=3 only fn, 4 only acc (parallel
// compilation); without it everything is in one binary.
#include <xtl/xcomplex.hpp>
#include "vjson.hpp"
#include <iostream>
#include <cmath>
#include <limits>
#include <random>
#include <set>
#include <cstring>

#ifndef DRV_PART
#define DRV_PART 0
#endif
#define PART(n) (DRV_PART == 0 || DRV_PART == (n))

static const char* CN[7] = {"nan", "pinf", "ninf", "pz", "nz", "pfin", "nfin"};
static const char* FORMS[6] = {"mul", "div", "mulr", "rmul", "divr", "rdiv"};
static const char* VARS[7] = {"vv", "vc", "rk", "rc", "kv", "vw", "wv"};
static const int NV = 7;

template <class T> static int cls(T x)
{
    if (std::isnan(x)) return 0;
    if (std::isinf(x)) return x > 0 ? 1 : 2;
    if (x == 0) return std::signbit(x) ? 4 : 3;
    return x > 0 ? 5 : 6;
}
template <class T> static T make(int c, T f)
{
    const T inf = std::numeric_limits<T>::infinity();
    switch (c)
    {
    case 0: return std::numeric_limits<T>::quiet_NaN();
    case 1: return inf;
    case 2: return -inf;
    case 3: return T(0);
    case 4: return -T(0);
    case 5: return f;
    default: return -f;
    }
}
static int cls_index(const std::string& s)
{
    for (int i = 0; i < 7; ++i) if (s == CN[i]) return i;
    std::fprintf(stderr, "unknown class %s\n", s.c_str());
    std::exit(3);
}

template <class T> struct lim;
template <> struct lim<double> { static constexpr int emin = -1022, emax = 1023; static const char* name() { return "double"; } };
template <> struct lim<float> { static constexpr int emin = -126, emax = 127; static const char* name() { return "float"; } };

template <class T> static std::vector<T> reps(unsigned long long seed)
{
    std::vector<T> r = {T(1), T(2.5), std::ldexp(T(1.5), lim<T>::emin + 1), std::ldexp(T(1.5), lim<T>::emax - 1)};
    std::mt19937_64 g(seed * 0x9E3779B97F4A7C15ull + (sizeof(T) == 4 ? 17 : 29));
    for (int i = 0; i < 2; ++i)
    {
        int e = lim<T>::emin + int(g() % (unsigned)(lim<T>::emax - lim<T>::emin + 1));
        T m = T(1) + T(g() % 4096) / T(4096);      // [1, 2)
        r.push_back(std::ldexp(m, e));
    }
    return r;
}

// bit pattern of a component with NaNs canonicalised (the payload / sign of a NaN is not compared)
template <class T> static unsigned long long bits(T x)
{
    if (std::isnan(x)) return 0x7ff8dead00000000ull;
    unsigned long long u = 0;
    std::memcpy(&u, &x, sizeof(T));
    return u;
}
static unsigned long long mix(unsigned long long h, unsigned long long v)
{
    h ^= v + 0x9E3779B97F4A7C15ull + (h << 6) + (h >> 2);
    return h * 0xff51afd7ed558ccdull;
}

#if PART(1)
template <class T> struct acc
{
    unsigned long long seen = 0;      // bit (zr * 7 + zi)
    long long n = 0;
    unsigned long long sum = 0;
    void add(T re, T im)
    {
        seen |= 1ull << (cls(re) * 7 + cls(im));
        ++n;
        sum += mix(mix(0x1234, bits(re)), bits(im)) >> 34;    // 30-bit contributions
        sum &= 0x3fffffffull;
    }
    std::string json() const
    {
        std::string o = "{\"outs\":[";
        bool first = true;
        for (int i = 0; i < 49; ++i)
            if (seen & (1ull << i))
            {
                if (!first) o += ',';
                first = false;
                o += std::string("[\"") + CN[i / 7] + "\",\"" + CN[i % 7] + "\"]";
            }
        o += "],\"n\":" + std::to_string(n) + ",\"sum\":" + std::to_string((long long)sum) + "}";
        return o;
    }
};

template <class T>
struct evaluator
{
    using V = xtl::xcomplex<T, T, true>;
    using R = xtl::xcomplex<T&, T&, true>;
    using K = xtl::xcomplex<const T&, const T&, true>;
    using W = xtl::xcomplex<T, T, false>;     // the other flag: a mixed pair is evaluated with ieee1 || ieee2

    // every operator variant of one form on concrete operands; out[v] = (re, im), have[v]
    static void eval(int form, T a, T b, T c, T d, T (&re)[NV], T (&im)[NV], bool (&have)[NV])
    {
        for (int v = 0; v < NV; ++v) have[v] = false;
        auto put = [&](int v, T x, T y) { re[v] = x; im[v] = y; have[v] = true; };
        T a1 = a, b1 = b, c1 = c, d1 = d;      // referents of the closures
        R rx(a1, b1); K kx(a1, b1); K ky(c1, d1);
        V vx(a, b), vy(c, d);
        W wx(a, b), wy(c, d);
        const T s = c;                          // the real operand of the mixed forms
        switch (form)
        {
        case 0:
            { auto z = vx * vy; put(0, z.real(), z.imag()); }
            { V t(vx); t *= vy; put(1, t.real(), t.imag()); }
            { auto z = rx * ky; put(2, z.real(), z.imag()); }
            { auto z = kx * vy; put(4, z.real(), z.imag()); }
            { rx *= vy; put(3, a1, b1); }
            { auto z = vx * wy; put(5, z.real(), z.imag()); }
            { auto z = wx * vy; put(6, z.real(), z.imag()); }
            break;
        case 1:
            { auto z = vx / vy; put(0, z.real(), z.imag()); }
            { V t(vx); t /= vy; put(1, t.real(), t.imag()); }
            { auto z = rx / ky; put(2, z.real(), z.imag()); }
            { auto z = kx / vy; put(4, z.real(), z.imag()); }
            { rx /= vy; put(3, a1, b1); }
            { auto z = vx / wy; put(5, z.real(), z.imag()); }
            { auto z = wx / vy; put(6, z.real(), z.imag()); }
            break;
        case 2:
            { auto z = vx * s; put(0, z.real(), z.imag()); }
            { V t(vx); t *= s; put(1, t.real(), t.imag()); }
            { auto z = rx * s; put(2, z.real(), z.imag()); }
            { auto z = kx * s; put(4, z.real(), z.imag()); }
            { rx *= s; put(3, a1, b1); }
            break;
        case 3:
            { auto z = s * vx; put(0, z.real(), z.imag()); }
            { auto z = s * rx; put(2, z.real(), z.imag()); }
            { auto z = s * kx; put(4, z.real(), z.imag()); }
            break;
        case 4:
            { auto z = vx / s; put(0, z.real(), z.imag()); }
            { V t(vx); t /= s; put(1, t.real(), t.imag()); }
            { auto z = rx / s; put(2, z.real(), z.imag()); }
            { auto z = kx / s; put(4, z.real(), z.imag()); }
            { rx /= s; put(3, a1, b1); }
            break;
        case 5:
            { auto z = s / vx; put(0, z.real(), z.imag()); }
            { auto z = s / rx; put(2, z.real(), z.imag()); }
            { auto z = s / kx; put(4, z.real(), z.imag()); }
            break;
        }
    }

    // one table cell: all representatives of the class combination (a,b | c,d); mixed forms ignore d
    static std::string cell(int form, int a, int b, int c, int d, const std::vector<T>& F, bool detail)
    {
        acc<T> A[NV];
        const int nf = int(F.size());
        const bool mixed = form >= 2;
        auto cnt = [&](int k) { return k >= 5 ? nf : 1; };
        for (int i = 0; i < cnt(a); ++i) for (int j = 0; j < cnt(b); ++j)
        for (int k = 0; k < cnt(c); ++k) for (int l = 0; l < (mixed ? 1 : cnt(d)); ++l)
        {
            T x0 = make<T>(a, F[i]), x1 = make<T>(b, F[j]), y0 = make<T>(c, F[k]), y1 = mixed ? T(0) : make<T>(d, F[l]);
            T re[NV], im[NV]; bool have[NV];
            eval(form, x0, x1, y0, y1, re, im, have);
            for (int v = 0; v < NV; ++v) if (have[v]) A[v].add(re[v], im[v]);
            if (detail)
            {
                std::printf("  x=(%.17g,%.17g) y=(%.17g,%.17g)", (double)x0, (double)x1, (double)y0, (double)y1);
                for (int v = 0; v < NV; ++v) if (have[v]) std::printf("  %s=(%.17g,%.17g)[%s,%s]", VARS[v], (double)re[v], (double)im[v], CN[cls(re[v])], CN[cls(im[v])]);
                std::printf("\n");
            }
        }
        std::string o = "{";
        bool first = true;
        for (int v = 0; v < NV; ++v)
            if (A[v].n)
            {
                if (!first) o += ',';
                first = false;
                o += std::string("\"") + VARS[v] + "\":" + A[v].json();
            }
        return o + "}";
    }
};

static std::string pairs(int a, int b) { return std::string("[\"") + CN[a] + "\",\"" + CN[b] + "\"]"; }

template <class T> static std::string reps_json(const std::vector<T>& F)
{
    std::string o = "[";
    for (size_t i = 0; i < F.size(); ++i)
    {
        char b[64];
        std::snprintf(b, sizeof b, "%s\"%.17g\"", i ? "," : "", (double)F[i]);
        o += b;
    }
    return o + "]";
}

static int classes(unsigned long long seed)
{
    auto FD = reps<double>(seed);
    auto FF = reps<float>(seed);
    std::cout << "{\"_meta\":{\"seed\":" << seed << ",\"reps\":{\"double\":" << reps_json(FD) << ",\"float\":" << reps_json(FF) << "}}}\n";
    for (int f = 0; f < 6; ++f)
    {
        const bool mixed = f >= 2;
        for (int a = 0; a < 7; ++a) for (int b = 0; b < 7; ++b) for (int c = 0; c < 7; ++c) for (int d = 0; d < (mixed ? 1 : 7); ++d)
        {
            const int dd = mixed ? 3 : d;       // a real operand is (d, +0)
            std::cout << "{\"f\":\"" << FORMS[f] << "\",\"x\":" << pairs(a, b) << ",\"y\":" << pairs(c, dd)
                      << ",\"r\":{\"double\":" << evaluator<double>::cell(f, a, b, c, dd, FD, false)
                      << ",\"float\":" << evaluator<float>::cell(f, a, b, c, dd, FF, false) << "}}\n";
        }
    }
    return 0;
}

#endif
// ---------------------------------------------------------------- extreme divisors
template <class T> static std::string fp(T x)
{
    const int s = std::signbit(x) ? 1 : 0;
    if (std::isnan(x)) return "{\"k\":\"nan\",\"s\":" + std::to_string(s) + "}";
    if (std::isinf(x)) return "{\"k\":\"inf\",\"s\":" + std::to_string(s) + "}";
    if (x == 0) return "{\"k\":\"zero\",\"s\":" + std::to_string(s) + "}";
    int E = 0;
    T g = std::frexp(std::fabs(x), &E);          // g in [0.5, 1), exact also for subnormals
    long double fr = (long double)g * 2 - 1;     // [0, 1), exact
    unsigned long long F = (unsigned long long)std::ldexp(fr, 64);
    return "{\"k\":\"num\",\"s\":" + std::to_string(s) + ",\"e\":" + std::to_string(E - 1) + ",\"f\":[" +
           std::to_string((F >> 48) & 0xffff) + "," + std::to_string((F >> 32) & 0xffff) + "," +
           std::to_string((F >> 16) & 0xffff) + "," + std::to_string(F & 0xffff) + "]}";
}

#if PART(1)
template <class T> static std::string extreme_case(const vj::value& ev)
{
    using V = xtl::xcomplex<T, T, true>;
    using R = xtl::xcomplex<T&, T&, true>;
    using K = xtl::xcomplex<const T&, const T&, true>;
    auto n = ev.ints("n"); auto u = ev.ints("u");
    int m = int(ev.num("m")), k = int(ev.num("k"));
    T a = std::ldexp(T(n[0]), m), b = std::ldexp(T(n[1]), m), c = std::ldexp(T(u[0]), k), d = std::ldexp(T(u[1]), k);
    V x(a, b), y(c, d);
    auto z = x / y;
    V t(x); t /= y;
    T a1 = a, b1 = b; R rx(a1, b1); K ky(c, d);
    rx /= ky;
    std::string more;
    if (n[1] == 0)      // a real dividend: the mixed form scalar / complex (value and const T& closure divisor)
    {
        auto z1 = a / y; auto z2 = a / ky;
        more += ",\"sv\":[" + fp(z1.real()) + "," + fp(z1.imag()) + "],\"sk\":[" + fp(z2.real()) + "," + fp(z2.imag()) + "]";
    }
    if (u[1] == 0)      // a real divisor: the mixed form complex / scalar (binary and compound)
    {
        auto z1 = x / c; V t2(x); t2 /= c;
        more += ",\"vs\":[" + fp(z1.real()) + "," + fp(z1.imag()) + "],\"vsc\":[" + fp(t2.real()) + "," + fp(t2.imag()) + "]";
    }
    return "{\"vv\":[" + fp(z.real()) + "," + fp(z.imag()) + "],\"vc\":[" + fp(t.real()) + "," + fp(t.imag()) +
           "],\"rc\":[" + fp(a1) + "," + fp(b1) + "]" + more + "}";
}

static int extreme()
{
    std::string line;
    while (std::getline(std::cin, line))
    {
        if (line.empty()) continue;
        vj::value ev = vj::parse(line);
        std::string r = ev.str("t") == "float" ? extreme_case<float>(ev) : extreme_case<double>(ev);
        std::cout << line.substr(0, line.rfind('}')) << ",\"r\":" << r << "}\n";
    }
    return 0;
}

#endif
#if PART(2) || PART(3) || PART(4)
// ---------------------------------------------------------------- exact dyadic arithmetic (specs/ComplexExact.tla)

template <class T> static std::string fp2(T re, T im) { return "[" + fp(re) + "," + fp(im) + "]"; }

// results of the operator variants, variants with bit-identical results grouped (compression only):
//   [{"v":["vv","vc",...],"z":<result>}, ...]
struct grouped
{
    std::vector<std::pair<std::string, std::string>> g;      // (names json list body, result)
    void put(const char* v, const std::string& r)
    {
        for (auto& e : g) if (e.second == r) { e.first += std::string(",\"") + v + "\""; return; }
        g.push_back({std::string("\"") + v + "\"", r});
    }
    std::string json() const
    {
        std::string o = "[";
        for (size_t i = 0; i < g.size(); ++i) o += std::string(i ? "," : "") + "{\"v\":[" + g[i].first + "],\"z\":" + g[i].second + "}";
        return o + "]";
    }
};

#endif
#if PART(2) || PART(4)
template <class A, class Bt> static auto apply_op(int op, const A& a, const Bt& b)
{
    switch (op) { case 0: return a + b; case 1: return a - b; case 2: return a * b; default: return a / b; }
}
template <class A, class Bt> static void apply_cmp(int op, A& a, const Bt& b)
{
    switch (op) { case 0: a += b; break; case 1: a -= b; break; case 2: a *= b; break; default: a /= b; break; }
}
#endif
#if PART(2)
// the scalar operand y * 2^k as an object of the C++ type named st, handed to f
template <class T, class F> static void with_scalar(const std::string& st, long long y, int k, F&& f)
{
    if (st == "T") { const T s = std::ldexp(T(y), k); f(s); }
    else if (st == "int") { const int s = int(y * (1LL << k)); f(s); }
    else if (st == "long") { const long s = long(y * (1LL << k)); f(s); }
    else if (st == "float") { const float s = std::ldexp(float(y), k); f(s); }
    else if (st == "double") { const double s = std::ldexp(double(y), k); f(s); }
    else if (st == "ldouble") { const long double s = std::ldexp((long double)y, k); f(s); }
    else { std::fprintf(stderr, "unknown scalar type %s\n", st.c_str()); std::exit(3); }
}

template <class T, bool B> static std::string exact_case(const vj::value& ev)
{
    using V = xtl::xcomplex<T, T, B>;
    using W = xtl::xcomplex<T, T, !B>;
    using R = xtl::xcomplex<T&, T&, B>;
    using K = xtl::xcomplex<const T&, const T&, B>;
    const std::string& f = ev.str("f");
    auto x = ev.ints("x"); auto y = ev.ints("y");
    const int m = int(ev.num("m")), k = int(ev.num("k"));
    static const char* OPS[4] = {"add", "sub", "mul", "div"};
    int op = -1, shape = -1;      // shape 0: complex (op) complex, 1: complex (op) scalar, 2: scalar (op) complex
    for (int i = 0; i < 4; ++i)
    {
        if (f == OPS[i]) { op = i; shape = 0; }
        if (f == std::string(OPS[i]) + "s") { op = i; shape = 1; }
        if (f == std::string("s") + OPS[i]) { op = i; shape = 2; }
    }
    if (op < 0) { std::fprintf(stderr, "unknown form %s\n", f.c_str()); std::exit(3); }
    const T a = std::ldexp(T(x[0]), m), b = std::ldexp(T(x[1]), m);
    T a1 = a, b1 = b;                            // referents of the closures over the xcomplex operand
    V vx(a, b); W wx(a, b); R rx(a1, b1); K kx(a1, b1);
    grouped G;
    auto put = [&G](const char* v, const std::string& r) { G.put(v, r); };
    if (shape == 0)
    {
        const T c = std::ldexp(T(y[0]), k), d = std::ldexp(T(y[1]), k);
        T c1 = c, d1 = d;
        V vy(c, d); W wy(c, d); K ky(c1, d1);
        { auto z = apply_op(op, vx, vy); put("vv", fp2(z.real(), z.imag())); }
        { V t(vx); apply_cmp(op, t, vy); put("vc", fp2(t.real(), t.imag())); }
        { auto z = apply_op(op, rx, ky); put("rk", fp2(z.real(), z.imag())); }
        { auto z = apply_op(op, kx, vy); put("kv", fp2(z.real(), z.imag())); }
        { auto z = apply_op(op, vx, wy); put("vw", fp2(z.real(), z.imag())); }
        { auto z = apply_op(op, wx, vy); put("wv", fp2(z.real(), z.imag())); }
        { W t(wx); apply_cmp(op, t, ky); put("wc", fp2(t.real(), t.imag())); }
        { apply_cmp(op, rx, vy); put("rc", fp2(a1, b1)); }
    }
    else
    {
        with_scalar<T>(ev.str("st"), y[0], k, [&](const auto& s) {
            if (shape == 1)
            {
                { auto z = apply_op(op, vx, s); put("vv", fp2(z.real(), z.imag())); }
                { V t(vx); apply_cmp(op, t, s); put("vc", fp2(t.real(), t.imag())); }
                { auto z = apply_op(op, rx, s); put("rk", fp2(z.real(), z.imag())); }
                { auto z = apply_op(op, kx, s); put("kv", fp2(z.real(), z.imag())); }
                { auto z = apply_op(op, wx, s); put("wv", fp2(z.real(), z.imag())); }
                { apply_cmp(op, rx, s); put("rc", fp2(a1, b1)); }
            }
            else
            {
                { auto z = apply_op(op, s, vx); put("vv", fp2(z.real(), z.imag())); }
                { auto z = apply_op(op, s, rx); put("rk", fp2(z.real(), z.imag())); }
                { auto z = apply_op(op, s, kx); put("kv", fp2(z.real(), z.imag())); }
                { auto z = apply_op(op, s, wx); put("wv", fp2(z.real(), z.imag())); }
            }
        });
    }
    return G.json();
}

#endif
#if PART(2) || PART(3) || PART(4)
template <class F> static int table_mode(F&& row)
{
    std::string line;
    while (std::getline(std::cin, line))
    {
        if (line.empty()) continue;
        vj::value ev = vj::parse(line);
        std::string r = row(ev);
        std::string out = line.substr(0, line.rfind('}')) + r + "}\n";
        std::fwrite(out.data(), 1, out.size(), stdout);      // C stdio: the crash handlers fflush(stdout)
    }
    std::fflush(stdout);
    return 0;
}

#endif
#if PART(2)
static std::string exact_row(const vj::value& ev)
{
    const std::string& t = ev.str("t");
    const bool b = ev.at("b").b;
    std::string r;
    if (t == "float") r = b ? exact_case<float, true>(ev) : exact_case<float, false>(ev);
    else if (t == "double") r = b ? exact_case<double, true>(ev) : exact_case<double, false>(ev);
    else if (t == "ldouble") r = b ? exact_case<long double, true>(ev) : exact_case<long double, false>(ev);
    else { std::fprintf(stderr, "unknown type %s\n", t.c_str()); std::exit(3); }
    return ",\"r\":" + r;
}

#endif
#if PART(4)
// ---------------------------------------------------------------- general finite operands (specs/ComplexAcc.tla)
// A number is {"k":"num","s":sign,"n":[base-4096 limbs of the odd integer N, least significant first],"e":e} = (-1)^s N 2^e,
// or {"k":"zero"|"inf"|"nan","s":sign,"n":[0],"e":0}.  The harness builds the operands from these records, prints them back
// ("in": what it built) and prints every result in the same form; it computes nothing else.
static long double num_of(const vj::value& d)
{
    const std::string& k = d.str("k");
    const bool neg = d.num("s") != 0;
    if (k == "zero") return neg ? -0.0L : 0.0L;
    if (k != "num") { std::fprintf(stderr, "operand kind %s\n", k.c_str()); std::exit(3); }
    unsigned long long N = 0;
    const auto& a = d.at("n").a;
    if (a.size() > 6) { std::fprintf(stderr, "too many limbs\n"); std::exit(3); }
    for (size_t i = a.size(); i-- > 0;) N = (N << 12) | (unsigned long long)a[i].i;
    long double v = std::ldexp((long double)N, int(d.num("e")));      // exact: N < 2^64
    return neg ? -v : v;
}
static std::string num_json(long double x)
{
    const int s = std::signbit(x) ? 1 : 0;
    if (std::isnan(x)) return "{\"k\":\"nan\",\"s\":0,\"n\":[0],\"e\":0}";
    if (std::isinf(x)) return "{\"k\":\"inf\",\"s\":" + std::to_string(s) + ",\"n\":[0],\"e\":0}";
    if (x == 0) return "{\"k\":\"zero\",\"s\":" + std::to_string(s) + ",\"n\":[0],\"e\":0}";
    int E = 0;
    long double g = std::frexp(std::fabs(x), &E);                     // [0.5, 1)
    unsigned long long N = (unsigned long long)std::ldexp(g, 64);     // exact
    int e = E - 64;
    while ((N & 1) == 0) { N >>= 1; ++e; }
    std::string o = "{\"k\":\"num\",\"s\":" + std::to_string(s) + ",\"n\":[";
    bool first = true;
    while (N) { o += (first ? "" : ",") + std::to_string(N & 4095); N >>= 12; first = false; }
    return o + "],\"e\":" + std::to_string(e) + "}";
}
template <class T> static std::string num2(T re, T im) { return "[" + num_json((long double)re) + "," + num_json((long double)im) + "]"; }

template <class T, class F> static void with_scalar_value(const std::string& st, long double v, F&& f)
{
    if (st == "T") { const T s = T(v); f(s); }
    else if (st == "int") { const int s = int(v); f(s); }
    else if (st == "long") { const long s = long(v); f(s); }
    else if (st == "float") { const float s = float(v); f(s); }
    else if (st == "double") { const double s = double(v); f(s); }
    else if (st == "ldouble") { const long double s = v; f(s); }
    else { std::fprintf(stderr, "unknown scalar type %s\n", st.c_str()); std::exit(3); }
}

template <class T, bool B> static std::string acc_case(const vj::value& ev)
{
    using V = xtl::xcomplex<T, T, B>;
    using W = xtl::xcomplex<T, T, !B>;
    using R = xtl::xcomplex<T&, T&, B>;
    using K = xtl::xcomplex<const T&, const T&, B>;
    const std::string& f = ev.str("f");
    static const char* OPS[4] = {"add", "sub", "mul", "div"};
    int op = -1, shape = -1;
    for (int i = 0; i < 4; ++i)
    {
        if (f == OPS[i]) { op = i; shape = 0; }
        if (f == std::string(OPS[i]) + "s") { op = i; shape = 1; }
        if (f == std::string("s") + OPS[i]) { op = i; shape = 2; }
    }
    if (op < 0) { std::fprintf(stderr, "unknown form %s\n", f.c_str()); std::exit(3); }
    const T a = T(num_of(ev.at("x").a[0])), b = T(num_of(ev.at("x").a[1]));
    T a1 = a, b1 = b;
    V vx(a, b); W wx(a, b); R rx(a1, b1); K kx(a1, b1);
    grouped G;
    auto put = [&G](const char* v, const std::string& r) { G.put(v, r); };
    std::string in = "[" + num2(a, b) + ",";
    if (shape == 0)
    {
        const T c = T(num_of(ev.at("y").a[0])), d = T(num_of(ev.at("y").a[1]));
        T c1 = c, d1 = d;
        in += num2(c, d) + "]";
        V vy(c, d); W wy(c, d); K ky(c1, d1);
        { auto z = apply_op(op, vx, vy); put("vv", num2(z.real(), z.imag())); }
        { V t(vx); apply_cmp(op, t, vy); put("vc", num2(t.real(), t.imag())); }
        { auto z = apply_op(op, rx, ky); put("rk", num2(z.real(), z.imag())); }
        { auto z = apply_op(op, kx, vy); put("kv", num2(z.real(), z.imag())); }
        { auto z = apply_op(op, vx, wy); put("vw", num2(z.real(), z.imag())); }
        { auto z = apply_op(op, wx, vy); put("wv", num2(z.real(), z.imag())); }
        { W t(wx); apply_cmp(op, t, ky); put("wc", num2(t.real(), t.imag())); }
        { apply_cmp(op, rx, vy); put("rc", num2(a1, b1)); }
    }
    else
    {
        with_scalar_value<T>(ev.str("st"), num_of(ev.at("y").a[0]), [&](const auto& s) {
            in += "[" + num_json((long double)s) + "," + num_json(0.0L) + "]]";
            if (shape == 1)
            {
                { auto z = apply_op(op, vx, s); put("vv", num2(z.real(), z.imag())); }
                { V t(vx); apply_cmp(op, t, s); put("vc", num2(t.real(), t.imag())); }
                { auto z = apply_op(op, rx, s); put("rk", num2(z.real(), z.imag())); }
                { auto z = apply_op(op, kx, s); put("kv", num2(z.real(), z.imag())); }
                { auto z = apply_op(op, wx, s); put("wv", num2(z.real(), z.imag())); }
                { apply_cmp(op, rx, s); put("rc", num2(a1, b1)); }
            }
            else
            {
                { auto z = apply_op(op, s, vx); put("vv", num2(z.real(), z.imag())); }
                { auto z = apply_op(op, s, rx); put("rk", num2(z.real(), z.imag())); }
                { auto z = apply_op(op, s, kx); put("kv", num2(z.real(), z.imag())); }
                { auto z = apply_op(op, s, wx); put("wv", num2(z.real(), z.imag())); }
            }
        });
    }
    return ",\"in\":" + in + ",\"r\":" + G.json();
}
static std::string acc_row(const vj::value& ev)
{
    const std::string& t = ev.str("t");
    const bool b = ev.at("b").b;
    if (t == "float") return b ? acc_case<float, true>(ev) : acc_case<float, false>(ev);
    if (t == "double") return b ? acc_case<double, true>(ev) : acc_case<double, false>(ev);
    std::fprintf(stderr, "unknown type %s\n", t.c_str());
    std::exit(3);
}
#endif
#if PART(3)
// ---------------------------------------------------------------- functions equal to std::complex's (specs/ComplexFn.tla)
template <class T> static T comp_of(const vj::value& d)
{
    const std::string& k = d.str("k");
    const long long n = d.num("n");
    if (k == "nan") return std::numeric_limits<T>::quiet_NaN();
    if (k == "inf") return n ? -std::numeric_limits<T>::infinity() : std::numeric_limits<T>::infinity();
    if (k == "zero") return n ? -T(0) : T(0);
    return std::ldexp(T(n), int(d.num("e")));
}
template <class T> static std::string res_c(const std::complex<T>& z) { return "[" + fp(z.real()) + "," + fp(z.imag()) + "]"; }
template <class T> static std::string res_r(T x) { return "[" + fp(x) + "]"; }
static std::string res_b(bool b) { return b ? "[true]" : "[false]"; }

// the call on an xcomplex of closure kind X (x) with second operand y / scalar sc / integer n
template <class T, class X, class Y> static std::string fn_xtl(const std::string& fn, const X& x, const Y& y, T sc, int n)
{
    using S = std::complex<T>;
#define FN_C(name) if (fn == #name) return res_c<T>(S(name(x)));
#define FN_R(name) if (fn == #name) return res_r<T>(name(x));
    FN_C(conj) FN_C(proj) FN_C(exp) FN_C(log) FN_C(log10) FN_C(sqrt) FN_C(sin) FN_C(cos) FN_C(tan) FN_C(asin) FN_C(acos) FN_C(atan)
    FN_C(sinh) FN_C(cosh) FN_C(tanh) FN_C(asinh) FN_C(acosh) FN_C(atanh)
    FN_R(abs) FN_R(arg) FN_R(norm)
#undef FN_C
#undef FN_R
    if (fn == "neg") return res_c<T>(S(-x));
    if (fn == "pos") return res_c<T>(S(+x));
    if (fn == "real") return res_r<T>(x.real());
    if (fn == "imag") return res_r<T>(xtl::imag(x));
    if (fn == "rreal") { X t(x); return res_r<T>(xtl::real(std::move(t))); }
    if (fn == "rimag") { X t(x); return res_r<T>(std::move(t).imag()); }
    if (fn == "eq") return res_b(x == y);
    if (fn == "ne") return res_b(x != y);
    if (fn == "pow_cc") return res_c<T>(S(pow(x, y)));
    if (fn == "pow_cs") return res_c<T>(S(pow(x, sc)));
    if (fn == "pow_sc") return res_c<T>(S(pow(sc, x)));
    if (fn == "pow_ci") return res_c<T>(S(pow(x, n)));
    std::fprintf(stderr, "unknown function %s\n", fn.c_str());
    std::exit(3);
}
template <class T> static std::string fn_std(const std::string& fn, const std::complex<T>& x, const std::complex<T>& y, T sc, int n)
{
#define FN_C(name) if (fn == #name) return res_c<T>(std::name(x));
#define FN_R(name) if (fn == #name) return res_r<T>(std::name(x));
    FN_C(conj) FN_C(proj) FN_C(exp) FN_C(log) FN_C(log10) FN_C(sqrt) FN_C(sin) FN_C(cos) FN_C(tan) FN_C(asin) FN_C(acos) FN_C(atan)
    FN_C(sinh) FN_C(cosh) FN_C(tanh) FN_C(asinh) FN_C(acosh) FN_C(atanh)
    FN_R(abs) FN_R(arg) FN_R(norm)
#undef FN_C
#undef FN_R
    if (fn == "neg") return res_c<T>(-x);
    if (fn == "pos") return res_c<T>(+x);
    if (fn == "real" || fn == "rreal") return res_r<T>(x.real());
    if (fn == "imag" || fn == "rimag") return res_r<T>(x.imag());
    if (fn == "eq") return res_b(x == y);
    if (fn == "ne") return res_b(x != y);
    if (fn == "pow_cc") return res_c<T>(std::pow(x, y));
    if (fn == "pow_cs") return res_c<T>(std::pow(x, sc));
    if (fn == "pow_sc") return res_c<T>(std::pow(sc, x));
    if (fn == "pow_ci") return res_c<T>(std::pow(x, n));
    std::fprintf(stderr, "unknown function %s\n", fn.c_str());
    std::exit(3);
}

template <class T, bool B> static std::string fn_case(const vj::value& ev)
{
    using V = xtl::xcomplex<T, T, B>;
    using R = xtl::xcomplex<T&, T&, B>;
    using K = xtl::xcomplex<const T&, const T&, B>;
    const std::string& fn = ev.str("fn");
    const T a = comp_of<T>(ev.at("x").a[0]), b = comp_of<T>(ev.at("x").a[1]);
    const T c = comp_of<T>(ev.at("y").a[0]), d = comp_of<T>(ev.at("y").a[1]);
    T a1 = a, b1 = b, a2 = a, b2 = b, c1 = c, d1 = d, c2 = c, d2 = d;
    const V vx(a, b), vy(c, d); const R rx(a1, b1), ry(c1, d1); const K kx(a2, b2), ky(c2, d2);
    const int n = (c == c && std::fabs(c) < T(1000)) ? int(c) : 0;
    grouped G;
    G.put("val", fn_xtl<T>(fn, vx, ky, c, n)); G.put("ref", fn_xtl<T>(fn, rx, vy, c, n)); G.put("cref", fn_xtl<T>(fn, kx, ry, c, n));
    return ",\"r\":" + G.json() + ",\"std\":" + fn_std<T>(fn, std::complex<T>(a, b), std::complex<T>(c, d), c, n);
}
static std::string fn_row(const vj::value& ev)
{
    const std::string& t = ev.str("t");
    const bool b = ev.at("b").b;
    if (t == "float") return b ? fn_case<float, true>(ev) : fn_case<float, false>(ev);
    if (t == "double") return b ? fn_case<double, true>(ev) : fn_case<double, false>(ev);
    if (t == "ldouble") return b ? fn_case<long double, true>(ev) : fn_case<long double, false>(ev);
    std::fprintf(stderr, "unknown type %s\n", t.c_str());
    std::exit(3);
}
#endif

int main(int argc, char** argv)
{
    vj::install_crash_handlers();
    std::string mode = argc > 1 ? argv[1] : "";
#if PART(2)
    if (mode == "exact") return table_mode(exact_row);
#endif
#if PART(3)
    if (mode == "fn") return table_mode(fn_row);
#endif
#if PART(4)
    if (mode == "acc") return table_mode(acc_row);
#endif
#if PART(1)
    if (mode == "classes" && argc >= 3) return classes(std::strtoull(argv[2], nullptr, 10));
    if (mode == "extreme") return extreme();
    if (mode == "detail" && argc >= 9)
    {
        std::string t = argv[2], f = argv[3];
        int fi = -1;
        for (int i = 0; i < 6; ++i) if (f == FORMS[i]) fi = i;
        if (fi < 0) { std::fprintf(stderr, "unknown form %s\n", f.c_str()); return 3; }
        int a = cls_index(argv[4]), b = cls_index(argv[5]), c = cls_index(argv[6]), d = cls_index(argv[7]);
        unsigned long long seed = std::strtoull(argv[8], nullptr, 10);
        if (t == "float") evaluator<float>::cell(fi, a, b, c, d, reps<float>(seed), true);
        else evaluator<double>::cell(fi, a, b, c, d, reps<double>(seed), true);
        return 0;
    }
#endif
    std::fprintf(stderr, "usage: driver classes <seed> | extreme | detail <float|double> <form> a b c d <seed>\n");
    return 3;
}

// C10 conformance harness (Annex G): evaluates the real xtl::xcomplex<..., true> multiplication and
// division on representatives of every operand class combination and prints what it observed.
// It contains no oracle: it instantiates, executes, classifies and prints.
//
//   driver classes <seed>   table: one row per operator form x operand class combination (both float and
//                           double, every operator variant): the set of result class pairs observed over
//                           all representatives, their number and a checksum of the result bit patterns
//   driver extreme          cases {"t","q","u","n","m","k"} on stdin: evaluates (n * 2^m) / (u * 2^k) and
//                           prints both quotient parts as sign / exponent / mantissa limbs
//   driver detail <float|double> <form> <a> <b> <c> <d> <seed>
//                           every representative of one class combination with the concrete results
//
// Classes of a component: nan pinf ninf pz nz pfin nfin.  Representatives of a finite class: 1, 2.5, a
// tiny normal, a huge normal and two seeded values from anywhere in the normal exponent range.
// Operator variants:  vv  value (op) value             vc  value (op)= value
//                     rk  T& closure (op) const T& closure     rc  T& closure (op)= value  (read the referents)
//                     kv  const T& closure (op) value
#include <xtl/xcomplex.hpp>
#include "vjson.hpp"
#include <iostream>
#include <cmath>
#include <limits>
#include <random>
#include <set>
#include <cstring>

static const char* CN[7] = {"nan", "pinf", "ninf", "pz", "nz", "pfin", "nfin"};
static const char* FORMS[6] = {"mul", "div", "mulr", "rmul", "divr", "rdiv"};
static const char* VARS[5] = {"vv", "vc", "rk", "rc", "kv"};

template <class T> static int cls(T x)
{
    if (std::isnan(x)) return 0;
    if (std::isinf(x)) return x > 0 ? 1 : 2;
    if (x == 0) return std::signbit(x) ? 4 : 3;
    return x > 0 ? 5 : 6;
}
template <class T> static T make(int c, T f)
{
    const T inf = std::numeric_limits<T>::infinity();
    switch (c)
    {
    case 0: return std::numeric_limits<T>::quiet_NaN();
    case 1: return inf;
    case 2: return -inf;
    case 3: return T(0);
    case 4: return -T(0);
    case 5: return f;
    default: return -f;
    }
}
static int cls_index(const std::string& s)
{
    for (int i = 0; i < 7; ++i) if (s == CN[i]) return i;
    std::fprintf(stderr, "unknown class %s\n", s.c_str());
    std::exit(3);
}

template <class T> struct lim;
template <> struct lim<double> { static constexpr int emin = -1022, emax = 1023; static const char* name() { return "double"; } };
template <> struct lim<float> { static constexpr int emin = -126, emax = 127; static const char* name() { return "float"; } };

template <class T> static std::vector<T> reps(unsigned long long seed)
{
    std::vector<T> r = {T(1), T(2.5), std::ldexp(T(1.5), lim<T>::emin + 1), std::ldexp(T(1.5), lim<T>::emax - 1)};
    std::mt19937_64 g(seed * 0x9E3779B97F4A7C15ull + (sizeof(T) == 4 ? 17 : 29));
    for (int i = 0; i < 2; ++i)
    {
        int e = lim<T>::emin + int(g() % (unsigned)(lim<T>::emax - lim<T>::emin + 1));
        T m = T(1) + T(g() % 4096) / T(4096);      // [1, 2)
        r.push_back(std::ldexp(m, e));
    }
    return r;
}

// bit pattern of a component with NaNs canonicalised (the payload / sign of a NaN is not compared)
template <class T> static unsigned long long bits(T x)
{
    if (std::isnan(x)) return 0x7ff8dead00000000ull;
    unsigned long long u = 0;
    std::memcpy(&u, &x, sizeof(T));
    return u;
}
static unsigned long long mix(unsigned long long h, unsigned long long v)
{
    h ^= v + 0x9E3779B97F4A7C15ull + (h << 6) + (h >> 2);
    return h * 0xff51afd7ed558ccdull;
}

template <class T> struct acc
{
    unsigned long long seen = 0;      // bit (zr * 7 + zi)
    long long n = 0;
    unsigned long long sum = 0;
    void add(T re, T im)
    {
        seen |= 1ull << (cls(re) * 7 + cls(im));
        ++n;
        sum += mix(mix(0x1234, bits(re)), bits(im)) >> 34;    // 30-bit contributions
        sum &= 0x3fffffffull;
    }
    std::string json() const
    {
        std::string o = "{\"outs\":[";
        bool first = true;
        for (int i = 0; i < 49; ++i)
            if (seen & (1ull << i))
            {
                if (!first) o += ',';
                first = false;
                o += std::string("[\"") + CN[i / 7] + "\",\"" + CN[i % 7] + "\"]";
            }
        o += "],\"n\":" + std::to_string(n) + ",\"sum\":" + std::to_string((long long)sum) + "}";
        return o;
    }
};

template <class T>
struct evaluator
{
    using V = xtl::xcomplex<T, T, true>;
    using R = xtl::xcomplex<T&, T&, true>;
    using K = xtl::xcomplex<const T&, const T&, true>;

    // every operator variant of one form on concrete operands; out[v] = (re, im), have[v]
    static void eval(int form, T a, T b, T c, T d, T (&re)[5], T (&im)[5], bool (&have)[5])
    {
        for (int v = 0; v < 5; ++v) have[v] = false;
        auto put = [&](int v, T x, T y) { re[v] = x; im[v] = y; have[v] = true; };
        T a1 = a, b1 = b, c1 = c, d1 = d;      // referents of the closures
        R rx(a1, b1); K kx(a1, b1); K ky(c1, d1);
        V vx(a, b), vy(c, d);
        const T s = c;                          // the real operand of the mixed forms
        switch (form)
        {
        case 0:
            { auto z = vx * vy; put(0, z.real(), z.imag()); }
            { V t(vx); t *= vy; put(1, t.real(), t.imag()); }
            { auto z = rx * ky; put(2, z.real(), z.imag()); }
            { auto z = kx * vy; put(4, z.real(), z.imag()); }
            { rx *= vy; put(3, a1, b1); }
            break;
        case 1:
            { auto z = vx / vy; put(0, z.real(), z.imag()); }
            { V t(vx); t /= vy; put(1, t.real(), t.imag()); }
            { auto z = rx / ky; put(2, z.real(), z.imag()); }
            { auto z = kx / vy; put(4, z.real(), z.imag()); }
            { rx /= vy; put(3, a1, b1); }
            break;
        case 2:
            { auto z = vx * s; put(0, z.real(), z.imag()); }
            { V t(vx); t *= s; put(1, t.real(), t.imag()); }
            { auto z = rx * s; put(2, z.real(), z.imag()); }
            { auto z = kx * s; put(4, z.real(), z.imag()); }
            { rx *= s; put(3, a1, b1); }
            break;
        case 3:
            { auto z = s * vx; put(0, z.real(), z.imag()); }
            { auto z = s * rx; put(2, z.real(), z.imag()); }
            { auto z = s * kx; put(4, z.real(), z.imag()); }
            break;
        case 4:
            { auto z = vx / s; put(0, z.real(), z.imag()); }
            { V t(vx); t /= s; put(1, t.real(), t.imag()); }
            { auto z = rx / s; put(2, z.real(), z.imag()); }
            { auto z = kx / s; put(4, z.real(), z.imag()); }
            { rx /= s; put(3, a1, b1); }
            break;
        case 5:
            { auto z = s / vx; put(0, z.real(), z.imag()); }
            { auto z = s / rx; put(2, z.real(), z.imag()); }
            { auto z = s / kx; put(4, z.real(), z.imag()); }
            break;
        }
    }

    // one table cell: all representatives of the class combination (a,b | c,d); mixed forms ignore d
    static std::string cell(int form, int a, int b, int c, int d, const std::vector<T>& F, bool detail)
    {
        acc<T> A[5];
        const int nf = int(F.size());
        const bool mixed = form >= 2;
        auto cnt = [&](int k) { return k >= 5 ? nf : 1; };
        for (int i = 0; i < cnt(a); ++i) for (int j = 0; j < cnt(b); ++j)
        for (int k = 0; k < cnt(c); ++k) for (int l = 0; l < (mixed ? 1 : cnt(d)); ++l)
        {
            T x0 = make<T>(a, F[i]), x1 = make<T>(b, F[j]), y0 = make<T>(c, F[k]), y1 = mixed ? T(0) : make<T>(d, F[l]);
            T re[5], im[5]; bool have[5];
            eval(form, x0, x1, y0, y1, re, im, have);
            for (int v = 0; v < 5; ++v) if (have[v]) A[v].add(re[v], im[v]);
            if (detail)
            {
                std::printf("  x=(%.17g,%.17g) y=(%.17g,%.17g)", (double)x0, (double)x1, (double)y0, (double)y1);
                for (int v = 0; v < 5; ++v) if (have[v]) std::printf("  %s=(%.17g,%.17g)[%s,%s]", VARS[v], (double)re[v], (double)im[v], CN[cls(re[v])], CN[cls(im[v])]);
                std::printf("\n");
            }
        }
        std::string o = "{";
        bool first = true;
        for (int v = 0; v < 5; ++v)
            if (A[v].n)
            {
                if (!first) o += ',';
                first = false;
                o += std::string("\"") + VARS[v] + "\":" + A[v].json();
            }
        return o + "}";
    }
};

static std::string pairs(int a, int b) { return std::string("[\"") + CN[a] + "\",\"" + CN[b] + "\"]"; }

template <class T> static std::string reps_json(const std::vector<T>& F)
{
    std::string o = "[";
    for (size_t i = 0; i < F.size(); ++i)
    {
        char b[64];
        std::snprintf(b, sizeof b, "%s\"%.17g\"", i ? "," : "", (double)F[i]);
        o += b;
    }
    return o + "]";
}

static int classes(unsigned long long seed)
{
    auto FD = reps<double>(seed);
    auto FF = reps<float>(seed);
    std::cout << "{\"_meta\":{\"seed\":" << seed << ",\"reps\":{\"double\":" << reps_json(FD) << ",\"float\":" << reps_json(FF) << "}}}\n";
    for (int f = 0; f < 6; ++f)
    {
        const bool mixed = f >= 2;
        for (int a = 0; a < 7; ++a) for (int b = 0; b < 7; ++b) for (int c = 0; c < 7; ++c) for (int d = 0; d < (mixed ? 1 : 7); ++d)
        {
            const int dd = mixed ? 3 : d;       // a real operand is (d, +0)
            std::cout << "{\"f\":\"" << FORMS[f] << "\",\"x\":" << pairs(a, b) << ",\"y\":" << pairs(c, dd)
                      << ",\"r\":{\"double\":" << evaluator<double>::cell(f, a, b, c, dd, FD, false)
                      << ",\"float\":" << evaluator<float>::cell(f, a, b, c, dd, FF, false) << "}}\n";
        }
    }
    return 0;
}

// ---------------------------------------------------------------- extreme divisors
template <class T> static std::string fp(T x)
{
    const int s = std::signbit(x) ? 1 : 0;
    if (std::isnan(x)) return "{\"k\":\"nan\",\"s\":" + std::to_string(s) + "}";
    if (std::isinf(x)) return "{\"k\":\"inf\",\"s\":" + std::to_string(s) + "}";
    if (x == 0) return "{\"k\":\"zero\",\"s\":" + std::to_string(s) + "}";
    int E = 0;
    T g = std::frexp(std::fabs(x), &E);          // g in [0.5, 1), exact also for subnormals
    long double fr = (long double)g * 2 - 1;     // [0, 1), exact
    unsigned long long F = (unsigned long long)std::ldexp(fr, 64);
    return "{\"k\":\"num\",\"s\":" + std::to_string(s) + ",\"e\":" + std::to_string(E - 1) + ",\"f\":[" +
           std::to_string((F >> 48) & 0xffff) + "," + std::to_string((F >> 32) & 0xffff) + "," +
           std::to_string((F >> 16) & 0xffff) + "," + std::to_string(F & 0xffff) + "]}";
}

template <class T> static std::string extreme_case(const vj::value& ev)
{
    using V = xtl::xcomplex<T, T, true>;
    using R = xtl::xcomplex<T&, T&, true>;
    using K = xtl::xcomplex<const T&, const T&, true>;
    auto n = ev.ints("n"); auto u = ev.ints("u");
    int m = int(ev.num("m")), k = int(ev.num("k"));
    T a = std::ldexp(T(n[0]), m), b = std::ldexp(T(n[1]), m), c = std::ldexp(T(u[0]), k), d = std::ldexp(T(u[1]), k);
    V x(a, b), y(c, d);
    auto z = x / y;
    V t(x); t /= y;
    T a1 = a, b1 = b; R rx(a1, b1); K ky(c, d);
    rx /= ky;
    return "{\"vv\":[" + fp(z.real()) + "," + fp(z.imag()) + "],\"vc\":[" + fp(t.real()) + "," + fp(t.imag()) +
           "],\"rc\":[" + fp(a1) + "," + fp(b1) + "]}";
}

static int extreme()
{
    std::string line;
    while (std::getline(std::cin, line))
    {
        if (line.empty()) continue;
        vj::value ev = vj::parse(line);
        std::string r = ev.str("t") == "float" ? extreme_case<float>(ev) : extreme_case<double>(ev);
        std::cout << line.substr(0, line.rfind('}')) << ",\"r\":" << r << "}\n";
    }
    return 0;
}

int main(int argc, char** argv)
{
    vj::install_crash_handlers();
    std::ios::sync_with_stdio(false);
    std::string mode = argc > 1 ? argv[1] : "";
    if (mode == "classes" && argc >= 3) return classes(std::strtoull(argv[2], nullptr, 10));
    if (mode == "extreme") return extreme();
    if (mode == "detail" && argc >= 9)
    {
        std::string t = argv[2], f = argv[3];
        int fi = -1;
        for (int i = 0; i < 6; ++i) if (f == FORMS[i]) fi = i;
        if (fi < 0) { std::fprintf(stderr, "unknown form %s\n", f.c_str()); return 3; }
        int a = cls_index(argv[4]), b = cls_index(argv[5]), c = cls_index(argv[6]), d = cls_index(argv[7]);
        unsigned long long seed = std::strtoull(argv[8], nullptr, 10);
        if (t == "float") evaluator<float>::cell(fi, a, b, c, d, reps<float>(seed), true);
        else evaluator<double>::cell(fi, a, b, c, d, reps<double>(seed), true);
        return 0;
    }
    std::fprintf(stderr, "usage: driver classes <seed> | extreme | detail <float|double> <form> a b c d <seed>\n");
    return 3;
}

// C10 conformance harness (register machine): interprets a script of operations (ndjson on stdin)
// on real xtl::xcomplex objects of every closure kind, a std::complex and a real scalar, and writes,
// after every call, the call's result and the full observable projection.  It contains no oracle.
//
//   machine <float|double|ldouble> <0|1>     (T, ieee_compliant B)
//
// A call that crashes (sanitizer report, signal) or does not return within 2 s of CPU time ends the trace with a
// {"op":"Crash"} event that no specification action matches; checks/c10.py restarts the machine at the next execution.
//
// Registers (see specs/Complex.tla):
//   v1, v2 : xcomplex<T,T,B>   w : xcomplex<T,T,!B>   r1, r2 : xcomplex<T&,T&,B> over (p1,q1), (p2,q2)
//   k1 : xcomplex<const T&,const T&,B> over (p1,q1)   s : std::complex<T>   d : T
#include <xtl/xcomplex.hpp>
#include "vjson.hpp"
#include <iostream>
#include <cmath>
#include <memory>
#include <new>
#include <sstream>
#include <cstring>
#include <csignal>
#include <sys/time.h>
#include <unistd.h>

// a T as the integer it holds; anything else becomes a sentinel no specification value equals
template <class T> static long long num(T x)
{
    if (std::isnan(x)) return 1073741822LL;
    if (std::isinf(x)) return 1073741821LL;
    if (std::fabs(x) >= T(1073741000)) return 1073741820LL;
    if (x != std::trunc(x)) return 1073741823LL;
    return (long long)x;
}
template <class Z> static std::string pair_of(const Z& z)
{
    return "[" + std::to_string(num(z.real())) + "," + std::to_string(num(z.imag())) + "]";
}
static std::string note;   // free-text remark about a non-integer value (not compared)
template <class Z> static void remark(const Z& z)
{
    if (num(z.real()) > 1073741000LL || num(z.imag()) > 1073741000LL)
    {
        char b[96];
        std::snprintf(b, sizeof b, "(%.17g,%.17g)", (double)z.real(), (double)z.imag());
        note = b;
    }
}

// bit pattern of a value as 16-bit limbs (NaNs canonicalised: payload and sign of a NaN are not compared)
static std::string limbs4(unsigned long long u)
{
    return std::to_string((u >> 48) & 0xffff) + "," + std::to_string((u >> 32) & 0xffff) + "," + std::to_string((u >> 16) & 0xffff) + "," + std::to_string(u & 0xffff);
}
template <class T> static std::string limbs_of(T x)
{
    unsigned long long u = 0;
    if (std::isnan(x)) u = 0x7ff8dead00000000ull; else std::memcpy(&u, &x, sizeof(T));
    return limbs4(u);
}
// x87 extended: 64-bit significand + sign/exponent word (the padding bytes are not part of the value)
template <> std::string limbs_of<long double>(long double x)
{
    if (std::isnan(x)) return "32767,65535,65535,65535,65535";
    unsigned char b[16] = {0};
    std::memcpy(b, &x, sizeof(long double));
    unsigned long long m = 0; unsigned se = 0;
    std::memcpy(&m, b, 8);
    std::memcpy(&se, b + 8, 2);
    return std::to_string(se & 0xffff) + "," + limbs4(m);
}
template <class T> static std::string bits_of(const std::complex<T>& z) { return "[" + limbs_of(z.real()) + "," + limbs_of(z.imag()) + "]"; }
template <class T> static std::string bits_of_real(T x) { return "[" + limbs_of(x) + "]"; }

[[noreturn]] static void bad(const std::string& what)
{
    std::fprintf(stderr, "script: %s\n", what.c_str());
    std::exit(3);
}

template <class T, bool B>
struct machine
{
    using V = xtl::xcomplex<T, T, B>;
    using W = xtl::xcomplex<T, T, !B>;
    using R = xtl::xcomplex<T&, T&, B>;
    using K = xtl::xcomplex<const T&, const T&, B>;
    using S = std::complex<T>;

    V v1, v2;
    W w;
    T p1, q1, p2, q2;
    R r1, r2;
    K k1;
    S s;
    T d;

    machine() : v1(), v2(), w(), p1(0), q1(0), p2(0), q2(0), r1(p1, q1), r2(p2, q2), k1(p1, q1), s(), d(0) {}

    // ---- register dispatch
    template <class F> void withc(const std::string& n, F&& f)
    {
        if (n == "v1") f(v1); else if (n == "v2") f(v2); else if (n == "w") f(w);
        else if (n == "r1") f(r1); else if (n == "r2") f(r2); else if (n == "k1") f(k1);
        else bad("not an xcomplex register: " + n);
    }
    template <class F> void withm(const std::string& n, F&& f)
    {
        if (n == "v1") f(v1); else if (n == "v2") f(v2); else if (n == "w") f(w);
        else if (n == "r1") f(r1); else if (n == "r2") f(r2);
        else bad("not a modifiable xcomplex register: " + n);
    }
    template <class F> void withv(const std::string& n, F&& f)
    {
        if (n == "v1") f(v1); else if (n == "v2") f(v2); else if (n == "w") f(w);
        else bad("not a value closure register: " + n);
    }

    // ---- the projection: every cell read directly, and the parts seen through the reference closures
    std::string projection() const
    {
        const V& c1 = v1; const V& c2 = v2; const W& cw = w; const S& cs = s;
        long long c[13] = {num(c1.real()), num(c1.imag()), num(c2.real()), num(c2.imag()), num(cw.real()), num(cw.imag()),
                           num(p1), num(q1), num(p2), num(q2), num(cs.real()), num(cs.imag()), num(d)};
        const R& cr1 = r1; const R& cr2 = r2; const K& ck1 = k1;
        vj::out via;
        via.kraw("r1", pair_of(cr1)).kraw("k1", pair_of(ck1)).kraw("r2", pair_of(cr2));
        vj::out o;
        o.kints("cells", std::vector<long long>(c, c + 13));
        o.kraw("via", via.obj());
        return o.obj();
    }

    // ---- assignment helpers (r1 = r2 with identical closure type does not exist: deleted copy assignment)
    static bool assign(R&, const R&) { bad("Assign between T& closures of the same type is not a valid call"); }
    template <class A, class Bt> static bool assign(A& a, const Bt& b)
    {
        auto& r = (a = b);
        return std::addressof(r) == std::addressof(a);
    }

    template <class A, class Bt> static auto binop(const std::string& o, const A& a, const Bt& b)
    {
        if (o == "add") return a + b;
        if (o == "sub") return a - b;
        if (o == "mul") return a * b;
        if (o == "div") return a / b;
        bad("operator " + o);
    }
    template <class A, class Bt> static bool cmpop(const std::string& o, A& a, const Bt& b)
    {
        if (o == "add") { auto& r = (a += b); return std::addressof(r) == std::addressof(a); }
        if (o == "sub") { auto& r = (a -= b); return std::addressof(r) == std::addressof(a); }
        if (o == "mul") { auto& r = (a *= b); return std::addressof(r) == std::addressof(a); }
        if (o == "div") { auto& r = (a /= b); return std::addressof(r) == std::addressof(a); }
        bad("operator " + o);
    }
    static std::string self_of(bool b) { return std::string("{\"self\":") + (b ? "true" : "false") + "}"; }

    // the scalar d as an object of the C++ type the script names ("T": the element type itself, as the lvalue d)
    template <class F> void with_scalar(const std::string& st, F&& f)
    {
        if (st == "T") f(d);
        else if (st == "int") { const int i = int(d); f(i); }
        else if (st == "long") { const long i = long(d); f(i); }
        else if (st == "float") { const float i = float(d); f(i); }
        else if (st == "double") { const double i = double(d); f(i); }
        else bad("scalar type " + st);
    }
    template <class F> static void with_literal(const std::string& st, long long n, F&& f)
    {
        if (st == "T") f(T(n));
        else if (st == "int") f(int(n));
        else if (st == "long") f(long(n));
        else if (st == "float") f(float(n));
        else if (st == "double") f(double(n));
        else bad("scalar type " + st);
    }

    // ---- one call
    std::string call(const std::string& op, const vj::value& a)
    {
        std::string res = "0";
        if (op == "Reset")
        {
            this->~machine();
            new (this) machine();
        }
        else if (op == "Load")
        {
            auto c = a.ints("c");
            if (c.size() != 13) bad("Load needs 13 cells");
            auto addr1 = std::addressof(v1); addr1->~V(); new (addr1) V(T(c[0]), T(c[1]));
            auto addr2 = std::addressof(v2); addr2->~V(); new (addr2) V(T(c[2]), T(c[3]));
            auto addrw = std::addressof(w); addrw->~W(); new (addrw) W(T(c[4]), T(c[5]));
            p1 = T(c[6]); q1 = T(c[7]); p2 = T(c[8]); q2 = T(c[9]);
            s = S(T(c[10]), T(c[11]));
            d = T(c[12]);
        }
        else if (op == "SetVal")
        {
            T re = T(a.num("re")), im = T(a.num("im"));
            const std::string& x = a.str("x");
            if (x == "v1") v1 = V(re, im); else if (x == "v2") v2 = V(re, im); else if (x == "w") w = W(re, im);
            else bad("SetVal target " + x);
        }
        else if (op == "SetPart")
        {
            const std::string& x = a.str("x"); bool re = a.str("part") == "re"; bool fr = a.str("via") == "free";
            T n = T(a.num("n"));
            if (x == "s") { if (!fr) bad("SetPart s"); if (re) xtl::real(s) = n; else xtl::imag(s) = n; }
            else if (x == "d") { if (!fr || !re) bad("SetPart d"); xtl::real(d) = n; }
            else withm(x, [&](auto& z) {
                if (fr) { if (re) xtl::real(z) = n; else xtl::imag(z) = n; }
                else { if (re) z.real() = n; else z.imag() = n; }
            });
        }
        else if (op == "AssignScalar")
        {
            long long n = a.num("n");
            withm(a.str("x"), [&](auto& z) {
                with_literal(a.str("st"), n, [&](auto lit) { auto& r = (z = lit); res = self_of(std::addressof(r) == std::addressof(z)); });
            });
        }
        else if (op == "Assign")
        {
            withm(a.str("x"), [&](auto& x) { withc(a.str("y"), [&](auto& y) { res = self_of(assign(x, y)); }); });
        }
        else if (op == "CtorLv")
        {
            const std::string& x = a.str("x"); const std::string& y = a.str("y");
            T& p = (y == "r1") ? p1 : p2; T& q = (y == "r1") ? q1 : q2;
            if (y != "r1" && y != "r2") bad("CtorLv source " + y);
            V* t = (x == "v1") ? std::addressof(v1) : (x == "v2") ? std::addressof(v2) : nullptr;
            if (!t) bad("CtorLv target " + x);
            t->~V(); new (t) V(p, q);      // lvalue arguments: a value closure copies them
        }
        else if (op == "Swap")
        {
            // std::swap of two value closures of the same type (move construction + two move assignments)
            const std::string& x = a.str("x"); const std::string& y = a.str("y");
            if ((x != "v1" && x != "v2") || (y != "v1" && y != "v2")) bad("Swap registers");
            using std::swap;
            swap(x == "v1" ? v1 : v2, y == "v1" ? v1 : v2);
        }
        else if (op == "AssignMove")
        {
            // x = std::move(copy of y): the rvalue assignment operator
            withm(a.str("x"), [&](auto& x) { withc(a.str("y"), [&](auto& y) {
                auto t = +y;                                   // a value closure holding y's parts
                auto& r = (x = std::move(t));
                res = self_of(std::addressof(r) == std::addressof(x));
            }); });
        }
        else if (op == "FromStd")
        {
            withv(a.str("x"), [&](auto& x) { x = s; });
        }
        else if (op == "ToStd")
        {
            withc(a.str("x"), [&](auto& x) { s = x; });
        }
        else if (op == "Bin")
        {
            const std::string& o = a.str("o");
            withc(a.str("x"), [&](auto& x) { withc(a.str("y"), [&](auto& y) { auto z = binop(o, x, y); remark(z); res = pair_of(z); }); });
        }
        else if (op == "BinS")
        {
            const std::string& o = a.str("o"); bool left = a.str("side") == "l";
            withc(a.str("x"), [&](auto& x) {
                with_scalar(a.str("st"), [&](const auto& sc) {
                    if (left) { auto z = binop(o, sc, x); remark(z); res = pair_of(z); } else { auto z = binop(o, x, sc); remark(z); res = pair_of(z); }
                });
            });
        }
        else if (op == "BinStd")
        {
            const std::string& o = a.str("o"); const std::string& form = a.str("form");
            withc(a.str("x"), [&](auto& x) {
                if (form == "conv_r") { auto z = binop(o, x, V(s)); remark(z); res = pair_of(z); }
                else if (form == "conv_l") { auto z = binop(o, V(s), x); remark(z); res = pair_of(z); }
                else if (form == "direct") { S z = binop(o, x, s); remark(z); res = pair_of(z); }
                else bad("BinStd form " + form);
            });
        }
        else if (op == "Cmp")
        {
            const std::string& o = a.str("o");
            withm(a.str("x"), [&](auto& x) { withc(a.str("y"), [&](auto& y) { res = self_of(cmpop(o, x, y)); }); });
        }
        else if (op == "CmpS")
        {
            const std::string& o = a.str("o");
            withm(a.str("x"), [&](auto& x) { with_scalar(a.str("st"), [&](const auto& sc) { res = self_of(cmpop(o, x, sc)); }); });
        }
        else if (op == "CmpP")
        {
            const std::string& o = a.str("o"); bool re = a.str("part") == "re";
            withm(a.str("x"), [&](auto& x) { withc(a.str("y"), [&](auto& y) {
                const auto& cy = y;
                const T& p = re ? cy.real() : cy.imag();      // an lvalue: a part of y, not a copy
                res = self_of(cmpop(o, x, p));
            }); });
        }
        else if (op == "CmpStd")
        {
            const std::string& o = a.str("o");
            withm(a.str("x"), [&](auto& x) { res = self_of(cmpop(o, x, V(s))); });
        }
        else if (op == "Un")
        {
            const std::string& f = a.str("f"); const std::string& x = a.str("x");
            if (x == "s") { if (f != "val") bad("Un on s"); V z(s); res = pair_of(z); }
            else withc(x, [&](auto& xr) {
                const auto& c = xr;
                if (f == "neg") { auto z = -c; remark(z); res = pair_of(z); }
                else if (f == "pos") { auto z = +c; remark(z); res = pair_of(z); }
                else if (f == "conj") { auto z = conj(c); remark(z); res = pair_of(z); }
                else if (f == "proj") { auto z = proj(c); remark(z); res = pair_of(z); }
                else if (f == "val") { V z(c); remark(z); res = pair_of(z); }
                else bad("Un function " + f);
            });
        }
        else if (op == "Norm")
        {
            withc(a.str("x"), [&](auto& x) { const auto& c = x; res = std::to_string(num(norm(c))); });
        }
        else if (op == "Part")
        {
            const std::string& x = a.str("x"); bool re = a.str("part") == "re"; const std::string& via = a.str("via");
            if (x == "s") { const S& cs = s; res = std::to_string(num(re ? xtl::real(cs) : xtl::imag(cs))); }
            else if (x == "d") { const T& cd = d; res = std::to_string(num(re ? xtl::real(cd) : xtl::imag(cd))); }
            else withc(x, [&](auto& z) {
                const auto& c = z;
                T v;
                if (via == "member") v = re ? z.real() : z.imag();
                else if (via == "cmember") v = re ? c.real() : c.imag();
                else if (via == "free") v = re ? xtl::real(c) : xtl::imag(c);
                else if (via == "rvalue") { auto t1 = c; auto t2 = c; v = re ? std::move(t1).real() : xtl::imag(std::move(t2)); }
                else bad("Part via " + via);
                res = std::to_string(num(v));
            });
        }
        else if (op == "Eq")
        {
            bool ne = a.at("ne").b;
            withc(a.str("x"), [&](auto& x) { withc(a.str("y"), [&](auto& y) { const auto& cx = x; const auto& cy = y; res = (ne ? (cx != cy) : (cx == cy)) ? "true" : "false"; }); });
        }
        else if (op == "EqStd")
        {
            bool ne = a.at("ne").b; const std::string& form = a.str("form");
            withc(a.str("x"), [&](auto& x) {
                const auto& cx = x;
                bool r;
                if (form == "conv") r = ne ? (cx != V(s)) : (cx == V(s));
                else if (form == "tostd") r = ne ? (S(cx) != s) : (S(cx) == s);
                else bad("EqStd form " + form);
                res = r ? "true" : "false";
            });
        }
        else if (op == "EqReal")
        {
            bool ne = a.at("ne").b;
            withc(a.str("x"), [&](auto& x) { const auto& cx = x; res = (ne ? (cx != V(d)) : (cx == V(d))) ? "true" : "false"; });
        }
        else if (op == "Ctor")
        {
            const std::string& f = a.str("f");
            if (f == "default") { V z; res = pair_of(z); }
            else if (f == "scalar") { V z(d); res = pair_of(z); }
            else if (f == "scalar_int") { int i = int(d); V z(i); res = pair_of(z); }
            else if (f == "pair") { V z(T(d), T(xtl::real(s))); res = pair_of(z); }
            else if (f == "copy") { V z(v1); res = pair_of(z); }
            else if (f == "move") { V t(v2); V z(std::move(t)); res = pair_of(z); }
            else if (f == "std") { V z(s); res = pair_of(z); }
            else if (f == "stdmove") { S t(s); V z(std::move(t)); res = pair_of(z); }
            else if (f == "ref") { R z(p2, q2); res = pair_of(z); }
            else if (f == "cref") { K z(p2, q2); res = pair_of(z); }
            else bad("Ctor form " + f);
        }
        else if (op == "Str")
        {
            withc(a.str("x"), [&](auto& x) { const auto& c = x; std::ostringstream os; os << c; res = "\"" + os.str() + "\""; });
        }
        else if (op == "Fwd")
        {
            const std::string& fn = a.str("fn");
            withc(a.str("x"), [&](auto& xr) {
                const auto& x = xr;
                const S sx(x);
                std::string mine, ref;
#define FWD_C(name) if (fn == #name) { mine = bits_of(S(name(x))); ref = bits_of(std::name(sx)); }
#define FWD_R(name) if (fn == #name) { mine = bits_of_real(name(x)); ref = bits_of_real(std::name(sx)); }
                FWD_R(abs) FWD_R(arg) FWD_R(norm)
                FWD_C(conj) FWD_C(proj) FWD_C(exp) FWD_C(log) FWD_C(log10) FWD_C(sqrt)
                FWD_C(sin) FWD_C(cos) FWD_C(tan) FWD_C(asin) FWD_C(acos) FWD_C(atan)
                FWD_C(sinh) FWD_C(cosh) FWD_C(tanh) FWD_C(asinh) FWD_C(acosh) FWD_C(atanh)
#undef FWD_C
#undef FWD_R
                if (fn == "pow_cs") { mine = bits_of(S(pow(x, d))); ref = bits_of(std::pow(sx, d)); }
                if (fn == "pow_sc") { mine = bits_of(S(pow(d, x))); ref = bits_of(std::pow(d, sx)); }
                if (fn == "pow_cc") withc(a.str("y"), [&](auto& yr) { const auto& y = yr; mine = bits_of(S(pow(x, y))); ref = bits_of(std::pow(sx, S(y))); });
                if (mine.empty()) bad("Fwd function " + fn);
                res = "{\"xtl\":" + mine + ",\"std\":" + ref + "}";
            });
        }
        else bad("unknown op " + op);
        return res;
    }

    int run()
    {
        std::string line;
        while (std::getline(std::cin, line))
        {
            if (line.empty()) continue;
            vj::value ev = vj::parse(line);
            if (ev.has("_meta")) continue;
            struct itimerval tv = {{0, 0}, {2, 0}};
            setitimer(ITIMER_VIRTUAL, &tv, nullptr);           // per-call CPU limit, re-armed at every event
            const std::string& op = ev.str("op");
            note.clear();
            std::string res = call(op, ev.at("a"));
            // echo the call, then what was observed
            std::string outl = line.substr(0, line.rfind('}')) + ",\"res\":" + res + ",\"st\":" + projection();
            if (!note.empty()) outl += ",\"note\":\"" + note + "\"";
            outl += "}\n";
            std::fwrite(outl.data(), 1, outl.size(), stdout);      // C stdio: the crash handlers fflush(stdout)
        }
        std::fflush(stdout);
        return 0;
    }
};

static void on_timeout(int)
{
    std::fflush(stdout);
    vj::crash_line("timeout");
    _exit(0);
}

// CFG selects one instantiation per binary (0: float,false 1: float,true 2: double,false 3: double,true
// 4: long double,false 5: long double,true); without it all six are compiled into one binary.
#ifndef CFG
#define CFG -1
#endif

int main(int argc, char** argv)
{
    vj::install_crash_handlers();
    std::signal(SIGVTALRM, on_timeout);
    if (argc < 3) { std::fprintf(stderr, "usage: machine <float|double|ldouble> <0|1>\n"); return 3; }
    std::string t = argv[1]; bool b = std::atoi(argv[2]) != 0;
#if CFG == -1 || CFG == 0
    if (t == "float" && !b) { auto m = std::make_unique<machine<float, false>>(); return m->run(); }
#endif
#if CFG == -1 || CFG == 1
    if (t == "float" && b) { auto m = std::make_unique<machine<float, true>>(); return m->run(); }
#endif
#if CFG == -1 || CFG == 2
    if (t == "double" && !b) { auto m = std::make_unique<machine<double, false>>(); return m->run(); }
#endif
#if CFG == -1 || CFG == 3
    if (t == "double" && b) { auto m = std::make_unique<machine<double, true>>(); return m->run(); }
#endif
#if CFG == -1 || CFG == 4
    if (t == "ldouble" && !b) { auto m = std::make_unique<machine<long double, false>>(); return m->run(); }
#endif
#if CFG == -1 || CFG == 5
    if (t == "ldouble" && b) { auto m = std::make_unique<machine<long double, true>>(); return m->run(); }
#endif
    std::fprintf(stderr, "this binary was not built for %s %d\n", t.c_str(), (int)b);
    return 3;
}

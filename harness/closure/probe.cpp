// C07 compile probes: call forms whose availability decides whether the conformance driver
// may use them.  PROBE=1: closure(rvalue of a move-only type); PROBE=2: assignment between
// xcomplex instantiations with different closure types; PROBE=3: copy construction of an
// xmasked_value over reference closures from a non-const lvalue.
#include <xtl/xclosure.hpp>
#include <xtl/xcomplex.hpp>
#include <xtl/xmasked_value.hpp>
struct MO
{
    int v;
    explicit MO(int x) : v(x) {}
    MO(const MO&) = delete;
    MO& operator=(const MO&) = delete;
    MO(MO&& o) noexcept : v(o.v) { o.v = -1; }
    MO& operator=(MO&& o) noexcept { v = o.v; o.v = -1; return *this; }
};
#if PROBE == 1
int main()
{
    auto w = xtl::closure(MO(3));
    return w.get().v == 3 ? 0 : 1;
}
#elif PROBE == 2
int main()
{
    double re = 1, im = 2;
    xtl::xcomplex<double&, double&> c(re, im);
    xtl::xcomplex<double, double> d(3., 4.);
    c = d;
    xtl::xcomplex<double, double> e;
    e = c;
    return (re == 3 && im == 4 && e.real() == 3) ? 0 : 1;
}
#elif PROBE == 3
int main()
{
    int x = 1; bool f = false;
    xtl::xmasked_value<int&, bool&> r(x, f);
    xtl::xmasked_value<int&, bool&> r2(r);              // copy from a non-const lvalue
    const xtl::xmasked_value<int&, bool&>& cr = r;
    xtl::xmasked_value<int&, bool&> r3(cr);             // copy from a const lvalue
    xtl::xmasked_value<int, bool> a(5, false);
    xtl::xmasked_value<int, bool> b(a);
    return (&r2.value() == &x && &r2.visible() == &f && &r3.value() == &x && !b.visible()) ? 0 : 1;
}
#endif

// C07 conformance harness: interprets a script of closure/wrapper operations (ndjson on stdin) on
// real xtl objects -- xclosure_wrapper, xclosure_pointer, xproxy_wrapper, xoptional / xcomplex /
// xmasked_value over closure types, bitset element references, forward_sequence -- and writes,
// after every call, what the call returned and the observable projection: the value of every
// caller variable and, for every wrapper, which object each component designates (by address)
// and the value read through it.  It contains no oracle: it executes and prints.
//
//   driver {int|counted|moveonly} < script > trace
//
// Compile-time switches (set by the runner from compile probes):
//   -DC07_CW_MO_RV     closure(move-only rvalue) compiles      -> the call is available
//   -DC07_CX_XASSIGN   xcomplex<A,B> = xcomplex<C,D> compiles  -> the call is available
#include <xtl/xclosure.hpp>
#include <xtl/xproxy_wrapper.hpp>
#include <xtl/xoptional.hpp>
#include <xtl/xcomplex.hpp>
#include <xtl/xmasked_value.hpp>
#include <xtl/xsequence.hpp>
#include <xtl/xdynamic_bitset.hpp>
#include "vjson.hpp"
#include <array>
#include <iostream>
#include <memory>
#include <string>
#include <typeinfo>
#include <vector>

namespace vt
{
    static long g_copies = 0, g_moves = 0;
    constexpr int MOVED = 9;

    // copy-counting payload; a moved-from object shows MOVED
    struct Counted
    {
        int v;
        Counted() : v(0) {}
        explicit Counted(int x) : v(x) {}
        Counted(const Counted& o) : v(o.v) { ++g_copies; }
        Counted(Counted&& o) noexcept : v(o.v) { o.v = MOVED; ++g_moves; }
        Counted& operator=(const Counted& o) { v = o.v; return *this; }
        Counted& operator=(Counted&& o) noexcept { if (this != &o) { v = o.v; o.v = MOVED; } return *this; }
        bool operator==(const Counted& o) const { return v == o.v; }
        bool operator!=(const Counted& o) const { return v != o.v; }
    };
    // move-only payload: any copy is a compile error
    struct MoveOnly
    {
        int v;
        MoveOnly() : v(0) {}
        explicit MoveOnly(int x) : v(x) {}
        MoveOnly(const MoveOnly&) = delete;
        MoveOnly& operator=(const MoveOnly&) = delete;
        MoveOnly(MoveOnly&& o) noexcept : v(o.v) { o.v = MOVED; ++g_moves; }
        MoveOnly& operator=(MoveOnly&& o) noexcept { if (this != &o) { v = o.v; o.v = MOVED; } return *this; }
        bool operator==(const MoveOnly& o) const { return v == o.v; }
        bool operator!=(const MoveOnly& o) const { return v != o.v; }
    };

    inline int valof(int x) { return x; }
    inline int valof(bool x) { return x ? 1 : 0; }
    inline int valof(const Counted& x) { return x.v; }
    inline int valof(const MoveOnly& x) { return x.v; }
    template <class C> inline int seqval(const C& c)          // uniform value, MOVED when emptied, 99 otherwise
    {
        if (c.size() == 0) return MOVED;
        int v = valof(*c.begin());
        for (const auto& e : c) if (valof(e) != v) return 99;
        return c.size() == 2 ? v : 99;
    }
    template <class T> inline int valof(const std::vector<T>& c) { return seqval(c); }
    template <class T, std::size_t N> inline int valof(const std::array<T, N>& c) { return seqval(c); }

    template <class P> struct mk { static P of(int v) { return P(v); } };
    template <> struct mk<int> { static int of(int v) { return v; } };
    template <> struct mk<bool> { static bool of(int v) { return v != 0; } };
    template <class T> struct mk<std::vector<T>>
    {
        static std::vector<T> of(int v) { std::vector<T> s; s.reserve(2); s.push_back(mk<T>::of(v)); s.push_back(mk<T>::of(v)); return s; }
    };
    template <class T> struct mk<std::array<T, 2>>
    {
        static std::array<T, 2> of(int v) { return std::array<T, 2>{{mk<T>::of(v), mk<T>::of(v)}}; }
    };

    template <class P> struct copyable : std::is_copy_constructible<P> {};
    template <class T> struct copyable<std::vector<T>> : copyable<T> {};       // vector declares its copy constructor unconditionally
    template <class T, std::size_t N> struct copyable<std::array<T, N>> : copyable<T> {};
    template <class P> struct pname;
    template <> struct pname<int> { static const char* get() { return "int"; } };
    template <> struct pname<Counted> { static const char* get() { return "counted"; } };
    template <> struct pname<MoveOnly> { static const char* get() { return "moveonly"; } };
}

[[noreturn]] static void unsupported(const std::string& what)
{
    std::fflush(stdout);
    std::fprintf(stderr, "script: unsupported call: %s\n", what.c_str());
    std::exit(3);
}

// compile-time branch: the generic lambda's body is only instantiated when the condition holds
struct ident { template <class T> T&& operator()(T&& t) const { return std::forward<T>(t); } };
template <bool C> struct when
{
    template <class F> static void run(const char*, F&& f) { f(ident{}); }
};
template <> struct when<false>
{
    template <class F> static void run(const char* what, F&&) { unsupported(what); }
};

struct obs { std::string t; int v; };
static std::string obs_json(const std::vector<obs>& o)
{
    std::string r = "[";
    for (size_t i = 0; i < o.size(); ++i)
    {
        if (i) r += ',';
        r += "{\"t\":\"" + o[i].t + "\",\"v\":" + std::to_string(o[i].v) + "}";
    }
    return r + "]";
}

struct range { const char* lo; const char* hi; bool has(const void* p) const { return (const char*)p >= lo && (const char*)p < hi; } };
template <class T> static range range_of(const T& t) { return range{(const char*)std::addressof(t), (const char*)std::addressof(t) + sizeof(T)}; }

// classify an address: which object does it designate?
struct world
{
    std::vector<std::pair<const void*, std::string>> vars;   // caller variables (exact object addresses)
    std::vector<range> temps;                                // caller temporaries, alive or dead
    std::string where(const void* p, range self, range extra) const
    {
        for (auto& v : vars) if (v.first == p) return v.second;
        if (self.has(p)) return "self";
        if (extra.has(p)) return "value";
        for (auto& t : temps) if (t.has(p)) return "temp";
        return "unknown";
    }
};
static world g_world;
static const range NORANGE{nullptr, nullptr};

struct holder
{
    std::string kind;
    virtual ~holder() {}
    virtual int ncomp() const = 0;
    virtual bool is_ref(int i) const = 0;
    virtual obs peek(int i) = 0;
    virtual std::vector<obs> read(const std::string& form) = 0;
    virtual void assign(int v, bool rvalue) = 0;
    virtual void assign_comp(int, int, const std::string&) { unsupported("AssignComp on " + kind); }
    virtual holder* clone(bool move) = 0;
    virtual void assign_from(holder&, bool) { unsupported("AssignW on " + kind); }
    virtual void swap_with(holder&, const std::string&) { unsupported("Swap on " + kind); }
    virtual std::vector<obs> addr_of(const std::string&, int) { unsupported("AddrOf on " + kind); }
    virtual int equal(holder&) { unsupported("Equal on " + kind); }
};
constexpr int NOWRITE = 99;

// observe the result of an access expression: a reference is classified by address, a value is "value"
template <class R> static obs see_ref(R& r, range self, range extra) { return obs{g_world.where((const void*)std::addressof(r), self, extra), vt::valof(r)}; }
template <class RT, class R> static obs see(R&& r, range self, range extra, std::true_type) { return see_ref(r, self, extra); }
template <class RT, class R> static obs see(R&& r, range, range, std::false_type) { return obs{"value", vt::valof(r)}; }
#define SEE(expr, self, extra) see<decltype(expr)>(expr, self, extra, std::is_reference<decltype(expr)>())

template <class T> using unref = std::remove_reference_t<T>;
template <class CT> struct ct_writable : std::integral_constant<bool, !std::is_const<unref<CT>>::value> {};
template <class CT> struct ct_ref : std::is_lvalue_reference<CT> {};

/**************************************************************************************************
 * xclosure_wrapper (also what proxy_wrapper returns for an lvalue or a non-class rvalue)
 **************************************************************************************************/
template <class P, class CT>
struct cw_holder : holder
{
    using W = xtl::xclosure_wrapper<CT>;
    static constexpr bool REF = ct_ref<CT>::value, WR = ct_writable<CT>::value, CP = vt::copyable<P>::value;
    W w;
    template <class F> cw_holder(const char* k, F&& make) : w(make()) { kind = k; }
    struct copy_tag {};
    cw_holder(const char* k, W&& o, int) : w(std::move(o)) { kind = k; }
    cw_holder(const char* k, const W& o, copy_tag) : w(o) { kind = k; }
    range self() const { return range_of(w); }
    int ncomp() const override { return 1; }
    bool is_ref(int) const override { return REF; }
    obs peek(int) override { return SEE(xtl::as_const(w).get(), self(), NORANGE); }
    std::vector<obs> read(const std::string& form) override
    {
        std::vector<obs> r;
        if (form == "get" || form == "base") r.push_back(SEE(w.get(), self(), NORANGE));
        else if (form == "cget") r.push_back(SEE(xtl::as_const(w).get(), self(), NORANGE));
        else if (form == "rget")
            when<REF || CP>::run("rget on an owning move-only closure", [&](auto id) { r.push_back(SEE(std::move(id(w)).get(), self(), NORANGE)); });
        else if (form == "conv")
            when<REF || CP>::run("conversion of an owning move-only closure", [&](auto id) {
                CT c = id(w);                                  // operator closure_type()
                r.push_back(see<CT>(c, self(), NORANGE, std::is_reference<CT>()));
            });
        else if (form == "cconv")
            when<REF || CP>::run("conversion of an owning move-only closure", [&](auto id) {
                using CCT = typename W::const_closure_type;
                CCT c = xtl::as_const(id(w));                  // operator const_closure_type() const
                r.push_back(see<CCT>(c, self(), NORANGE, std::is_reference<CCT>()));
            });
        else unsupported("Read " + form + " on " + kind);
        return r;
    }
    void assign(int v, bool rvalue) override
    {
        when<WR>::run("assignment through a const closure", [&](auto id) {
            if (rvalue) id(w) = vt::mk<P>::of(v);
            else when<CP>::run("copy-assignment of a move-only payload", [&](auto id2) { P tmp = vt::mk<P>::of(v); id2(w) = tmp; });
        });
    }
    holder* clone(bool move) override
    {
        holder* h = nullptr;
        if (move) when<REF || CP || WR>::run("move of a const move-only closure", [&](auto id) { h = new cw_holder(kind.c_str(), std::move(id(w)), 0); });
        else when<REF || CP>::run("copy of an owning move-only closure", [&](auto id) { h = new cw_holder(kind.c_str(), id(xtl::as_const(w)), copy_tag()); });
        return h;
    }
    cw_holder& same(holder& j)
    {
        auto* o = dynamic_cast<cw_holder*>(&j);
        if (!o) unsupported("closure wrappers of different types");
        return *o;
    }
    void assign_from(holder& j, bool move) override
    {
        cw_holder& o = same(j);
        when<WR>::run("assignment through a const closure", [&](auto id) {
            if (move) id(w) = std::move(o.w);
            else when<CP>::run("copy-assignment of a move-only payload", [&](auto id2) { id2(w) = xtl::as_const(o.w); });
        });
    }
    void swap_with(holder& j, const std::string& how) override
    {
        cw_holder& o = same(j);
        when<WR>::run("swap through a const closure", [&](auto id) {
            if (how == "member") id(w).swap(o.w);
            else { using std::swap; swap(id(w), o.w); }
        });
    }
    std::vector<obs> addr_of(const std::string& form, int wr) override
    {
        if (form != "lv") unsupported("AddrOf " + form + " on " + kind);
        std::vector<obs> r;
        auto p = &w;                                           // xclosure_wrapper::operator&
        r.push_back(see_ref(*p, self(), NORANGE));
        if (wr != NOWRITE) when<WR>::run("write through a pointer to const", [&](auto id) { *id(p) = vt::mk<P>::of(wr); });
        return r;
    }
    int equal(holder& j) override
    {
        cw_holder& o = same(j);
        bool e = (w == o.w), n = (w != o.w);
        return e == n ? 77 : (e ? 1 : 0);
    }
};

/**************************************************************************************************
 * xclosure_pointer
 **************************************************************************************************/
template <class P, class CT>
struct cp_holder : holder
{
    using W = xtl::xclosure_pointer<CT>;
    static constexpr bool REF = ct_ref<CT>::value, WR = ct_writable<CT>::value, CP = vt::copyable<P>::value;
    W w;
    template <class F> cp_holder(F&& make) : w(make()) { kind = "cp"; }
    cp_holder(W&& o, int) : w(std::move(o)) { kind = "cp"; }
    struct copy_tag {};
    cp_holder(const W& o, copy_tag) : w(o) { kind = "cp"; }
    range self() const { return range_of(w); }
    int ncomp() const override { return 1; }
    bool is_ref(int) const override { return REF; }
    obs peek(int) override { return SEE(*xtl::as_const(w), self(), NORANGE); }
    std::vector<obs> read(const std::string& form) override
    {
        std::vector<obs> r;
        if (form == "deref") r.push_back(SEE(*w, self(), NORANGE));
        else if (form == "cderef") r.push_back(SEE(*xtl::as_const(w), self(), NORANGE));
        else if (form == "arrow") r.push_back(see_ref(*w.operator->(), self(), NORANGE));
        else unsupported("Read " + form + " on cp");
        return r;
    }
    void assign(int v, bool rvalue) override
    {
        when<WR>::run("assignment through a const closure pointer", [&](auto id) {
            if (rvalue) *id(w) = vt::mk<P>::of(v);
            else when<CP>::run("copy-assignment of a move-only payload", [&](auto id2) { P tmp = vt::mk<P>::of(v); *id2(w) = tmp; });
        });
    }
    holder* clone(bool move) override
    {
        holder* h = nullptr;
        if (move) when<REF || CP || WR>::run("move of a const move-only closure", [&](auto id) { h = new cp_holder(std::move(id(w)), 0); });
        else when<REF || CP>::run("copy of an owning move-only closure", [&](auto id) { h = new cp_holder(id(xtl::as_const(w)), copy_tag()); });
        return h;
    }
};

/**************************************************************************************************
 * xproxy_wrapper_impl<P> (proxy_wrapper of a class-type rvalue): the wrapper IS-A P
 **************************************************************************************************/
template <class P, class PB>     // PB: P or const P
struct pw_holder : holder
{
    using W = xtl::xproxy_wrapper_impl<PB>;
    static constexpr bool WR = !std::is_const<PB>::value, CP = vt::copyable<P>::value;
    W w;
    template <class F> pw_holder(F&& make) : w(make()) { kind = "pw"; }
    pw_holder(W&& o, int) : w(std::move(o)) { kind = "pw"; }
    struct copy_tag {};
    pw_holder(const W& o, copy_tag) : w(o) { kind = "pw"; }
    range self() const { return range_of(w); }
    int ncomp() const override { return 1; }
    bool is_ref(int) const override { return false; }
    obs peek(int) override { return see_ref(static_cast<const P&>(w), self(), NORANGE); }
    std::vector<obs> read(const std::string& form) override
    {
        if (form != "base") unsupported("Read " + form + " on an owning proxy wrapper");
        return {see_ref(static_cast<const P&>(w), self(), NORANGE)};
    }
    void assign(int v, bool rvalue) override
    {
        when<WR>::run("assignment to a const proxy", [&](auto id) {
            if (rvalue) static_cast<P&>(id(w)) = vt::mk<P>::of(v);
            else when<CP>::run("copy-assignment of a move-only payload", [&](auto id2) { P tmp = vt::mk<P>::of(v); static_cast<P&>(id2(w)) = tmp; });
        });
    }
    holder* clone(bool move) override
    {
        holder* h = nullptr;
        if (move) when<CP || WR>::run("move of a const move-only proxy", [&](auto id) { h = new pw_holder(std::move(id(w)), 0); });
        else when<CP>::run("copy of a move-only proxy", [&](auto id) { h = new pw_holder(id(xtl::as_const(w)), copy_tag()); });
        return h;
    }
    void assign_from(holder& j, bool move) override
    {
        auto* o = dynamic_cast<pw_holder*>(&j);
        if (!o) unsupported("proxy wrappers of different types");
        when<WR>::run("assignment to a const proxy", [&](auto id) {
            if (move) id(w) = std::move(o->w);
            else when<CP>::run("copy-assignment of a move-only payload", [&](auto id2) { id2(w) = xtl::as_const(o->w); });
        });
    }
    std::vector<obs> addr_of(const std::string& form, int wr) override
    {
        std::vector<obs> r;
        if (form == "lv")
        {
            auto p = &w;                                      // xclosure_pointer<PB&>
            r.push_back(SEE(*p, self(), range_of(p)));
            if (wr != NOWRITE) when<WR>::run("write through a pointer to const", [&](auto id) { *id(p) = vt::mk<P>::of(wr); });
        }
        else if (form == "rv")
        {
            when<CP || WR>::run("move of a const move-only proxy", [&](auto id) {
                auto p = &std::move(id(w));                   // xclosure_pointer<PB>, owns a moved copy
                r.push_back(SEE(*p, self(), range_of(p)));
                if (wr != NOWRITE) when<WR>::run("write through a pointer to const", [&](auto id2) { *id2(p) = vt::mk<P>::of(wr); });
            });
        }
        else unsupported("AddrOf " + form + " on pw");
        return r;
    }
};

/**************************************************************************************************
 * bitset element reference
 **************************************************************************************************/
using bitset_t = xtl::xdynamic_bitset<std::uint8_t>;
template <bool IS_CONST>
struct br_holder : holder
{
    using W = std::conditional_t<IS_CONST, bitset_t::const_reference, bitset_t::reference>;
    W w;
    br_holder(W&& o) : w(std::move(o)) { kind = "br"; }
    struct copy_tag {};
    br_holder(const W& o, copy_tag) : w(o) { kind = "br"; }
    int ncomp() const override { return 1; }
    bool is_ref(int) const override { return true; }
    obs peek(int) override { return obs{"bit", bool(xtl::as_const(w)) ? 1 : 0}; }
    std::vector<obs> read(const std::string& form) override
    {
        if (form == "conv") return {obs{"bit", bool(w) ? 1 : 0}};
        if (form == "neg") return {obs{"bit", (~w) ? 1 : 0}};
        unsupported("Read " + form + " on br");
    }
    void assign(int v, bool) override
    {
        when<!IS_CONST>::run("assignment through a const bit reference", [&](auto id) { id(w) = (v != 0); });
    }
    holder* clone(bool move) override
    {
        if (move) return new br_holder(W(std::move(w)));
        return new br_holder(xtl::as_const(w), copy_tag());
    }
    void assign_from(holder& j, bool move) override
    {
        when<!IS_CONST>::run("assignment through a const bit reference", [&](auto id) {
            if (auto* o = dynamic_cast<br_holder<false>*>(&j)) { if (move) id(w) = std::move(o->w); else id(w) = xtl::as_const(o->w); }
            else if (auto* c = dynamic_cast<br_holder<true>*>(&j)) id(w) = bool(c->w);
            else unsupported("AssignW br from another kind");
        });
    }
    std::vector<obs> addr_of(const std::string& form, int wr) override
    {
        if (form != "lv") unsupported("AddrOf " + form + " on br");
        auto p = &w;                                          // xclosure_pointer<reference>
        std::vector<obs> r{obs{"bit", bool(*p) ? 1 : 0}};
        if (wr != NOWRITE) when<!IS_CONST>::run("write through a const bit reference", [&](auto id) { *id(p) = (wr != 0); });
        return r;
    }
};

/**************************************************************************************************
 * forward_sequence: either the argument itself (an alias) or a new sequence
 **************************************************************************************************/
template <class P, class SEQ, bool IS_CONST>
struct fs_alias_holder : holder     // decltype(auto) r = forward_sequence<R, A&>(a);  r is A&
{
    using R = std::conditional_t<IS_CONST, const SEQ, SEQ>;
    R* r;
    explicit fs_alias_holder(R& ref) : r(&ref) { kind = "fs"; }
    int ncomp() const override { return 1; }
    bool is_ref(int) const override { return true; }
    obs peek(int) override { return see_ref(*static_cast<const SEQ*>(r), NORANGE, NORANGE); }
    std::vector<obs> read(const std::string&) override { return {see_ref(*r, NORANGE, NORANGE)}; }
    void assign(int v, bool) override
    {
        when<!IS_CONST>::run("assignment through a const sequence reference", [&](auto id) { *id(r) = vt::mk<SEQ>::of(v); });
    }
    holder* clone(bool) override { unsupported("Clone on fs"); }
};
template <class P, class SEQ>
struct fs_own_holder : holder       // R r(forward_sequence<R, A>(a));
{
    SEQ s;
    template <class F> explicit fs_own_holder(F&& make) : s(make()) { kind = "fs"; }
    int ncomp() const override { return 1; }
    bool is_ref(int) const override { return false; }
    obs peek(int) override { return see_ref(xtl::as_const(s), range_of(s), NORANGE); }
    std::vector<obs> read(const std::string&) override { return {see_ref(s, range_of(s), NORANGE)}; }
    void assign(int v, bool) override { s = vt::mk<SEQ>::of(v); }
    holder* clone(bool) override { unsupported("Clone on fs"); }
};

/**************************************************************************************************
 * two-component wrappers: xoptional<CT,CB>, xcomplex<CTR,CTI>, xmasked_value<T,B>
 **************************************************************************************************/
struct opt_tr
{
    static const char* name() { return "opt"; }
    template <class A, class B> using type = xtl::xoptional<A, B>;
    template <class W> static decltype(auto) c1(W&& w) { return std::forward<W>(w).value(); }
    template <class W> static decltype(auto) c2(W&& w) { return std::forward<W>(w).has_value(); }
    static constexpr bool has_addr = true, swap_member = true, swap_adl = false, xassign = true, free_fns = true;
};
struct cx_tr
{
    static const char* name() { return "cx"; }
    template <class A, class B> using type = xtl::xcomplex<A, B>;
    template <class W> static decltype(auto) c1(W&& w) { return std::forward<W>(w).real(); }
    template <class W> static decltype(auto) c2(W&& w) { return std::forward<W>(w).imag(); }
    static constexpr bool has_addr = true, swap_member = false, swap_adl = false, free_fns = false;
#ifdef C07_CX_XASSIGN
    static constexpr bool xassign = true;
#else
    static constexpr bool xassign = false;
#endif
};
struct mv_tr
{
    static const char* name() { return "mv"; }
    template <class A, class B> using type = xtl::xmasked_value<A, B>;
    template <class W> static decltype(auto) c1(W&& w) { return std::forward<W>(w).value(); }
    template <class W> static decltype(auto) c2(W&& w) { return std::forward<W>(w).visible(); }
    static constexpr bool has_addr = false, swap_member = true, swap_adl = true, xassign = true, free_fns = false;
};

template <class... T> struct tlist {};

template <class P, class Tr, class A, class B>    // A, B: the closure types of the two components
struct h2 : holder
{
    using W = typename Tr::template type<A, B>;
    using V1 = std::decay_t<A>;
    using V2 = std::decay_t<B>;
    static constexpr bool R1 = ct_ref<A>::value, R2 = ct_ref<B>::value;
    static constexpr bool W1 = ct_writable<A>::value, W2 = ct_writable<B>::value;
    static constexpr bool CP = vt::copyable<P>::value;
    static constexpr bool P2 = std::is_same<V2, P>::value;            // second component is payload-typed (xcomplex)
    static constexpr bool ALLOWN = !R1 && !R2;
    // copy construction of W needs copyable payload unless every payload component is a reference
    static constexpr bool CAN_COPY = CP || (R1 && (R2 || !P2));
    static constexpr bool CAN_MOVE = CP || ((R1 || W1) && (R2 || !P2 || W2));
    W w;
    template <class F> explicit h2(F&& make) : w(make()) { kind = Tr::name(); }
    h2(W&& o, int) : w(std::move(o)) { kind = Tr::name(); }
    struct copy_tag {};
    h2(const W& o, copy_tag) : w(o) { kind = Tr::name(); }
    range self() const { return range_of(w); }
    int ncomp() const override { return 2; }
    bool is_ref(int i) const override { return i == 0 ? R1 : R2; }
    obs peek(int i) override
    {
        if (i == 0) return SEE(Tr::c1(xtl::as_const(w)), self(), NORANGE);
        return SEE(Tr::c2(xtl::as_const(w)), self(), NORANGE);
    }
    template <class WW> std::vector<obs> read_lv(WW& x, range extra)
    {
        return {SEE(Tr::c1(x), self(), extra), SEE(Tr::c2(x), self(), extra)};
    }
    std::vector<obs> read(const std::string& form) override
    {
        std::vector<obs> r;
        if (form == "lv") r = read_lv(w, NORANGE);
        else if (form == "clv") r = read_lv(xtl::as_const(w), NORANGE);
        else if (form == "rv")
            when<CAN_COPY>::run("rvalue accessor of an owning move-only closure", [&](auto id) {
                r.push_back(SEE(Tr::c1(std::move(id(w))), self(), NORANGE));
                r.push_back(SEE(Tr::c2(std::move(id(w))), self(), NORANGE));
            });
        else if (form == "crv")
            when<CAN_COPY>::run("rvalue accessor of an owning move-only closure", [&](auto id) {
                r.push_back(SEE(Tr::c1(std::move(xtl::as_const(id(w)))), self(), NORANGE));
                r.push_back(SEE(Tr::c2(std::move(xtl::as_const(id(w)))), self(), NORANGE));
            });
        else if (form == "free" || form == "cfree")
            when<Tr::free_fns>::run("free accessor functions", [&](auto id) {
                if (form == "free") { r.push_back(SEE(xtl::value(id(w)), self(), NORANGE)); r.push_back(SEE(xtl::has_value(id(w)), self(), NORANGE)); }
                else { r.push_back(SEE(xtl::value(xtl::as_const(id(w))), self(), NORANGE)); r.push_back(SEE(xtl::has_value(xtl::as_const(id(w))), self(), NORANGE)); }
            });
        else if (form == "rfree")
            when<Tr::free_fns && CAN_COPY>::run("free accessor functions on an rvalue", [&](auto id) {
                r.push_back(SEE(xtl::value(std::move(id(w))), self(), NORANGE)); r.push_back(SEE(xtl::has_value(std::move(id(w))), self(), NORANGE));
            });
        else unsupported("Read " + form + " on " + kind);
        return r;
    }
    static constexpr bool WHOLE_WR = std::is_same<Tr, mv_tr>::value ? W1 : (W1 && W2);
    void assign(int v, bool rvalue) override
    {
        when<WHOLE_WR && (CP || !std::is_same<Tr, mv_tr>::value)>::run("whole assignment", [&](auto id) {
            if (rvalue) id(w) = vt::mk<P>::of(v);
            else when<CP>::run("copy-assignment of a move-only payload", [&](auto id2) { P tmp = vt::mk<P>::of(v); id2(w) = tmp; });
        });
    }
    void assign_comp(int i, int v, const std::string& form) override
    {
        if (i == 0)
        {
            if (form == "lv") when<W1>::run("write to a const component", [&](auto id) { Tr::c1(id(w)) = vt::mk<V1>::of(v); });
            else when<W1 && R1>::run("write through the rvalue accessor", [&](auto id) { Tr::c1(std::move(id(w))) = vt::mk<V1>::of(v); });
        }
        else
        {
            if (form == "lv") when<W2>::run("write to a const component", [&](auto id) { Tr::c2(id(w)) = vt::mk<V2>::of(v); });
            else when<W2 && R2>::run("write through the rvalue accessor", [&](auto id) { Tr::c2(std::move(id(w))) = vt::mk<V2>::of(v); });
        }
    }
    holder* clone(bool move) override
    {
        holder* h = nullptr;
        if (move) when<CAN_MOVE>::run("move of a const move-only closure", [&](auto id) { h = new h2(std::move(id(w)), 0); });
        else when<CAN_COPY>::run("copy of an owning move-only closure", [&](auto id) { h = new h2(id(xtl::as_const(w)), copy_tag()); });
        return h;
    }
    // --- assignment from any wrapper of the same family
    template <class A2, class B2> bool try_assign(holder& j, bool move)
    {
        using J = h2<P, Tr, A2, B2>;
        auto* o = dynamic_cast<J*>(&j);
        if (!o) return false;
        constexpr bool same = std::is_same<J, h2>::value;
        constexpr bool ok = W1 && W2 && CP && (same ? (ALLOWN) : Tr::xassign);
        when<ok>::run("wrapper assignment", [&](auto id) {
            if (move) id(w) = std::move(o->w);
            else id(w) = xtl::as_const(o->w);
        });
        return true;
    }
    template <class A2> bool try_assign_b(holder& j, bool move)
    {
        using F = std::conditional_t<P2, P, bool>;
        return try_assign<A2, F&>(j, move) || try_assign<A2, const F&>(j, move) || try_assign<A2, F>(j, move);
    }
    void assign_from(holder& j, bool move) override
    {
        if (!(try_assign_b<P&>(j, move) || try_assign_b<const P&>(j, move) || try_assign_b<P>(j, move)))
            unsupported("AssignW from a wrapper of another kind");
    }
    void swap_with(holder& j, const std::string& how) override
    {
        auto* o = dynamic_cast<h2*>(&j);
        if (!o) unsupported("swap of wrappers of different types");
        if (how == "member") when<Tr::swap_member && W1 && W2>::run("member swap", [&](auto id) { id(w).swap(o->w); });
        else when<Tr::swap_adl && W1 && W2>::run("free swap", [&](auto id) { xtl::swap(id(w), o->w); });   // (unqualified swap is ambiguous with std::swap for value types)
    }
    std::vector<obs> addr_of(const std::string& form, int wr) override
    {
        std::vector<obs> r;
        when<Tr::has_addr>::run("operator& of this wrapper", [&](auto id) {
            if (form == "lv")
            {
                auto p = &id(w);                               // xclosure_pointer<W&>
                r = {SEE(Tr::c1(*p), self(), range_of(p)), SEE(Tr::c2(*p.operator->()), self(), range_of(p))};
                if (wr != NOWRITE) when<W1>::run("write to a const component", [&](auto id2) { Tr::c1(*id2(p)) = vt::mk<V1>::of(wr); });
            }
            else if (form == "clv")
            {
                auto p = &xtl::as_const(id(w));                // xclosure_pointer<const W&>
                r = {SEE(Tr::c1(*p), self(), range_of(p)), SEE(Tr::c2(*p.operator->()), self(), range_of(p))};
                if (wr != NOWRITE) unsupported("write through a pointer to a const wrapper");
            }
            else if (form == "rv")
            {
                when<CAN_MOVE>::run("move of a const move-only closure", [&](auto id2) {
                    auto p = &std::move(id2(w));               // xclosure_pointer<W>: owns a wrapper moved from w
                    r = {SEE(Tr::c1(*p), self(), range_of(p)), SEE(Tr::c2(*p.operator->()), self(), range_of(p))};
                    if (wr != NOWRITE) when<W1>::run("write to a const component", [&](auto id3) { Tr::c1(*id3(p)) = vt::mk<V1>::of(wr); });
                });
            }
            else unsupported("AddrOf " + form);
        });
        return r;
    }
};

/**************************************************************************************************
 * the machine: caller variables, temporaries, wrapper slots, script interpreter
 **************************************************************************************************/
template <class P>
struct machine
{
    static constexpr int NX = 3, NF = 2, NB = 3, NS = 2, NW = 3;
    static constexpr bool CP = vt::copyable<P>::value;
    using SEQ = std::vector<P>;
    using ARR = std::array<P, 2>;
    std::unique_ptr<P> X[NX];
    std::unique_ptr<bool> F[NF];
    std::unique_ptr<SEQ> S[NS];
    bitset_t BS;
    std::vector<std::unique_ptr<P>> temps;
    std::vector<std::unique_ptr<SEQ>> stemps;
    std::unique_ptr<holder> W[NW];

    void reset()
    {
        for (auto& h : W) h.reset();
        temps.clear(); stemps.clear();
        g_world.vars.clear(); g_world.temps.clear();
        for (int i = 0; i < NX; ++i) { X[i].reset(new P(vt::mk<P>::of(i + 1))); g_world.vars.emplace_back(X[i].get(), "x" + std::to_string(i + 1)); }
        for (int i = 0; i < NF; ++i) { F[i].reset(new bool((i + 1) % 2 != 0)); g_world.vars.emplace_back(F[i].get(), "f" + std::to_string(i + 1)); }
        for (int i = 0; i < NS; ++i) { S[i].reset(new SEQ(vt::mk<SEQ>::of(i + 1))); g_world.vars.emplace_back(S[i].get(), "s" + std::to_string(i + 1)); }
        BS = bitset_t(NB, false);
        for (int i = 0; i < NB; ++i) BS[size_t(i)] = ((i + 1) % 2 != 0);
        vt::g_copies = vt::g_moves = 0;
    }

    // ---- sources: call f with the source expression in the requested value category
    template <class T, class Store, class F_>
    void with_src_t(const vj::value& s, std::unique_ptr<T>* vars, int nvars, Store& store, F_&& f)
    {
        const std::string& cat = s.str("cat");
        int i = int(s.num("i")) - 1, v = int(s.num("v"));
        if ((cat == "lv" || cat == "clv" || cat == "xvar" || cat == "cxvar") && (i < 0 || i >= nvars)) unsupported("variable index");
        if (cat == "lv") f(*vars[i]);
        else if (cat == "clv") f(xtl::as_const(*vars[i]));
        else if (cat == "xvar") f(std::move(*vars[i]));
        else if (cat == "cxvar") when<vt::copyable<T>::value>::run("const rvalue of a move-only type", [&](auto id) { f(std::move(xtl::as_const(*id(vars)[i]))); });
        else if (cat == "xtemp")
        {
            store.emplace_back(new T(vt::mk<T>::of(v)));
            g_world.temps.push_back(range_of(*store.back()));
            f(std::move(*store.back()));
        }
        else if (cat == "pr") f(vt::mk<T>::of(v));
        else unsupported("source category " + cat);
    }
    template <class F_> void with_p(const vj::value& s, F_&& f) { with_src_t<P>(s, X, NX, temps, std::forward<F_>(f)); }
    template <class F_> void with_s(const vj::value& s, F_&& f) { with_src_t<SEQ>(s, S, NS, stemps, std::forward<F_>(f)); }
    template <class F_> void with_f(const vj::value& s, F_&& f)
    {
        const std::string& cat = s.str("cat");
        int i = int(s.num("i")) - 1;
        if (cat == "lv") f(*F[i]);
        else if (cat == "clv") f(xtl::as_const(*F[i]));
        else if (cat == "pr") f(s.num("v") != 0);
        else unsupported("flag source category " + cat);
    }

    std::string fwd_note;

    holder* make(const vj::value& a)
    {
        const std::string& kind = a.str("kind");
        const std::string& via = a.str("via");
        const vj::value& s1 = a.at("s").a.at(0);
        holder* h = nullptr;
        fwd_note = "na";
        if (kind == "cw" || kind == "cp" || kind == "pw")
        {
            with_p(s1, [&](auto&& src) {
                using S = decltype(src);
                constexpr bool lv = std::is_lvalue_reference<S>::value;
                constexpr bool is_cw_mo_rv =
#ifdef C07_CW_MO_RV
                    false;
#else
                    !CP && !lv;
#endif
                if (kind == "cw")
                {
                    when<!is_cw_mo_rv>::run("closure(move-only rvalue)", [&](auto id) {
                        if (via == "closure")
                        {
                            using WT = decltype(xtl::closure(std::forward<S>(id(src))));
                            h = new cw_holder<P, typename WT::closure_type>("cw", [&]() -> WT { return xtl::closure(std::forward<S>(id(src))); });
                        }
                        else
                        {
                            when<lv || !std::is_const<unref<S>>::value>::run("const_closure(const rvalue)", [&](auto id2) {
                                using WT = decltype(xtl::const_closure(std::forward<S>(id2(src))));
                                h = new cw_holder<P, typename WT::closure_type>("cw", [&]() -> WT { return xtl::const_closure(std::forward<S>(id2(src))); });
                            });
                        }
                    });
                }
                else if (kind == "cp")
                {
                    if (via == "closure")
                    {
                        using WT = decltype(xtl::closure_pointer(std::forward<S>(src)));
                        h = new cp_holder<P, typename WT::closure_type>([&]() -> WT { return xtl::closure_pointer(std::forward<S>(src)); });
                    }
                    else
                    {
                        when<lv || !std::is_const<unref<S>>::value>::run("const_closure_pointer(const rvalue)", [&](auto id2) {
                            using WT = decltype(xtl::const_closure_pointer(std::forward<S>(id2(src))));
                            h = new cp_holder<P, typename WT::closure_type>([&]() -> WT { return xtl::const_closure_pointer(std::forward<S>(id2(src))); });
                        });
                    }
                }
                else
                    h = this->make_pw(std::forward<S>(src), std::integral_constant<bool, lv || !std::is_class<P>::value>());
            });
        }
        else if (kind == "br")
        {
            const std::string& cat = s1.str("cat");
            size_t i = size_t(s1.num("i") - 1);
            if (cat == "lv") h = new br_holder<false>(BS[i]);
            else if (cat == "clv") h = new br_holder<true>(xtl::as_const(BS)[i]);
            else unsupported("bit reference from " + cat);
        }
        else if (kind == "fs")
        {
            with_s(s1, [&](auto&& src) { h = this->make_fs(std::forward<decltype(src)>(src), via == "same"); });
        }
        else if (kind == "opt" || kind == "mv")
        {
            const vj::value& s2 = a.at("s").a.at(1);
            with_p(s1, [&](auto&& va) {
                using SA = decltype(va);
                when<!std::is_const<unref<SA>>::value || std::is_lvalue_reference<SA>::value>::run("const rvalue source", [&](auto id) {
                    this->with_f(s2, [&](auto&& fb) {
                        using SB = decltype(fb);
                        if (kind == "opt")
                        {
                            using WT = decltype(xtl::optional(std::forward<SA>(id(va)), std::forward<SB>(fb)));
                            using H = h2<P, opt_tr, typename WT::value_closure, typename WT::flag_closure>;
                            h = new H([&]() -> WT { return xtl::optional(std::forward<SA>(id(va)), std::forward<SB>(fb)); });
                        }
                        else
                        {
                            using WT = decltype(xtl::masked_value(std::forward<SA>(id(va)), std::forward<SB>(fb)));
                            using H = h2<P, mv_tr, typename WT::value_type, typename WT::flag_type>;
                            h = new H([&]() -> WT { return xtl::masked_value(std::forward<SA>(id(va)), std::forward<SB>(fb)); });
                        }
                    });
                });
            });
        }
        else if (kind == "cx")
        {
            const vj::value& s2 = a.at("s").a.at(1);
            with_p(s1, [&](auto&& va) {
                using SA = decltype(va);
                when<!std::is_const<unref<SA>>::value || std::is_lvalue_reference<SA>::value>::run("const rvalue source", [&](auto id) {
                    this->with_p(s2, [&](auto&& vb) {
                        using SB = decltype(vb);
                        when<!std::is_const<unref<SB>>::value || std::is_lvalue_reference<SB>::value>::run("const rvalue source", [&](auto id2) {
                            using A_ = xtl::closure_type_t<SA>;
                            using B_ = xtl::closure_type_t<SB>;
                            using H = h2<P, cx_tr, A_, B_>;
                            using WT = typename H::W;
                            h = new H([&]() -> WT { return WT(std::forward<SA>(id(va)), std::forward<SB>(id2(vb))); });
                        });
                    });
                });
            });
        }
        else unsupported("Make " + kind);
        return h;
    }

    // proxy_wrapper: an xclosure_wrapper for lvalues and non-class payloads, an xproxy_wrapper_impl otherwise
    template <class S> holder* make_pw(S&& src, std::true_type)
    {
        using WT = decltype(xtl::proxy_wrapper(std::forward<S>(src)));
        return new cw_holder<P, typename WT::closure_type>("pw", [&]() -> WT { return xtl::proxy_wrapper(std::forward<S>(src)); });
    }
    template <class S> holder* make_pw(S&& src, std::false_type)
    {
        using WT = decltype(xtl::proxy_wrapper(std::forward<S>(src)));
        using PB = unref<S>;
        static_assert(std::is_same<WT, xtl::xproxy_wrapper_impl<PB>>::value, "proxy_wrapper of a class rvalue");
        return new pw_holder<P, PB>([&]() -> WT { return xtl::proxy_wrapper(std::forward<S>(src)); });
    }

    // forward_sequence<R, A>(a) as used by a forwarding constructor: `a` is the named parameter A&& a
    template <class A_> holder* make_fs(A_&& a, bool same)
    {
        using AT = A_;                                       // SEQ&, const SEQ&, SEQ or const SEQ
        holder* h = nullptr;
        if (same)
        {
            using RT = decltype(xtl::forward_sequence<SEQ, AT>(a));
            decltype(auto) r = xtl::forward_sequence<SEQ, AT>(a);
            const void* ra = std::is_reference<RT>::value ? (const void*)std::addressof(r) : nullptr;
            fwd_note = std::string(std::is_lvalue_reference<RT>::value ? "lref" : std::is_rvalue_reference<RT>::value ? "rref" : "value")
                       + (ra == (const void*)std::addressof(a) ? "_same" : ra ? "_other" : "");
            h = make_fs_same(std::forward<RT>(r), std::is_lvalue_reference<RT>());
        }
        else
        {
            when<CP>::run("converting forward_sequence of a move-only element type", [&](auto id) {
                using RT = decltype(xtl::forward_sequence<ARR, AT>(id(a)));
                fwd_note = std::is_lvalue_reference<RT>::value ? "lref" : std::is_rvalue_reference<RT>::value ? "rref" : "value";
                h = new fs_own_holder<P, ARR>([&]() -> ARR { return xtl::forward_sequence<ARR, AT>(id(a)); });
            });
        }
        return h;
    }
    template <class R> holder* make_fs_same(R&& r, std::true_type)      // an lvalue reference: keep the alias
    {
        return new fs_alias_holder<P, SEQ, std::is_const<unref<R>>::value>(r);
    }
    template <class R> holder* make_fs_same(R&& r, std::false_type)     // an rvalue: a member R m(forward_sequence<R,A>(a))
    {
        holder* h = nullptr;
        when<CP || !std::is_const<unref<R>>::value>::run("copy of a move-only sequence", [&](auto id) {
            h = new fs_own_holder<P, SEQ>([&]() -> SEQ { return SEQ(std::forward<R>(id(r))); });
        });
        return h;
    }

    // ---- projection
    std::string proj()
    {
        std::string s = "{\"x\":[";
        for (int i = 0; i < NX; ++i) { if (i) s += ','; s += std::to_string(vt::valof(*X[i])); }
        s += "],\"f\":[";
        for (int i = 0; i < NF; ++i) { if (i) s += ','; s += std::to_string(vt::valof(*F[i])); }
        s += "],\"b\":[";
        for (int i = 0; i < NB; ++i) { if (i) s += ','; s += xtl::as_const(BS)[size_t(i)] ? "1" : "0"; }
        s += "],\"s\":[";
        for (int i = 0; i < NS; ++i) { if (i) s += ','; s += std::to_string(vt::valof(*S[i])); }
        s += "],\"w\":[";
        for (int k = 0; k < NW; ++k)
        {
            if (k) s += ',';
            if (!W[k]) { s += "{\"kind\":\"none\",\"c\":[]}"; continue; }
            s += "{\"kind\":\"" + W[k]->kind + "\",\"c\":[";
            for (int i = 0; i < W[k]->ncomp(); ++i)
            {
                obs o = W[k]->peek(i);
                if (i) s += ',';
                s += std::string("{\"m\":\"") + (W[k]->is_ref(i) ? "ref" : "own") + "\",\"t\":\"" + o.t + "\",\"v\":" + std::to_string(o.v) + "}";
            }
            s += "]}";
        }
        return s + "]}";
    }

    holder& slot(int k)
    {
        if (k < 0 || k >= NW || !W[k]) unsupported("empty slot");
        return *W[k];
    }

    std::string step(const vj::value& e)
    {
        const std::string& op = e.str("op");
        int k = int(e.num("k", 0)) - 1;
        const vj::value& a = e.at("a");
        std::string val = "[]";
        const char* exc = "none";
        fwd_note = "na";
        long c0 = vt::g_copies, m0 = vt::g_moves;
        try
        {
            if (op == "Reset") { reset(); c0 = m0 = 0; }
            else if (op == "Make") { if (k < 0 || k >= NW) unsupported("slot"); holder* h = make(a); W[k].reset(h); }
            else if (op == "Destroy") { slot(k); W[k].reset(); }
            else if (op == "EndTemps") { temps.clear(); stemps.clear(); }
            else if (op == "WriteVar")
            {
                const std::string& cls = a.str("cls");
                int i = int(a.num("i")) - 1, v = int(a.num("v"));
                if (cls == "x") *X[i] = vt::mk<P>::of(v);
                else if (cls == "f") *F[i] = (v != 0);
                else if (cls == "b") BS[size_t(i)] = (v != 0);
                else if (cls == "s") *S[i] = vt::mk<SEQ>::of(v);
                else unsupported("WriteVar class");
            }
            else if (op == "Read") val = obs_json(slot(k).read(a.str("form")));
            else if (op == "Assign") slot(k).assign(int(a.num("v")), a.str("cat") == "rv");
            else if (op == "AssignComp") slot(k).assign_comp(int(a.num("i")) - 1, int(a.num("v")), a.str("form"));
            else if (op == "CopyW" || op == "MoveW")
            {
                int j = int(a.num("j")) - 1;
                if (j == k) unsupported("clone of itself");
                holder* h = slot(j).clone(op == "MoveW");
                W[k].reset(h);
            }
            else if (op == "AssignW") slot(k).assign_from(slot(int(a.num("j")) - 1), a.num("mv") != 0);
            else if (op == "Swap") slot(k).swap_with(slot(int(a.num("j")) - 1), a.str("how"));
            else if (op == "AddrOf") val = obs_json(slot(k).addr_of(a.str("form"), int(a.num("wr"))));
            else if (op == "Equal") val = "[{\"t\":\"value\",\"v\":" + std::to_string(slot(k).equal(slot(int(a.num("j")) - 1))) + "}]";
            else unsupported("op " + op);
        }
        catch (const std::exception&) { exc = "other"; }
        vj::out o;
        o.ks("exc", exc).kv("copies", vt::g_copies - c0).kv("moves", vt::g_moves - m0).ks("fwd", fwd_note).kraw("val", val);
        return o.obj();
    }

    int run()
    {
        std::string line;
        reset();
        while (std::getline(std::cin, line))
        {
            if (line.empty()) continue;
            vj::value e = vj::parse(line);
            if (e.str("op") == "Reset" && e.at("a").str("p") != vt::pname<P>::get()) unsupported("this driver instance runs payload " + std::string(vt::pname<P>::get()));
            std::string res = step(e);
            std::string head = line.substr(0, line.rfind('}'));
            std::fputs((head + ",\"res\":" + res + ",\"st\":" + proj() + "}\n").c_str(), stdout);
        }
        for (auto& h : W) h.reset();
        return 0;
    }
};

int main(int argc, char** argv)
{
    vj::install_crash_handlers();
    std::string p = argc > 1 ? argv[1] : "counted";
#if !defined(C07_ONLY) || C07_ONLY == 1
    if (p == "int") return machine<int>().run();
#endif
#if !defined(C07_ONLY) || C07_ONLY == 2
    if (p == "counted") return machine<vt::Counted>().run();
#endif
#if !defined(C07_ONLY) || C07_ONLY == 3
    if (p == "moveonly") return machine<vt::MoveOnly>().run();
#endif
    std::fprintf(stderr, "usage: driver {int|counted|moveonly} < script\n");
    return 3;
}

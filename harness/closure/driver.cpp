// C07 conformance harness: interprets a script of closure/wrapper operations (ndjson on stdin) on
// real xtl objects -- xclosure_wrapper, xclosure_pointer, xproxy_wrapper, xoptional / xcomplex /
// xmasked_value over closure types, bitset element references, xoptional over bitset references,
// forward_sequence -- and writes, after every call, what the call returned and the observable
// projection: the value of every caller variable and, for every wrapper, which object each
// component designates (by address) and the value read through it.  It contains no oracle: it
// executes and prints.
//
//   driver {int|counted|moveonly} < script > trace
//
// Only the public interface of xtl is used: the factory functions, the class templates' names and
// template arguments (never their member typedefs), and public member / free functions.
//
// A call of the script the driver cannot perform (empty slot, a call form that is not available
// for these types) ends the execution with a {"op":"Desync"} event and the driver continues at the
// next Reset.  A crash, a sanitizer report, std::terminate or a call that uses more than
// C07_CALL_CPU_S seconds of CPU time ends the trace with a {"op":"Crash"} event (the runner
// restarts the driver for the remaining executions).  No spec action matches either event.
//
// Compile-time switches (set by the runner from compile probes):
//   -DC07_CW_MO_RV     closure(move-only rvalue) compiles                 -> the call is available
//   -DC07_CX_XASSIGN   xcomplex<A,B> = xcomplex<C,D> compiles             -> the call is available
//   -DC07_MV_COPY_LV   xmasked_value<T&,B&> copy from a non-const lvalue  -> the call is available
//   -DC07_KINDS=mask   wrapper kinds to build (default: all), see KB_* below
//   -DC07_ONLY=n       payload to build: 1 int, 2 Counted, 3 MoveOnly (default: all)
#include <xtl/xclosure.hpp>
#include <xtl/xproxy_wrapper.hpp>
#include <xtl/xoptional.hpp>
#include <xtl/xcomplex.hpp>
#include <xtl/xmasked_value.hpp>
#include <xtl/xsequence.hpp>
#include <xtl/xdynamic_bitset.hpp>
#include "vjson.hpp"
#include <array>
#include <iostream>
#include <memory>
#include <string>
#include <typeinfo>
#include <vector>
#include <sys/time.h>

#define KB_CW 1
#define KB_CP 2
#define KB_PW 4
#define KB_OPT 8
#define KB_CX 16
#define KB_MV 32
#define KB_BR 64
#define KB_FS 128
#define KB_OB 256
#ifndef C07_KINDS
#define C07_KINDS 511
#endif
#define HAS_KIND(b) (((C07_KINDS) & (b)) != 0)
#ifndef C07_CALL_CPU_S
#define C07_CALL_CPU_S 5
#endif
#ifdef C07_MV_COPY_LV
#define MV_COPY_LV true
#else
#define MV_COPY_LV false
#endif

namespace vt
{
    static long g_copies = 0, g_moves = 0;
    constexpr int MOVED = 9;

    // copy-counting payload; a moved-from object shows MOVED
    struct Counted
    {
        int v;
        Counted() : v(0) {}
        explicit Counted(int x) : v(x) {}
        Counted(const Counted& o) : v(o.v) { ++g_copies; }
        Counted(Counted&& o) noexcept : v(o.v) { o.v = MOVED; ++g_moves; }
        Counted& operator=(const Counted& o) { v = o.v; return *this; }
        Counted& operator=(Counted&& o) noexcept { if (this != &o) { v = o.v; o.v = MOVED; } return *this; }
        bool operator==(const Counted& o) const { return v == o.v; }
        bool operator!=(const Counted& o) const { return v != o.v; }
    };
    // move-only payload: any copy is a compile error
    struct MoveOnly
    {
        int v;
        MoveOnly() : v(0) {}
        explicit MoveOnly(int x) : v(x) {}
        MoveOnly(const MoveOnly&) = delete;
        MoveOnly& operator=(const MoveOnly&) = delete;
        MoveOnly(MoveOnly&& o) noexcept : v(o.v) { o.v = MOVED; ++g_moves; }
        MoveOnly& operator=(MoveOnly&& o) noexcept { if (this != &o) { v = o.v; o.v = MOVED; } return *this; }
        bool operator==(const MoveOnly& o) const { return v == o.v; }
        bool operator!=(const MoveOnly& o) const { return v != o.v; }
    };

    inline int valof(int x) { return x; }
    inline int valof(bool x) { return x ? 1 : 0; }
    inline int valof(const Counted& x) { return x.v; }
    inline int valof(const MoveOnly& x) { return x.v; }
    template <class C> inline int seqval(const C& c)          // uniform value, MOVED when emptied, 99 otherwise
    {
        if (c.size() == 0) return MOVED;
        int v = valof(*c.begin());
        for (const auto& e : c) if (valof(e) != v) return 99;
        return c.size() == 2 ? v : 99;
    }
    template <class T> inline int valof(const std::vector<T>& c) { return seqval(c); }
    template <class T, std::size_t N> inline int valof(const std::array<T, N>& c) { return seqval(c); }

    template <class P> struct mk { static P of(int v) { return P(v); } };
    template <> struct mk<int> { static int of(int v) { return v; } };
    template <> struct mk<bool> { static bool of(int v) { return v != 0; } };
    template <class T> struct mk<std::vector<T>>
    {
        static std::vector<T> of(int v) { std::vector<T> s; s.reserve(2); s.push_back(mk<T>::of(v)); s.push_back(mk<T>::of(v)); return s; }
    };
    template <class T> struct mk<std::array<T, 2>>
    {
        static std::array<T, 2> of(int v) { return std::array<T, 2>{{mk<T>::of(v), mk<T>::of(v)}}; }
    };

    template <class P> struct copyable : std::is_copy_constructible<P> {};
    template <class T> struct copyable<std::vector<T>> : copyable<T> {};       // vector declares its copy constructor unconditionally
    template <class T, std::size_t N> struct copyable<std::array<T, N>> : copyable<T> {};
    template <class P> struct pname;
    template <> struct pname<int> { static const char* get() { return "int"; } };
    template <> struct pname<Counted> { static const char* get() { return "counted"; } };
    template <> struct pname<MoveOnly> { static const char* get() { return "moveonly"; } };
}

// the script asks for something this driver cannot do: the execution ends with a Desync event
struct desync { std::string why; };
[[noreturn]] static void unsupported(const std::string& what) { throw desync{what}; }

// compile-time branch: the generic lambda's body is only instantiated when the condition holds
struct ident { template <class T> T&& operator()(T&& t) const { return std::forward<T>(t); } };
template <bool C> struct when
{
    template <class F> static void run(const char*, F&& f) { f(ident{}); }
};
template <> struct when<false>
{
    template <class F> static void run(const char* what, F&&) { unsupported(what); }
};

struct obs { std::string t; int v; };
static std::string obs_json(const std::vector<obs>& o)
{
    std::string r = "[";
    for (size_t i = 0; i < o.size(); ++i)
    {
        if (i) r += ',';
        r += "{\"t\":\"" + o[i].t + "\",\"v\":" + std::to_string(o[i].v) + "}";
    }
    return r + "]";
}

struct range { const char* lo; const char* hi; bool has(const void* p) const { return (const char*)p >= lo && (const char*)p < hi; } };
template <class T> static range range_of(const T& t) { return range{(const char*)std::addressof(t), (const char*)std::addressof(t) + sizeof(T)}; }

// classify an address: which object does it designate?
struct world
{
    std::vector<std::pair<const void*, std::string>> vars;   // caller variables (exact object addresses)
    std::vector<range> temps;                                // caller temporaries, alive or dead
    std::string where(const void* p, range self, range extra) const
    {
        for (auto& v : vars) if (v.first == p) return v.second;
        if (self.has(p)) return "self";
        if (extra.has(p)) return "value";
        for (auto& t : temps) if (t.has(p)) return "temp";
        return "unknown";
    }
};
static world g_world;
static const range NORANGE{nullptr, nullptr};

// how a wrapper is cloned
enum clone_how { COPY_CLV = 0, COPY_LV = 1, MOVE = 2, RELOC = 3 };   // RELOC: through a std::vector that reallocates

struct holder
{
    std::string kind;
    virtual ~holder() {}
    virtual int ncomp() const = 0;
    virtual bool is_ref(int i) const = 0;
    virtual obs peek(int i) = 0;
    virtual std::vector<obs> read(const std::string& form) = 0;
    virtual void assign(int v, bool rvalue) = 0;
    virtual void assign_comp(int, int, const std::string&) { unsupported("AssignComp on " + kind); }
    virtual holder* clone(clone_how how) = 0;
    virtual void assign_from(holder&, bool) { unsupported("AssignW on " + kind); }
    virtual void swap_with(holder&, const std::string&) { unsupported("Swap on " + kind); }
    virtual std::vector<obs> addr_of(const std::string&, int) { unsupported("AddrOf on " + kind); }
    virtual int equal(holder&) { unsupported("Equal on " + kind); }
    virtual obs value_or(int, const std::string&, const std::string&) { unsupported("ValueOr on " + kind); }
};
constexpr int NOWRITE = 99;

// observe the result of an access expression: a reference is classified by address, a value is "value"
template <class R> static obs see_ref(R& r, range self, range extra) { return obs{g_world.where((const void*)std::addressof(r), self, extra), vt::valof(r)}; }
template <class RT, class R> static obs see(R&& r, range self, range extra, std::true_type) { return see_ref(r, self, extra); }
template <class RT, class R> static obs see(R&& r, range, range, std::false_type) { return obs{"value", vt::valof(r)}; }
#define SEE(expr, self, extra) see<decltype(expr)>(expr, self, extra, std::is_reference<decltype(expr)>())

template <class T> using unref = std::remove_reference_t<T>;
template <class CT> struct ct_writable : std::integral_constant<bool, !std::is_const<unref<CT>>::value> {};
template <class CT> struct ct_ref : std::is_lvalue_reference<CT> {};

// the template arguments of a wrapper type (the class templates' names are public interface; their
// member typedefs are not needed)
template <class W> struct wrap_args;
template <class CT> struct wrap_args<xtl::xclosure_wrapper<CT>> { using a = CT; };
template <class CT> struct wrap_args<xtl::xclosure_pointer<CT>> { using a = CT; };
template <class A, class B> struct wrap_args<xtl::xoptional<A, B>> { using a = A; using b = B; };
template <class A, class B> struct wrap_args<xtl::xmasked_value<A, B>> { using a = A; using b = B; };
template <class W> struct is_closure_wrapper : std::false_type {};
template <class CT> struct is_closure_wrapper<xtl::xclosure_wrapper<CT>> : std::true_type {};

/**************************************************************************************************
 * xclosure_wrapper (also what proxy_wrapper returns for an lvalue or a non-class rvalue)
 **************************************************************************************************/
template <class P, class CT>
struct cw_holder : holder
{
    using W = xtl::xclosure_wrapper<CT>;
    static constexpr bool REF = ct_ref<CT>::value, WR = ct_writable<CT>::value, CP = vt::copyable<P>::value;
    W w;
    template <class F> cw_holder(const char* k, F&& make) : w(make()) { kind = k; }
    struct copy_tag {};
    struct lcopy_tag {};
    cw_holder(const char* k, W&& o, int) : w(std::move(o)) { kind = k; }
    cw_holder(const char* k, const W& o, copy_tag) : w(o) { kind = k; }
    cw_holder(const char* k, W& o, lcopy_tag) : w(o) { kind = k; }
    range self() const { return range_of(w); }
    int ncomp() const override { return 1; }
    bool is_ref(int) const override { return REF; }
    obs peek(int) override { return SEE(xtl::as_const(w).get(), self(), NORANGE); }
    std::vector<obs> read(const std::string& form) override
    {
        std::vector<obs> r;
        if (form == "get" || form == "base") r.push_back(SEE(w.get(), self(), NORANGE));
        else if (form == "cget") r.push_back(SEE(xtl::as_const(w).get(), self(), NORANGE));
        else if (form == "rget")
            when<REF || CP>::run("rget on an owning move-only closure", [&](auto id) { r.push_back(SEE(std::move(id(w)).get(), self(), NORANGE)); });
        else if (form == "rbind")
            when<REF || CP>::run("copy of an owning move-only closure", [&](auto id) {
                // the rvalue accessor of a temporary copy of the wrapper, bound to a reference; the temporary wrapper is gone
                // when r is read (a reference into it is a use after scope: the sanitizer ends the trace with a Crash event)
                auto&& bound = W(id(xtl::as_const(w))).get();
                if (REF) r.push_back(see_ref(bound, self(), NORANGE));
                else r.push_back(obs{"value", vt::valof(bound)});
            });
        else if (form == "crget")
            when<REF || CP>::run("crget on an owning move-only closure", [&](auto id) { r.push_back(SEE(std::move(xtl::as_const(id(w))).get(), self(), NORANGE)); });
        else if (form == "rconv")
            when<REF || CP>::run("copy of an owning move-only closure", [&](auto id) {
                // the implicit conversion of a temporary copy of the wrapper, bound to a reference and read after the temporary is gone
                using RT = std::conditional_t<REF, CT, const P&>;
                RT bound = id(W(id(xtl::as_const(w))));     // (id(): keeps the expression type-dependent; the temporary dies with the declaration)
                if (REF) r.push_back(see_ref(bound, self(), NORANGE));
                else r.push_back(obs{"value", vt::valof(bound)});
            });
        else if (form == "conv")
            when<REF || CP>::run("conversion of an owning move-only closure", [&](auto id) {
                CT c = id(w);                                  // operator closure_type()
                r.push_back(see<CT>(c, self(), NORANGE, std::is_reference<CT>()));
            });
        else if (form == "cconv")
            when<REF || CP>::run("conversion of an owning move-only closure", [&](auto id) {
                using CCT = std::add_const_t<CT>;
                CCT c = xtl::as_const(id(w));                  // operator const_closure_type() const
                r.push_back(see<CCT>(c, self(), NORANGE, std::is_reference<CCT>()));
            });
        else unsupported("Read " + form + " on " + kind);
        return r;
    }
    void assign(int v, bool rvalue) override
    {
        when<WR>::run("assignment through a const closure", [&](auto id) {
            if (rvalue) id(w) = vt::mk<P>::of(v);
            else when<CP>::run("copy-assignment of a move-only payload", [&](auto id2) { P tmp = vt::mk<P>::of(v); id2(w) = tmp; });
        });
    }
    holder* clone(clone_how how) override
    {
        holder* h = nullptr;
        if (how == MOVE) when<REF || CP || WR>::run("move of a const move-only closure", [&](auto id) { h = new cw_holder(kind.c_str(), std::move(id(w)), 0); });
        else if (how == RELOC)
            when<REF || CP || WR>::run("move of a const move-only closure", [&](auto id) {
                // the wrapper goes into a vector, two more elements make the vector reallocate (its elements are moved or
                // copied to new storage, the old ones destroyed), the relocated element is taken out again
                std::vector<W> v;
                v.reserve(1);
                v.push_back(std::move(id(w)));
                const void* before = (const void*)v.data();
                v.reserve(v.capacity() + 7);
                if ((const void*)v.data() == before) unsupported("the vector did not reallocate");
                h = new cw_holder(kind.c_str(), std::move(v.front()), 0);
            });
        else if (how == COPY_CLV) when<REF || CP>::run("copy of an owning move-only closure", [&](auto id) { h = new cw_holder(kind.c_str(), id(xtl::as_const(w)), copy_tag()); });
        else when<REF || CP>::run("copy of an owning move-only closure", [&](auto id) { h = new cw_holder(kind.c_str(), id(w), lcopy_tag()); });
        return h;
    }
    cw_holder& same(holder& j)
    {
        auto* o = dynamic_cast<cw_holder*>(&j);
        if (!o) unsupported("closure wrappers of different types");
        return *o;
    }
    void assign_from(holder& j, bool move) override
    {
        cw_holder& o = same(j);
        when<WR>::run("assignment through a const closure", [&](auto id) {
            if (move) id(w) = std::move(o.w);
            else when<CP>::run("copy-assignment of a move-only payload", [&](auto id2) { id2(w) = xtl::as_const(o.w); });
        });
    }
    void swap_with(holder& j, const std::string& how) override
    {
        cw_holder& o = same(j);
        when<WR>::run("swap through a const closure", [&](auto id) {
            if (how == "member") id(w).swap(o.w);
            else { using std::swap; swap(id(w), o.w); }
        });
    }
    std::vector<obs> addr_of(const std::string& form, int wr) override
    {
        if (form != "lv") unsupported("AddrOf " + form + " on " + kind);
        std::vector<obs> r;
        auto p = &w;                                           // xclosure_wrapper::operator&
        r.push_back(see_ref(*p, self(), NORANGE));
        if (wr != NOWRITE) when<WR>::run("write through a pointer to const", [&](auto id) { *id(p) = vt::mk<P>::of(wr); });
        return r;
    }
    int equal(holder& j) override
    {
        cw_holder& o = same(j);
        bool e = (w == o.w), n = (w != o.w);
        return e == n ? 77 : (e ? 1 : 0);
    }
};

/**************************************************************************************************
 * xclosure_pointer
 **************************************************************************************************/
template <class P, class CT>
struct cp_holder : holder
{
    using W = xtl::xclosure_pointer<CT>;
    static constexpr bool REF = ct_ref<CT>::value, WR = ct_writable<CT>::value, CP = vt::copyable<P>::value;
    W w;
    template <class F> cp_holder(F&& make) : w(make()) { kind = "cp"; }
    cp_holder(W&& o, int) : w(std::move(o)) { kind = "cp"; }
    struct copy_tag {};
    struct lcopy_tag {};
    cp_holder(const W& o, copy_tag) : w(o) { kind = "cp"; }
    cp_holder(W& o, lcopy_tag) : w(o) { kind = "cp"; }
    range self() const { return range_of(w); }
    int ncomp() const override { return 1; }
    bool is_ref(int) const override { return REF; }
    obs peek(int) override { return SEE(*xtl::as_const(w), self(), NORANGE); }
    std::vector<obs> read(const std::string& form) override
    {
        std::vector<obs> r;
        if (form == "deref") r.push_back(SEE(*w, self(), NORANGE));
        else if (form == "cderef") r.push_back(SEE(*xtl::as_const(w), self(), NORANGE));
        else if (form == "arrow") r.push_back(see_ref(*w.operator->(), self(), NORANGE));
        else unsupported("Read " + form + " on cp");
        return r;
    }
    void assign(int v, bool rvalue) override
    {
        when<WR>::run("assignment through a const closure pointer", [&](auto id) {
            if (rvalue) *id(w) = vt::mk<P>::of(v);
            else when<CP>::run("copy-assignment of a move-only payload", [&](auto id2) { P tmp = vt::mk<P>::of(v); *id2(w) = tmp; });
        });
    }
    holder* clone(clone_how how) override
    {
        holder* h = nullptr;
        if (how == MOVE) when<REF || CP || WR>::run("move of a const move-only closure", [&](auto id) { h = new cp_holder(std::move(id(w)), 0); });
        else if (how == COPY_CLV) when<REF || CP>::run("copy of an owning move-only closure", [&](auto id) { h = new cp_holder(id(xtl::as_const(w)), copy_tag()); });
        else when<REF || CP>::run("copy of an owning move-only closure", [&](auto id) { h = new cp_holder(id(w), lcopy_tag()); });
        return h;
    }
};

/**************************************************************************************************
 * proxy_wrapper of a class-type rvalue: the wrapper IS-A P (xproxy_wrapper_impl<P>)
 **************************************************************************************************/
template <class P, class W, bool WR>     // W: what proxy_wrapper returned; WR: the source was not const
struct pw_holder : holder
{
    static constexpr bool CP = vt::copyable<P>::value;
    W w;
    template <class F> pw_holder(F&& make) : w(make()) { kind = "pw"; }
    pw_holder(W&& o, int) : w(std::move(o)) { kind = "pw"; }
    struct copy_tag {};
    struct lcopy_tag {};
    pw_holder(const W& o, copy_tag) : w(o) { kind = "pw"; }
    pw_holder(W& o, lcopy_tag) : w(o) { kind = "pw"; }
    range self() const { return range_of(w); }
    int ncomp() const override { return 1; }
    bool is_ref(int) const override { return false; }
    obs peek(int) override { return see_ref(static_cast<const P&>(w), self(), NORANGE); }
    std::vector<obs> read(const std::string& form) override
    {
        if (form != "base") unsupported("Read " + form + " on an owning proxy wrapper");
        return {see_ref(static_cast<const P&>(w), self(), NORANGE)};
    }
    void assign(int v, bool rvalue) override
    {
        when<WR>::run("assignment to a const proxy", [&](auto id) {
            if (rvalue) static_cast<P&>(id(w)) = vt::mk<P>::of(v);
            else when<CP>::run("copy-assignment of a move-only payload", [&](auto id2) { P tmp = vt::mk<P>::of(v); id2(static_cast<P&>(w)) = tmp; });
        });
    }
    holder* clone(clone_how how) override
    {
        holder* h = nullptr;
        if (how == MOVE) when<CP || WR>::run("move of a const move-only proxy", [&](auto id) { h = new pw_holder(std::move(id(w)), 0); });
        else if (how == COPY_CLV) when<CP>::run("copy of a move-only proxy", [&](auto id) { h = new pw_holder(id(xtl::as_const(w)), copy_tag()); });
        else when<CP>::run("copy of a move-only proxy", [&](auto id) { h = new pw_holder(id(w), lcopy_tag()); });
        return h;
    }
    void assign_from(holder& j, bool move) override
    {
        auto* o = dynamic_cast<pw_holder*>(&j);
        if (!o) unsupported("proxy wrappers of different types");
        when<WR>::run("assignment to a const proxy", [&](auto id) {
            if (move) id(w) = std::move(o->w);
            else when<CP>::run("copy-assignment of a move-only payload", [&](auto id2) { id2(w) = xtl::as_const(o->w); });
        });
    }
    std::vector<obs> addr_of(const std::string& form, int wr) override
    {
        std::vector<obs> r;
        if (form == "lv")
        {
            auto p = &w;                                      // a pointer-like object designating w
            r.push_back(SEE(*p, self(), range_of(p)));
            if (wr != NOWRITE) when<WR>::run("write through a pointer to const", [&](auto id) { *id(p) = vt::mk<P>::of(wr); });
        }
        else if (form == "rv")
        {
            when<CP || WR>::run("move of a const move-only proxy", [&](auto id) {
                auto p = &std::move(id(w));                   // a pointer-like object that owns a moved copy
                r.push_back(SEE(*p, self(), range_of(p)));
                if (wr != NOWRITE) when<WR>::run("write through a pointer to const", [&](auto id2) { *id2(p) = vt::mk<P>::of(wr); });
            });
        }
        else unsupported("AddrOf " + form + " on pw");
        return r;
    }
};

/**************************************************************************************************
 * bitset element reference
 **************************************************************************************************/
using bitset_t = xtl::xdynamic_bitset<std::uint8_t>;
template <bool IS_CONST>
struct br_holder : holder
{
    using W = unref<decltype(std::declval<std::conditional_t<IS_CONST, const bitset_t&, bitset_t&>>()[0])>;
    W w;
    br_holder(W&& o) : w(std::move(o)) { kind = "br"; }
    struct copy_tag {};
    struct lcopy_tag {};
    br_holder(const W& o, copy_tag) : w(o) { kind = "br"; }
    br_holder(W& o, lcopy_tag) : w(o) { kind = "br"; }
    int ncomp() const override { return 1; }
    bool is_ref(int) const override { return true; }
    obs peek(int) override { return obs{"bit", bool(xtl::as_const(w)) ? 1 : 0}; }
    std::vector<obs> read(const std::string& form) override
    {
        if (form == "conv") return {obs{"bit", bool(w) ? 1 : 0}};
        if (form == "neg") return {obs{"bit", (~w) ? 1 : 0}};
        unsupported("Read " + form + " on br");
    }
    void assign(int v, bool) override
    {
        when<!IS_CONST>::run("assignment through a const bit reference", [&](auto id) { id(w) = (v != 0); });
    }
    holder* clone(clone_how how) override
    {
        if (how == MOVE) return new br_holder(W(std::move(w)));
        if (how == COPY_CLV) return new br_holder(xtl::as_const(w), copy_tag());
        return new br_holder(w, lcopy_tag());
    }
    void assign_from(holder& j, bool move) override
    {
        when<!IS_CONST>::run("assignment through a const bit reference", [&](auto id) {
            if (auto* o = dynamic_cast<br_holder<false>*>(&j)) { if (move) id(w) = std::move(o->w); else id(w) = xtl::as_const(o->w); }
            else if (auto* c = dynamic_cast<br_holder<true>*>(&j)) id(w) = bool(c->w);
            else unsupported("AssignW br from another kind");
        });
    }
    void swap_with(holder& j, const std::string& how) override
    {
        auto* o = dynamic_cast<br_holder*>(&j);
        if (!o) unsupported("swap of bit references of different types");
        if (how != "adl") unsupported("Swap " + how + " on br");
        when<!IS_CONST>::run("swap through const bit references", [&](auto id) { using std::swap; swap(id(w), o->w); });
    }
    std::vector<obs> addr_of(const std::string& form, int wr) override
    {
        if (form != "lv") unsupported("AddrOf " + form + " on br");
        auto p = &w;                                          // a pointer-like object designating the bit
        std::vector<obs> r{obs{"bit", bool(*p) ? 1 : 0}};
        if (wr != NOWRITE) when<!IS_CONST>::run("write through a const bit reference", [&](auto id) { *id(p) = (wr != 0); });
        return r;
    }
};

/**************************************************************************************************
 * forward_sequence: either the argument itself (an alias) or a new sequence
 **************************************************************************************************/
template <class P, class SEQ, bool IS_CONST>
struct fs_alias_holder : holder     // decltype(auto) r = forward_sequence<R, A&>(a);  r is A&
{
    using R = std::conditional_t<IS_CONST, const SEQ, SEQ>;
    R* r;
    explicit fs_alias_holder(R& ref) : r(&ref) { kind = "fs"; }
    int ncomp() const override { return 1; }
    bool is_ref(int) const override { return true; }
    obs peek(int) override { return see_ref(*static_cast<const SEQ*>(r), NORANGE, NORANGE); }
    std::vector<obs> read(const std::string&) override { return {see_ref(*r, NORANGE, NORANGE)}; }
    void assign(int v, bool) override
    {
        when<!IS_CONST>::run("assignment through a const sequence reference", [&](auto id) { *id(r) = vt::mk<SEQ>::of(v); });
    }
    holder* clone(clone_how) override { unsupported("Clone on fs"); }
};
template <class P, class SEQ>
struct fs_own_holder : holder       // R r(forward_sequence<R, A>(a));
{
    SEQ s;
    template <class F> explicit fs_own_holder(F&& make) : s(make()) { kind = "fs"; }
    int ncomp() const override { return 1; }
    bool is_ref(int) const override { return false; }
    obs peek(int) override { return see_ref(xtl::as_const(s), range_of(s), NORANGE); }
    std::vector<obs> read(const std::string&) override { return {see_ref(s, range_of(s), NORANGE)}; }
    void assign(int v, bool) override { s = vt::mk<SEQ>::of(v); }
    holder* clone(clone_how) override { unsupported("Clone on fs"); }
};

/**************************************************************************************************
 * two-component wrappers: xoptional<CT,CB>, xcomplex<CTR,CTI>, xmasked_value<T,B>
 **************************************************************************************************/
struct opt_tr
{
    static const char* name() { return "opt"; }
    template <class A, class B> using type = xtl::xoptional<A, B>;
    template <class W> static decltype(auto) c1(W&& w) { return std::forward<W>(w).value(); }
    template <class W> static decltype(auto) c2(W&& w) { return std::forward<W>(w).has_value(); }
    template <class W> static decltype(auto) f1(W&& w) { return xtl::value(std::forward<W>(w)); }
    template <class W> static decltype(auto) f2(W&& w) { return xtl::has_value(std::forward<W>(w)); }
    static constexpr bool has_addr = true, swap_member = true, swap_adl = false, xassign = true, free_fns = true, has_value_or = true, lcopy = true;
};
struct cx_tr
{
    static const char* name() { return "cx"; }
    template <class A, class B> using type = xtl::xcomplex<A, B>;
    template <class W> static decltype(auto) c1(W&& w) { return std::forward<W>(w).real(); }
    template <class W> static decltype(auto) c2(W&& w) { return std::forward<W>(w).imag(); }
    template <class W> static decltype(auto) f1(W&& w) { return xtl::real(std::forward<W>(w)); }
    template <class W> static decltype(auto) f2(W&& w) { return xtl::imag(std::forward<W>(w)); }
    static constexpr bool has_addr = true, swap_member = false, swap_adl = false, free_fns = true, has_value_or = false, lcopy = true;
#ifdef C07_CX_XASSIGN
    static constexpr bool xassign = true;
#else
    static constexpr bool xassign = false;
#endif
};
struct mv_tr
{
    static const char* name() { return "mv"; }
    template <class A, class B> using type = xtl::xmasked_value<A, B>;
    template <class W> static decltype(auto) c1(W&& w) { return std::forward<W>(w).value(); }
    template <class W> static decltype(auto) c2(W&& w) { return std::forward<W>(w).visible(); }
    template <class W> static int f1(W&&) { return 0; }
    template <class W> static int f2(W&&) { return 0; }
    static constexpr bool has_addr = false, swap_member = true, swap_adl = true, xassign = true, free_fns = false, has_value_or = false, lcopy = MV_COPY_LV;
};

template <class P, bool C1, bool C2> struct ob_holder;

template <class P, class Tr, class A, class B>    // A, B: the closure types of the two components
struct h2 : holder
{
    using W = typename Tr::template type<A, B>;
    using V1 = std::decay_t<A>;
    using V2 = std::decay_t<B>;
    static constexpr bool R1 = ct_ref<A>::value, R2 = ct_ref<B>::value;
    static constexpr bool W1 = ct_writable<A>::value, W2 = ct_writable<B>::value;
    static constexpr bool CP = vt::copyable<P>::value;
    static constexpr bool P2 = std::is_same<V2, P>::value;            // second component is payload-typed (xcomplex)
    static constexpr bool ALLOWN = !R1 && !R2;
    static constexpr bool IS_OPT = std::is_same<Tr, opt_tr>::value;
    // copy construction of W needs copyable payload unless every payload component is a reference
    static constexpr bool CAN_COPY = CP || (R1 && (R2 || !P2));
    static constexpr bool CAN_MOVE = CP || ((R1 || W1) && (R2 || !P2 || W2));
    W w;
    template <class F> explicit h2(F&& make) : w(make()) { kind = Tr::name(); }
    h2(W&& o, int) : w(std::move(o)) { kind = Tr::name(); }
    struct copy_tag {};
    struct lcopy_tag {};
    h2(const W& o, copy_tag) : w(o) { kind = Tr::name(); }
    h2(W& o, lcopy_tag) : w(o) { kind = Tr::name(); }
    range self() const { return range_of(w); }
    int ncomp() const override { return 2; }
    bool is_ref(int i) const override { return i == 0 ? R1 : R2; }
    obs peek(int i) override
    {
        if (i == 0) return SEE(Tr::c1(xtl::as_const(w)), self(), NORANGE);
        return SEE(Tr::c2(xtl::as_const(w)), self(), NORANGE);
    }
    template <class WW> std::vector<obs> read_lv(WW& x, range extra)
    {
        return {SEE(Tr::c1(x), self(), extra), SEE(Tr::c2(x), self(), extra)};
    }
    std::vector<obs> read(const std::string& form) override
    {
        std::vector<obs> r;
        if (form == "lv") r = read_lv(w, NORANGE);
        else if (form == "clv") r = read_lv(xtl::as_const(w), NORANGE);
        else if (form == "rv")
            when<CAN_COPY>::run("rvalue accessor of an owning move-only closure", [&](auto id) {
                r.push_back(SEE(Tr::c1(std::move(id(w))), self(), NORANGE));
                r.push_back(SEE(Tr::c2(std::move(id(w))), self(), NORANGE));
            });
        else if (form == "crv")
            when<CAN_COPY>::run("rvalue accessor of an owning move-only closure", [&](auto id) {
                r.push_back(SEE(Tr::c1(std::move(xtl::as_const(id(w)))), self(), NORANGE));
                r.push_back(SEE(Tr::c2(std::move(xtl::as_const(id(w)))), self(), NORANGE));
            });
        else if (form == "rvbind")
            when<CAN_COPY>::run("copy of an owning move-only closure", [&](auto id) {
                // the rvalue accessors of temporary copies of the wrapper, bound to references; the temporaries are gone when
                // b1 / b2 are read (a reference into one of them is a use after scope: the sanitizer ends the trace with a Crash)
                auto&& b1 = Tr::c1(id(W(id(xtl::as_const(w)))));
                auto&& b2 = Tr::c2(id(W(id(xtl::as_const(w)))));
                if (R1) r.push_back(see_ref(b1, self(), NORANGE)); else r.push_back(obs{"value", vt::valof(b1)});
                if (R2) r.push_back(see_ref(b2, self(), NORANGE)); else r.push_back(obs{"value", vt::valof(b2)});
            });
        else if (form == "free" || form == "cfree")
            when<Tr::free_fns>::run("free accessor functions", [&](auto id) {
                if (form == "free") { r.push_back(SEE(Tr::f1(id(w)), self(), NORANGE)); r.push_back(SEE(Tr::f2(id(w)), self(), NORANGE)); }
                else { r.push_back(SEE(Tr::f1(xtl::as_const(id(w))), self(), NORANGE)); r.push_back(SEE(Tr::f2(xtl::as_const(id(w))), self(), NORANGE)); }
            });
        else if (form == "rfree")
            when<Tr::free_fns && CAN_COPY>::run("free accessor functions on an rvalue", [&](auto id) {
                r.push_back(SEE(Tr::f1(std::move(id(w))), self(), NORANGE)); r.push_back(SEE(Tr::f2(std::move(id(w))), self(), NORANGE));
            });
        else unsupported("Read " + form + " on " + kind);
        return r;
    }
    obs value_or(int v, const std::string& d, const std::string& form) override
    {
        obs r{"none", 0};
        when<Tr::has_value_or && CP>::run("value_or", [&](auto id) {
            P dflt = vt::mk<P>::of(v);
            bool lv = (d == "lv");
            if (form == "clv") r = lv ? SEE(xtl::as_const(id(w)).value_or(dflt), self(), NORANGE) : SEE(xtl::as_const(id(w)).value_or(vt::mk<P>::of(v)), self(), NORANGE);
            else if (form == "rv") r = lv ? SEE(std::move(id(w)).value_or(dflt), self(), NORANGE) : SEE(std::move(id(w)).value_or(vt::mk<P>::of(v)), self(), NORANGE);
            else if (form == "crv") r = lv ? SEE(std::move(xtl::as_const(id(w))).value_or(dflt), self(), NORANGE) : SEE(std::move(xtl::as_const(id(w))).value_or(vt::mk<P>::of(v)), self(), NORANGE);
            else unsupported("ValueOr " + form);
        });
        return r;
    }
    static constexpr bool WHOLE_WR = std::is_same<Tr, mv_tr>::value ? W1 : (W1 && W2);
    void assign(int v, bool rvalue) override
    {
        when<WHOLE_WR && (CP || !std::is_same<Tr, mv_tr>::value)>::run("whole assignment", [&](auto id) {
            if (rvalue) id(w) = vt::mk<P>::of(v);
            else when<CP>::run("copy-assignment of a move-only payload", [&](auto id2) { P tmp = vt::mk<P>::of(v); id2(w) = tmp; });
        });
    }
    void assign_comp(int i, int v, const std::string& form) override
    {
        if (i == 0)
        {
            if (form == "lv") when<W1>::run("write to a const component", [&](auto id) { Tr::c1(id(w)) = vt::mk<V1>::of(v); });
            else when<W1 && R1>::run("write through the rvalue accessor", [&](auto id) { Tr::c1(std::move(id(w))) = vt::mk<V1>::of(v); });
        }
        else
        {
            if (form == "lv") when<W2>::run("write to a const component", [&](auto id) { Tr::c2(id(w)) = vt::mk<V2>::of(v); });
            else when<W2 && R2>::run("write through the rvalue accessor", [&](auto id) { Tr::c2(std::move(id(w))) = vt::mk<V2>::of(v); });
        }
    }
    holder* clone(clone_how how) override
    {
        holder* h = nullptr;
        if (how == MOVE) when<CAN_MOVE>::run("move of a const move-only closure", [&](auto id) { h = new h2(std::move(id(w)), 0); });
        else if (how == COPY_CLV) when<CAN_COPY>::run("copy of an owning move-only closure", [&](auto id) { h = new h2(id(xtl::as_const(w)), copy_tag()); });
        else when<CAN_COPY && Tr::lcopy>::run("copy from a non-const lvalue", [&](auto id) { h = new h2(id(w), lcopy_tag()); });
        return h;
    }
    // --- assignment from any wrapper of the same family
    template <class J> bool try_assign_j(holder& j, bool move)
    {
        auto* o = dynamic_cast<J*>(&j);
        if (!o) return false;
        constexpr bool same = std::is_same<J, h2>::value;
        constexpr bool ok = W1 && W2 && CP && (same ? (ALLOWN) : Tr::xassign);
        when<ok>::run("wrapper assignment", [&](auto id) {
            if (move) id(w) = std::move(o->w);
            else id(w) = xtl::as_const(o->w);
        });
        return true;
    }
    template <class A2, class B2> bool try_assign(holder& j, bool move) { return try_assign_j<h2<P, Tr, A2, B2>>(j, move); }
    template <class A2> bool try_assign_b(holder& j, bool move)
    {
        using F = std::conditional_t<P2, P, bool>;
        return try_assign<A2, F&>(j, move) || try_assign<A2, const F&>(j, move) || try_assign<A2, F>(j, move) || try_assign_cb<A2>(j, move, std::integral_constant<bool, P2>());
    }
    template <class A2> bool try_assign_cb(holder& j, bool move, std::true_type) { return try_assign<A2, const P>(j, move); }   // (a flag is never an owned const bool)
    template <class A2> bool try_assign_cb(holder&, bool, std::false_type) { return false; }
    bool try_assign_ob(holder& j, bool move, std::true_type)
    {
#if HAS_KIND(KB_OB)
        return try_assign_j<ob_holder<P, false, false>>(j, move) || try_assign_j<ob_holder<P, false, true>>(j, move)
            || try_assign_j<ob_holder<P, true, false>>(j, move) || try_assign_j<ob_holder<P, true, true>>(j, move);
#else
        (void)j; (void)move; return false;
#endif
    }
    bool try_assign_ob(holder&, bool, std::false_type) { return false; }
    void assign_from(holder& j, bool move) override
    {
        if (!(try_assign_b<P&>(j, move) || try_assign_b<const P&>(j, move) || try_assign_b<P>(j, move) || try_assign_b<const P>(j, move)
              || try_assign_ob(j, move, std::integral_constant<bool, IS_OPT>())))
            unsupported("AssignW from a wrapper of another kind");
    }
    void swap_with(holder& j, const std::string& how) override
    {
        auto* o = dynamic_cast<h2*>(&j);
        if (!o) unsupported("swap of wrappers of different types");
        if (how == "member") when<Tr::swap_member && W1 && W2>::run("member swap", [&](auto id) { id(w).swap(o->w); });
        else when<Tr::swap_adl && W1 && W2>::run("free swap", [&](auto id) { xtl::swap(id(w), o->w); });   // (unqualified swap is ambiguous with std::swap for value types)
    }
    std::vector<obs> addr_of(const std::string& form, int wr) override
    {
        std::vector<obs> r;
        when<Tr::has_addr>::run("operator& of this wrapper", [&](auto id) {
            if (form == "lv")
            {
                auto p = &id(w);                               // a pointer-like object designating w
                r = {SEE(Tr::c1(*p), self(), range_of(p)), SEE(Tr::c2(*p.operator->()), self(), range_of(p))};
                if (wr != NOWRITE) when<W1>::run("write to a const component", [&](auto id2) { Tr::c1(*id2(p)) = vt::mk<V1>::of(wr); });
            }
            else if (form == "clv")
            {
                auto p = &xtl::as_const(id(w));                // ... designating w as const
                r = {SEE(Tr::c1(*p), self(), range_of(p)), SEE(Tr::c2(*p.operator->()), self(), range_of(p))};
                if (wr != NOWRITE) unsupported("write through a pointer to a const wrapper");
            }
            else if (form == "rv")
            {
                when<CAN_MOVE>::run("move of a const move-only closure", [&](auto id2) {
                    auto p = &std::move(id2(w));               // ... that owns a wrapper moved from w
                    r = {SEE(Tr::c1(*p), self(), range_of(p)), SEE(Tr::c2(*p.operator->()), self(), range_of(p))};
                    if (wr != NOWRITE) when<W1>::run("write to a const component", [&](auto id3) { Tr::c1(*id3(p)) = vt::mk<V1>::of(wr); });
                });
            }
            else unsupported("AddrOf " + form);
        });
        return r;
    }
};

/**************************************************************************************************
 * xoptional over a reference and a bitset element reference (what xoptional_vector<T>::operator[]
 * returns: xoptional<T&, bitset::reference> / xoptional<const T&, bitset::const_reference>)
 **************************************************************************************************/
template <class P, bool C1, bool C2>
struct ob_holder : holder
{
    using A = std::conditional_t<C1, const P&, P&>;
    using BR = typename br_holder<C2>::W;
    using W = xtl::xoptional<A, BR>;
    static constexpr bool CP = vt::copyable<P>::value;
    W w;
    template <class F> explicit ob_holder(F&& make) : w(make()) { kind = "ob"; }
    ob_holder(W&& o, int) : w(std::move(o)) { kind = "ob"; }
    struct copy_tag {};
    struct lcopy_tag {};
    ob_holder(const W& o, copy_tag) : w(o) { kind = "ob"; }
    ob_holder(W& o, lcopy_tag) : w(o) { kind = "ob"; }
    range self() const { return range_of(w); }
    int ncomp() const override { return 2; }
    bool is_ref(int) const override { return true; }
    template <class F> static obs bit(F&& f) { return obs{"bit", bool(f) ? 1 : 0}; }
    obs peek(int i) override
    {
        if (i == 0) return SEE(xtl::as_const(w).value(), self(), NORANGE);
        return bit(xtl::as_const(w).has_value());
    }
    std::vector<obs> read(const std::string& form) override
    {
        std::vector<obs> r;
        if (form == "lv") r = {SEE(w.value(), self(), NORANGE), bit(w.has_value())};
        else if (form == "clv") r = {SEE(xtl::as_const(w).value(), self(), NORANGE), bit(xtl::as_const(w).has_value())};
        else if (form == "rv") r = {SEE(std::move(w).value(), self(), NORANGE), bit(std::move(w).has_value())};
        else if (form == "crv") r = {SEE(std::move(xtl::as_const(w)).value(), self(), NORANGE), bit(std::move(xtl::as_const(w)).has_value())};
        else if (form == "free") r = {SEE(xtl::value(w), self(), NORANGE), bit(xtl::has_value(w))};
        else if (form == "cfree") r = {SEE(xtl::value(xtl::as_const(w)), self(), NORANGE), bit(xtl::has_value(xtl::as_const(w)))};
        else if (form == "rfree") r = {SEE(xtl::value(std::move(w)), self(), NORANGE), bit(xtl::has_value(std::move(w)))};
        else unsupported("Read " + form + " on ob");
        return r;
    }
    obs value_or(int v, const std::string& d, const std::string& form) override
    {
        obs r{"none", 0};
        when<CP>::run("value_or", [&](auto id) {
            P dflt = vt::mk<P>::of(v);
            bool lv = (d == "lv");
            if (form == "clv") r = lv ? SEE(xtl::as_const(id(w)).value_or(dflt), self(), NORANGE) : SEE(xtl::as_const(id(w)).value_or(vt::mk<P>::of(v)), self(), NORANGE);
            else if (form == "rv") r = lv ? SEE(std::move(id(w)).value_or(dflt), self(), NORANGE) : SEE(std::move(id(w)).value_or(vt::mk<P>::of(v)), self(), NORANGE);
            else if (form == "crv") r = lv ? SEE(std::move(xtl::as_const(id(w))).value_or(dflt), self(), NORANGE) : SEE(std::move(xtl::as_const(id(w))).value_or(vt::mk<P>::of(v)), self(), NORANGE);
            else unsupported("ValueOr " + form);
        });
        return r;
    }
    void assign(int v, bool rvalue) override
    {
        when<!C1 && !C2>::run("whole assignment through const references", [&](auto id) {
            if (rvalue) id(w) = vt::mk<P>::of(v);
            else when<CP>::run("copy-assignment of a move-only payload", [&](auto id2) { P tmp = vt::mk<P>::of(v); id2(w) = tmp; });
        });
    }
    void assign_comp(int i, int v, const std::string& form) override
    {
        if (i == 0)
            when<!C1>::run("write to a const component", [&](auto id) {
                if (form == "lv") id(w).value() = vt::mk<P>::of(v); else std::move(id(w)).value() = vt::mk<P>::of(v);
            });
        else
            when<!C2>::run("write to a const bit", [&](auto id) {
                if (form == "lv") id(w).has_value() = (v != 0); else std::move(id(w)).has_value() = (v != 0);
            });
    }
    holder* clone(clone_how how) override
    {
        if (how == MOVE) return new ob_holder(std::move(w), 0);
        if (how == COPY_CLV) return new ob_holder(xtl::as_const(w), copy_tag());
        return new ob_holder(w, lcopy_tag());
    }
    template <class J> bool try_assign_j(holder& j, bool move)
    {
        auto* o = dynamic_cast<J*>(&j);
        if (!o) return false;
        constexpr bool ok = !C1 && !C2 && CP && !std::is_same<J, ob_holder>::value;
        when<ok>::run("wrapper assignment", [&](auto id) {
            if (move) id(w) = std::move(o->w);
            else id(w) = xtl::as_const(o->w);
        });
        return true;
    }
    template <class A2> bool try_assign_b(holder& j, bool move)
    {
        return try_assign_j<h2<P, opt_tr, A2, bool&>>(j, move) || try_assign_j<h2<P, opt_tr, A2, const bool&>>(j, move)
            || try_assign_j<h2<P, opt_tr, A2, bool>>(j, move);
    }
    void assign_from(holder& j, bool move) override
    {
        if (!(try_assign_b<P&>(j, move) || try_assign_b<const P&>(j, move) || try_assign_b<P>(j, move) || try_assign_b<const P>(j, move)
              || try_assign_j<ob_holder<P, false, false>>(j, move) || try_assign_j<ob_holder<P, false, true>>(j, move)
              || try_assign_j<ob_holder<P, true, false>>(j, move) || try_assign_j<ob_holder<P, true, true>>(j, move)))
            unsupported("AssignW ob from a wrapper of another kind");
    }
    void swap_with(holder& j, const std::string& how) override
    {
        auto* o = dynamic_cast<ob_holder*>(&j);
        if (!o) unsupported("swap of wrappers of different types");
        if (how != "member") unsupported("Swap " + how + " on ob");
        when<!C1 && !C2>::run("swap through const references", [&](auto id) { id(w).swap(o->w); });
    }
    std::vector<obs> addr_of(const std::string& form, int wr) override
    {
        std::vector<obs> r;
        if (form == "lv")
        {
            auto p = &w;
            r = {SEE((*p).value(), self(), range_of(p)), bit(p.operator->()->has_value())};
            if (wr != NOWRITE) when<!C1>::run("write to a const component", [&](auto id) { (*id(p)).value() = vt::mk<P>::of(wr); });
        }
        else if (form == "clv")
        {
            auto p = &xtl::as_const(w);
            r = {SEE((*p).value(), self(), range_of(p)), bit(p.operator->()->has_value())};
            if (wr != NOWRITE) unsupported("write through a pointer to a const wrapper");
        }
        else if (form == "rv")
        {
            auto p = &std::move(w);
            r = {SEE((*p).value(), self(), range_of(p)), bit(p.operator->()->has_value())};
            if (wr != NOWRITE) when<!C1>::run("write to a const component", [&](auto id) { (*id(p)).value() = vt::mk<P>::of(wr); });
        }
        else unsupported("AddrOf " + form);
        return r;
    }
};

/**************************************************************************************************
 * the machine: caller variables, temporaries, wrapper slots, script interpreter
 **************************************************************************************************/
template <class P>
struct machine
{
    static constexpr int NX = 3, NF = 2, NB = 3, NS = 2, NW = 3;
    static constexpr bool CP = vt::copyable<P>::value;
    using SEQ = std::vector<P>;
    using ARR = std::array<P, 2>;
    std::unique_ptr<P> X[NX];
    std::unique_ptr<bool> F[NF];
    std::unique_ptr<SEQ> S[NS];
    bitset_t BS;
    std::vector<std::unique_ptr<P>> temps;
    std::vector<std::unique_ptr<SEQ>> stemps;
    std::unique_ptr<holder> W[NW];

    void reset()
    {
        for (auto& h : W) h.reset();
        temps.clear(); stemps.clear();
        g_world.vars.clear(); g_world.temps.clear();
        for (int i = 0; i < NX; ++i) { X[i].reset(new P(vt::mk<P>::of(i + 1))); g_world.vars.emplace_back(X[i].get(), "x" + std::to_string(i + 1)); }
        for (int i = 0; i < NF; ++i) { F[i].reset(new bool((i + 1) % 2 != 0)); g_world.vars.emplace_back(F[i].get(), "f" + std::to_string(i + 1)); }
        for (int i = 0; i < NS; ++i) { S[i].reset(new SEQ(vt::mk<SEQ>::of(i + 1))); g_world.vars.emplace_back(S[i].get(), "s" + std::to_string(i + 1)); }
        BS = bitset_t(NB, false);
        for (int i = 0; i < NB; ++i) BS[size_t(i)] = ((i + 1) % 2 != 0);
        vt::g_copies = vt::g_moves = 0;
    }

    // ---- sources: call f with the source expression in the requested value category
    template <class T, class Store, class F_>
    void with_src_t(const vj::value& s, std::unique_ptr<T>* vars, int nvars, Store& store, F_&& f)
    {
        const std::string& cat = s.str("cat");
        int i = int(s.num("i")) - 1, v = int(s.num("v"));
        if ((cat == "lv" || cat == "clv" || cat == "xvar" || cat == "cxvar") && (i < 0 || i >= nvars)) unsupported("variable index");
        if (cat == "lv") f(*vars[i]);
        else if (cat == "clv") f(xtl::as_const(*vars[i]));
        else if (cat == "xvar") f(std::move(*vars[i]));
        else if (cat == "cxvar") when<vt::copyable<T>::value>::run("const rvalue of a move-only type", [&](auto id) { f(std::move(xtl::as_const(*id(vars)[i]))); });
        else if (cat == "xtemp")
        {
            store.emplace_back(new T(vt::mk<T>::of(v)));
            g_world.temps.push_back(range_of(*store.back()));
            f(std::move(*store.back()));
        }
        else if (cat == "pr") f(vt::mk<T>::of(v));
        else unsupported("source category " + cat);
    }
    template <class F_> void with_p(const vj::value& s, F_&& f) { with_src_t<P>(s, X, NX, temps, std::forward<F_>(f)); }
    template <class F_> void with_s(const vj::value& s, F_&& f) { with_src_t<SEQ>(s, S, NS, stemps, std::forward<F_>(f)); }
    template <class F_> void with_f(const vj::value& s, F_&& f)
    {
        const std::string& cat = s.str("cat");
        int i = int(s.num("i")) - 1;
        if ((cat == "lv" || cat == "clv") && (i < 0 || i >= NF)) unsupported("flag index");
        if (cat == "lv") f(*F[i]);
        else if (cat == "clv") f(xtl::as_const(*F[i]));
        else if (cat == "pr") f(s.num("v") != 0);
        else unsupported("flag source category " + cat);
    }

    std::string fwd_note;

#if HAS_KIND(KB_CW)
    holder* make_cw(const vj::value& s1, const std::string& via)
    {
        holder* h = nullptr;
        with_p(s1, [&](auto&& src) {
            using S = decltype(src);
            constexpr bool lv = std::is_lvalue_reference<S>::value;
            constexpr bool is_cw_mo_rv =
#ifdef C07_CW_MO_RV
                false;
#else
                !CP && !lv;
#endif
            when<!is_cw_mo_rv>::run("closure(move-only rvalue)", [&](auto id) {
                if (via == "closure")
                {
                    using WT = decltype(xtl::closure(std::forward<S>(id(src))));
                    h = new cw_holder<P, typename wrap_args<WT>::a>("cw", [&]() -> WT { return xtl::closure(std::forward<S>(id(src))); });
                }
                else
                {
                    when<lv || !std::is_const<unref<S>>::value>::run("const_closure(const rvalue)", [&](auto id2) {
                        using WT = decltype(xtl::const_closure(std::forward<S>(id2(src))));
                        h = new cw_holder<P, typename wrap_args<WT>::a>("cw", [&]() -> WT { return xtl::const_closure(std::forward<S>(id2(src))); });
                    });
                }
            });
        });
        return h;
    }
#endif
#if HAS_KIND(KB_CP)
    holder* make_cp(const vj::value& s1, const std::string& via)
    {
        holder* h = nullptr;
        with_p(s1, [&](auto&& src) {
            using S = decltype(src);
            constexpr bool lv = std::is_lvalue_reference<S>::value;
            if (via == "closure")
            {
                using WT = decltype(xtl::closure_pointer(std::forward<S>(src)));
                h = new cp_holder<P, typename wrap_args<WT>::a>([&]() -> WT { return xtl::closure_pointer(std::forward<S>(src)); });
            }
            else
            {
                when<lv || !std::is_const<unref<S>>::value>::run("const_closure_pointer(const rvalue)", [&](auto id2) {
                    using WT = decltype(xtl::const_closure_pointer(std::forward<S>(id2(src))));
                    h = new cp_holder<P, typename wrap_args<WT>::a>([&]() -> WT { return xtl::const_closure_pointer(std::forward<S>(id2(src))); });
                });
            }
        });
        return h;
    }
#endif
#if HAS_KIND(KB_PW)
    // proxy_wrapper: either a wrapper that IS-A P (class-type rvalues) or a closure wrapper
    template <class S> holder* make_pw_as(S&& src, std::true_type /* is-a P */)
    {
        using WT = decltype(xtl::proxy_wrapper(std::forward<S>(src)));
        return new pw_holder<P, WT, !std::is_const<unref<S>>::value>([&]() -> WT { return xtl::proxy_wrapper(std::forward<S>(src)); });
    }
    template <class S> holder* make_pw_as(S&& src, std::false_type)
    {
        using WT = decltype(xtl::proxy_wrapper(std::forward<S>(src)));
        return new cw_holder<P, typename wrap_args<WT>::a>("pw", [&]() -> WT { return xtl::proxy_wrapper(std::forward<S>(src)); });
    }
    holder* make_pw(const vj::value& s1)
    {
        holder* h = nullptr;
        with_p(s1, [&](auto&& src) {
            using S = decltype(src);
            using WT = decltype(xtl::proxy_wrapper(std::forward<S>(src)));
            h = this->make_pw_as(std::forward<S>(src), std::integral_constant<bool, std::is_class<P>::value && std::is_base_of<P, WT>::value>());
        });
        return h;
    }
#endif
#if HAS_KIND(KB_OPT) || HAS_KIND(KB_MV)
    holder* make_optmv(const std::string& kind, const vj::value& s1, const vj::value& s2)
    {
        holder* h = nullptr;
        with_p(s1, [&](auto&& va) {
            using SA = decltype(va);
            this->with_f(s2, [&](auto&& fb) {
                using SB = decltype(fb);
#if HAS_KIND(KB_OPT)
                if (kind == "opt")
                {
                    using WT = decltype(xtl::optional(std::forward<SA>(va), std::forward<SB>(fb)));
                    using H = h2<P, opt_tr, typename wrap_args<WT>::a, typename wrap_args<WT>::b>;
                    h = new H([&]() -> WT { return xtl::optional(std::forward<SA>(va), std::forward<SB>(fb)); });
                }
#endif
#if HAS_KIND(KB_MV)
                if (kind == "mv")
                {
                    using WT = decltype(xtl::masked_value(std::forward<SA>(va), std::forward<SB>(fb)));
                    using H = h2<P, mv_tr, typename wrap_args<WT>::a, typename wrap_args<WT>::b>;
                    h = new H([&]() -> WT { return xtl::masked_value(std::forward<SA>(va), std::forward<SB>(fb)); });
                }
#endif
            });
        });
        if (!h) unsupported("Make " + kind + ": kind not built");
        return h;
    }
#endif
#if HAS_KIND(KB_CX)
    holder* make_cx(const vj::value& s1, const vj::value& s2)
    {
        holder* h = nullptr;
        with_p(s1, [&](auto&& va) {
            using SA = decltype(va);
            this->with_p(s2, [&](auto&& vb) {
                using SB = decltype(vb);
                using A_ = xtl::closure_type_t<SA>;
                using B_ = xtl::closure_type_t<SB>;
                using H = h2<P, cx_tr, A_, B_>;
                using WT = typename H::W;
                h = new H([&]() -> WT { return WT(std::forward<SA>(va), std::forward<SB>(vb)); });
            });
        });
        return h;
    }
#endif
#if HAS_KIND(KB_OB)
    holder* make_ob(const vj::value& s1, const vj::value& s2)
    {
        const std::string& c1 = s1.str("cat");
        const std::string& c2 = s2.str("cat");
        int i = int(s1.num("i")) - 1;
        size_t b = size_t(s2.num("i") - 1);
        if (i < 0 || i >= NX || b >= size_t(NB)) unsupported("variable index");
        if ((c1 != "lv" && c1 != "clv") || (c2 != "lv" && c2 != "clv")) unsupported("ob from " + c1 + "/" + c2);
        bool k1 = c1 == "clv", k2 = c2 == "clv";
        P& x = *X[i];
        if (!k1 && !k2) { using H = ob_holder<P, false, false>; return new H([&]() { return typename H::W(x, BS[b]); }); }
        if (!k1 && k2) { using H = ob_holder<P, false, true>; return new H([&]() { return typename H::W(x, xtl::as_const(BS)[b]); }); }
        if (k1 && !k2) { using H = ob_holder<P, true, false>; return new H([&]() { return typename H::W(xtl::as_const(x), BS[b]); }); }
        using H = ob_holder<P, true, true>;
        return new H([&]() { return typename H::W(xtl::as_const(x), xtl::as_const(BS)[b]); });
    }
#endif

    holder* make(const vj::value& a)
    {
        const std::string& kind = a.str("kind");
        const std::string& via = a.str("via");
        const vj::value& s1 = a.at("s").a.at(0);
        fwd_note = "na";
        (void)via;
#if HAS_KIND(KB_CW)
        if (kind == "cw") return make_cw(s1, via);
#endif
#if HAS_KIND(KB_CP)
        if (kind == "cp") return make_cp(s1, via);
#endif
#if HAS_KIND(KB_PW)
        if (kind == "pw") return make_pw(s1);
#endif
#if HAS_KIND(KB_BR)
        if (kind == "br")
        {
            const std::string& cat = s1.str("cat");
            size_t i = size_t(s1.num("i") - 1);
            if (i >= size_t(NB)) unsupported("bit index");
            if (cat == "lv") return new br_holder<false>(BS[i]);
            if (cat == "clv") return new br_holder<true>(xtl::as_const(BS)[i]);
            unsupported("bit reference from " + cat);
        }
#endif
#if HAS_KIND(KB_FS)
        if (kind == "fs")
        {
            holder* h = nullptr;
            with_s(s1, [&](auto&& src) { h = this->make_fs(std::forward<decltype(src)>(src), via == "same"); });
            return h;
        }
#endif
#if HAS_KIND(KB_OPT)
        if (kind == "opt") return make_optmv(kind, s1, a.at("s").a.at(1));
#endif
#if HAS_KIND(KB_MV)
        if (kind == "mv") return make_optmv(kind, s1, a.at("s").a.at(1));
#endif
#if HAS_KIND(KB_CX)
        if (kind == "cx") return make_cx(s1, a.at("s").a.at(1));
#endif
#if HAS_KIND(KB_OB)
        if (kind == "ob") return make_ob(s1, a.at("s").a.at(1));
#endif
        unsupported("Make " + kind + ": kind not built");
    }

#if HAS_KIND(KB_FS)
    // forward_sequence<R, A>(a) as used by a forwarding constructor: `a` is the named parameter A&& a
    template <class A_> holder* make_fs(A_&& a, bool same)
    {
        using AT = A_;                                       // SEQ&, const SEQ&, SEQ or const SEQ
        holder* h = nullptr;
        if (same)
        {
            using RT = decltype(xtl::forward_sequence<SEQ, AT>(a));
            decltype(auto) r = xtl::forward_sequence<SEQ, AT>(a);
            const void* ra = std::is_reference<RT>::value ? (const void*)std::addressof(r) : nullptr;
            fwd_note = std::string(std::is_lvalue_reference<RT>::value ? "lref" : std::is_rvalue_reference<RT>::value ? "rref" : "value")
                       + (ra == (const void*)std::addressof(a) ? "_same" : ra ? "_other" : "");
            h = make_fs_same(std::forward<RT>(r), std::is_lvalue_reference<RT>());
        }
        else
        {
            when<CP>::run("converting forward_sequence of a move-only element type", [&](auto id) {
                using RT = decltype(xtl::forward_sequence<ARR, AT>(id(a)));
                fwd_note = std::is_lvalue_reference<RT>::value ? "lref" : std::is_rvalue_reference<RT>::value ? "rref" : "value";
                h = new fs_own_holder<P, ARR>([&]() -> ARR { return xtl::forward_sequence<ARR, AT>(id(a)); });
            });
        }
        return h;
    }
    template <class R> holder* make_fs_same(R&& r, std::true_type)      // an lvalue reference: keep the alias
    {
        return new fs_alias_holder<P, SEQ, std::is_const<unref<R>>::value>(r);
    }
    template <class R> holder* make_fs_same(R&& r, std::false_type)     // an rvalue: a member R m(forward_sequence<R,A>(a))
    {
        holder* h = nullptr;
        when<CP || !std::is_const<unref<R>>::value>::run("copy of a move-only sequence", [&](auto id) {
            h = new fs_own_holder<P, SEQ>([&]() -> SEQ { return SEQ(std::forward<R>(id(r))); });
        });
        return h;
    }
#endif

    // ---- projection
    std::string proj()
    {
        std::string s = "{\"x\":[";
        for (int i = 0; i < NX; ++i) { if (i) s += ','; s += std::to_string(vt::valof(*X[i])); }
        s += "],\"f\":[";
        for (int i = 0; i < NF; ++i) { if (i) s += ','; s += std::to_string(vt::valof(*F[i])); }
        s += "],\"b\":[";
        for (int i = 0; i < NB; ++i) { if (i) s += ','; s += xtl::as_const(BS)[size_t(i)] ? "1" : "0"; }
        s += "],\"s\":[";
        for (int i = 0; i < NS; ++i) { if (i) s += ','; s += std::to_string(vt::valof(*S[i])); }
        s += "],\"w\":[";
        for (int k = 0; k < NW; ++k)
        {
            if (k) s += ',';
            if (!W[k]) { s += "{\"kind\":\"none\",\"c\":[]}"; continue; }
            s += "{\"kind\":\"" + W[k]->kind + "\",\"c\":[";
            for (int i = 0; i < W[k]->ncomp(); ++i)
            {
                obs o = W[k]->peek(i);
                if (i) s += ',';
                s += std::string("{\"m\":\"") + (W[k]->is_ref(i) ? "ref" : "own") + "\",\"t\":\"" + o.t + "\",\"v\":" + std::to_string(o.v) + "}";
            }
            s += "]}";
        }
        return s + "]}";
    }

    holder& slot(int k)
    {
        if (k < 0 || k >= NW || !W[k]) unsupported("empty slot");
        return *W[k];
    }

    std::string step(const vj::value& e)
    {
        const std::string& op = e.str("op");
        int k = int(e.num("k", 0)) - 1;
        const vj::value& a = e.at("a");
        std::string val = "[]";
        const char* exc = "none";
        fwd_note = "na";
        long c0 = vt::g_copies, m0 = vt::g_moves;
        try
        {
            if (op == "Reset") { reset(); c0 = m0 = 0; }
            else if (op == "Make") { if (k < 0 || k >= NW) unsupported("slot"); holder* h = make(a); if (!h) unsupported("Make produced nothing"); W[k].reset(h); }
            else if (op == "Destroy") { slot(k); W[k].reset(); }
            else if (op == "EndTemps") { temps.clear(); stemps.clear(); }
            else if (op == "WriteVar")
            {
                const std::string& cls = a.str("cls");
                int i = int(a.num("i")) - 1, v = int(a.num("v"));
                int n = cls == "x" ? NX : cls == "f" ? NF : cls == "b" ? NB : cls == "s" ? NS : 0;
                if (i < 0 || i >= n) unsupported("WriteVar index");
                if (cls == "x") *X[i] = vt::mk<P>::of(v);
                else if (cls == "f") *F[i] = (v != 0);
                else if (cls == "b") BS[size_t(i)] = (v != 0);
                else *S[i] = vt::mk<SEQ>::of(v);
            }
            else if (op == "Read") val = obs_json(slot(k).read(a.str("form")));
            else if (op == "ValueOr") val = obs_json({slot(k).value_or(int(a.num("v")), a.str("d"), a.str("form"))});
            else if (op == "Assign") slot(k).assign(int(a.num("v")), a.str("cat") == "rv");
            else if (op == "AssignComp") slot(k).assign_comp(int(a.num("i")) - 1, int(a.num("v")), a.str("form"));
            else if (op == "CopyW" || op == "MoveW" || op == "RelocW")
            {
                int j = int(a.num("j")) - 1;
                if (j == k || k < 0 || k >= NW) unsupported("clone target");
                clone_how how = op == "RelocW" ? RELOC : op == "MoveW" ? MOVE : (a.str("form") == "lv" ? COPY_LV : COPY_CLV);
                holder* h = slot(j).clone(how);
                if (!h) unsupported("clone produced nothing");
                W[k].reset(h);
            }
            else if (op == "AssignW") slot(k).assign_from(slot(int(a.num("j")) - 1), a.num("mv") != 0);
            else if (op == "Swap") slot(k).swap_with(slot(int(a.num("j")) - 1), a.str("how"));
            else if (op == "AddrOf") val = obs_json(slot(k).addr_of(a.str("form"), int(a.num("wr"))));
            else if (op == "Equal") val = "[{\"t\":\"value\",\"v\":" + std::to_string(slot(k).equal(slot(int(a.num("j")) - 1))) + "}]";
            else unsupported("op " + op);
        }
        catch (const std::exception&) { exc = "other"; }
        vj::out o;
        o.ks("exc", exc).kv("copies", vt::g_copies - c0).kv("moves", vt::g_moves - m0).ks("fwd", fwd_note).kraw("val", val);
        return o.obj();
    }

    int run()
    {
        std::string line;
        bool skipping = false;
        reset();
        while (std::getline(std::cin, line))
        {
            if (line.empty()) continue;
            vj::value e = vj::parse(line);
            const std::string& op = e.str("op");
            if (skipping && op != "Reset") continue;
            skipping = false;
            std::string head = line.substr(0, line.rfind('}'));
            try
            {
                if (op == "Reset" && e.at("a").str("p") != vt::pname<P>::get()) unsupported("this driver instance runs payload " + std::string(vt::pname<P>::get()));
                struct itimerval it = {{0, 0}, {C07_CALL_CPU_S, 0}};
                setitimer(ITIMER_PROF, &it, nullptr);           // per-call CPU limit
                std::string res = step(e);
                std::fputs((head + ",\"res\":" + res + ",\"st\":" + proj() + "}\n").c_str(), stdout);
            }
            catch (const desync& d)
            {
                std::string why;
                for (char c : d.why) why += (c == '"' || c == '\\' || (unsigned char)c < 32) ? ' ' : c;
                long long n = e.num("n", -1);
                std::fputs(("{\"op\":\"Desync\",\"k\":0,\"a\":{\"z\":0},\"n\":" + std::to_string(n) + ",\"at\":\"" + op + "\",\"why\":\"" + why + "\"}\n").c_str(), stdout);
                skipping = true;
            }
        }
        struct itimerval off = {{0, 0}, {0, 0}};
        setitimer(ITIMER_PROF, &off, nullptr);
        for (auto& h : W) h.reset();
        return 0;
    }
};

static void on_cpu_limit(int)
{
    std::fflush(stdout);
    vj::crash_line("cpu-limit");
    _exit(0);
}

int main(int argc, char** argv)
{
    vj::install_crash_handlers();
    std::signal(SIGPROF, on_cpu_limit);
    std::string p = argc > 1 ? argv[1] : "counted";
#if !defined(C07_ONLY) || C07_ONLY == 1
    if (p == "int") return machine<int>().run();
#endif
#if !defined(C07_ONLY) || C07_ONLY == 2
    if (p == "counted") return machine<vt::Counted>().run();
#endif
#if !defined(C07_ONLY) || C07_ONLY == 3
    if (p == "moveonly") return machine<vt::MoveOnly>().run();
#endif
    std::fprintf(stderr, "usage: driver {int|counted|moveonly} < script\n");
    return 3;
}

// feature probe: can the forward iterators of xoptional_array be instantiated?
#include <xtl/xoptional_sequence.hpp>
int main()
{
    xtl::xoptional_array<int, 3> a(3, 1);
    const auto& ca = a;
    auto i = a.begin(); auto e = a.end(); auto ci = ca.cbegin(); auto ce = ca.end();
    return int(e - i) + int(ce - ci) - 6 + ((*i).value() - 1);
}

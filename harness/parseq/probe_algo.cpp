// C11 feature probe: can the iterators of the optional (FLAV 1) / complex (FLAV 2) sequences be handed to the standard
// algorithms?  ALG 1: std::copy from const iterators (proxy = const proxy); 8: std::copy_backward (proxy = proxy of the same type); 2: std::reverse / std::rotate (swap of two
// proxies); 4: std::sort (move of a proxy into a value_type temporary and back, swaps).  Compiled with -fsyntax-only.
#include <xtl/xoptional_sequence.hpp>
#include <xtl/xcomplex_sequence.hpp>
#include <algorithm>
#if FLAV == 1
using V = xtl::xoptional_vector<int>;
using A = xtl::xoptional_array<int, 3>;
template <class R> long key(const R& r) { return long(r.value()) * 2 + (r.has_value() ? 1 : 0); }
#else
using V = xtl::xcomplex_vector<double>;
using A = xtl::xcomplex_array<double, 3>;
template <class R> double key(const R& r) { return r.real() * 1024 + r.imag(); }
#endif
template <class C> void use(C& x, const C& y)
{
#if ALG == 1
    std::copy(y.cbegin(), y.cbegin() + 1, x.begin() + 1);
#elif ALG == 8
    std::copy_backward(x.begin(), x.begin() + 1, x.begin() + 2);
#elif ALG == 2
    std::reverse(x.begin(), x.end());
    std::rotate(x.begin(), x.begin() + 1, x.end());
#elif ALG == 4
    std::sort(x.begin(), x.end(), [](const auto& p, const auto& q) { return key(p) < key(q); });
#endif
    (void)y;
}
int main() { V v(3, 1), w(3, 2); use(v, w); A a(3, 1), b(3, 2); use(a, b); return 0; }

// feature probe: is `proxy = xcomplex<T>` well-formed for the element proxies of the complex containers?
#include <xtl/xcomplex_sequence.hpp>
int main()
{
    xtl::xcomplex_vector<double> v(2);
    v[0] = xtl::xcomplex<double>(1., 2.);
    const xtl::xcomplex<double> c(3., 4.);
    v[1] = c;
    return int(v[0].imag() + v[1].real()) - 5;
}

// C11 call probes: one small function per family of public calls the conformance driver makes.  Only compiled
// (-fsyntax-only -DC11_PROBE=n) when the driver itself does not build against the tree under test, to tell "a call the
// property names no longer compiles" (violation, the probe is the replay) from "the harness needs maintenance"
// (machinery error).  The table (n, named by the property?, description) is CALL_PROBES in checks/c11.py.
#include <xtl/xoptional_sequence.hpp>
#include <xtl/xcomplex_sequence.hpp>
#include <array>
#include <complex>
#include <utility>
#include <vector>

using OV = xtl::xoptional_vector<int>;
using OA = xtl::xoptional_array<int, 3>;
using CV = xtl::xcomplex_vector<double>;
using CA = xtl::xcomplex_array<double, 3>;
using OPT = xtl::xoptional<int, bool>;
using CPX = xtl::xcomplex<double, double, false>;

#if C11_PROBE == 1     // optional containers: default, (n, value), (n, optional) with value / reference / converting closures
int probe() { OV a; OV b(2, 7); OV c(2, OPT(3, false)); int x = 1; bool f = true; OV d(2, xtl::optional(x, f)); OV e(2, xtl::xoptional<short, bool>(short(2), true));
              OA p; OA q(3, 7); OA r(3, OPT(3, false)); OA s(3, xtl::optional(x, f)); return int(a.size() + b.size() + c.size() + d.size() + e.size() + p.size() + q.size() + r.size() + s.size()); }
#elif C11_PROBE == 2   // complex containers: default, (n), (n, value), (n, xcomplex closures), initializer list
int probe() { CV a; CV b(2); CV c(2, CPX(1., 2.)); double x = 1, y = 2; CV d(2, xtl::xcomplex<double&, double&, false>(x, y)); CV e(2, xtl::xcomplex<float, float, false>(1.f, 2.f));
              CV f{CPX(1., 2.), CPX(3., 4.)}; CA p; CA q(3); CA r(3, CPX(1., 2.)); CA s(3, xtl::xcomplex<double&, double&, false>(x, y));
              return int(a.size() + b.size() + c.size() + d.size() + e.size() + f.size() + p.size() + q.size() + r.size() + s.size()); }
#elif C11_PROBE == 3   // copy construction / assignment
int probe() { OV a(2, 1), b(a); b = a; OA c(3, 1), d(c); d = c; CV e(2), f(e); f = e; CA g(3), h(g); h = g; return int(b.size() + d.size() + f.size() + h.size()); }
#elif C11_PROBE == 4   // resize overloads
int probe() { OV a; a.resize(3); a.resize(4, 7); a.resize(5, OPT(1, false)); int x = 1; bool f = true; a.resize(6, xtl::optional(x, f));
              CV c; c.resize(3); c.resize(4, CPX(1., 2.)); double u = 1, v = 2; c.resize(5, xtl::xcomplex<double&, double&, false>(u, v)); return int(a.size() + c.size()); }
#elif C11_PROBE == 5   // at, operator[], front, back (const and non-const), reads
template <class C> int rd(C& c) { const C& cc = c; return int(c.at(0).value() + cc.at(0).value() + c[0].value() + cc[0].value() + c.front().value() + cc.front().value() + c.back().value() + cc.back().value()) + int(cc[0].has_value()); }
template <class C> int rc(C& c) { const C& cc = c; return int(c.at(0).real() + cc.at(0).imag() + c[0].real() + cc[0].imag() + c.front().real() + cc.front().imag() + c.back().real() + cc.back().imag()); }
int probe() { OV a(2, 1); OA b(3, 1); CV c(2); CA d(3); return rd(a) + rd(b) + rc(c) + rc(d); }
#elif C11_PROBE == 6   // forward and const iterators
template <class C> int it(C& c) { const C& cc = c; auto b = c.begin(); auto e = c.end(); auto cb = cc.cbegin(); auto ce = cc.cend(); auto b2 = cc.begin(); ++b; b++; --b; b += 1; b -= 1; auto p = b + 0; p = 0 + p; (void)b2;
                                  return int(e - b) + int(ce - cb) + (b == p) + (b != e) + int(sizeof(*cb)) + int(sizeof(b[0])) + int(sizeof(*(b.operator->()))); }
int probe() { OV a(2, 1); OA b(3, 1); CV c(2); CA d(3); return it(a) + it(b) + it(c) + it(d); }
#elif C11_PROBE == 7   // reverse iterators
template <class C> int it(C& c) { const C& cc = c; auto b = c.rbegin(); auto e = c.rend(); auto cb = cc.crbegin(); auto ce = cc.crend(); auto b2 = cc.rbegin(); ++b; --b; b += 1; b -= 1; (void)b2;
                                  return int(e - b) + int(ce - cb) + (b == e) + int(sizeof(*cb)) + int(sizeof(b[0])); }
int probe() { OV a(2, 1); OA b(3, 1); CV c(2); CA d(3); return it(a) + it(b) + it(c) + it(d); }
#elif C11_PROBE == 8   // writes through optional proxies
template <class C> int wr(C& c) { c[0].value() = 3; c[0].has_value() = false; c.at(1) = 5; c.front() = OPT(2, true); c.back() = OPT(c[0]); *c.begin() = 1; (*c.rbegin()).value() = 2; c.begin()[1] = 4; c.begin()->value() = 1; return c[0].value(); }
int probe() { OV a(2, 1); OA b(3, 1); return wr(a) + wr(b); }
#elif C11_PROBE == 9   // writes through complex proxies (components, real scalar)
template <class C> int wr(C& c) { c[0].real() = 3; c[0].imag() = 4; c.at(1) = 5.; c.front().real() = 1; c.back().imag() = 2; (*c.begin()).real() = 1; (*c.rbegin()).imag() = 2; c.begin()[1].real() = 4; c.begin()->imag() = 1; return int(c[0].real()); }
int probe() { CV a(2); CA b(3); return wr(a) + wr(b); }
#elif C11_PROBE == 10  // the underlying containers: lvalue, const and rvalue accessors
int probe() { OV a(2, 1); const OV& ca = a; a.value()[0] = 1; a.has_value()[0] = false; auto v = OV(a).value(); auto f = OV(a).has_value();
              CV c(2); const CV& cc = c; c.real()[0] = 1; c.imag()[0] = 2; auto r = CV(c).real(); auto i = CV(c).imag();
              OA b(3, 1); b.value()[0] = 2; b.has_value()[1] = true; CA d(3); d.real()[0] = 1; d.imag()[2] = 1;
              return int(ca.value().size() + ca.has_value().size() + cc.real().size() + cc.imag().size() + v.size() + f.size() + r.size() + i.size()); }
#elif C11_PROBE == 11  // == and !=
int probe() { OV a(2, 1), b(2, 1); OA c(3, 1), d(3, 2); CV e(2), f(3); CA g(3), h(3); return (a == b) + (a != b) + (c == d) + (c != d) + (e == f) + (e != f) + (g == h) + (g != h); }
#elif C11_PROBE == 12  // (proxy = xcomplex<T>) whole-element writes to complex containers
int probe() { CV a(2); a[0] = CPX(1., 2.); const CPX c(3., 4.); a[1] = c; CA b(3); b[0] = CPX(1., 2.); return int(a[0].imag() + b[0].real()); }
#elif C11_PROBE == 13  // (not named) move construction / assignment
int probe() { OV a(2, 1), b(std::move(a)); a = std::move(b); OA c(3, 1), d(std::move(c)); c = std::move(d); CV e(2), f(std::move(e)); e = std::move(f); CA g(3), h(std::move(g)); g = std::move(h); return int(a.size() + c.size() + e.size() + g.size()); }
#elif C11_PROBE == 14  // (not named) compound assignment through proxies, proxy swap, relational operators, max_size
int probe() { OV a(2, 1); a[0] += 2; a[1] *= 3; a[0] += OPT(1, true); { auto r = a[0]; auto q = a[1]; r.swap(q); } CV c(2); c[0] += 1.; c[1] *= 2.; c[0] += CPX(1., 1.);
              return (a < a) + (a <= a) + (a > a) + (a >= a) + (a.max_size() > 0) + (c.max_size() > 0); }
#elif C11_PROBE == 15  // (not named) other instantiations: double values, custom flag containers, extent 0, ieee_compliant
int probe() { xtl::xoptional_vector<double> a(2, 1.5); xtl::xoptional_vector<int, std::allocator<int>, std::vector<bool>> b(2, 1); b.resize(3); xtl::xoptional_array<int, 3, std::array<bool, 3>> c(3, 1);
              xtl::xoptional_array<int, 0> d; xtl::xcomplex_array<double, 0> e; xtl::xcomplex_vector<double, true> f(2); xtl::xcomplex_array<double, 3, true> g(3); f[0] *= 2.;
              return int(a.size() + b.size() + c.size() + d.size() + e.size() + f.size() + g.size()) + int(b[0].has_value()) + int(c[0].has_value()); }
#else
#error "unknown probe"
#endif

int main() { return probe(); }

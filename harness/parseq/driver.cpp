// C11 conformance harness: interprets a script of container operations (ndjson on stdin) on real
// xtl::xoptional_vector / xoptional_array / xcomplex_vector / xcomplex_array objects and writes,
// after every call, the call's result and the full observable projection of both objects
// (size(), sizes of the two underlying containers, the elements read from the underlying containers
// and through operator[], forward and reverse iteration).  It contains no oracle.
//
// usage: driver <type>   with <type> in ov | oa3 | oa70 | cv | ca3 | ca66                      (-DPARSEQ_GROUP=1, default)
//                                       ovd | ovb | oab3 | oa0 | ca0 | cvi | cai3                  (-DPARSEQ_GROUP=2)
//   ovd  xoptional_vector<double>            ovb  xoptional_vector<int, std::allocator<int>, std::vector<bool>>
//   oab3 xoptional_array<int, 3, std::array<bool, 3>>      oa0 / ca0  extent 0
//   cvi  xcomplex_vector<double, true> (ieee_compliant)    cai3 xcomplex_array<double, 3, true>
// A call that does not return within the per-call CPU limit, crashes or is reported by a sanitizer ends the trace with a
// Crash event (no spec action is called Crash); the runner restarts the driver at the next Reset event.
// Build features (the check probes with tiny programs whether the headers support them):
//   -DPARSEQ_OPT_ARRAY_FWD_ITER   begin()/end()/cbegin()/cend() of xoptional_array can be instantiated
//   -DPARSEQ_CPLX_ARRAY_FWD_ITER  the same for xcomplex_array
//   -DPARSEQ_CPLX_ASSIGN     `proxy = xcomplex<T>(re, im)` is well-formed
// The Reset event of a script states which features the script assumes (fwd, cas); a script that
// does not match the build is refused (exit 3).  {"op":"Feature"} reports how the driver was built.
#include <xtl/xoptional_sequence.hpp>
#include <xtl/xcomplex_sequence.hpp>
#include "vjson.hpp"
#include <algorithm>
#include <cmath>
#include <complex>
#include <iostream>
#include <new>
#include <type_traits>
#include <array>
#include <sys/time.h>

// which standard algorithms the iterators of each flavour can be handed to (bit mask: 1 copy, 8 copy_backward, 2 reverse/rotate,
// 4 sort); set by the runner from compile probes (probe_algo.cpp)
#ifndef PARSEQ_ALGO_OPT
#define PARSEQ_ALGO_OPT 0
#endif
#ifndef PARSEQ_ALGO_CPLX
#define PARSEQ_ALGO_CPLX 0
#endif
// cross-container element assignment (XAssign / XCopy: proxy = proxy of the sibling container type): 1 if it compiles with the
// headers under test (probe_xassign.cpp), per flavour
#ifndef PARSEQ_XASSIGN_OPT
#define PARSEQ_XASSIGN_OPT 0
#endif
#ifndef PARSEQ_XASSIGN_CPLX
#define PARSEQ_XASSIGN_CPLX 0
#endif
#ifndef PARSEQ_GROUP
#define PARSEQ_GROUP 1
#endif
#ifndef PARSEQ_CALL_CPU_LIMIT_S
#define PARSEQ_CALL_CPU_LIMIT_S 3
#endif

static void on_cpu_limit(int)
{
    std::fflush(stdout);
    vj::crash_line("cpu-limit");
    _exit(0);
}
static void arm_cpu_limit()
{
    struct itimerval t;
    t.it_interval.tv_sec = 0; t.it_interval.tv_usec = 0;
    t.it_value.tv_sec = PARSEQ_CALL_CPU_LIMIT_S; t.it_value.tv_usec = 0;
    setitimer(ITIMER_PROF, &t, nullptr);
}
static long long clip30(std::size_t v) { return v > (std::size_t(1) << 30) ? (1ll << 30) : (long long)v; }

struct opt_tag {};
struct cplx_tag {};

#ifdef PARSEQ_OPT_ARRAY_FWD_ITER
static constexpr bool opt_array_fwd_iter = true;
#else
static constexpr bool opt_array_fwd_iter = false;
#endif
#ifdef PARSEQ_CPLX_ARRAY_FWD_ITER
static constexpr bool cplx_array_fwd_iter = true;
#else
static constexpr bool cplx_array_fwd_iter = false;
#endif
#ifdef PARSEQ_CPLX_ASSIGN
static constexpr bool cplx_assign = true;
#else
static constexpr bool cplx_assign = false;
#endif

[[noreturn]] static void bad_script(const char* what, const std::string& s)
{
    std::fprintf(stderr, "script: %s %s\n", what, s.c_str());
    std::exit(3);
}

// every logged component is an integer < 2^31: integral values in range as they are, anything else
// (garbage from indeterminate storage, fractions, NaN) as 1000000000 + a hash of the bit pattern
static long long enc(double d)
{
    if (d == std::floor(d) && std::fabs(d) <= 999999999.0) return (long long)d;
    std::uint64_t u; std::memcpy(&u, &d, sizeof u);
    return 1000000000LL + (long long)((u ^ (u >> 29) ^ (u >> 47)) % 1000000ULL);
}
static long long enc(int v)
{
    if (v >= -999999999 && v <= 999999999) return v;
    return 1000000000LL + (long long)(((unsigned)v ^ ((unsigned)v >> 13)) % 1000000U);
}

template <class C> struct info;
template <class T, class A, class BC> struct info<xtl::xoptional_vector<T, A, BC>>
{ using tag = opt_tag; using scalar = T; static constexpr bool vec = true; static constexpr size_t ext = 0; };
template <class T, std::size_t I, class BC> struct info<xtl::xoptional_array<T, I, BC>>
{ using tag = opt_tag; using scalar = T; static constexpr bool vec = false; static constexpr size_t ext = I; };
template <class T, bool B, class A> struct info<xtl::xcomplex_vector<T, B, A>>
{ using tag = cplx_tag; using scalar = T; static constexpr bool vec = true; static constexpr size_t ext = 0; };
template <class T, std::size_t N, bool B> struct info<xtl::xcomplex_array<T, N, B>>
{ using tag = cplx_tag; using scalar = T; static constexpr bool vec = false; static constexpr size_t ext = N; };

// the sibling container type: same flavour, same container kind / extent / flag container, another (wider: every value of the
// original type is represented exactly) value type.  Its element proxies are the operands of the cross-container assignments.
template <class T> struct wider;
template <> struct wider<int> { using type = long long; };
template <> struct wider<float> { using type = double; };
template <> struct wider<double> { using type = long double; };
template <> struct wider<long long> { using type = long long; };
template <> struct wider<long double> { using type = long double; };
template <class C> struct sibling;
template <class T, class A, class BC> struct sibling<xtl::xoptional_vector<T, A, BC>>
{ using U = typename wider<T>::type; using type = xtl::xoptional_vector<U, std::allocator<U>, BC>; };
template <class T, std::size_t I, class BC> struct sibling<xtl::xoptional_array<T, I, BC>>
{ using U = typename wider<T>::type; using type = xtl::xoptional_array<U, I, BC>; };
template <class T, bool B, class A> struct sibling<xtl::xcomplex_vector<T, B, A>>
{ using U = typename wider<T>::type; using type = xtl::xcomplex_vector<U, B, std::allocator<U>>; };
template <class T, std::size_t N, bool B> struct sibling<xtl::xcomplex_array<T, N, B>>
{ using U = typename wider<T>::type; using type = xtl::xcomplex_array<U, N, B>; };

// ------------------------------------------------------------------ flavour-specific access
template <class C, class Tag> struct fl;

template <class C> struct fl<C, opt_tag>
{
    using S = typename info<C>::scalar;
    using value_type = xtl::xoptional<S, bool>;
    static size_t na(const C& c) { return c.value().size(); }
    static size_t nb(const C& c) { return c.has_value().size(); }
    static long long ua(const C& c, size_t i) { return enc(c.value()[i]); }
    static long long ub(const C& c, size_t i) { return c.has_value()[i] ? 1 : 0; }
    static void set_ua(C& c, size_t i, long long x) { c.value()[i] = S(x); }
    static void set_ub(C& c, size_t i, long long x) { c.has_value()[i] = (x != 0); }
    static std::vector<long long> extract(C& c, bool a)
    {
        std::vector<long long> r;
        // the rvalue accessors are called on a copy: whether they copy or move out of the object is not specified
        C tmp(c);
        if (a) { auto v = std::move(tmp).value(); for (auto e : v) r.push_back(enc(e)); }
        else { auto f = std::move(tmp).has_value(); for (size_t i = 0; i < f.size(); ++i) r.push_back(f[i] ? 1 : 0); }
        return r;
    }
    template <class R> static void read(const R& r, std::vector<long long>& out)
    {
        out.push_back(enc(r.value()));
        out.push_back(r.has_value() ? 1 : 0);
        value_type cp(r);
        out.push_back(enc(cp.value()));
        out.push_back(cp.has_value() ? 1 : 0);
    }
    static value_type make(long long a, long long b) { return value_type(S(a), b != 0); }
    template <class R> static void write(R& r, const std::string& wk, long long a, long long b, const value_type& src)
    {
        if (wk == "a") r.value() = S(a);
        else if (wk == "b") r.has_value() = (b != 0);
        else if (wk == "scalar") r = S(a);
        else if (wk == "pair") r = make(a, b);
        else if (wk == "from") r = src;
        else if (wk == "addeq") r += S(a);                 // compound assignment through the proxy, plain scalar
        else if (wk == "muleq") r *= S(a);
        else if (wk == "addpair") r += make(a, b);         // ... with an xoptional operand
        else bad_script("bad write kind", wk);
    }
    // a sibling container holding `pad` missing elements followed by the elements of src (copied storage by storage)
    template <class Sib> static Sib make_sib(const C& src, size_t pad)
    {
        using U = typename sibling<C>::U;
        size_t n = std::min(src.size(), std::min(src.value().size(), src.has_value().size()));
        Sib f(info<C>::vec ? pad + n : info<C>::ext, U(0));
        for (size_t x = 0; x < pad && x < f.size(); ++x) { f.value()[x] = U(0); f.has_value()[x] = false; }
        for (size_t x = 0; x < n && pad + x < f.size(); ++x) { f.value()[pad + x] = U(src.value()[x]); f.has_value()[pad + x] = bool(src.has_value()[x]); }
        return f;
    }
    // proxy.swap(proxy) of elements i and j
    static void proxy_swap(C& c, size_t i, size_t j) { auto r = c[i]; auto q = c[j]; r.swap(q); }
    static std::string rel(const C& x, const C& y)
    {
        std::vector<long long> r{ (x < y) ? 1 : 0, (x <= y) ? 1 : 0, (x > y) ? 1 : 0, (x >= y) ? 1 : 0 };
        return vj::ints(r);
    }
    // T(n, value)
    static C* ctor_nv(void* p, size_t n, long long a, long long) { return new (p) C(n, S(a)); }
    // T(n, xoptional<CTO, CBO>)
    static C* ctor_no(void* p, size_t n, long long a, long long b, const std::string& ck)
    {
        if (ck == "val") return new (p) C(n, value_type(S(a), b != 0));
        if (ck == "ref") { S x = S(a); bool f = b != 0; return new (p) C(n, xtl::optional(x, f)); }
        if (ck == "conv") return new (p) C(n, xtl::xoptional<short, bool>(short(a), b != 0));
        bad_script("bad closure kind", ck);
    }
    static C* ctor_n(void*, size_t) { bad_script("no such constructor for the optional flavour:", "CtorN"); }
    static C* ctor_il(void*, const vj::value&) { bad_script("no such constructor for the optional flavour:", "CtorIL"); }
    static void resize_v(C& c, size_t n, long long a, long long) { c.resize(n, S(a)); }
    static void resize_o(C& c, size_t n, long long a, long long b, const std::string& ck)
    {
        if (ck == "val") c.resize(n, value_type(S(a), b != 0));
        else if (ck == "ref") { S x = S(a); bool f = b != 0; c.resize(n, xtl::optional(x, f)); }
        else if (ck == "conv") c.resize(n, xtl::xoptional<short, bool>(short(a), b != 0));
        else bad_script("bad closure kind", ck);
    }
};

template <class C> struct fl<C, cplx_tag>
{
    using S = typename info<C>::scalar;
    using value_type = typename C::value_type;
    static size_t na(const C& c) { return c.real().size(); }
    static size_t nb(const C& c) { return c.imag().size(); }
    static long long ua(const C& c, size_t i) { return enc(c.real()[i]); }
    static long long ub(const C& c, size_t i) { return enc(c.imag()[i]); }
    static void set_ua(C& c, size_t i, long long x) { c.real()[i] = S(x); }
    static void set_ub(C& c, size_t i, long long x) { c.imag()[i] = S(x); }
    static std::vector<long long> extract(C& c, bool a)
    {
        std::vector<long long> r;
        C tmp(c);
        if (a) { auto v = std::move(tmp).real(); for (auto e : v) r.push_back(enc(e)); }
        else { auto v = std::move(tmp).imag(); for (auto e : v) r.push_back(enc(e)); }
        return r;
    }
    template <class R> static void read(const R& r, std::vector<long long>& out)
    {
        out.push_back(enc(r.real()));
        out.push_back(enc(r.imag()));
        std::complex<S> cp = r;       // conversion operator of the proxy
        out.push_back(enc(cp.real()));
        out.push_back(enc(cp.imag()));
    }
    static value_type make(long long a, long long b) { return value_type(S(a), S(b)); }
    template <class R> static void write(R& r, const std::string& wk, long long a, long long b, const value_type& src)
    {
        if (wk == "a") r.real() = S(a);
        else if (wk == "b") r.imag() = S(b);
        else if (wk == "scalar") r = S(a);
        else if (wk == "addeq") r += S(a);                 // compound assignment through the proxy, real scalar
        else if (wk == "muleq") r *= S(a);
#ifdef PARSEQ_CPLX_ASSIGN
        else if (wk == "pair") r = make(a, b);
        else if (wk == "from") r = src;
        else if (wk == "addpair") r += make(a, b);         // ... with an xcomplex operand
#else
        else if (wk == "pair" || wk == "from" || wk == "addpair") { (void)src; bad_script("built without PARSEQ_CPLX_ASSIGN, write kind", wk); }
#endif
        else bad_script("bad write kind", wk);
    }
    template <class Sib> static Sib make_sib(const C& src, size_t pad)
    {
        using U = typename sibling<C>::U;
        size_t n = std::min(src.size(), std::min(src.real().size(), src.imag().size()));
        Sib f(info<C>::vec ? pad + n : info<C>::ext);
        for (size_t x = 0; x < pad && x < f.size(); ++x) { f.real()[x] = U(0); f.imag()[x] = U(0); }
        for (size_t x = 0; x < n && pad + x < f.size(); ++x) { f.real()[pad + x] = U(src.real()[x]); f.imag()[pad + x] = U(src.imag()[x]); }
        return f;
    }
    static void proxy_swap(C&, size_t, size_t) { bad_script("no proxy swap for the complex flavour:", "ProxySwap"); }
    static std::string rel(const C&, const C&) { bad_script("no relational operators for the complex flavour:", "Rel"); }
    static C* ctor_nv(void* p, size_t n, long long a, long long b) { return new (p) C(n, make(a, b)); }
    static C* ctor_no(void* p, size_t n, long long a, long long b, const std::string& ck)
    {
        if (ck == "val") return new (p) C(n, xtl::xcomplex<S, S, true>(S(a), S(b)));
        if (ck == "ref") { S x = S(a), y = S(b); return new (p) C(n, xtl::xcomplex<S&, S&, false>(x, y)); }
        if (ck == "conv") return new (p) C(n, xtl::xcomplex<float, float, false>(float(a), float(b)));
        bad_script("bad closure kind", ck);
    }
    static C* ctor_n(void* p, size_t n) { return new (p) C(n); }
    template <class CC = C>
    static std::enable_if_t<info<CC>::vec, C*> ctor_il_impl(void* p, const vj::value& es)
    {
        auto E = [&](size_t i) { return make(es.a[i].a[0].i, es.a[i].a[1].i); };
        switch (es.a.size())
        {
            case 0: return new (p) C(std::initializer_list<value_type>{});
            case 1: return new (p) C{E(0)};
            case 2: return new (p) C{E(0), E(1)};
            case 3: return new (p) C{E(0), E(1), E(2)};
            case 4: return new (p) C{E(0), E(1), E(2), E(3)};
            case 5: return new (p) C{E(0), E(1), E(2), E(3), E(4)};
            case 6: return new (p) C{E(0), E(1), E(2), E(3), E(4), E(5)};
            case 7: return new (p) C{E(0), E(1), E(2), E(3), E(4), E(5), E(6)};
            case 8: return new (p) C{E(0), E(1), E(2), E(3), E(4), E(5), E(6), E(7)};
        }
        bad_script("unsupported initializer_list length", std::to_string(es.a.size()));
    }
    template <class CC = C>
    static std::enable_if_t<!info<CC>::vec, C*> ctor_il_impl(void*, const vj::value&)
    { bad_script("no initializer-list constructor for the array flavour:", "CtorIL"); }
    static C* ctor_il(void* p, const vj::value& es) { return ctor_il_impl<C>(p, es); }
    static void resize_v(C& c, size_t n, long long a, long long b) { c.resize(n, make(a, b)); }
    static void resize_o(C& c, size_t n, long long a, long long b, const std::string& ck)
    {
        if (ck == "val") c.resize(n, xtl::xcomplex<S, S, true>(S(a), S(b)));
        else if (ck == "ref") { S x = S(a), y = S(b); c.resize(n, xtl::xcomplex<S&, S&, false>(x, y)); }
        else if (ck == "conv") c.resize(n, xtl::xcomplex<float, float, false>(float(a), float(b)));
        else bad_script("bad closure kind", ck);
    }
};

// ------------------------------------------------------------------ iterator navigation
template <class It, class F>
static void nav_it(It b, It e, size_t pos, size_t n, const std::string& nav, F&& f)
{
    std::ptrdiff_t p = std::ptrdiff_t(pos), back = std::ptrdiff_t(n - pos);
    if (nav == "plus") { auto&& r = *(b + p); f(r); }
    else if (nav == "minus") { auto&& r = *(e - back); f(r); }
    else if (nav == "inc") { It it = b; for (std::ptrdiff_t q = 0; q < p; ++q) ++it; auto&& r = *it; f(r); }
    else if (nav == "dec") { It it = e; for (std::ptrdiff_t q = 0; q < back; ++q) --it; auto&& r = *it; f(r); }
    else if (nav == "sub") { auto&& r = b[p]; f(r); }
    else if (nav == "arrow") { It it = p + b; auto ptr = it.operator->(); f(*ptr); }
    else if (nav == "peq") { It it = b; it += p; auto&& r = *it; f(r); }
    else if (nav == "meq") { It it = e; it -= back; auto&& r = *it; f(r); }
    else if (nav == "postinc") { It it = b; for (std::ptrdiff_t q = 0; q < p; ++q) it++; It it2 = it; it2++; it2--; auto&& r = *it2; f(r); }
    else bad_script("bad nav", nav);
}

// forward-iterator access, compiled only for the types whose begin()/cbegin() can be instantiated
template <class C, bool Enabled> struct fwd_ops
{
    template <class Fn> static void mut(C& x, size_t i, const std::string& nav, Fn&& f) { nav_it(x.begin(), x.end(), i, x.size(), nav, f); }
    template <class Fn> static void cst(const C& x, size_t i, const std::string& nav, Fn&& f)
    {
        if (nav == "inc") nav_it(x.begin(), x.end(), i, x.size(), nav, f);      // the const overloads of begin()/end()
        else nav_it(x.cbegin(), x.cend(), i, x.size(), nav, f);
    }
    template <class Rel> static std::string rel_m(C& x, size_t i, size_t j, Rel&& r) { return r(x.begin(), x.end(), i, j); }
    template <class Rel> static std::string rel_c(const C& x, size_t i, size_t j, Rel&& r) { return r(x.cbegin(), x.cend(), i, j); }
    template <class Fn> static void each(const C& x, Fn&& f)
    {
        size_t c = 0, n = x.size();
        for (auto it = x.cbegin(); it != x.cend() && c <= n + 4; ++it, ++c) { auto&& r = *it; f(r); }
    }
    // standard algorithms over the iterators
    template <int Mask, class Key> static void algo(C& x, const C& y, const std::string& alg, std::ptrdiff_t i, std::ptrdiff_t m, std::ptrdiff_t j, Key&& key)
    {
        if (!algo_copy(std::integral_constant<bool, (Mask & 1) != 0>(), x, y, alg, i, m, j)
            && !algo_copybwd(std::integral_constant<bool, (Mask & 8) != 0>(), x, alg, i, m, j)
            && !algo_swap(std::integral_constant<bool, (Mask & 2) != 0>(), x, alg, i, m, j)
            && !algo_sort(std::integral_constant<bool, (Mask & 4) != 0>(), x, alg, i, j, key))
            bad_script("algorithm not built into this driver:", alg);
    }
    static bool algo_copy(std::true_type, C& x, const C& y, const std::string& alg, std::ptrdiff_t i, std::ptrdiff_t m, std::ptrdiff_t j)
    {
        if (alg == "copy") std::copy(y.cbegin() + i, y.cbegin() + j, x.begin() + m);
        else return false;
        return true;
    }
    static bool algo_copy(std::false_type, C&, const C&, const std::string&, std::ptrdiff_t, std::ptrdiff_t, std::ptrdiff_t) { return false; }
    static bool algo_copybwd(std::true_type, C& x, const std::string& alg, std::ptrdiff_t i, std::ptrdiff_t m, std::ptrdiff_t j)
    {
        if (alg == "copybwd") std::copy_backward(x.begin() + i, x.begin() + j, x.begin() + j + m);
        else return false;
        return true;
    }
    static bool algo_copybwd(std::false_type, C&, const std::string&, std::ptrdiff_t, std::ptrdiff_t, std::ptrdiff_t) { return false; }
    static bool algo_swap(std::true_type, C& x, const std::string& alg, std::ptrdiff_t i, std::ptrdiff_t m, std::ptrdiff_t j)
    {
        if (alg == "reverse") std::reverse(x.begin() + i, x.begin() + j);
        else if (alg == "rotate") std::rotate(x.begin() + i, x.begin() + m, x.begin() + j);
        else return false;
        return true;
    }
    static bool algo_swap(std::false_type, C&, const std::string&, std::ptrdiff_t, std::ptrdiff_t, std::ptrdiff_t) { return false; }
    template <class Key> static bool algo_sort(std::true_type, C& x, const std::string& alg, std::ptrdiff_t i, std::ptrdiff_t j, Key&& key)
    {
        if (alg != "sort") return false;
        std::sort(x.begin() + i, x.begin() + j, [&](const auto& p, const auto& q) { return key(p) < key(q); });
        return true;
    }
    template <class Key> static bool algo_sort(std::false_type, C&, const std::string&, std::ptrdiff_t, std::ptrdiff_t, Key&&) { return false; }
};
template <class C> struct fwd_ops<C, false>
{
    template <class Fn> static void mut(C&, size_t, const std::string&, Fn&&) { bad_script("built without forward iterators for this type:", "iter"); }
    template <class Fn> static void cst(const C&, size_t, const std::string&, Fn&&) { bad_script("built without forward iterators for this type:", "citer"); }
    template <class Rel> static std::string rel_m(C&, size_t, size_t, Rel&&) { bad_script("built without forward iterators for this type:", "iter"); }
    template <class Rel> static std::string rel_c(const C&, size_t, size_t, Rel&&) { bad_script("built without forward iterators for this type:", "citer"); }
    template <class Fn> static void each(const C&, Fn&&) {}
    template <int Mask, class Key> static void algo(C&, const C&, const std::string& alg, std::ptrdiff_t, std::ptrdiff_t, std::ptrdiff_t, Key&&) { bad_script("built without forward iterators for this type:", alg); }
};

template <class C> struct machine;

// cross-container assignment, compiled only where `proxy = proxy of the sibling type` is well-formed
template <class C, bool Enabled, bool Fwd> struct xops
{
    using Sib = typename sibling<C>::type;
    template <class R> static void assign(R& r, Sib& f, const std::string& spath, const std::string& snav, size_t p, bool mv)
    {
        machine<Sib> ms;
        auto wm = [&](auto& sr) { if (mv) r = std::move(sr); else r = sr; };
        auto wc = [&](const auto& sr) { r = sr; };
        if (!ms.via_mut(f, spath, snav, p, wm) && !ms.via_const(f, spath, snav, p, wc)) bad_script("bad source path", spath);
    }
    static void copy(C& x, Sib& f, std::ptrdiff_t a, std::ptrdiff_t b, std::ptrdiff_t m, const std::string& dir) { copy_impl(std::integral_constant<bool, Fwd>(), x, f, a, b, m, dir); }
    static void copy_impl(std::true_type, C& x, Sib& f, std::ptrdiff_t a, std::ptrdiff_t b, std::ptrdiff_t m, const std::string& dir)
    {
        if (dir == "fwd") std::copy(f.begin() + a, f.begin() + b, x.begin() + m);
        else if (dir == "rev") std::copy(f.begin() + a, f.begin() + b, x.rbegin() + m);
        else bad_script("bad direction", dir);
    }
    static void copy_impl(std::false_type, C&, Sib&, std::ptrdiff_t, std::ptrdiff_t, std::ptrdiff_t, const std::string&) { bad_script("built without forward iterators for this type:", "XCopy"); }
};
template <class C, bool Fwd> struct xops<C, false, Fwd>
{
    using Sib = typename sibling<C>::type;
    template <class R> static void assign(R&, Sib&, const std::string&, const std::string&, size_t, bool) { bad_script("cross-container assignment not built into this driver:", "XAssign"); }
    static void copy(C&, Sib&, std::ptrdiff_t, std::ptrdiff_t, std::ptrdiff_t, const std::string&) { bad_script("cross-container assignment not built into this driver:", "XCopy"); }
};

template <class C>
struct machine
{
    using I = info<C>;
    using F = fl<C, typename I::tag>;
    using value_type = typename F::value_type;
    static constexpr bool has_fwd = I::vec || (std::is_same<typename I::tag, opt_tag>::value ? opt_array_fwd_iter : cplx_array_fwd_iter);
    using FW = fwd_ops<C, has_fwd>;
    using Sib = typename sibling<C>::type;
    static constexpr bool has_xassign = (std::is_same<typename I::tag, opt_tag>::value ? PARSEQ_XASSIGN_OPT : PARSEQ_XASSIGN_CPLX) != 0;
    using XO = xops<C, has_xassign, has_fwd>;

    struct holder
    {
        void* buf = nullptr;
        C* p = nullptr;
        void release()
        {
            if (p) { p->~C(); p = nullptr; }
            if (buf) { ::operator delete(buf); buf = nullptr; }
        }
    };
    holder h[2];

    // raw storage for a new object, every byte 0xAA (volatile stores: cannot be optimised away)
    static void* raw()
    {
        void* b = ::operator new(sizeof(C));
        volatile unsigned char* v = static_cast<volatile unsigned char*>(b);
        for (size_t i = 0; i < sizeof(C); ++i) v[i] = 0xAA;
        return b;
    }
    template <class Make> void rebuild(int k, Make&& mk)
    {
        void* b = raw();
        C* n;
        try { n = mk(b); }
        catch (...) { ::operator delete(b); throw; }
        h[k].release();
        h[k].buf = b; h[k].p = n;
    }
    C& O(int k) { return *h[k].p; }

    template <class Fn> bool via_mut(C& x, const std::string& path, const std::string& nav, size_t i, Fn&& f)
    {
        size_t n = x.size();
        if (path == "index") { auto&& r = x[i]; f(r); }
        else if (path == "at") { auto&& r = x.at(i); f(r); }
        else if (path == "front") { auto&& r = x.front(); f(r); }
        else if (path == "back") { auto&& r = x.back(); f(r); }
        else if (path == "iter") FW::mut(x, i, nav, f);
        else if (path == "riter") nav_it(x.rbegin(), x.rend(), n - 1 - i, n, nav, f);
        else return false;
        return true;
    }
    template <class Fn> bool via_const(const C& x, const std::string& path, const std::string& nav, size_t i, Fn&& f)
    {
        size_t n = x.size();
        if (path == "cindex") { auto&& r = x[i]; f(r); }
        else if (path == "cat") { auto&& r = x.at(i); f(r); }
        else if (path == "cfront") { auto&& r = x.front(); f(r); }
        else if (path == "cback") { auto&& r = x.back(); f(r); }
        else if (path == "citer") FW::cst(x, i, nav, f);
        else if (path == "criter") { if (nav == "inc") nav_it(x.rbegin(), x.rend(), n - 1 - i, n, nav, f); else nav_it(x.crbegin(), x.crend(), n - 1 - i, n, nav, f); }
        else return false;
        return true;
    }
    struct iter_rel_t
    {
        template <class It> std::string operator()(It b, It e, size_t i, size_t j) const
        {
            It p = b + std::ptrdiff_t(i), q = b + std::ptrdiff_t(j);
            std::vector<long long> r{ (p == q) ? 1 : 0, (p != q) ? 1 : 0, (long long)(q - p), (long long)(e - b) };
            return vj::ints(r);
        }
    };

    template <class CC = C> std::enable_if_t<info<CC>::vec> do_resize(int k, const std::string& op, const vj::value& a)
    {
        size_t n = size_t(a.num("n"));
        if (op == "Resize") O(k).resize(n);
        else if (op == "ResizeV") F::resize_v(O(k), n, a.at("v").a[0].i, a.at("v").a[1].i);
        else F::resize_o(O(k), n, a.at("e").a[0].i, a.at("e").a[1].i, a.str("ck"));
    }
    template <class CC = C> std::enable_if_t<!info<CC>::vec> do_resize(int, const std::string& op, const vj::value&)
    { bad_script("no resize for the array flavour:", op); }
    // x.resize(n, <element proxy of sx reached through path / nav>): sx may be x itself (the argument aliases the storages)
    template <class CC = C> std::enable_if_t<info<CC>::vec> do_resize_from(C& x, C& sx, size_t n, const std::string& path, const std::string& nav, size_t j)
    {
        auto rz = [&](const auto& sr) { x.resize(n, sr); };
        if (!via_mut(sx, path, nav, j, rz) && !via_const(sx, path, nav, j, rz)) bad_script("bad source path", path);
    }
    template <class CC = C> std::enable_if_t<!info<CC>::vec> do_resize_from(C&, C&, size_t, const std::string&, const std::string&, size_t)
    { bad_script("no resize for the array flavour:", "ResizeFrom"); }

    std::string step(const vj::value& e)
    {
        const std::string& op = e.str("op");
        int k = int(e.num("k", 1)) - 1, o = 1 - k;
        const vj::value& a = e.at("a");
        std::string val = "[]";
        const char* exc = "none";
        try
        {
            if (op == "Reset")
            {
                bool okfl = a.str("fl") == (std::is_same<typename I::tag, opt_tag>::value ? "optional" : "complex");
                bool okct = a.str("ct") == (I::vec ? "vector" : "array");
                if (!okfl || !okct || size_t(a.num("n")) != I::ext) bad_script("Reset does not match the instantiated type", "");
                if ((a.num("fwd") != 0) != has_fwd || (a.num("cas") != 0) != (cplx_assign || std::is_same<typename I::tag, opt_tag>::value))
                    bad_script("Reset does not match the features the driver was built with", "");
                rebuild(0, [](void* p) { return new (p) C(); });
                rebuild(1, [](void* p) { return new (p) C(); });
            }
            else if (op == "Feature")
            {
                const std::string& nm = a.str("name");
                if (nm == "fwd_iter") val = has_fwd ? "[1]" : "[0]";
                else bad_script("unknown feature", nm);
            }
            else if (op == "CtorDefault")
            {
                if (a.str("how") == "dinit") rebuild(k, [](void* p) { return new (p) C; });       // default-initialisation
                else rebuild(k, [](void* p) { return new (p) C(); });                             // value-initialisation
            }
            else if (op == "CtorN") rebuild(k, [&](void* p) { return F::ctor_n(p, size_t(a.num("n"))); });
            else if (op == "CtorNV") rebuild(k, [&](void* p) { return F::ctor_nv(p, size_t(a.num("n")), a.at("v").a[0].i, a.at("v").a[1].i); });
            else if (op == "CtorNO") rebuild(k, [&](void* p) { return F::ctor_no(p, size_t(a.num("n")), a.at("e").a[0].i, a.at("e").a[1].i, a.str("ck")); });
            else if (op == "CtorIL") rebuild(k, [&](void* p) { return F::ctor_il(p, a.at("es")); });
            else if (op == "CtorCopy") rebuild(k, [&](void* p) { const C& src = O(o); return new (p) C(src); });
            else if (op == "CopyAssign") { const C& src = O(o); O(k) = src; }
            else if (op == "CtorMove")
            {
                // re = 1: the moved-from object is destroyed and made anew at once; re = 0: it is kept and observed
                rebuild(k, [&](void* p) { return new (p) C(std::move(O(o))); });
                if (a.num("re", 1)) rebuild(o, [](void* p) { return new (p) C(); });
            }
            else if (op == "MoveAssign")
            {
                O(k) = std::move(O(o));
                if (a.num("re", 1)) rebuild(o, [](void* p) { return new (p) C(); });
            }
            else if (op == "MaxSize") { const C& cx = O(k); val = "[" + std::to_string(clip30(cx.max_size())) + "]"; }
            else if (op == "Rel") { const C& cx = O(k); const C& cy = O(o); val = F::rel(cx, cy); }
            else if (op == "ProxySwap") F::proxy_swap(O(k), size_t(a.num("i")), size_t(a.num("j")));
            else if (op == "Resize" || op == "ResizeV" || op == "ResizeO") do_resize(k, op, a);
            else if (op == "ResizeFrom") do_resize_from(O(k), O(int(a.num("s")) - 1), size_t(a.num("n")), a.str("path"), a.str("nav"), size_t(a.num("j")));
            else if (op == "CtorFrom")
            {
                rebuild(k, [&](void* p)
                {
                    C* np = nullptr;
                    size_t n = size_t(a.num("n"));
                    auto mk = [&](const auto& sr) { np = new (p) C(n, sr); };
                    if (!via_mut(O(o), a.str("path"), a.str("nav"), size_t(a.num("j")), mk) && !via_const(O(o), a.str("path"), a.str("nav"), size_t(a.num("j")), mk))
                        bad_script("bad source path", a.str("path"));
                    return np;
                });
            }
            else if (op == "XAssign")
            {
                size_t pad = size_t(a.num("pad"));
                Sib f = F::template make_sib<Sib>(O(o), pad);
                const std::string& sp = a.str("spath"); const std::string& sn = a.str("snav");
                size_t p = pad + size_t(a.num("j"));
                bool mv = a.num("mv") != 0;
                auto wr = [&](auto& r) { XO::assign(r, f, sp, sn, p, mv); };
                if (!via_mut(O(k), a.str("path"), a.str("nav"), size_t(a.num("i")), wr)) bad_script("bad write path", a.str("path"));
            }
            else if (op == "XCopy")
            {
                std::ptrdiff_t pad = std::ptrdiff_t(a.num("pad"));
                Sib f = F::template make_sib<Sib>(O(o), size_t(pad));
                XO::copy(O(k), f, pad + std::ptrdiff_t(a.num("i")), pad + std::ptrdiff_t(a.num("j")), std::ptrdiff_t(a.num("m")), a.str("dir"));
            }
            else if (op == "At")
            {
                size_t i = a.num("h") ? (std::numeric_limits<size_t>::max() - size_t(a.num("i"))) : size_t(a.num("i"));
                std::vector<long long> out;
                if (a.str("c") == "m") { auto&& r = O(k).at(i); F::read(r, out); }
                else { const C& cx = O(k); auto&& r = cx.at(i); F::read(r, out); }
                out.resize(2);
                val = vj::ints(out);
            }
            else if (op == "Read")
            {
                std::vector<long long> out;
                auto rd = [&](const auto& r) { F::read(r, out); };
                const std::string& path = a.str("path");
                if (!via_mut(O(k), path, a.str("nav"), size_t(a.num("i")), rd) &&
                    !via_const(O(k), path, a.str("nav"), size_t(a.num("i")), rd))
                    bad_script("bad read path", path);
                val = vj::ints(out);
            }
            else if (op == "Write")
            {
                const std::string& wk = a.str("wk");
                long long ea = a.at("e").a[0].i, eb = a.at("e").a[1].i;
                value_type src = F::make(0, 0);
                if (wk == "from")
                {
                    // value_type(c[j]) read through the const operator[] (component-wise: no conversion is involved)
                    std::vector<long long> t; const C& cx = O(k); auto&& r = cx[size_t(a.num("j"))]; F::read(r, t);
                    src = F::make(t[0], t[1]);
                }
                auto wr = [&](auto& r) { F::write(r, wk, ea, eb, src); };
                if (!via_mut(O(k), a.str("path"), a.str("nav"), size_t(a.num("i")), wr)) bad_script("bad write path", a.str("path"));
            }
            else if (op == "WriteUnder")
            {
                if (a.str("which") == "a") F::set_ua(O(k), size_t(a.num("i")), a.num("x"));
                else F::set_ub(O(k), size_t(a.num("i")), a.num("x"));
            }
            else if (op == "Extract") val = vj::ints(F::extract(O(k), a.str("which") == "a"));
            else if (op == "IterRel")
            {
                const std::string& path = a.str("path");
                size_t i = size_t(a.num("i")), j = size_t(a.num("j"));
                C& x = O(k); const C& cx = x;
                iter_rel_t iter_rel;
                if (path == "iter") val = FW::rel_m(x, i, j, iter_rel);
                else if (path == "citer") val = FW::rel_c(cx, i, j, iter_rel);
                else if (path == "riter") val = iter_rel(x.rbegin(), x.rend(), i, j);
                else if (path == "criter") val = iter_rel(cx.crbegin(), cx.crend(), i, j);
                else bad_script("bad iterator path", path);
            }
            else if (op == "Algo")
            {
                C& x = O(k); const C& y = O(o);
                auto key = [](const auto& r) { std::vector<long long> t; F::read(r, t); return std::make_pair(t[0], t[1]); };
                constexpr int mask = std::is_same<typename I::tag, opt_tag>::value ? PARSEQ_ALGO_OPT : PARSEQ_ALGO_CPLX;
                FW::template algo<mask>(x, y, a.str("alg"), std::ptrdiff_t(a.num("i")), std::ptrdiff_t(a.num("m")), std::ptrdiff_t(a.num("j")), key);
            }
            else bad_script("unknown op", op);
        }
        catch (const std::out_of_range&) { exc = "out_of_range"; }
        catch (const std::length_error&) { exc = "length_error"; }
        catch (const std::exception&) { exc = "other"; }
        catch (...) { exc = "nonstd"; }
        return std::string("{\"exc\":\"") + exc + "\",\"val\":" + (std::strcmp(exc, "none") ? "[]" : val) + "}";
    }

    static std::string pairs(const std::vector<long long>& v)
    {
        std::string r = "[";
        for (size_t i = 0; i + 1 < v.size(); i += 2)
        {
            if (i) r += ',';
            r += '['; r += std::to_string(v[i]); r += ','; r += std::to_string(v[i + 1]); r += ']';
        }
        return r + "]";
    }

    std::string proj(int k)
    {
        const C& cx = O(k);
        vj::out o;
        size_t n = cx.size(), na = F::na(cx), nb = F::nb(cx);
        o.kv("size", (long long)n);
        o.kb("empty", cx.empty());
        o.kv("nA", (long long)na).kv("nB", (long long)nb);
        std::vector<long long> A, B, idx, fwd, rev;
        for (size_t i = 0; i < na; ++i) A.push_back(F::ua(cx, i));
        for (size_t i = 0; i < nb; ++i) B.push_back(F::ub(cx, i));
        // elements through the container interface are only read when the three lengths agree:
        // otherwise every such read runs off the end of the shorter storage
        if (n == na && n == nb)
        {
            std::vector<long long> t;
            for (size_t i = 0; i < n; ++i) { t.clear(); auto&& r = cx[i]; F::read(r, t); idx.push_back(t[0]); idx.push_back(t[1]); }
            FW::each(cx, [&](const auto& r) { t.clear(); F::read(r, t); fwd.push_back(t[0]); fwd.push_back(t[1]); });
            size_t c = 0;
            for (auto it = cx.crbegin(); it != cx.crend() && c <= n + 4; ++it, ++c) { t.clear(); auto&& r = *it; F::read(r, t); rev.push_back(t[0]); rev.push_back(t[1]); }
        }
        o.kints("A", A).kints("B", B);
        o.kraw("idx", pairs(idx)).kraw("fwd", pairs(fwd)).kraw("rev", pairs(rev));
        return o.obj();
    }

    int run()
    {
        std::string line;
        rebuild(0, [](void* p) { return new (p) C(); });
        rebuild(1, [](void* p) { return new (p) C(); });
        while (std::getline(std::cin, line))
        {
            if (line.empty()) continue;
            arm_cpu_limit();
            vj::value e = vj::parse(line);
            std::string res = step(e);
            bool eq = (O(0) == O(1)), ne = (O(0) != O(1));
            std::string head = line.substr(0, line.rfind('}'));
            std::string st = "{\"o\":[" + proj(0) + "," + proj(1) + "],\"eq\":" + (eq ? "true" : "false") + ",\"ne\":" + (ne ? "true" : "false") + "}";
            std::fputs((head + ",\"res\":" + res + ",\"st\":" + st + "}\n").c_str(), stdout);
        }
        h[0].release(); h[1].release();
        return 0;
    }
};

int main(int argc, char** argv)
{
    vj::install_crash_handlers();
    std::signal(SIGPROF, on_cpu_limit);
    std::string t = argc > 1 ? argv[1] : "";
#if PARSEQ_GROUP == 1
    if (t == "ov") return machine<xtl::xoptional_vector<int>>().run();
    if (t == "oa3") return machine<xtl::xoptional_array<int, 3>>().run();
    if (t == "oa70") return machine<xtl::xoptional_array<int, 70>>().run();
    if (t == "cv") return machine<xtl::xcomplex_vector<double>>().run();
    if (t == "ca3") return machine<xtl::xcomplex_array<double, 3>>().run();
    if (t == "ca66") return machine<xtl::xcomplex_array<double, 66>>().run();
    std::fprintf(stderr, "usage: driver {ov|oa3|oa70|cv|ca3|ca66} < script\n");
#elif PARSEQ_GROUP == 3
    // round 3: other flag containers and element types
    if (t == "ovw") return machine<xtl::xoptional_vector<int, std::allocator<int>, xtl::xdynamic_bitset<std::uint16_t>>>().run();
    if (t == "ovq") return machine<xtl::xoptional_vector<int, std::allocator<int>, xtl::xdynamic_bitset<std::uint32_t>>>().run();
    if (t == "ovc") return machine<xtl::xoptional_vector<int, std::allocator<int>, std::vector<char>>>().run();
    if (t == "cvf") return machine<xtl::xcomplex_vector<float>>().run();
    std::fprintf(stderr, "usage: driver {ovw|ovq|ovc|cvf} < script\n");
#else
    if (t == "ovd") return machine<xtl::xoptional_vector<double>>().run();
    if (t == "ovb") return machine<xtl::xoptional_vector<int, std::allocator<int>, std::vector<bool>>>().run();
    if (t == "ovn") return machine<xtl::xoptional_vector<int, std::allocator<int>, xtl::xdynamic_bitset<std::uint8_t>>>().run();
    if (t == "oab3") return machine<xtl::xoptional_array<int, 3, std::array<bool, 3>>>().run();
    if (t == "oa0") return machine<xtl::xoptional_array<int, 0>>().run();
    if (t == "ca0") return machine<xtl::xcomplex_array<double, 0>>().run();
    if (t == "cvi") return machine<xtl::xcomplex_vector<double, true>>().run();
    if (t == "cai3") return machine<xtl::xcomplex_array<double, 3, true>>().run();
    std::fprintf(stderr, "usage: driver {ovd|ovb|ovn|oab3|oa0|ca0|cvi|cai3} < script\n");
#endif
    return 3;
}

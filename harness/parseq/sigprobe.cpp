// C11 signature table: the types the property's wording depends on ("element i read through operator[], at(),
// front/back, forward, const and reverse iterators is the pair (values[i], flags[i]), and writes through any of those
// proxies land in exactly that pair"; "value and flag storages ... have the same length as size()").  Compiled with
// -fsyntax-only before the conformance driver is built.  -DC11_SEL=0 checks every row, -DC11_SEL=n only row n.
// Rows only demand what the property needs: that every access path yields the same kind of proxy, that the proxy's
// components are references into the two underlying containers, and that the containers are reachable.
#include <xtl/xoptional_sequence.hpp>
#include <xtl/xcomplex_sequence.hpp>
#include <complex>
#include <initializer_list>
#include <iterator>
#include <type_traits>
#include <utility>

#ifndef C11_SEL
#define C11_SEL 0
#endif
#define ROW(n, ...) static_assert(!(C11_SEL == 0 || C11_SEL == n) || (__VA_ARGS__), "C11-SIG row " #n)

template <class T> using noref = std::remove_cv_t<std::remove_reference_t<T>>;
template <class T> using cat_of = typename std::iterator_traits<T>::iterator_category;
template <class T> T& lv();
template <class T> const T& clv();

// every access path of a container yields the same proxy type (non-const and const)
template <class C> struct same_proxy
{
    using R = decltype(lv<C>()[0]);
    using CR = decltype(clv<C>()[0]);
    static constexpr bool mut = std::is_same<decltype(lv<C>().at(0)), R>::value && std::is_same<decltype(lv<C>().front()), R>::value
        && std::is_same<decltype(lv<C>().back()), R>::value && std::is_same<decltype(*lv<C>().begin()), R>::value
        && std::is_same<decltype(*lv<C>().rbegin()), R>::value && std::is_same<decltype(lv<C>().begin()[0]), R>::value;
    static constexpr bool cst = std::is_same<decltype(clv<C>().at(0)), CR>::value && std::is_same<decltype(clv<C>().front()), CR>::value
        && std::is_same<decltype(clv<C>().back()), CR>::value && std::is_same<decltype(*clv<C>().cbegin()), CR>::value
        && std::is_same<decltype(*clv<C>().crbegin()), CR>::value && std::is_same<decltype(*clv<C>().begin()), CR>::value
        && std::is_same<decltype(*clv<C>().rbegin()), CR>::value;
    static constexpr bool iters = std::is_base_of<std::input_iterator_tag, cat_of<decltype(lv<C>().begin())>>::value
        && std::is_base_of<std::input_iterator_tag, cat_of<decltype(clv<C>().crbegin())>>::value
        && std::is_integral<decltype(lv<C>().end() - lv<C>().begin())>::value
        && std::is_same<decltype(lv<C>().begin()), decltype(lv<C>().end())>::value
        && std::is_same<decltype(clv<C>().cbegin()), decltype(clv<C>().cend())>::value;
    static constexpr bool sizes = std::is_unsigned<decltype(clv<C>().size())>::value && std::is_same<decltype(clv<C>().empty()), bool>::value
        && std::is_convertible<decltype(clv<C>() == clv<C>()), bool>::value && std::is_convertible<decltype(clv<C>() != clv<C>()), bool>::value;
};

using OV = xtl::xoptional_vector<int>;
using OA = xtl::xoptional_array<int, 3>;
using CV = xtl::xcomplex_vector<double>;
using CA = xtl::xcomplex_array<double, 3>;
using OPT = xtl::xoptional<int, bool>;
using CPX = xtl::xcomplex<double, double, false>;

ROW(1, same_proxy<OV>::mut && same_proxy<OA>::mut);
ROW(2, same_proxy<OV>::cst && same_proxy<OA>::cst);
ROW(3, same_proxy<CV>::mut && same_proxy<CA>::mut);
ROW(4, same_proxy<CV>::cst && same_proxy<CA>::cst);
ROW(5, same_proxy<OV>::iters && same_proxy<OA>::iters && same_proxy<CV>::iters && same_proxy<CA>::iters);
ROW(6, same_proxy<OV>::sizes && same_proxy<OA>::sizes && same_proxy<CV>::sizes && same_proxy<CA>::sizes);
// the components of a proxy are references into the underlying containers
ROW(7, std::is_same<decltype(lv<OV>()[0].value()), int&>::value && std::is_same<decltype(lv<OA>()[0].value()), int&>::value);
ROW(8, std::is_same<decltype(clv<OV>()[0].value()), const int&>::value && std::is_same<decltype(clv<OA>()[0].value()), const int&>::value);
ROW(9, std::is_assignable<decltype(lv<OV>()[0].has_value()), bool>::value && std::is_convertible<decltype(clv<OV>()[0].has_value()), bool>::value
       && std::is_assignable<decltype(lv<OA>()[0].has_value()), bool>::value && std::is_convertible<decltype(clv<OA>()[0].has_value()), bool>::value);
ROW(10, std::is_same<decltype(lv<CV>()[0].real()), double&>::value && std::is_same<decltype(lv<CV>()[0].imag()), double&>::value
        && std::is_same<decltype(lv<CA>()[0].real()), double&>::value && std::is_same<decltype(lv<CA>()[0].imag()), double&>::value);
ROW(11, std::is_same<decltype(clv<CV>()[0].real()), const double&>::value && std::is_same<decltype(clv<CV>()[0].imag()), const double&>::value
        && std::is_same<decltype(clv<CA>()[0].real()), const double&>::value && std::is_same<decltype(clv<CA>()[0].imag()), const double&>::value);
// the underlying containers are reachable, by reference from an lvalue, and hold the declared element types
ROW(12, std::is_lvalue_reference<decltype(lv<OV>().value())>::value && std::is_lvalue_reference<decltype(lv<OV>().has_value())>::value
        && std::is_lvalue_reference<decltype(clv<OV>().value())>::value && std::is_lvalue_reference<decltype(clv<OV>().has_value())>::value);
ROW(13, std::is_lvalue_reference<decltype(lv<OA>().value())>::value && std::is_lvalue_reference<decltype(lv<OA>().has_value())>::value
        && std::is_same<noref<decltype(lv<OA>().value()[0])>, int>::value && std::is_same<noref<decltype(lv<OV>().value()[0])>, int>::value);
ROW(14, std::is_lvalue_reference<decltype(lv<CV>().real())>::value && std::is_lvalue_reference<decltype(lv<CV>().imag())>::value
        && std::is_lvalue_reference<decltype(clv<CA>().real())>::value && std::is_lvalue_reference<decltype(clv<CA>().imag())>::value
        && std::is_same<noref<decltype(lv<CV>().real()[0])>, double>::value && std::is_same<noref<decltype(lv<CA>().imag()[0])>, double>::value);
ROW(15, std::is_unsigned<decltype(clv<OV>().value().size())>::value && std::is_unsigned<decltype(clv<OV>().has_value().size())>::value
        && std::is_unsigned<decltype(clv<CV>().real().size())>::value && std::is_unsigned<decltype(clv<CV>().imag().size())>::value);
// proxies convert to / are assignable from the element type
ROW(16, std::is_constructible<OPT, decltype(clv<OV>()[0])>::value && std::is_assignable<decltype(lv<OV>()[0]), OPT>::value && std::is_assignable<decltype(lv<OV>()[0]), int>::value);
ROW(17, std::is_convertible<decltype(clv<CV>()[0]), std::complex<double>>::value && std::is_assignable<decltype(lv<CV>()[0]), double>::value);
// constructors and resize overloads the property lists
ROW(18, std::is_default_constructible<OV>::value && std::is_constructible<OV, std::size_t, int>::value && std::is_constructible<OV, std::size_t, OPT>::value
        && std::is_default_constructible<OA>::value && std::is_constructible<OA, std::size_t, int>::value && std::is_constructible<OA, std::size_t, OPT>::value);
ROW(19, std::is_default_constructible<CV>::value && std::is_constructible<CV, std::size_t>::value && std::is_constructible<CV, std::size_t, CPX>::value
        && std::is_constructible<CV, std::initializer_list<CPX>>::value
        && std::is_default_constructible<CA>::value && std::is_constructible<CA, std::size_t>::value && std::is_constructible<CA, std::size_t, CPX>::value);
ROW(20, std::is_same<decltype(lv<OV>().resize(std::size_t(1))), void>::value && std::is_same<decltype(lv<OV>().resize(std::size_t(1), 1)), void>::value
        && std::is_same<decltype(lv<OV>().resize(std::size_t(1), clv<OPT>())), void>::value);
ROW(21, std::is_same<decltype(lv<CV>().resize(std::size_t(1))), void>::value && std::is_same<decltype(lv<CV>().resize(std::size_t(1), clv<CPX>())), void>::value);
ROW(22, std::is_copy_constructible<OV>::value && std::is_copy_assignable<OV>::value && std::is_copy_constructible<OA>::value && std::is_copy_assignable<OA>::value
        && std::is_copy_constructible<CV>::value && std::is_copy_assignable<CV>::value && std::is_copy_constructible<CA>::value && std::is_copy_assignable<CA>::value);

int main() { return 0; }

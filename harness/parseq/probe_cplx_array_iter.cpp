// feature probe: can the forward iterators of xcomplex_array be instantiated?
#include <xtl/xcomplex_sequence.hpp>
int main()
{
    xtl::xcomplex_array<double, 3> a(3);
    const auto& ca = a;
    auto i = a.begin(); auto e = a.end(); auto ci = ca.cbegin(); auto ce = ca.end();
    return int(e - i) + int(ce - ci) - 6 + int((*i).real());
}

// C11 feature probe: is `proxy = proxy of the sibling container type` (another value type, same flag container) well-formed for the
// optional (FLAV 1) / complex (FLAV 2) sequences, for lvalue, rvalue and const source proxies, and can std::copy be run between the
// two containers?  Compiled with -fsyntax-only.
#include <xtl/xoptional_sequence.hpp>
#include <xtl/xcomplex_sequence.hpp>
#include <algorithm>
#if FLAV == 1
using V = xtl::xoptional_vector<int>;       using VS = xtl::xoptional_vector<long long>;
using A = xtl::xoptional_array<int, 3>;     using AS = xtl::xoptional_array<long long, 3>;
#else
using V = xtl::xcomplex_vector<double>;     using VS = xtl::xcomplex_vector<long double>;
using A = xtl::xcomplex_array<double, 3>;   using AS = xtl::xcomplex_array<long double, 3>;
#endif
template <class C, class S> void use(C& x, S& f)
{
    const S& cf = f;
    x[0] = f[1];
    { auto r = f[2]; x.at(1) = std::move(r); }
    x.front() = cf[1];
    *x.begin() = *f.rbegin();
    *x.rbegin() = *cf.cbegin();
    std::copy(f.begin() + 1, f.end(), x.begin());
    std::copy(f.begin() + 1, f.end(), x.rbegin());
}
int main() { V v(3, 1); VS w(3, 2); use(v, w); A a(3, 1); AS b(3, 2); use(a, b); return 0; }

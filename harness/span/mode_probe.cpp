// C16: what contract-checking mode does a translation unit with THIS macro set get from xspan.hpp?
// Compiled once per configuration of specs/SpanMode.tla (mode macros x NDEBUG x language level), without
// any macro of its own.  Every checked entry point is called once with an out-of-range argument, each in
// a child process, on a view of one element in the middle of a five-element array (so the unchecked
// outcome touches nothing outside the array); reported per entry point:
//    "unchecked"  the call returned (a view / a reference beyond the view)
//    "throwing"   it threw a std::logic_error that is not std::out_of_range
//    "terminate"  the child ended in std::terminate or abort
//    anything else is reported literally.
// No oracle: prints one JSON object {"entries":{name:outcome,...},"macros_after_include":[...]}.
#include <xtl/xspan.hpp>
#include <cstdio>
#include <cstdlib>
#include <csignal>
#include <exception>
#include <stdexcept>
#include <string>
#include <vector>
#include <unistd.h>
#include <sys/wait.h>

static int g_arr[5] = { 1, 2, 3, 4, 5 };
static volatile long long g_sink;

template <class F> static std::string outcome(F f)
{
    std::fflush(stdout);
    pid_t pid = fork();
    if (pid < 0) return "fork-failed";
    if (pid == 0)
    {
        std::set_terminate([] { _exit(42); });
        std::signal(SIGABRT, [](int) { _exit(43); });
        try { f(); }
        catch (const std::out_of_range&) { _exit(11); }
        catch (const std::logic_error&) { _exit(10); }
        catch (...) { _exit(12); }
        _exit(0);
    }
    int st = 0;
    waitpid(pid, &st, 0);
    if (WIFSIGNALED(st)) return "signal-" + std::to_string(WTERMSIG(st));
    switch (WEXITSTATUS(st))
    {
        case 0: return "unchecked";
        case 10: return "throwing";
        case 11: return "out_of_range";
        case 12: return "other-exception";
        case 42: case 43: return "terminate";
    }
    return "status-" + std::to_string(WEXITSTATUS(st));
}

int main()
{
    using xtl::span;
    int* p = g_arr + 2;
    std::vector<std::pair<std::string, std::string>> r;
    r.emplace_back("first", outcome([&] { span<int> s(p, 1); g_sink = (long long)s.first(2).size(); }));
    r.emplace_back("last", outcome([&] { span<int> s(p, 1); g_sink = (long long)s.last(2).size(); }));
    r.emplace_back("subspan_offset", outcome([&] { span<int> s(p, 1); g_sink = (long long)s.subspan(2).data()[0]; }));
    r.emplace_back("subspan_count", outcome([&] { span<int> s(p, 1); g_sink = (long long)s.subspan(0, 2).size(); }));
    r.emplace_back("first_static", outcome([&] { span<int> s(p, 1); g_sink = (long long)s.first<2>().size(); }));
    r.emplace_back("last_static", outcome([&] { span<int> s(p, 1); g_sink = (long long)s.last<2>().size(); }));
    r.emplace_back("subspan_static", outcome([&] { span<int> s(p, 1); g_sink = (long long)s.subspan<1, 1>().size(); }));
    r.emplace_back("index", outcome([&] { span<int> s(p, 1); g_sink = s[1]; }));
    r.emplace_back("call", outcome([&] { span<int> s(p, 1); g_sink = s(1); }));
    r.emplace_back("front_empty", outcome([&] { span<int> s(p, std::size_t(0)); g_sink = s.front(); }));
    r.emplace_back("back_empty", outcome([&] { span<int> s(p, std::size_t(0)); g_sink = s.back(); }));
    r.emplace_back("static_extent_ctor", outcome([&] { span<int, 2> s(p, 1); g_sink = (long long)s.size(); }));
    r.emplace_back("static_extent_pair", outcome([&] { span<int, 2> s(p, p + 1); g_sink = (long long)s.size(); }));
    r.emplace_back("static_extent_container", outcome([&] { std::vector<int> v(3, 7); span<int, 2> s(v); g_sink = (long long)s.size(); }));
    r.emplace_back("nonmember_first", outcome([&] { int a[2] = { 1, 2 }; g_sink = (long long)tcb::first(a, 3).size(); }));
    std::string out = "{\"entries\":{";
    for (std::size_t i = 0; i < r.size(); ++i) out += (i ? ",\"" : "\"") + r[i].first + "\":\"" + r[i].second + "\"";
    out += "},\"macros_after_include\":[";
    bool f = true;
#ifdef TCB_SPAN_THROW_ON_CONTRACT_VIOLATION
    out += "\"THROW\""; f = false;
#endif
#ifdef TCB_SPAN_TERMINATE_ON_CONTRACT_VIOLATION
    out += f ? "\"TERMINATE\"" : ",\"TERMINATE\""; f = false;
#endif
#ifdef TCB_SPAN_NO_CONTRACT_CHECKING
    out += f ? "\"NONE\"" : ",\"NONE\""; f = false;
#endif
    out += "]}";
    std::puts(out.c_str());
    return 0;
}

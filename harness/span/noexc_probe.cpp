// C16 (round 3): translation units compiled WITHOUT exception support (-fno-exceptions).  xspan_impl.hpp then defines
// TCB_SPAN_NO_EXCEPTIONS itself: at() cannot throw, and a contract violation cannot throw either.  This program is
// compiled once per configuration (mode macros x NDEBUG x language level) with -fno-exceptions and contains no
// try / catch / throw.  Every checked entry point is called once with an out-of-range argument, each in a child process,
// on a view of one element in the middle of a five-element array (the unchecked outcome touches nothing outside the
// array); reported per entry point:
//    "unchecked"  the call returned (a view / a reference beyond the view)
//    "terminate"  the child ended in std::terminate or abort
// plus, as "valid", whether the in-range calls still give the right answers.  No oracle: prints one JSON object.
#include <xtl/xspan.hpp>
#include <cstdio>
#include <cstdlib>
#include <csignal>
#include <exception>
#include <string>
#include <vector>
#include <unistd.h>
#include <sys/wait.h>

static int g_arr[5] = { 1, 2, 3, 4, 5 };
static volatile long long g_sink;

template <class F> static std::string outcome(F f)
{
    std::fflush(stdout);
    pid_t pid = fork();
    if (pid < 0) return "fork-failed";
    if (pid == 0)
    {
        std::set_terminate([] { _exit(42); });
        std::signal(SIGABRT, [](int) { _exit(43); });
        f();
        _exit(0);
    }
    int st = 0;
    waitpid(pid, &st, 0);
    if (WIFSIGNALED(st)) return "signal-" + std::to_string(WTERMSIG(st));
    switch (WEXITSTATUS(st))
    {
        case 0: return "unchecked";
        case 42: case 43: return "terminate";
    }
    return "status-" + std::to_string(WEXITSTATUS(st));
}

int main()
{
    using xtl::span;
    int* p = g_arr + 2;
    std::vector<std::pair<std::string, std::string>> r;
    r.emplace_back("first", outcome([&] { span<int> s(p, 1); g_sink = (long long)s.first(2).size(); }));
    r.emplace_back("last", outcome([&] { span<int> s(p, 1); g_sink = (long long)s.last(2).size(); }));
    r.emplace_back("subspan_offset", outcome([&] { span<int> s(p, 1); g_sink = (long long)s.subspan(2).data()[0]; }));
    r.emplace_back("subspan_count", outcome([&] { span<int> s(p, 1); g_sink = (long long)s.subspan(0, 2).size(); }));
    r.emplace_back("subspan_wrap", outcome([&] { span<int> s(p, 1); g_sink = (long long)s.subspan(1, std::ptrdiff_t(-2)).size(); }));
    r.emplace_back("first_static", outcome([&] { span<int> s(p, 1); g_sink = (long long)s.first<2>().size(); }));
    r.emplace_back("last_static", outcome([&] { span<int> s(p, 1); g_sink = (long long)s.last<2>().size(); }));
    r.emplace_back("subspan_static", outcome([&] { span<int> s(p, 1); g_sink = (long long)s.subspan<1, 1>().size(); }));
    r.emplace_back("index", outcome([&] { span<int> s(p, 1); g_sink = s[1]; }));
    r.emplace_back("call", outcome([&] { span<int> s(p, 1); g_sink = s(1); }));
    r.emplace_back("front_empty", outcome([&] { span<int> s(p, std::size_t(0)); g_sink = s.front(); }));
    r.emplace_back("back_empty", outcome([&] { span<int> s(p, std::size_t(0)); g_sink = s.back(); }));
    r.emplace_back("static_extent_ctor", outcome([&] { span<int, 2> s(p, 1); g_sink = (long long)s.size(); }));
    r.emplace_back("static_extent_container", outcome([&] { std::vector<int> v(3, 7); span<int, 2> s(v); g_sink = (long long)s.size(); }));
    r.emplace_back("at", outcome([&] { span<int> s(p, 1); g_sink = s.at(1); }));
    r.emplace_back("at_negative", outcome([&] { span<int> s(p, 1); g_sink = s.at(-1); }));
    // in-range calls: all must return, with the right values
    bool valid = true;
    {
        span<int> s(g_arr, 5);
        valid = valid && outcome([&] { span<int> t(g_arr, 5); if (t.at(4) != 5 || t[0] != 1 || t.first(5).size() != 5 || t.last(0).size() != 0 ||
                                                                   t.subspan(5).size() != 0 || t.subspan(1, 4).data() != g_arr + 1 ||
                                                                   t.front() != 1 || t.back() != 5) _exit(7); }) == "unchecked";
        valid = valid && s.subspan(2, 2).size() == 2 && s.subspan(2, 2)[1] == 4 && s.size_bytes() == std::ptrdiff_t(5 * sizeof(int));
    }
    std::string out = "{\"entries\":{";
    for (std::size_t i = 0; i < r.size(); ++i) out += (i ? ",\"" : "\"") + r[i].first + "\":\"" + r[i].second + "\"";
    out += std::string("},\"valid\":") + (valid ? "true" : "false") + ",\"no_exceptions_macro\":";
#ifdef TCB_SPAN_NO_EXCEPTIONS
    out += "true";
#else
    out += "false";
#endif
    out += "}";
    std::puts(out.c_str());
    return 0;
}

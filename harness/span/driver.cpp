// C16 conformance harness: interprets a script of span operations (ndjson on stdin) on real
// xtl::span objects over exact-size memory (a guarded heap buffer, a C array, a std::array, a
// std::vector or a user container with data()/size()) and writes, after every call, the call's result
// and the projection of the memory and of every stacked view (extent, constness of the element type,
// data() - base, size(), size_bytes(), empty(), end() - begin(), elements by operator[], by forward and
// by reverse iteration).  It contains no oracle.
//
// The contract-checking mode is NOT chosen here: the check compiles this file with every macro set of the
// property's configuration axis (nothing, TCB_SPAN_NO_CONTRACT_CHECKING, TCB_SPAN_THROW_ON_CONTRACT_VIOLATION,
// TCB_SPAN_TERMINATE_ON_CONTRACT_VIOLATION, each with and without NDEBUG, C++14 and C++17) and the script's
// Reset event names the mode specs/SpanMode.tla expects for that set.  The driver only reports what happened:
// a value, an exception ("contract" for the header's logic_error, "out_of_range", "other") or - with
// --isolate, where every call runs in a child process - "terminated" when the child ended in std::terminate
// or abort.
//
//   -DSPAN_ELEM=0 int (default) | 1 signed char | 2 double | 3 a three-byte struct
//
// A script the driver cannot follow (a view that does not exist because an earlier call did not do what
// the script assumed) ends the run with a Desync line and status 3; a crash or a call that does not return
// (20 s of CPU time) ends it with a Crash line.  The check restarts the driver at the next Reset.
#include <xtl/xspan.hpp>
#include "vjson.hpp"
#include <array>
#include <iostream>
#include <limits>
#include <type_traits>
#include <vector>
#include <sys/time.h>
#include <sys/wait.h>
#include <fcntl.h>

#ifndef SPAN_ELEM
#define SPAN_ELEM 0
#endif

using xtl::span;
constexpr std::ptrdiff_t DYN = xtl::dynamic_extent;
constexpr int MAXE = 5;          // static extents 0..MAXE, static offsets 0..MAXE+1
constexpr size_t SMAX = std::numeric_limits<size_t>::max();

#if __cplusplus >= 201703L
constexpr bool CPP17 = true;
#else
constexpr bool CPP17 = false;
#endif

static bool g_child = false;     // inside an --isolate child: nothing may be written to the trace

[[noreturn]] static void bad_script(const char* what, const std::string& s)
{
    std::fprintf(stderr, "script: %s %s\n", what, s.c_str());
    if (!g_child)
    {
        std::fflush(stdout);
        std::string w = std::string(what) + " " + s;
        for (auto& ch : w) if (ch == '"' || ch == '\\') ch = '\'';
        std::string l = "\n{\"op\":\"Desync\",\"why\":\"" + w + "\"}\n";
        if (::write(1, l.c_str(), l.size()) < 0) {}
    }
    _exit(3);
}

// ---------------------------------------------------------------- element types
struct rgb { signed char r, g, b; };
inline bool operator==(rgb x, rgb y) { return x.r == y.r; }
inline bool operator!=(rgb x, rgb y) { return x.r != y.r; }
inline bool operator<(rgb x, rgb y) { return x.r < y.r; }
inline bool operator>(rgb x, rgb y) { return x.r > y.r; }

template <class T> struct codec
{
    static T to(long long v) { return T(v); }
    static long long from(T x) { return (long long)x; }
};
template <> struct codec<rgb>
{
    static rgb to(long long v) { return rgb{ (signed char)v, (signed char)(v / 2), 7 }; }
    // r when the three bytes belong together, something far away otherwise
    static long long from(rgb x) { return x.r + 1000LL * (x.g - x.r / 2) + 100000LL * (x.b - 7); }
};

#if SPAN_ELEM == 0
using T = int;
#elif SPAN_ELEM == 1
using T = signed char;
#elif SPAN_ELEM == 2
using T = double;
#elif SPAN_ELEM == 3
using T = rgb;
#else
#error "SPAN_ELEM must be 0..3"
#endif
using CT = const T;
static T tv(long long v) { return codec<T>::to(v); }
static long long fv(T x) { return codec<T>::from(x); }

// a user container: data() and size(), nothing else
struct box
{
    using value_type = T;
    T* p; size_t n;
    T* data() noexcept { return p; }
    const T* data() const noexcept { return p; }
    size_t size() const noexcept { return n; }
};

template <std::ptrdiff_t V> using ic = std::integral_constant<std::ptrdiff_t, V>;
template <class S> struct ext_of;
template <class U, std::ptrdiff_t E> struct ext_of<span<U, E>> { static constexpr std::ptrdiff_t value = E; };

// g++ (not clang++) rejects first<0>() / last<0>(): `return {data(), Count};` with Count == 0 is read as
// {pointer, null pointer constant} and is ambiguous between the two pointer constructors.  The
// generators do not ask a g++ build for them.
#if defined(__GNUC__) && !defined(__clang__)
constexpr bool STATIC_ZERO_COUNT = false;
#else
constexpr bool STATIC_ZERO_COUNT = true;
#endif

// run f(ic<v>) for v in Lo..5 (Lo = -1, 0 or 1); only those instantiations are compiled
template <int Lo, class F> struct static_switch
{
    template <std::ptrdiff_t V> static std::enable_if_t<(V >= Lo)> call(F& f) { f(ic<V>{}); }
    template <std::ptrdiff_t V> static std::enable_if_t<(V < Lo)> call(F&) { bad_script("static argument outside the instantiated range:", std::to_string(V)); }
};
template <int Lo, class F> static void with_static(long long v, F&& f)
{
    using SW = static_switch<Lo, std::remove_reference_t<F>>;
    switch (v)
    {
        case -1: SW::template call<-1>(f); return;
        case 0: SW::template call<0>(f); return;
        case 1: SW::template call<1>(f); return;
        case 2: SW::template call<2>(f); return;
        case 3: SW::template call<3>(f); return;
        case 4: SW::template call<4>(f); return;
        case 5: SW::template call<5>(f); return;
    }
    bad_script("static extent/count outside the instantiated range:", std::to_string(v));
}
template <class F> static void with_offset(long long v, F&& f)
{
    if (v == 6) { f(ic<6>{}); return; }
    with_static<0>(v, f);
}
// template counts: Lo..5, or 1000000 - d for PTRDIFF_MAX - d (d = 0, 1)
constexpr std::ptrdiff_t PMAX = std::numeric_limits<std::ptrdiff_t>::max();
template <int Lo, class F> static void with_count(long long v, F&& f)
{
    if (v == 1000000) { f(ic<PMAX>{}); return; }
    if (v == 999999) { f(ic<PMAX - 1>{}); return; }
    with_static<Lo>(v, f);
}

// f(sp) only for views of non-const elements (the call does not exist otherwise)
template <class S, class F> static std::enable_if_t<!std::is_const<typename S::element_type>::value> if_mutable(S sp, F&& f) { f(sp); }
template <class S, class F> static std::enable_if_t<std::is_const<typename S::element_type>::value> if_mutable(S, F&&) { bad_script("this call does not exist for a view of const elements", ""); }

// every logged number is an integer < 2^31: sizes beyond 10^9 (a view that escaped its parent) are
// logged as 1000000000 + min(SIZE_MAX - size, 999999)
static long long enc(size_t v)
{
    if (v <= 999999999u) return (long long)v;
    size_t d = SMAX - v;
    return 1000000000LL + (long long)(d < 999999u ? d : 999999u);
}
static long long encd(std::ptrdiff_t v)
{
    if (v >= -999999999 && v <= 999999999) return (long long)v;
    return v < 0 ? -1000000000LL : 1000000000LL;
}

struct view { int ext; int cst; T* ptr; size_t size; };

struct machine
{
    static constexpr int G = 2;
    static constexpr int GPAT = 0x5A;
    bool isolate = false;
    std::string extra;               // appended to the logged event, outside res and st

    // ---- parent memory: always an exact-size heap allocation, so that ASan sees every overrun
    std::string kind = "heap";
    size_t n = 0;
    T* heap = nullptr;                   // G guard cells | n cells | G guard cells
    void* carr = nullptr;                // T (*)[n]
    void* sarr = nullptr;                // std::array<T, n>*
    std::vector<T>* vec = nullptr;
    box* bx = nullptr;
    std::vector<view> views;

    template <class F> void with_carray(F&& f)
    {
        switch (n)
        {
            case 1: f(*static_cast<T (*)[1]>(carr)); return;
            case 2: f(*static_cast<T (*)[2]>(carr)); return;
            case 3: f(*static_cast<T (*)[3]>(carr)); return;
            case 4: f(*static_cast<T (*)[4]>(carr)); return;
            case 5: f(*static_cast<T (*)[5]>(carr)); return;
        }
        bad_script("C array size outside 1..5:", std::to_string(n));
    }
    template <class F> void with_stdarray(F&& f)
    {
        switch (n)
        {
            case 0: f(*static_cast<std::array<T, 0>*>(sarr)); return;
            case 1: f(*static_cast<std::array<T, 1>*>(sarr)); return;
            case 2: f(*static_cast<std::array<T, 2>*>(sarr)); return;
            case 3: f(*static_cast<std::array<T, 3>*>(sarr)); return;
            case 4: f(*static_cast<std::array<T, 4>*>(sarr)); return;
            case 5: f(*static_cast<std::array<T, 5>*>(sarr)); return;
        }
        bad_script("std::array size outside 0..5:", std::to_string(n));
    }
    // f(object) for the memory object of the current kind (not for the plain heap buffer)
    template <class F> void with_mem(F&& f)
    {
        if (kind == "carray") with_carray(f);
        else if (kind == "stdarray") with_stdarray(f);
        else if (kind == "vector") f(*vec);
        else if (kind == "box") f(*bx);
        else bad_script("this call needs carray, stdarray, vector or box memory, not", kind);
    }
    void release()
    {
        views.clear();
        delete[] heap; heap = nullptr;
        if (carr) { with_carray([&](auto& a) { delete[] &a; }); carr = nullptr; }
        if (sarr) { with_stdarray([&](auto& a) { delete &a; }); sarr = nullptr; }
        delete vec; vec = nullptr;
        if (bx) { delete[] bx->p; delete bx; bx = nullptr; }
    }
    T* base()
    {
        T* b = nullptr;
        if (kind == "heap") b = heap + G;
        else if (kind == "carray") with_carray([&](auto& a) { b = a; });
        else if (kind == "stdarray") with_stdarray([&](auto& a) { b = a.data(); });
        else if (kind == "vector") b = vec->data();
        else b = bx->p;
        return b;
    }
    void make_mem(const std::string& k, const std::vector<long long>& cells)
    {
        release();
        kind = k; n = cells.size();
        if (k == "heap")
        {
            heap = new T[n + 2 * G];
            for (int i = 0; i < G; ++i) { heap[i] = tv(GPAT); heap[G + n + i] = tv(GPAT); }
        }
        else if (k == "carray")
        {
            switch (n)
            {
                case 1: carr = new T[1][1]; break;
                case 2: carr = new T[1][2]; break;
                case 3: carr = new T[1][3]; break;
                case 4: carr = new T[1][4]; break;
                case 5: carr = new T[1][5]; break;
                default: bad_script("C array size outside 1..5:", std::to_string(n));
            }
        }
        else if (k == "stdarray")
        {
            switch (n)
            {
                case 0: sarr = new std::array<T, 0>; break;
                case 1: sarr = new std::array<T, 1>; break;
                case 2: sarr = new std::array<T, 2>; break;
                case 3: sarr = new std::array<T, 3>; break;
                case 4: sarr = new std::array<T, 4>; break;
                case 5: sarr = new std::array<T, 5>; break;
                default: bad_script("std::array size outside 0..5:", std::to_string(n));
            }
        }
        else if (k == "vector") { vec = new std::vector<T>(); vec->reserve(n); vec->resize(n); vec->shrink_to_fit(); }
        else if (k == "box") { bx = new box{ new T[n], n }; }
        else bad_script("bad memory kind", k);
        T* b = base();
        for (size_t i = 0; i < n; ++i) b[i] = tv(cells[i]);
    }

    // ---- views
    template <class F> void with_span(const view& v, F&& f)
    {
        with_static<-1>(v.ext, [&](auto e) {
            constexpr std::ptrdiff_t E = decltype(e)::value;
            if (v.cst) f(span<CT, E>(v.ptr, v.size)); else f(span<T, E>(v.ptr, v.size));
        });
    }
    template <class S> static view as_view(const S& sp)
    {
        constexpr std::ptrdiff_t E = ext_of<S>::value;
        // a static extent beyond the instantiated range (a view the contract check should never have let through) is logged as 999
        return view{ (E > MAXE ? 999 : int(E)), int(std::is_const<typename S::element_type>::value), const_cast<T*>(sp.data()), sp.size() };
    }
    // a call that yields a view whose static extent is beyond the instantiated range (a template count of PTRDIFF_MAX that
    // the contract check let through): the view cannot be kept, the call's outcome is reported as such
    struct huge_view { size_t size; };
    template <class S> void push(size_t s, const S& sp)
    {
        if (ext_of<S>::value > MAXE) throw huge_view{ sp.size() };
        view nv = as_view(sp);
        views.resize(s);
        views.push_back(nv);
    }
    view& src(const vj::value& a)
    {
        size_t s = size_t(a.num("s"));
        if (s < 1 || s > views.size()) bad_script("no such view:", std::to_string(s));
        return views[s - 1];
    }
    static size_t arg(const vj::value& x)
    {
        const std::string& t = x.str("t");
        if (t == "s") return size_t(x.num("v"));
        if (t == "h") return SMAX - size_t(x.num("v"));
        bad_script("bad size argument kind", t);
    }
    static bool flag(const vj::value& a, const char* k)
    {
        const vj::value& v = a.at(k);
        return v.kind == vj::value::BOOL ? v.b : v.i != 0;
    }
    static std::string one(T x) { return vj::ints(std::vector<long long>{ fv(x) }); }

    template <std::ptrdiff_t E, std::ptrdiff_t O, std::ptrdiff_t C>
    struct wf { static constexpr bool value = (C != DYN || E == DYN || E - O >= -1); };

    template <class S, std::ptrdiff_t O, std::ptrdiff_t C, bool WellFormed = wf<ext_of<S>::value, O, C>::value>
    struct subs
    {
        static void go(machine& m, size_t s, S sp) { m.push(s, sp.template subspan<O, C>()); }
    };
    template <class S, std::ptrdiff_t O, std::ptrdiff_t C>
    struct subs<S, O, C, false>
    {
        static void go(machine&, size_t, S) { bad_script("subspan<O, C>() has an ill-formed return type for this extent", ""); }
    };
    // non-member subspan<O, C>(t): goes through make_span(t), whose extent is N for arrays and dynamic for containers
    template <class M, std::ptrdiff_t O, std::ptrdiff_t C,
              bool WellFormed = wf<ext_of<decltype(tcb::make_span(std::declval<M&>()))>::value, O, C>::value>
    struct nsubs
    {
        static void go(machine& m, M& t) { m.push(0, tcb::subspan<O, C>(t)); }
    };
    template <class M, std::ptrdiff_t O, std::ptrdiff_t C>
    struct nsubs<M, O, C, false>
    {
        static void go(machine&, M&) { bad_script("subspan<O, C>(t) has an ill-formed return type for this array", ""); }
    };

    // span<To...>(From): exists only for the same or a dynamic extent and never drops const
    template <class To, class From, bool OK = std::is_convertible<From, To>::value>
    struct conv { static void go(machine& m, size_t s, From sp) { To c(sp); m.push(s, c); } };
    template <class To, class From>
    struct conv<To, From, false> { static void go(machine&, size_t, From) { bad_script("this span conversion does not exist", ""); } };

#if __cplusplus >= 201703L
    template <class S> std::string bind_read(S sp, ic<1>) { auto [a] = sp; return vj::ints(std::vector<long long>{ fv(a) }); }
    template <class S> std::string bind_read(S sp, ic<2>) { auto [a, b] = sp; return vj::ints(std::vector<long long>{ fv(a), fv(b) }); }
    template <class S> std::string bind_read(S sp, ic<3>) { auto [a, b, c] = sp; return vj::ints(std::vector<long long>{ fv(a), fv(b), fv(c) }); }
    template <class S> void bind_write(S sp, ic<1>, size_t, T x) { auto [a] = sp; a = x; }
    template <class S> void bind_write(S sp, ic<2>, size_t i, T x) { auto [a, b] = sp; (i == 0 ? a : b) = x; }
    template <class S> void bind_write(S sp, ic<3>, size_t i, T x) { auto [a, b, c] = sp; (i == 0 ? a : i == 1 ? b : c) = x; }
#else
    template <class S, class I> std::string bind_read(S, I) { bad_script("structured bindings need a C++17 build", ""); }
    template <class S, class I> void bind_write(S, I, size_t, T) { bad_script("structured bindings need a C++17 build", ""); }
#endif
    template <class S, std::ptrdiff_t E> std::string bind_read(S, ic<E>) { bad_script("structured bindings are instantiated for extents 1..3 only", ""); }
    template <class S, std::ptrdiff_t E> void bind_write(S, ic<E>, size_t, T) { bad_script("structured bindings are instantiated for extents 1..3 only", ""); }

    std::string step(const vj::value& e)
    {
        const std::string& op = e.str("op");
        const vj::value& a = e.at("a");
        std::string val = "[]";
        const char* exc = "none";
        try
        {
            if (op == "FromPtrCount" || op == "FromPtrPair")
            {
                size_t po = size_t(a.num("po")), cnt = size_t(a.num("cnt"));
                bool c = flag(a, "c");
                if (po + cnt > n) bad_script("pointer range outside the memory", "");
                T* p = base() + po;
                const T* cp = p;
                with_static<-1>(a.num("ext"), [&](auto x) {
                    constexpr std::ptrdiff_t E = decltype(x)::value;
                    if (op == "FromPtrCount") { if (c) { span<CT, E> sp(cp, cnt); this->push(0, sp); } else { span<T, E> sp(p, cnt); this->push(0, sp); } }
                    else { if (c) { span<CT, E> sp(cp, cp + cnt); this->push(0, sp); } else { span<T, E> sp(p, p + cnt); this->push(0, sp); } }
                });
            }
            else if (op == "FromArray")
            {
                if (kind != "carray") bad_script("FromArray needs carray memory", "");
                long long ext = a.num("ext");
                bool c = flag(a, "c");
                with_carray([&](auto& arr) {
                    constexpr std::ptrdiff_t N = std::ptrdiff_t(std::extent<std::remove_reference_t<decltype(arr)>>::value);
                    const auto& carr_ = arr;
                    if (ext == -1) { if (c) { span<CT> sp(carr_); this->push(0, sp); } else { span<T> sp(arr); this->push(0, sp); } }
                    else if (ext == N) { if (c) { span<CT, N> sp(carr_); this->push(0, sp); } else { span<T, N> sp(arr); this->push(0, sp); } }
                    else bad_script("span<T, E>(T (&)[N]) does not exist for E != N", "");
                });
            }
            else if (op == "FromStdArray")
            {
                if (kind != "stdarray") bad_script("FromStdArray needs stdarray memory", "");
                long long ext = a.num("ext");
                bool c = flag(a, "c");
                with_stdarray([&](auto& arr) {
                    constexpr std::ptrdiff_t N = std::ptrdiff_t(std::tuple_size<std::remove_reference_t<decltype(arr)>>::value);
                    const auto& carr_ = arr;
                    if (ext == -1) { if (c) { span<CT> sp(carr_); this->push(0, sp); } else { span<T> sp(arr); this->push(0, sp); } }
                    else if (ext == N) { if (c) { span<CT, N> sp(carr_); this->push(0, sp); } else { span<T, N> sp(arr); this->push(0, sp); } }
                    else bad_script("span<T, E>(std::array<T, N>&) does not exist for E != N", "");
                });
            }
            else if (op == "FromContainer")
            {
                bool c = flag(a, "c");
                auto go = [&](auto& cont) {
                    const auto& ccont = cont;
                    with_static<-1>(a.num("ext"), [&](auto x) {
                        constexpr std::ptrdiff_t E = decltype(x)::value;
                        if (c) { span<CT, E> sp(ccont); this->push(0, sp); } else { span<T, E> sp(cont); this->push(0, sp); }
                    });
                };
                if (kind == "vector") go(*vec);
                else if (kind == "box") go(*bx);
                else bad_script("FromContainer needs vector or box memory", "");
            }
            else if (op == "MakeSpan")
            {
                bool c = flag(a, "c");
                with_mem([&](auto& m) { const auto& cm = m; if (c) { auto sp = tcb::make_span(cm); this->push(0, sp); } else { auto sp = tcb::make_span(m); this->push(0, sp); } });
            }
            else if (op == "Deduce")
            {
#ifdef TCB_SPAN_HAVE_DEDUCTION_GUIDES
                bool c = flag(a, "c");
                with_mem([&](auto& m) { const auto& cm = m; if (c) { span sp(cm); this->push(0, sp); } else { span sp(m); this->push(0, sp); } });
#else
                bad_script("class template argument deduction needs a C++17 build", "");
#endif
            }
            else if (op == "Default")
            {
                bool c = flag(a, "c");
                auto rep = [&](auto sp) { val = vj::ints(std::vector<long long>{ sp.data() == nullptr, enc(sp.size()) }); this->push(0, sp); };
                if (a.num("ext") == -1) { if (c) rep(span<CT>()); else rep(span<T>()); }
                else if (a.num("ext") == 0) { if (c) rep(span<CT, 0>()); else rep(span<T, 0>()); }
                else bad_script("no default constructor for this extent", "");
            }
            else if (op == "Copy")
            {
                size_t s = size_t(a.num("s"));
                const std::string& how = a.str("how");
                with_span(src(a), [&](auto sp) {
                    using S = decltype(sp);
                    if (how == "ctor") { S c(sp); this->push(s, c); }
                    else if (how == "assign") { S c(this->base(), sp.size()); c = sp; this->push(s, c); }     // a different window of the same type, then assigned
                    else if (how == "make_span") { auto c = tcb::make_span(sp); this->push(s, c); }
                    else bad_script("bad copy kind", how);
                });
            }
            else if (op == "Convert")
            {
                size_t s = size_t(a.num("s"));
                long long ext = a.num("ext");
                bool c = flag(a, "c");
                with_span(src(a), [&](auto sp) {
                    using S = decltype(sp);
                    constexpr std::ptrdiff_t E = ext_of<S>::value;
                    if (ext == -1) { if (c) conv<span<CT>, S>::go(*this, s, sp); else conv<span<T>, S>::go(*this, s, sp); }
                    else if (ext == E) { if (c) conv<span<CT, E>, S>::go(*this, s, sp); else conv<span<T, E>, S>::go(*this, s, sp); }
                    else bad_script("span<U, X>(span<T, E>) does not exist for X not in {E, dynamic}", "");
                });
            }
            else if (op == "First") { size_t s = size_t(a.num("s")); size_t c = arg(a.at("c")); with_span(src(a), [&](auto sp) { this->push(s, sp.first(c)); }); }
            else if (op == "Last") { size_t s = size_t(a.num("s")); size_t c = arg(a.at("c")); with_span(src(a), [&](auto sp) { this->push(s, sp.last(c)); }); }
            else if (op == "Subspan") { size_t s = size_t(a.num("s")); size_t o = arg(a.at("o")), c = arg(a.at("c")); with_span(src(a), [&](auto sp) { this->push(s, sp.subspan(o, c)); }); }
            else if (op == "Subspan1") { size_t s = size_t(a.num("s")); size_t o = arg(a.at("o")); with_span(src(a), [&](auto sp) { this->push(s, sp.subspan(o)); }); }
            else if (op == "Nm")
            {
                // non-member first/last/subspan on the memory object itself; arguments are std::ptrdiff_t
                const std::string& fn = a.str("fn");
                std::ptrdiff_t o = std::ptrdiff_t(arg(a.at("o"))), c = std::ptrdiff_t(arg(a.at("c")));
                with_mem([&](auto& t) {
                    if (fn == "first") this->push(0, tcb::first(t, c));
                    else if (fn == "last") this->push(0, tcb::last(t, c));
                    else if (fn == "subspan") this->push(0, tcb::subspan(t, o, c));
                    else if (fn == "subspan1") this->push(0, tcb::subspan(t, o));
                    else bad_script("bad non-member function", fn);
                });
            }
            else if (op == "NmS")
            {
                // the template forms first<C>(t), last<C>(t), subspan<O, C>(t)
                const std::string& fn = a.str("fn");
                with_mem([&](auto& t) {
                    using M = std::remove_reference_t<decltype(t)>;
                    if (fn == "first") with_static<(STATIC_ZERO_COUNT ? 0 : 1)>(a.num("C"), [&](auto c) { constexpr std::ptrdiff_t CC = decltype(c)::value; this->push(0, tcb::first<CC>(t)); });
                    else if (fn == "last") with_static<(STATIC_ZERO_COUNT ? 0 : 1)>(a.num("C"), [&](auto c) { constexpr std::ptrdiff_t CC = decltype(c)::value; this->push(0, tcb::last<CC>(t)); });
                    else if (fn == "subspan")
                        with_offset(a.num("O"), [&](auto o) {
                            constexpr std::ptrdiff_t OO = decltype(o)::value;
                            with_static<-1>(a.num("C"), [&](auto c) { constexpr std::ptrdiff_t CC = decltype(c)::value; nsubs<M, OO, CC>::go(*this, t); });
                        });
                    else bad_script("bad non-member template function", fn);
                });
            }
            else if (op == "FirstS")
            {
                size_t s = size_t(a.num("s"));
                with_span(src(a), [&](auto sp) { with_count<(STATIC_ZERO_COUNT ? 0 : 1)>(a.num("C"), [&](auto c) { constexpr std::ptrdiff_t CC = decltype(c)::value; this->push(s, sp.template first<CC>()); }); });
            }
            else if (op == "LastS")
            {
                size_t s = size_t(a.num("s"));
                with_span(src(a), [&](auto sp) { with_count<(STATIC_ZERO_COUNT ? 0 : 1)>(a.num("C"), [&](auto c) { constexpr std::ptrdiff_t CC = decltype(c)::value; this->push(s, sp.template last<CC>()); }); });
            }
            else if (op == "SubspanS")
            {
                size_t s = size_t(a.num("s"));
                with_span(src(a), [&](auto sp) {
                    using S = decltype(sp);
                    with_offset(a.num("O"), [&](auto o) {
                        constexpr std::ptrdiff_t OO = decltype(o)::value;
                        with_count<-1>(a.num("C"), [&](auto c) {
                            constexpr std::ptrdiff_t CC = decltype(c)::value;
                            subs<S, OO, CC>::go(*this, s, sp);
                        });
                    });
                });
            }
            else if (op == "Index")
            {
                size_t i = arg(a.at("i"));
                const std::string& how = a.str("how");
                if (how == "get")
                    with_span(src(a), [&](auto sp) { with_static<0>((long long)i, [&](auto nn) { constexpr std::ptrdiff_t NN = decltype(nn)::value; T x = tcb::get<NN>(sp); val = one(x); }); });
                else
                {
                    bool call = how == "call";
                    with_span(src(a), [&](auto sp) { T x = call ? sp(i) : sp[i]; val = one(x); });
                }
            }
            else if (op == "At") { size_t i = arg(a.at("i")); with_span(src(a), [&](auto sp) { T x = sp.at(i); val = one(x); }); }
            else if (op == "Front") with_span(src(a), [&](auto sp) { T x = sp.front(); val = one(x); });
            else if (op == "Back") with_span(src(a), [&](auto sp) { T x = sp.back(); val = one(x); });
            else if (op == "Bind") with_span(src(a), [&](auto sp) { val = this->bind_read(sp, ic<ext_of<decltype(sp)>::value>{}); });
            else if (op == "Write")
            {
                const std::string& path = a.str("path");
                size_t i = size_t(a.num("i"));
                T x = tv(a.num("x"));
                with_span(src(a), [&](auto csp) {
                    if_mutable(csp, [&](auto sp) {
                        if (path == "sub") sp[i] = x;
                        else if (path == "call") sp(i) = x;
                        else if (path == "at") sp.at(i) = x;
                        else if (path == "front") sp.front() = x;
                        else if (path == "back") sp.back() = x;
                        else if (path == "data") sp.data()[i] = x;
                        else if (path == "iter") *(sp.begin() + std::ptrdiff_t(i)) = x;
                        else if (path == "riter") *(sp.rbegin() + std::ptrdiff_t(sp.size() - 1 - i)) = x;
                        else if (path == "get") with_static<0>((long long)i, [&](auto nn) { constexpr std::ptrdiff_t NN = decltype(nn)::value; tcb::get<NN>(sp) = x; });
                        else if (path == "wbytes")
                        {
                            auto b = tcb::as_writable_bytes(sp);
                            const tcb::byte* from = reinterpret_cast<const tcb::byte*>(&x);
                            for (size_t k = 0; k < sizeof(T); ++k) b[i * sizeof(T) + k] = from[k];
                        }
                        else if (path == "sb") this->bind_write(sp, ic<ext_of<decltype(sp)>::value>{}, i, x);
                        else bad_script("bad write path", path);
                    });
                });
            }
            else if (op == "Cmp")
            {
                size_t t = size_t(a.num("t"));
                if (t < 1 || t > views.size()) bad_script("no such view:", std::to_string(t));
                view vt = views[t - 1];
                with_span(src(a), [&](auto x) {
                    this->with_span(vt, [&](auto y) {
                        val = vj::ints(std::vector<long long>{ x == y, x != y, x < y, x <= y, x > y, x >= y });
                    });
                });
            }
            else if (op == "AsBytes")
            {
                bool w = a.num("w") != 0;
                with_span(src(a), [&](auto sp) {
                    auto rep = [&](auto b) {
                        constexpr std::ptrdiff_t EB = ext_of<decltype(b)>::value;
                        const unsigned char* p = reinterpret_cast<const unsigned char*>(b.data());
                        val = vj::ints(std::vector<long long>{ (long long)EB, p ? encd(p - reinterpret_cast<const unsigned char*>(this->base())) : 0, enc(b.size()) });
                    };
                    if (w) if_mutable(sp, [&](auto m) { rep(tcb::as_writable_bytes(m)); }); else rep(tcb::as_bytes(sp));
                });
            }
            else bad_script("unknown op", op);
        }
        catch (const huge_view&) { exc = "view_of_huge_extent"; }
        catch (const std::out_of_range&) { exc = "out_of_range"; }
        catch (const std::logic_error&) { exc = "contract"; }      // tcb::contract_violation_error exists in throwing builds only
        catch (const std::exception&) { exc = "other"; }
        return std::string("{\"exc\":\"") + exc + "\",\"val\":" + (std::strcmp(exc, "none") ? "[]" : val) + "}";
    }

    // ---- one call in a child process: the child reports the result, the views and the cells; a child that ends in
    // std::terminate or abort is the call's result "terminated" and leaves everything as it was
    static void child_terminate() { _exit(42); }
    static void child_abort(int) { _exit(43); }
    static bool read_all(int fd, void* p, size_t len)
    {
        char* c = static_cast<char*>(p);
        while (len) { ssize_t r = ::read(fd, c, len); if (r <= 0) return false; c += r; len -= size_t(r); }
        return true;
    }
    static void write_all(int fd, const void* p, size_t len)
    {
        const char* c = static_cast<const char*>(p);
        while (len) { ssize_t r = ::write(fd, c, len); if (r <= 0) _exit(44); c += r; len -= size_t(r); }
    }
    [[noreturn]] static void die(const std::string& why)
    {
        std::fflush(stdout);
        vj::crash_line(why.c_str());
        _exit(0);
    }
    std::string step_isolated(const vj::value& e)
    {
        std::fflush(stdout);
        int fd[2];
        if (::pipe(fd) != 0) die("pipe");
        pid_t pid = ::fork();
        if (pid < 0) die("fork");
        if (pid == 0)
        {
            g_child = true;
            ::close(fd[0]);
            int nul = ::open("/dev/null", O_WRONLY);
            if (nul >= 0) ::dup2(nul, 1);
            std::set_terminate(child_terminate);
            std::signal(SIGABRT, child_abort);
            arm_watchdog();
            std::string res = step(e);
            size_t len = res.size(), nv = views.size();
            write_all(fd[1], &len, sizeof len); write_all(fd[1], res.data(), len);
            write_all(fd[1], &nv, sizeof nv); if (nv) write_all(fd[1], views.data(), nv * sizeof(view));
            if (n) write_all(fd[1], base(), n * sizeof(T));
            _exit(0);
        }
        ::close(fd[1]);
        std::string res;
        std::vector<view> nviews;
        std::vector<T> cells(n);
        size_t len = 0, nv = 0;
        bool ok = read_all(fd[0], &len, sizeof len) && len < 100000;
        if (ok) { res.resize(len); ok = read_all(fd[0], &res[0], len); }
        ok = ok && read_all(fd[0], &nv, sizeof nv) && nv < 1000;
        if (ok && nv) { nviews.resize(nv); ok = read_all(fd[0], nviews.data(), nv * sizeof(view)); }
        if (ok && n) ok = read_all(fd[0], cells.data(), n * sizeof(T));
        ::close(fd[0]);
        int st = 0;
        ::waitpid(pid, &st, 0);
        int code = WIFEXITED(st) ? WEXITSTATUS(st) : -1;
        if (ok && code == 0)
        {
            views = nviews;
            T* b = base();
            for (size_t i = 0; i < n; ++i) b[i] = cells[i];
            return res;
        }
        // how the child ended is logged next to the result (not compared: the property says "rejected")
        if (code == 42) { extra = ",\"by\":\"terminate\""; return "{\"exc\":\"terminated\",\"val\":[]}"; }
        if (code == 43) { extra = ",\"by\":\"abort\""; return "{\"exc\":\"terminated\",\"val\":[]}"; }
        if (code == 3) bad_script("(in the child process, see stderr)", "");
        die(WIFSIGNALED(st) ? "child killed by signal " + std::to_string(WTERMSIG(st)) : "child ended with status " + std::to_string(code));
    }

    static void on_watchdog(int) { std::fflush(stdout); if (!g_child) vj::crash_line("hang: 20 s of CPU time in one call"); _exit(g_child ? 45 : 0); }
    static void arm_watchdog()
    {
        std::signal(SIGVTALRM, on_watchdog);
        itimerval tv{};
        tv.it_value.tv_sec = 20;
        ::setitimer(ITIMER_VIRTUAL, &tv, nullptr);
    }

    std::string proj_view(const view& v)
    {
        vj::out o;
        T* b = base();
        bool null = v.ptr == nullptr;
        // is the window inside the parent?  (decides only whether the harness may read the elements)
        bool sane = null ? v.size == 0 : (v.ptr >= b && v.ptr <= b + n && v.size <= size_t((b + n) - v.ptr));
        with_span(v, [&](auto sp) {
            using S = decltype(sp);
            o.kv("ext", (long long)ext_of<S>::value);
            o.kb("c", std::is_const<typename S::element_type>::value);
            o.kv("off", null ? 0 : encd(sp.data() - b));
            o.kv("size", enc(sp.size()));
            o.kv("bytes", enc(sp.size_bytes()));
            o.kb("empty", sp.empty());
            o.kv("dist", null ? 0 : encd(sp.end() - sp.begin()));
            std::vector<long long> el, fwd, rev;
            if (sane)
            {
                for (size_t i = 0; i < sp.size(); ++i) el.push_back(fv(sp[i]));
                for (auto it = sp.cbegin(); it != sp.cend(); ++it) fwd.push_back(fv(*it));
                for (auto it = sp.crbegin(); it != sp.crend(); ++it) rev.push_back(fv(*it));
            }
            o.kints("elems", el).kints("fwd", fwd).kints("rev", rev);
        });
        return o.obj();
    }

    int run()
    {
        std::string line;
        make_mem("heap", {});
        while (std::getline(std::cin, line))
        {
            if (line.empty()) continue;
            vj::value e = vj::parse(line);
            const std::string& op = e.str("op");
            std::string res;
            extra.clear();
            arm_watchdog();
            if (op == "Reset") { make_mem("heap", {}); res = "{\"exc\":\"none\",\"val\":[]}"; }
            else if (op == "Mem") { make_mem(e.at("a").str("kind"), e.at("a").ints("cells")); res = "{\"exc\":\"none\",\"val\":[]}"; }
            else res = isolate ? step_isolated(e) : step(e);
            T* b = base();
            std::vector<long long> mem;
            for (size_t i = 0; i < n; ++i) mem.push_back(fv(b[i]));
            bool guard = true;
            if (kind == "heap") for (int i = 0; i < G; ++i) guard = guard && fv(heap[i]) == GPAT && fv(heap[G + n + i]) == GPAT;
            std::string vs = "[";
            for (size_t i = 0; i < views.size(); ++i) { if (i) vs += ','; vs += proj_view(views[i]); }
            vs += "]";
            std::string head = line.substr(0, line.rfind('}'));
            std::string st = "{\"mem\":" + vj::ints(mem) + ",\"guard\":" + (guard ? "true" : "false") + ",\"views\":" + vs + "}";
            std::fputs((head + extra + ",\"res\":" + res + ",\"st\":" + st + "}\n").c_str(), stdout);
        }
        release();
        return 0;
    }
};

static int caps()
{
    vj::out o;
    o.kb("cpp17", CPP17);
    o.kb("static_zero", STATIC_ZERO_COUNT);
    o.kv("esz", (long long)sizeof(T));
#ifdef TCB_SPAN_HAVE_DEDUCTION_GUIDES
    o.kb("ctad", true);
#else
    o.kb("ctad", false);
#endif
    // not in P0122R7 (its std::array constructors name array<value_type, N>); recorded, never required
    o.kb("from_array_of_const", std::is_constructible<span<CT>, std::array<CT, 3>&>::value);
    std::puts(o.obj().c_str());
    return 0;
}

int main(int argc, char** argv)
{
    machine m;
    for (int i = 1; i < argc; ++i)
    {
        if (!std::strcmp(argv[i], "--caps")) return caps();
        if (!std::strcmp(argv[i], "--isolate")) m.isolate = true;
    }
    vj::install_crash_handlers();
    return m.run();
}

// C16 conformance harness: interprets a script of span operations (ndjson on stdin) on real
// xtl::span objects over exact-size heap memory (a guarded int buffer, a C array, a std::array or a
// std::vector) and writes, after every call, the call's result and the projection of the memory and
// of every stacked view (extent, data() - base, size(), size_bytes(), empty(), end() - begin(),
// elements by operator[], by forward and by reverse iteration).  It contains no oracle.
//
// Built twice by the check: -DTCB_SPAN_NO_CONTRACT_CHECKING ("unchecked") and
// -DTCB_SPAN_THROW_ON_CONTRACT_VIOLATION ("throwing").  xspan.hpp passes these macros through
// unchanged to the bundled tcb span (default: terminate unless NDEBUG).
#include <xtl/xspan.hpp>
#include "vjson.hpp"
#include <array>
#include <iostream>
#include <limits>
#include <type_traits>
#include <vector>

#if defined(TCB_SPAN_THROW_ON_CONTRACT_VIOLATION)
static const char* const BUILD_MODE = "throwing";
#elif defined(TCB_SPAN_NO_CONTRACT_CHECKING)
static const char* const BUILD_MODE = "unchecked";
#else
#error "build with -DTCB_SPAN_NO_CONTRACT_CHECKING or -DTCB_SPAN_THROW_ON_CONTRACT_VIOLATION"
#endif

using xtl::span;
constexpr std::ptrdiff_t DYN = xtl::dynamic_extent;
constexpr int MAXE = 5;          // static extents 0..MAXE, static offsets 0..MAXE+1
constexpr size_t SMAX = std::numeric_limits<size_t>::max();

[[noreturn]] static void bad_script(const char* what, const std::string& s)
{
    std::fprintf(stderr, "script: %s %s\n", what, s.c_str());
    std::exit(3);
}

template <std::ptrdiff_t V> using ic = std::integral_constant<std::ptrdiff_t, V>;
template <class S> struct ext_of;
template <class T, std::ptrdiff_t E> struct ext_of<span<T, E>> { static constexpr std::ptrdiff_t value = E; };

// g++ (not clang++) rejects first<0>() / last<0>(): `return {data(), Count};` with Count == 0 is read as
// {pointer, null pointer constant} and is ambiguous between the two pointer constructors.  The
// generators do not ask a g++ build for them.
#if defined(__GNUC__) && !defined(__clang__)
constexpr bool STATIC_ZERO_COUNT = false;
#else
constexpr bool STATIC_ZERO_COUNT = true;
#endif

// run f(ic<v>) for v in Lo..5 (Lo = -1, 0 or 1); only those instantiations are compiled
template <int Lo, class F> struct static_switch
{
    template <std::ptrdiff_t V> static std::enable_if_t<(V >= Lo)> call(F& f) { f(ic<V>{}); }
    template <std::ptrdiff_t V> static std::enable_if_t<(V < Lo)> call(F&) { bad_script("static argument outside the instantiated range:", std::to_string(V)); }
};
template <int Lo, class F> static void with_static(long long v, F&& f)
{
    using SW = static_switch<Lo, std::remove_reference_t<F>>;
    switch (v)
    {
        case -1: SW::template call<-1>(f); return;
        case 0: SW::template call<0>(f); return;
        case 1: SW::template call<1>(f); return;
        case 2: SW::template call<2>(f); return;
        case 3: SW::template call<3>(f); return;
        case 4: SW::template call<4>(f); return;
        case 5: SW::template call<5>(f); return;
    }
    bad_script("static extent/count outside the instantiated range:", std::to_string(v));
}
template <class F> static void with_offset(long long v, F&& f)
{
    if (v == 6) { f(ic<6>{}); return; }
    with_static<0>(v, f);
}

// every logged number is an integer < 2^31: sizes beyond 10^9 (a view that escaped its parent) are
// logged as 1000000000 + min(SIZE_MAX - size, 999999)
static long long enc(size_t v)
{
    if (v <= 999999999u) return (long long)v;
    size_t d = SMAX - v;
    return 1000000000LL + (long long)(d < 999999u ? d : 999999u);
}
static long long encd(std::ptrdiff_t v)
{
    if (v >= -999999999 && v <= 999999999) return (long long)v;
    return v < 0 ? -1000000000LL : 1000000000LL;
}

struct view { int ext; int* ptr; size_t size; };

struct machine
{
    static constexpr int G = 2;
    static constexpr int GPAT = 0x5A5A5A5A;

    // ---- parent memory: always an exact-size heap allocation, so that ASan sees every overrun
    std::string kind = "heap";
    size_t n = 0;
    int* heap = nullptr;                 // G guard cells | n cells | G guard cells
    void* carr = nullptr;                // int (*)[n]
    void* sarr = nullptr;                // std::array<int, n>*
    std::vector<int>* vec = nullptr;
    std::vector<view> views;

    template <class F> void with_carray(F&& f)
    {
        switch (n)
        {
            case 1: f(*static_cast<int (*)[1]>(carr)); return;
            case 2: f(*static_cast<int (*)[2]>(carr)); return;
            case 3: f(*static_cast<int (*)[3]>(carr)); return;
            case 4: f(*static_cast<int (*)[4]>(carr)); return;
            case 5: f(*static_cast<int (*)[5]>(carr)); return;
        }
        bad_script("C array size outside 1..5:", std::to_string(n));
    }
    template <class F> void with_stdarray(F&& f)
    {
        switch (n)
        {
            case 0: f(*static_cast<std::array<int, 0>*>(sarr)); return;
            case 1: f(*static_cast<std::array<int, 1>*>(sarr)); return;
            case 2: f(*static_cast<std::array<int, 2>*>(sarr)); return;
            case 3: f(*static_cast<std::array<int, 3>*>(sarr)); return;
            case 4: f(*static_cast<std::array<int, 4>*>(sarr)); return;
            case 5: f(*static_cast<std::array<int, 5>*>(sarr)); return;
        }
        bad_script("std::array size outside 0..5:", std::to_string(n));
    }
    void release()
    {
        views.clear();
        delete[] heap; heap = nullptr;
        if (carr) { with_carray([&](auto& a) { delete[] &a; }); carr = nullptr; }
        if (sarr) { with_stdarray([&](auto& a) { delete &a; }); sarr = nullptr; }
        delete vec; vec = nullptr;
    }
    int* base()
    {
        int* b = nullptr;
        if (kind == "heap") b = heap + G;
        else if (kind == "carray") with_carray([&](auto& a) { b = a; });
        else if (kind == "stdarray") with_stdarray([&](auto& a) { b = a.data(); });
        else b = vec->data();
        return b;
    }
    void make_mem(const std::string& k, const std::vector<long long>& cells)
    {
        release();
        kind = k; n = cells.size();
        if (k == "heap")
        {
            heap = new int[n + 2 * G];
            for (int i = 0; i < G; ++i) { heap[i] = GPAT; heap[G + n + i] = GPAT; }
        }
        else if (k == "carray")
        {
            switch (n)
            {
                case 1: carr = new int[1][1]; break;
                case 2: carr = new int[1][2]; break;
                case 3: carr = new int[1][3]; break;
                case 4: carr = new int[1][4]; break;
                case 5: carr = new int[1][5]; break;
                default: bad_script("C array size outside 1..5:", std::to_string(n));
            }
        }
        else if (k == "stdarray")
        {
            switch (n)
            {
                case 0: sarr = new std::array<int, 0>; break;
                case 1: sarr = new std::array<int, 1>; break;
                case 2: sarr = new std::array<int, 2>; break;
                case 3: sarr = new std::array<int, 3>; break;
                case 4: sarr = new std::array<int, 4>; break;
                case 5: sarr = new std::array<int, 5>; break;
                default: bad_script("std::array size outside 0..5:", std::to_string(n));
            }
        }
        else if (k == "vector") { vec = new std::vector<int>(); vec->reserve(n); vec->resize(n); vec->shrink_to_fit(); }
        else bad_script("bad memory kind", k);
        int* b = base();
        for (size_t i = 0; i < n; ++i) b[i] = int(cells[i]);
    }

    // ---- views
    template <class F> void with_span(const view& v, F&& f)
    {
        with_static<-1>(v.ext, [&](auto e) { constexpr std::ptrdiff_t E = decltype(e)::value; f(span<int, E>(v.ptr, v.size)); });
    }
    template <class S> static view as_view(const S& sp)
    {
        constexpr std::ptrdiff_t E = ext_of<S>::value;
        // the extent the type announces through its public constant
        static_assert(S::extent == static_cast<typename S::index_type>(E), "extent constant");
        return view{ int(E), sp.data(), sp.size() };
    }
    template <class S> void push(size_t s, const S& sp)
    {
        view nv = as_view(sp);
        views.resize(s);
        views.push_back(nv);
    }
    view& src(const vj::value& a)
    {
        size_t s = size_t(a.num("s"));
        if (s < 1 || s > views.size()) bad_script("no such view:", std::to_string(s));
        return views[s - 1];
    }
    static size_t arg(const vj::value& x)
    {
        const std::string& t = x.str("t");
        if (t == "s") return size_t(x.num("v"));
        if (t == "h") return SMAX - size_t(x.num("v"));
        bad_script("bad size argument kind", t);
    }
    template <class S> std::string flat(const S& sp)
    {
        std::vector<long long> r{ (long long)ext_of<S>::value, sp.data() ? encd(sp.data() - base()) : 0, enc(sp.size()), enc(sp.size_bytes()) };
        for (size_t i = 0; i < sp.size(); ++i) r.push_back(sp[i]);
        return vj::ints(r);
    }

    template <std::ptrdiff_t E, std::ptrdiff_t O, std::ptrdiff_t C,
              bool WellFormed = (C != DYN || E == DYN || E - O >= -1)>
    struct subs
    {
        static void go(machine& m, size_t s, span<int, E> sp) { m.push(s, sp.template subspan<O, C>()); }
    };
    template <std::ptrdiff_t E, std::ptrdiff_t O, std::ptrdiff_t C>
    struct subs<E, O, C, false>
    {
        static void go(machine&, size_t, span<int, E>) { bad_script("subspan<O, C>() has an ill-formed return type for this extent", ""); }
    };

    std::string step(const vj::value& e)
    {
        const std::string& op = e.str("op");
        const vj::value& a = e.at("a");
        std::string val = "[]";
        const char* exc = "none";
        try
        {
            if (op == "Reset")
            {
                if (a.str("mode") != BUILD_MODE) bad_script("Reset names a mode this driver was not built in:", a.str("mode"));
                make_mem("heap", {});
            }
            else if (op == "Mem") make_mem(a.str("kind"), a.ints("cells"));
            else if (op == "FromPtrCount" || op == "FromPtrPair")
            {
                size_t po = size_t(a.num("po")), cnt = size_t(a.num("cnt"));
                if (po + cnt > n) bad_script("pointer range outside the memory", "");
                int* p = base() + po;
                with_static<-1>(a.num("ext"), [&](auto x) {
                    constexpr std::ptrdiff_t E = decltype(x)::value;
                    if (op == "FromPtrCount") { span<int, E> sp(p, cnt); this->push(0, sp); }
                    else { span<int, E> sp(p, p + cnt); this->push(0, sp); }
                });
            }
            else if (op == "FromArray")
            {
                if (kind != "carray") bad_script("FromArray needs carray memory", "");
                long long ext = a.num("ext");
                with_carray([&](auto& arr) {
                    constexpr std::ptrdiff_t N = std::ptrdiff_t(std::extent<std::remove_reference_t<decltype(arr)>>::value);
                    if (ext == -1) { span<int> sp(arr); this->push(0, sp); }
                    else if (ext == N) { span<int, N> sp(arr); this->push(0, sp); }
                    else bad_script("span<int, E>(int (&)[N]) does not exist for E != N", "");
                });
            }
            else if (op == "FromStdArray")
            {
                if (kind != "stdarray") bad_script("FromStdArray needs stdarray memory", "");
                long long ext = a.num("ext");
                with_stdarray([&](auto& arr) {
                    constexpr std::ptrdiff_t N = std::ptrdiff_t(std::tuple_size<std::remove_reference_t<decltype(arr)>>::value);
                    if (ext == -1) { span<int> sp(arr); this->push(0, sp); }
                    else if (ext == N) { span<int, N> sp(arr); this->push(0, sp); }
                    else bad_script("span<int, E>(std::array<int, N>&) does not exist for E != N", "");
                });
            }
            else if (op == "FromContainer")
            {
                if (kind != "vector") bad_script("FromContainer needs vector memory", "");
                with_static<-1>(a.num("ext"), [&](auto x) {
                    constexpr std::ptrdiff_t E = decltype(x)::value;
                    span<int, E> sp(*vec); this->push(0, sp);
                });
            }
            else if (op == "MakeSpan")
            {
                if (kind == "carray") with_carray([&](auto& arr) { auto sp = tcb::make_span(arr); this->push(0, sp); });
                else if (kind == "stdarray") with_stdarray([&](auto& arr) { auto sp = tcb::make_span(arr); this->push(0, sp); });
                else if (kind == "vector") { auto sp = tcb::make_span(*vec); push(0, sp); }
                else bad_script("MakeSpan needs carray, stdarray or vector memory", "");
            }
            else if (op == "Default")
            {
                if (a.num("ext") == -1) { span<int> sp; val = vj::ints(std::vector<long long>{ sp.data() == nullptr, enc(sp.size()) }); push(0, sp); }
                else if (a.num("ext") == 0) { span<int, 0> sp; val = vj::ints(std::vector<long long>{ sp.data() == nullptr, enc(sp.size()) }); push(0, sp); }
                else bad_script("no default constructor for this extent", "");
            }
            else if (op == "ConstFrom")
            {
                const std::string& how = a.str("how");
                long long ext = a.num("ext");
                if (how == "stdarray" || how == "make_stdarray")
                {
                    if (kind != "stdarray") bad_script("needs stdarray memory", how);
                    with_stdarray([&](auto& arr) {
                        const auto& carr_ = arr;
                        constexpr std::ptrdiff_t N = std::ptrdiff_t(std::tuple_size<std::remove_reference_t<decltype(arr)>>::value);
                        if (how == "make_stdarray") { auto sp = tcb::make_span(carr_); static_assert(std::is_same<decltype(sp), span<const int, N>>::value, "make_span(const array&)"); val = this->flat(sp); }
                        else if (ext == -1) { span<const int> sp(carr_); val = this->flat(sp); }
                        else if (ext == N) { span<const int, N> sp(carr_); val = this->flat(sp); }
                        else bad_script("span<const int, E>(const std::array<int, N>&) does not exist for E != N", "");
                    });
                }
                else if (how == "container" || how == "make_container")
                {
                    if (kind != "vector") bad_script("needs vector memory", how);
                    const std::vector<int>& cv = *vec;
                    if (how == "make_container") { auto sp = tcb::make_span(cv); static_assert(std::is_same<decltype(sp), span<const int>>::value, "make_span(const C&)"); val = flat(sp); }
                    else with_static<-1>(ext, [&](auto x) { constexpr std::ptrdiff_t E = decltype(x)::value; span<const int, E> sp(cv); val = this->flat(sp); });
                }
                else if (how == "span" || how == "make_span")
                {
                    with_span(src(a), [&](auto sp) {
                        constexpr std::ptrdiff_t E = ext_of<decltype(sp)>::value;
                        if (how == "make_span") { auto c = tcb::make_span(sp); static_assert(std::is_same<decltype(c), decltype(sp)>::value, "make_span(span)"); val = this->flat(c); }
                        else if (ext == -1) { span<const int> c(sp); val = this->flat(c); }
                        else if (ext == E) { span<const int, E> c(sp); val = this->flat(c); }
                        else bad_script("span<const int, X>(span<int, E>) does not exist for X not in {E, dynamic}", "");
                    });
                }
                else bad_script("bad ConstFrom kind", how);
            }
            else if (op == "Copy")
            {
                size_t s = size_t(a.num("s"));
                with_span(src(a), [&](auto sp) {
                    using S = decltype(sp);
                    if (a.str("how") == "ctor") { S c(sp); this->push(s, c); }
                    else { S c(this->base(), sp.size()); c = sp; this->push(s, c); }     // a different window of the same type, then assigned
                });
            }
            else if (op == "Convert")
            {
                size_t s = size_t(a.num("s"));
                long long ext = a.num("ext");
                with_span(src(a), [&](auto sp) {
                    constexpr std::ptrdiff_t E = ext_of<decltype(sp)>::value;
                    if (ext == -1) { span<int> c(sp); this->push(s, c); }
                    else if (ext == E) { span<int, E> c(sp); this->push(s, c); }
                    else bad_script("span<int, X>(span<int, E>) does not exist for X not in {E, dynamic}", "");
                });
            }
            else if (op == "First") { size_t s = size_t(a.num("s")); size_t c = arg(a.at("c")); with_span(src(a), [&](auto sp) { this->push(s, sp.first(c)); }); }
            else if (op == "Last") { size_t s = size_t(a.num("s")); size_t c = arg(a.at("c")); with_span(src(a), [&](auto sp) { this->push(s, sp.last(c)); }); }
            else if (op == "Subspan") { size_t s = size_t(a.num("s")); size_t o = arg(a.at("o")), c = arg(a.at("c")); with_span(src(a), [&](auto sp) { this->push(s, sp.subspan(o, c)); }); }
            else if (op == "Subspan1") { size_t s = size_t(a.num("s")); size_t o = arg(a.at("o")); with_span(src(a), [&](auto sp) { this->push(s, sp.subspan(o)); }); }
            else if (op == "Nm")
            {
                // non-member first/last/subspan on the memory object itself; arguments are std::ptrdiff_t
                const std::string& fn = a.str("fn");
                std::ptrdiff_t o = std::ptrdiff_t(arg(a.at("o"))), c = std::ptrdiff_t(arg(a.at("c")));
                auto go = [&](auto& t) {
                    if (fn == "first") this->push(0, tcb::first(t, c));
                    else if (fn == "last") this->push(0, tcb::last(t, c));
                    else if (fn == "subspan") this->push(0, tcb::subspan(t, o, c));
                    else if (fn == "subspan1") this->push(0, tcb::subspan(t, o));
                    else bad_script("bad non-member function", fn);
                };
                if (kind == "carray") with_carray(go);
                else if (kind == "stdarray") with_stdarray(go);
                else if (kind == "vector") go(*vec);
                else bad_script("Nm needs carray, stdarray or vector memory", "");
            }
            else if (op == "FirstS")
            {
                size_t s = size_t(a.num("s"));
                with_span(src(a), [&](auto sp) { with_static<(STATIC_ZERO_COUNT ? 0 : 1)>(a.num("C"), [&](auto c) { constexpr std::ptrdiff_t CC = decltype(c)::value; this->push(s, sp.template first<CC>()); }); });
            }
            else if (op == "LastS")
            {
                size_t s = size_t(a.num("s"));
                with_span(src(a), [&](auto sp) { with_static<(STATIC_ZERO_COUNT ? 0 : 1)>(a.num("C"), [&](auto c) { constexpr std::ptrdiff_t CC = decltype(c)::value; this->push(s, sp.template last<CC>()); }); });
            }
            else if (op == "SubspanS")
            {
                size_t s = size_t(a.num("s"));
                with_span(src(a), [&](auto sp) {
                    constexpr std::ptrdiff_t E = ext_of<decltype(sp)>::value;
                    with_offset(a.num("O"), [&](auto o) {
                        constexpr std::ptrdiff_t OO = decltype(o)::value;
                        with_static<-1>(a.num("C"), [&](auto c) {
                            constexpr std::ptrdiff_t CC = decltype(c)::value;
                            subs<E, OO, CC>::go(*this, s, sp);
                        });
                    });
                });
            }
            else if (op == "Index")
            {
                size_t i = arg(a.at("i"));
                const std::string& how = a.str("how");
                if (how == "get")
                    with_span(src(a), [&](auto sp) { with_static<0>((long long)i, [&](auto nn) { constexpr std::ptrdiff_t NN = decltype(nn)::value; int x = tcb::get<NN>(sp); val = vj::ints(std::vector<long long>{ x }); }); });
                else
                {
                    bool call = how == "call";
                    with_span(src(a), [&](auto sp) { int x = call ? sp(i) : sp[i]; val = vj::ints(std::vector<long long>{ x }); });
                }
            }
            else if (op == "At") { size_t i = arg(a.at("i")); with_span(src(a), [&](auto sp) { int x = sp.at(i); val = vj::ints(std::vector<long long>{ x }); }); }
            else if (op == "Front") with_span(src(a), [&](auto sp) { int x = sp.front(); val = vj::ints(std::vector<long long>{ x }); });
            else if (op == "Back") with_span(src(a), [&](auto sp) { int x = sp.back(); val = vj::ints(std::vector<long long>{ x }); });
            else if (op == "Write")
            {
                const std::string& path = a.str("path");
                size_t i = size_t(a.num("i"));
                int x = int(a.num("x"));
                with_span(src(a), [&](auto sp) {
                    if (path == "sub") sp[i] = x;
                    else if (path == "call") sp(i) = x;
                    else if (path == "at") sp.at(i) = x;
                    else if (path == "front") sp.front() = x;
                    else if (path == "back") sp.back() = x;
                    else if (path == "data") sp.data()[i] = x;
                    else if (path == "iter") *(sp.begin() + std::ptrdiff_t(i)) = x;
                    else if (path == "riter") *(sp.rbegin() + std::ptrdiff_t(sp.size() - 1 - i)) = x;
                    else bad_script("bad write path", path);
                });
            }
            else if (op == "Cmp")
            {
                size_t t = size_t(a.num("t"));
                if (t < 1 || t > views.size()) bad_script("no such view:", std::to_string(t));
                view vt = views[t - 1];
                with_span(src(a), [&](auto x) {
                    this->with_span(vt, [&](auto y) {
                        val = vj::ints(std::vector<long long>{ x == y, x != y, x < y, x <= y, x > y, x >= y });
                    });
                });
            }
            else if (op == "AsBytes")
            {
                bool w = a.num("w") != 0;
                with_span(src(a), [&](auto sp) {
                    auto rep = [&](auto b) {
                        constexpr std::ptrdiff_t EB = ext_of<decltype(b)>::value;
                        const unsigned char* p = reinterpret_cast<const unsigned char*>(b.data());
                        val = vj::ints(std::vector<long long>{ (long long)EB, p ? encd(p - reinterpret_cast<const unsigned char*>(this->base())) : 0, enc(b.size()) });
                    };
                    if (w) rep(tcb::as_writable_bytes(sp)); else rep(tcb::as_bytes(sp));
                });
            }
            else bad_script("unknown op", op);
        }
#if defined(TCB_SPAN_THROW_ON_CONTRACT_VIOLATION)
        catch (const tcb::contract_violation_error&) { exc = "contract"; }
#endif
        catch (const std::out_of_range&) { exc = "out_of_range"; }
        catch (const std::exception&) { exc = "other"; }
        return std::string("{\"exc\":\"") + exc + "\",\"val\":" + (std::strcmp(exc, "none") ? "[]" : val) + "}";
    }

    std::string proj_view(const view& v)
    {
        vj::out o;
        int* b = base();
        bool null = v.ptr == nullptr;
        // is the window inside the parent?  (decides only whether the harness may read the elements)
        bool sane = null ? v.size == 0 : (v.ptr >= b && v.ptr <= b + n && v.size <= size_t((b + n) - v.ptr));
        with_span(v, [&](auto sp) {
            o.kv("ext", (long long)ext_of<decltype(sp)>::value);
            o.kv("off", null ? 0 : encd(sp.data() - b));
            o.kv("size", enc(sp.size()));
            o.kv("bytes", enc(sp.size_bytes()));
            o.kb("empty", sp.empty());
            o.kv("dist", null ? 0 : encd(sp.end() - sp.begin()));
            std::vector<long long> el, fwd, rev;
            if (sane)
            {
                for (size_t i = 0; i < sp.size(); ++i) el.push_back(sp[i]);
                for (auto it = sp.cbegin(); it != sp.cend(); ++it) fwd.push_back(*it);
                for (auto it = sp.crbegin(); it != sp.crend(); ++it) rev.push_back(*it);
            }
            o.kints("elems", el).kints("fwd", fwd).kints("rev", rev);
        });
        return o.obj();
    }

    int run()
    {
        std::string line;
        make_mem("heap", {});
        while (std::getline(std::cin, line))
        {
            if (line.empty()) continue;
            vj::value e = vj::parse(line);
            std::string res = step(e);
            int* b = base();
            std::vector<long long> mem;
            for (size_t i = 0; i < n; ++i) mem.push_back(b[i]);
            bool guard = true;
            if (kind == "heap") for (int i = 0; i < G; ++i) guard = guard && heap[i] == GPAT && heap[G + n + i] == GPAT;
            std::string vs = "[";
            for (size_t i = 0; i < views.size(); ++i) { if (i) vs += ','; vs += proj_view(views[i]); }
            vs += "]";
            std::string head = line.substr(0, line.rfind('}'));
            std::string st = "{\"mem\":" + vj::ints(mem) + ",\"guard\":" + (guard ? "true" : "false") + ",\"views\":" + vs + "}";
            std::fputs((head + ",\"res\":" + res + ",\"st\":" + st + "}\n").c_str(), stdout);
        }
        release();
        return 0;
    }
};

int main()
{
    vj::install_crash_handlers();
    return machine().run();
}

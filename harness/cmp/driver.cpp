// C15 conformance driver: calls the six xtl::cmp_* templates for every requested ordered pair of
// integer types and operand values and prints the six returned booleans.  No oracle here: TLC
// evaluates IntCmp.tla on every recorded case (specs/IntCmpCheck.tla).
//
//  {"op":"P","T":t,"U":u,"enc":"int","c":[[a,b],..]}        a, b small integers
//  {"op":"P","T":t,"U":u,"enc":"limbs","c":[[[neg,l0,l1,l2,l3],[neg,...]],..]}
//  {"op":"CE","T":t,"U":u,"c":[[i,j],..]}   operands = i-th / j-th boundary value of T / U; the calls
//        are evaluated by the compiler in constant expressions (static constexpr data members)
//        -- only in the binary built with -DCE_TABLE (a separate, template-heavy build)
//  {"op":"R","T":t,"U":u,"side":0|1,"c":[[a],..]}   for every given a of type T: b sweeps over ALL values of U in
//        increasing order (U at most 16 bits wide); side 0 calls cmp_*(a, b), side 1 cmp_*(b, a); the
//        sweep is printed run-length encoded: maximal runs of consecutive b with the same six answers
//  ->  {"op":"P","T":t,"U":u,"ts":[signed,digits],"us":[signed,digits],"enc":..,"ce":0|1,"c":[[a,b,mask],..]}
//  ->  {"op":"R","T":t,"U":u,"ts":..,"us":..,"side":s,"c":[[a,[[lo,hi,mask],..]],..]}
//        mask: eq=1 ne=2 lt=4 gt=8 le=16 ge=32;  ts/us: std::is_signed and std::numeric_limits<>::digits of the
//        two types as the compiler reports them; every output line also carries "sig": bits 0..5 = the call of eq ne lt gt le ge
//        is noexcept, bits 6..11 = its type is exactly bool (advisory facts, see IntCmpCheck.tla)
// type ids: 0 int8  1 uint8  2 int16  3 uint16  4 int32  5 uint32  6 int64  7 uint64
//           8 long long  9 unsigned long long   (standard integer types that are no fixed-width typedef here)
//           10 char  11 wchar_t  12 char16_t  13 char32_t  14 bool   (integral, but not "integer types" in the standard's
//           sense - std::cmp_* reject them; built only when -DNTYPES=15 (or 14: without bool) compiles, see checks/c15.py)
// The operands are printed as read back from the typed variables (not echoed from the script).
// (any further key of a script line, e.g. "bld", is ignored).  A call that does not return is ended by a per-line
// CPU / wall-clock watchdog (Crash line).
#include "vjson.hpp"
#include "xtl/xcompare.hpp"

#include <cstdint>
#include <iostream>
#include <limits>
#include <string>
#include <type_traits>
#include <utility>
#include <sys/time.h>

static void on_watchdog(int sig)
{
    vj::crash_line(sig == SIGPROF ? "timeout: the call did not return within 3 s of CPU time" : "timeout: the call did not return within 90 s");
    _exit(0);
}
static void arm_watchdog(long cpu_s, long wall_s)
{
    struct itimerval cpu = {{0, 0}, {cpu_s, 0}}, wall = {{0, 0}, {wall_s, 0}};
    setitimer(ITIMER_PROF, &cpu, nullptr);
    setitimer(ITIMER_REAL, &wall, nullptr);
}

#ifndef NTYPES
#  define NTYPES 15
#endif
template <int I> struct type_of;
template <> struct type_of<0> { using type = std::int8_t; };
template <> struct type_of<1> { using type = std::uint8_t; };
template <> struct type_of<2> { using type = std::int16_t; };
template <> struct type_of<3> { using type = std::uint16_t; };
template <> struct type_of<4> { using type = std::int32_t; };
template <> struct type_of<5> { using type = std::uint32_t; };
template <> struct type_of<6> { using type = std::int64_t; };
template <> struct type_of<7> { using type = std::uint64_t; };
template <> struct type_of<8> { using type = long long; };
template <> struct type_of<9> { using type = unsigned long long; };
template <> struct type_of<10> { using type = char; };
template <> struct type_of<11> { using type = wchar_t; };
template <> struct type_of<12> { using type = char16_t; };
template <> struct type_of<13> { using type = char32_t; };
template <> struct type_of<14> { using type = bool; };

struct wide { bool neg; std::uint64_t mag; };

// ---- per type (not per pair): value <-> 64-bit two's complement pattern <-> [sign, magnitude]
template <class T> std::uint64_t bits_of(T v)
{
    return static_cast<std::uint64_t>(static_cast<typename std::conditional<std::is_signed<T>::value, std::int64_t, std::uint64_t>::type>(v));
}
template <class T> T from_bits(std::uint64_t u) { return static_cast<T>(u); }
template <> inline bool from_bits<bool>(std::uint64_t u) { return u != 0; }

template <class T> wide project_bits(std::uint64_t pattern)
{
    T v = from_bits<T>(pattern);
    wide w;
    w.neg = std::is_signed<T>::value && v < T(0);
    std::uint64_t u = bits_of(v);
    w.mag = w.neg ? (std::uint64_t(0) - u) : u;
    return w;
}
// false: the script asked for a value T cannot hold
template <class T> bool inject_bits(const wide& w, std::uint64_t& pattern)
{
    std::uint64_t u = w.neg ? (std::uint64_t(0) - w.mag) : w.mag;
    if (std::is_same<T, bool>::value && u > 1) return false;
    pattern = bits_of(from_bits<T>(u));
    wide back = project_bits<T>(pattern);
    return back.neg == w.neg && back.mag == w.mag;
}
struct type_ops
{
    bool (*inject)(const wide&, std::uint64_t&);
    wide (*project)(std::uint64_t);
    int is_signed, digits;
    std::int64_t lo; std::uint64_t hi;      // range (lo as signed, hi as unsigned pattern)
};
template <class T> type_ops ops_of()
{
    return type_ops{&inject_bits<T>, &project_bits<T>, std::is_signed<T>::value ? 1 : 0, std::numeric_limits<T>::digits,
                    static_cast<std::int64_t>(std::numeric_limits<T>::min()), bits_of(std::numeric_limits<T>::max())};
}
template <std::size_t... K> const type_ops& ops(int t, std::index_sequence<K...>)
{
    static const type_ops tab[NTYPES] = { ops_of<typename type_of<int(K)>::type>()... };
    return tab[t];
}
static const type_ops& ops(int t) { return ops(t, std::make_index_sequence<NTYPES>()); }

// ---- per ordered pair of types: nothing but the six calls
template <class T, class U> __attribute__((noinline)) unsigned six(T a, U b)
{
    return (xtl::cmp_equal(a, b) ? 1u : 0u) | (xtl::cmp_not_equal(a, b) ? 2u : 0u) | (xtl::cmp_less(a, b) ? 4u : 0u)
         | (xtl::cmp_greater(a, b) ? 8u : 0u) | (xtl::cmp_less_equal(a, b) ? 16u : 0u) | (xtl::cmp_greater_equal(a, b) ? 32u : 0u);
}
template <class T, class U> unsigned six_bits(std::uint64_t a, std::uint64_t b) { return six<T, U>(from_bits<T>(a), from_bits<U>(b)); }
using six_fn = unsigned (*)(std::uint64_t, std::uint64_t);

// ---- signature facts per ordered type pair (round 3; not part of the property statement, compared as an advisory):
// bits 0..5: the call expression is noexcept (eq ne lt gt le ge); bits 6..11: its type is exactly bool
template <class T, class U> unsigned sig_bits()
{
    T a = T(); U b = U();
    (void)a; (void)b;
    return (noexcept(xtl::cmp_equal(a, b)) ? 1u : 0u) | (noexcept(xtl::cmp_not_equal(a, b)) ? 2u : 0u) | (noexcept(xtl::cmp_less(a, b)) ? 4u : 0u)
         | (noexcept(xtl::cmp_greater(a, b)) ? 8u : 0u) | (noexcept(xtl::cmp_less_equal(a, b)) ? 16u : 0u) | (noexcept(xtl::cmp_greater_equal(a, b)) ? 32u : 0u)
         | (std::is_same<decltype(xtl::cmp_equal(a, b)), bool>::value ? 64u : 0u) | (std::is_same<decltype(xtl::cmp_not_equal(a, b)), bool>::value ? 128u : 0u)
         | (std::is_same<decltype(xtl::cmp_less(a, b)), bool>::value ? 256u : 0u) | (std::is_same<decltype(xtl::cmp_greater(a, b)), bool>::value ? 512u : 0u)
         | (std::is_same<decltype(xtl::cmp_less_equal(a, b)), bool>::value ? 1024u : 0u) | (std::is_same<decltype(xtl::cmp_greater_equal(a, b)), bool>::value ? 2048u : 0u);
}
using sig_fn = unsigned (*)();

#ifdef CE_TABLE
// ---- constant-expression use: boundary value i of T
constexpr int NB = 7;
template <class T> constexpr T bval(int i)
{
    return i == 0 ? std::numeric_limits<T>::min()
         : i == 1 ? (std::is_signed<T>::value ? static_cast<T>(-1) : static_cast<T>(std::numeric_limits<T>::max() / 2 + 1))
         : i == 2 ? T(0)
         : i == 3 ? T(1)
         : i == 4 ? static_cast<T>(std::numeric_limits<T>::max() / 2)
         : i == 5 ? static_cast<T>(std::numeric_limits<T>::max() - (std::is_same<T, bool>::value ? 0 : 1))
         : std::numeric_limits<T>::max();
}
template <class T, class U> constexpr unsigned six_ce(T a, U b)
{
    return (xtl::cmp_equal(a, b) ? 1u : 0u) | (xtl::cmp_not_equal(a, b) ? 2u : 0u) | (xtl::cmp_less(a, b) ? 4u : 0u)
         | (xtl::cmp_greater(a, b) ? 8u : 0u) | (xtl::cmp_less_equal(a, b) ? 16u : 0u) | (xtl::cmp_greater_equal(a, b) ? 32u : 0u);
}
template <class T, class U, int I, int J> struct ce_cell
{
    // a static constexpr data member must be initialised by a constant expression
    static constexpr unsigned mask = six_ce<T, U>(bval<T>(I), bval<U>(J));
    // and each function on its own is usable where the language demands a constant (template arguments)
    using eq = std::integral_constant<bool, xtl::cmp_equal(bval<T>(I), bval<U>(J))>;
    using ne = std::integral_constant<bool, xtl::cmp_not_equal(bval<T>(I), bval<U>(J))>;
    using lt = std::integral_constant<bool, xtl::cmp_less(bval<T>(I), bval<U>(J))>;
    using gt = std::integral_constant<bool, xtl::cmp_greater(bval<T>(I), bval<U>(J))>;
    using le = std::integral_constant<bool, xtl::cmp_less_equal(bval<T>(I), bval<U>(J))>;
    using ge = std::integral_constant<bool, xtl::cmp_greater_equal(bval<T>(I), bval<U>(J))>;
    static constexpr unsigned mask2 = (eq::value ? 1u : 0u) | (ne::value ? 2u : 0u) | (lt::value ? 4u : 0u) | (gt::value ? 8u : 0u)
                                    | (le::value ? 16u : 0u) | (ge::value ? 32u : 0u);
};
template <class T, class U, std::size_t... K> unsigned ce_lookup(int i, int j, std::index_sequence<K...>)
{
    static const unsigned tab[NB * NB] = { (ce_cell<T, U, int(K / NB), int(K % NB)>::mask | (ce_cell<T, U, int(K / NB), int(K % NB)>::mask2 << 8))... };
    return tab[i * NB + j];
}
template <class T, class U> unsigned ce_pair(int i, int j, std::uint64_t& a, std::uint64_t& b)
{
    a = bits_of(bval<T>(i));
    b = bits_of(bval<U>(j));
    return ce_lookup<T, U>(i, j, std::make_index_sequence<NB * NB>());
}
using ce_fn = unsigned (*)(int, int, std::uint64_t&, std::uint64_t&);
template <std::size_t... K> ce_fn pick_ce(int t, int u, std::index_sequence<K...>)
{
    static const ce_fn tab[NTYPES * NTYPES] = { &ce_pair<typename type_of<int(K / NTYPES)>::type, typename type_of<int(K % NTYPES)>::type>... };
    return tab[t * NTYPES + u];
}
#endif

template <std::size_t... K> six_fn pick(int t, int u, std::index_sequence<K...>)
{
    // all ordered type pairs are instantiated here
    static const six_fn tab[NTYPES * NTYPES] = { &six_bits<typename type_of<int(K / NTYPES)>::type, typename type_of<int(K % NTYPES)>::type>... };
    return tab[t * NTYPES + u];
}

template <std::size_t... K> sig_fn pick_sig(int t, int u, std::index_sequence<K...>)
{
    static const sig_fn tab[NTYPES * NTYPES] = { &sig_bits<typename type_of<int(K / NTYPES)>::type, typename type_of<int(K % NTYPES)>::type>... };
    return tab[t * NTYPES + u];
}

static wide read_value(const vj::value& v, bool limbs)
{
    wide w;
    if (!limbs)
    {
        w.neg = v.i < 0;
        w.mag = w.neg ? (std::uint64_t(0) - static_cast<std::uint64_t>(v.i)) : static_cast<std::uint64_t>(v.i);
    }
    else
    {
        w.neg = v.a[0].i != 0;
        w.mag = 0;
        for (int k = 3; k >= 0; --k) w.mag = (w.mag << 16) | static_cast<std::uint64_t>(v.a[std::size_t(k + 1)].i);
    }
    return w;
}

static std::string show_value(const wide& w, bool limbs)
{
    if (!limbs) return (w.neg ? "-" : "") + std::to_string(w.mag);
    std::string s = "[" + std::to_string(w.neg ? 1 : 0);
    for (int k = 0; k < 4; ++k) s += "," + std::to_string((w.mag >> (16 * k)) & 0xFFFF);
    return s + "]";
}

static std::string head(const char* op, int t, int u)
{
    const type_ops& ot = ops(t);
    const type_ops& ou = ops(u);
    return std::string("{\"op\":\"") + op + "\",\"T\":" + std::to_string(t) + ",\"U\":" + std::to_string(u)
         + ",\"ts\":[" + std::to_string(ot.is_signed) + "," + std::to_string(ot.digits) + "],\"us\":[" + std::to_string(ou.is_signed) + ","
         + std::to_string(ou.digits) + "],\"sig\":" + std::to_string(pick_sig(t, u, std::make_index_sequence<NTYPES * NTYPES>())());
}

static int run_line(const vj::value& ev, std::string& o)
{
    const std::string& op = ev.str("op");
    int t = int(ev.num("T")), u = int(ev.num("U"));
    if (t < 0 || t >= NTYPES || u < 0 || u >= NTYPES) return 3;
    const type_ops& ot = ops(t);
    const type_ops& ou = ops(u);
    six_fn f = pick(t, u, std::make_index_sequence<NTYPES * NTYPES>());
    if (op == "R")
    {
        int side = int(ev.num("side"));
        if (ou.digits + ou.is_signed > 16) { std::fprintf(stderr, "script: R sweeps types of at most 16 bits\n"); return 3; }
        six_fn g = side == 0 ? f : pick(u, t, std::make_index_sequence<NTYPES * NTYPES>());
        o = head("R", t, u) + ",\"side\":" + std::to_string(side) + ",\"c\":[";
        bool first = true;
        for (const vj::value& c : ev.at("c").a)
        {
            std::uint64_t abits;
            if (!ot.inject(read_value(c.a[0], false), abits)) { std::fprintf(stderr, "script: operand not representable in its type\n"); return 3; }
            std::string runs;
            long long lo = ou.lo, hi = static_cast<long long>(ou.hi), start = lo;
            unsigned cur = 0;
            for (long long b = lo; b <= hi; ++b)
            {
                std::uint64_t bbits;
                wide wb; wb.neg = b < 0; wb.mag = wb.neg ? static_cast<std::uint64_t>(-b) : static_cast<std::uint64_t>(b);
                if (!ou.inject(wb, bbits)) { std::fprintf(stderr, "sweep value not representable\n"); return 3; }
                unsigned m = side == 0 ? g(abits, bbits) : g(bbits, abits);
                if (b == lo) cur = m;
                if (m != cur)
                {
                    runs += (runs.empty() ? "[" : ",[") + std::to_string(start) + "," + std::to_string(b - 1) + "," + std::to_string(cur) + "]";
                    start = b; cur = m;
                }
            }
            runs += (runs.empty() ? "[" : ",[") + std::to_string(start) + "," + std::to_string(hi) + "," + std::to_string(cur) + "]";
            if (!first) o += ',';
            first = false;
            o += "[" + show_value(ot.project(abits), false) + ",[" + runs + "]]";
        }
        o += "]}\n";
        return 0;
    }
    bool ce = op == "CE";
    if (!ce && op != "P") return 3;
    bool limbs = ce ? true : ev.str("enc") == "limbs";
    o = head("P", t, u) + ",\"enc\":\"" + (limbs ? "limbs" : "int") + "\",\"ce\":" + (ce ? "1" : "0") + ",\"c\":[";
    bool first = true;
    for (const vj::value& c : ev.at("c").a)
    {
        std::uint64_t a = 0, b = 0;
        unsigned mask;
        if (ce)
        {
#ifdef CE_TABLE
            int i = int(c.a[0].i), j = int(c.a[1].i);
            if (i < 0 || i >= NB || j < 0 || j >= NB) { std::fprintf(stderr, "script: CE index out of range\n"); return 3; }
            unsigned both = pick_ce(t, u, std::make_index_sequence<NTYPES * NTYPES>())(i, j, a, b);
            mask = both & 0xFFu;
            // the six functions evaluated one by one as template arguments must tell the same story
            if (((both >> 8) & 0x3Fu) != (mask & 0x3Fu)) mask = 64u | mask;      // impossible mask: rejected by the spec
#else
            std::fprintf(stderr, "script: CE op in a build without -DCE_TABLE\n"); return 3;
#endif
        }
        else
        {
            if (!ot.inject(read_value(c.a[0], limbs), a) || !ou.inject(read_value(c.a[1], limbs), b))
            {
                std::fprintf(stderr, "script: operand not representable in its type\n");
                return 3;
            }
            mask = f(a, b);
        }
        if (!first) o += ',';
        first = false;
        o += "[" + show_value(ot.project(a), limbs) + "," + show_value(ou.project(b), limbs) + "," + std::to_string(mask) + "]";
    }
    o += "]}\n";
    return 0;
}

int main()
{
    vj::install_crash_handlers();
    std::signal(SIGPROF, on_watchdog);
    std::signal(SIGALRM, on_watchdog);
    std::string line, o;
    while (std::getline(std::cin, line))
    {
        if (line.empty()) continue;
        vj::value ev = vj::parse(line);
        arm_watchdog(ev.str("op") == "R" ? 10 : 3, 90);      // a sweep line makes up to 256 x 65536 x 6 calls (under a second)
        int rc = run_line(ev, o);
        if (rc != 0) { std::fprintf(stderr, "script: bad line %s\n", line.substr(0, 120).c_str()); return 3; }
        std::fputs(o.c_str(), stdout);
        std::fflush(stdout);
    }
    arm_watchdog(0, 0);
    return 0;
}

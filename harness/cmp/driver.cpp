// C15 conformance driver: calls the six xtl::cmp_* templates for every requested ordered pair of
// integer types and operand values and prints the six returned booleans.  No oracle here: TLC
// evaluates IntCmp.tla on every recorded case (specs/IntCmpCheck.tla).
//
//  {"op":"P","T":t,"U":u,"enc":"int","c":[[a,b],..]}        a, b small integers
//  {"op":"P","T":t,"U":u,"enc":"limbs","c":[[[neg,l0,l1,l2,l3],[neg,...]],..]}
//  {"op":"CE","T":t,"U":u,"c":[[i,j],..]}   operands = i-th / j-th boundary value of T / U; the calls
//        are evaluated by the compiler in constant expressions (static constexpr data members)
//  ->  {"op":"P","T":t,"U":u,"enc":..,"ce":0|1,"c":[[a,b,mask],..]}   mask: eq=1 ne=2 lt=4 gt=8 le=16 ge=32
// type ids: 0 int8  1 uint8  2 int16  3 uint16  4 int32  5 uint32  6 int64  7 uint64
// The operands are printed as read back from the typed variables (not echoed from the script).
#include "vjson.hpp"
#include "xtl/xcompare.hpp"

#include <cstdint>
#include <iostream>
#include <limits>
#include <string>
#include <type_traits>
#include <utility>

template <int I> struct type_of;
template <> struct type_of<0> { using type = std::int8_t; };
template <> struct type_of<1> { using type = std::uint8_t; };
template <> struct type_of<2> { using type = std::int16_t; };
template <> struct type_of<3> { using type = std::uint16_t; };
template <> struct type_of<4> { using type = std::int32_t; };
template <> struct type_of<5> { using type = std::uint32_t; };
template <> struct type_of<6> { using type = std::int64_t; };
template <> struct type_of<7> { using type = std::uint64_t; };

struct wide { bool neg; std::uint64_t mag; };

template <class T> wide project(T v)
{
    wide w;
    w.neg = v < T(0);
    std::uint64_t u = static_cast<std::uint64_t>(static_cast<typename std::conditional<std::is_signed<T>::value, std::int64_t, std::uint64_t>::type>(v));
    w.mag = w.neg ? (std::uint64_t(0) - u) : u;
    return w;
}

template <class T> bool inject(const wide& w, T& out)
{
    std::uint64_t u = w.neg ? (std::uint64_t(0) - w.mag) : w.mag;
    out = static_cast<T>(u);
    wide back = project(out);
    return back.neg == w.neg && back.mag == w.mag;     // false: the script asked for a value T cannot hold
}

static wide read_value(const vj::value& v, bool limbs)
{
    wide w;
    if (!limbs)
    {
        w.neg = v.i < 0;
        w.mag = w.neg ? (std::uint64_t(0) - static_cast<std::uint64_t>(v.i)) : static_cast<std::uint64_t>(v.i);
    }
    else
    {
        w.neg = v.a[0].i != 0;
        w.mag = 0;
        for (int k = 3; k >= 0; --k) w.mag = (w.mag << 16) | static_cast<std::uint64_t>(v.a[std::size_t(k + 1)].i);
    }
    return w;
}

static std::string show_value(const wide& w, bool limbs)
{
    if (!limbs) return (w.neg ? "-" : "") + std::to_string(w.mag);
    std::string s = "[" + std::to_string(w.neg ? 1 : 0);
    for (int k = 0; k < 4; ++k) s += "," + std::to_string((w.mag >> (16 * k)) & 0xFFFF);
    return s + "]";
}

template <class T, class U> __attribute__((noinline)) unsigned six(T a, U b)
{
    return (xtl::cmp_equal(a, b) ? 1u : 0u) | (xtl::cmp_not_equal(a, b) ? 2u : 0u) | (xtl::cmp_less(a, b) ? 4u : 0u)
         | (xtl::cmp_greater(a, b) ? 8u : 0u) | (xtl::cmp_less_equal(a, b) ? 16u : 0u) | (xtl::cmp_greater_equal(a, b) ? 32u : 0u);
}

#ifndef NO_CONSTEXPR_PROBE
// ---- constant-expression use: boundary value i of T
constexpr int NB = 5;
template <class T> constexpr T bval(int i)
{
    return i == 0 ? std::numeric_limits<T>::min()
         : i == 1 ? (std::is_signed<T>::value ? static_cast<T>(-1) : static_cast<T>(std::numeric_limits<T>::max() / 2 + 1))
         : i == 2 ? T(0)
         : i == 3 ? T(1)
         : std::numeric_limits<T>::max();
}
template <class T, class U> constexpr unsigned six_ce(T a, U b)
{
    return (xtl::cmp_equal(a, b) ? 1u : 0u) | (xtl::cmp_not_equal(a, b) ? 2u : 0u) | (xtl::cmp_less(a, b) ? 4u : 0u)
         | (xtl::cmp_greater(a, b) ? 8u : 0u) | (xtl::cmp_less_equal(a, b) ? 16u : 0u) | (xtl::cmp_greater_equal(a, b) ? 32u : 0u);
}
template <class T, class U, int I, int J> struct ce_cell
{
    // a static constexpr data member must be initialised by a constant expression
    static constexpr unsigned mask = six_ce<T, U>(bval<T>(I), bval<U>(J));
    // and each function on its own is usable where the language demands a constant
    static_assert(std::integral_constant<bool, xtl::cmp_equal(bval<T>(I), bval<U>(J))>::value
                  == !std::integral_constant<bool, xtl::cmp_not_equal(bval<T>(I), bval<U>(J))>::value, "cmp_not_equal is !cmp_equal by definition");
    using lt = std::integral_constant<bool, xtl::cmp_less(bval<T>(I), bval<U>(J))>;
    using gt = std::integral_constant<bool, xtl::cmp_greater(bval<T>(I), bval<U>(J))>;
    using le = std::integral_constant<bool, xtl::cmp_less_equal(bval<T>(I), bval<U>(J))>;
    using ge = std::integral_constant<bool, xtl::cmp_greater_equal(bval<T>(I), bval<U>(J))>;
    static constexpr unsigned mask2 = (lt::value ? 4u : 0u) | (gt::value ? 8u : 0u) | (le::value ? 16u : 0u) | (ge::value ? 32u : 0u);
};
template <class T, class U, std::size_t... K> unsigned ce_lookup(int i, int j, std::index_sequence<K...>)
{
    static const unsigned tab[NB * NB] = { (ce_cell<T, U, int(K / NB), int(K % NB)>::mask | (ce_cell<T, U, int(K / NB), int(K % NB)>::mask2 << 8))... };
    return tab[i * NB + j];
}
#endif

template <class T, class U> int run_line(const vj::value& ev, std::string& o)
{
    const std::string& op = ev.str("op");
    bool ce = op == "CE";
    bool limbs = ce ? true : ev.str("enc") == "limbs";
    o = "{\"op\":\"P\",\"T\":" + std::to_string(ev.num("T")) + ",\"U\":" + std::to_string(ev.num("U"))
        + ",\"enc\":\"" + (limbs ? "limbs" : "int") + "\",\"ce\":" + (ce ? "1" : "0") + ",\"c\":[";
    bool first = true;
    for (const vj::value& c : ev.at("c").a)
    {
        T a; U b; unsigned mask;
        if (ce)
        {
#ifndef NO_CONSTEXPR_PROBE
            int i = int(c.a[0].i), j = int(c.a[1].i);
            if (i < 0 || i >= NB || j < 0 || j >= NB) { std::fprintf(stderr, "script: CE index out of range\n"); return 3; }
            a = bval<T>(i); b = bval<U>(j);
            unsigned both = ce_lookup<T, U>(i, j, std::make_index_sequence<NB * NB>());
            mask = both & 0xFFu;
            // the four order functions evaluated one by one as template arguments must tell the same story
            if (((both >> 8) & 0x3Cu) != (mask & 0x3Cu)) mask = 64u | mask;      // impossible mask: rejected by the spec
#else
            std::fprintf(stderr, "script: CE op in a build without the constexpr probe\n"); return 3;
#endif
        }
        else
        {
            if (!inject(read_value(c.a[0], limbs), a) || !inject(read_value(c.a[1], limbs), b))
            {
                std::fprintf(stderr, "script: operand not representable in its type\n");
                return 3;
            }
            mask = six<T, U>(a, b);
        }
        if (!first) o += ',';
        first = false;
        o += "[" + show_value(project(a), limbs) + "," + show_value(project(b), limbs) + "," + std::to_string(mask) + "]";
    }
    o += "]}\n";
    return 0;
}

using line_fn = int (*)(const vj::value&, std::string&);
template <std::size_t... K> line_fn pick(int t, int u, std::index_sequence<K...>)
{
    // all 8 x 8 ordered type pairs are instantiated here
    static const line_fn tab[64] = { &run_line<typename type_of<int(K / 8)>::type, typename type_of<int(K % 8)>::type>... };
    return (t < 0 || t > 7 || u < 0 || u > 7) ? nullptr : tab[t * 8 + u];
}

int main()
{
    vj::install_crash_handlers();
    std::string line, o;
    while (std::getline(std::cin, line))
    {
        if (line.empty()) continue;
        vj::value ev = vj::parse(line);
        line_fn f = pick(int(ev.num("T")), int(ev.num("U")), std::make_index_sequence<64>());
        int rc = f ? f(ev, o) : 3;
        if (rc != 0) { std::fprintf(stderr, "script: bad line %s\n", line.substr(0, 120).c_str()); return 3; }
        std::fputs(o.c_str(), stdout);
        std::fflush(stdout);
    }
    return 0;
}

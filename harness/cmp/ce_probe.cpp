// C15: is ONE of the six functions usable in a constant expression?  Compiled with -DCE_FN=<name> when the
// constant-expression table (driver.cpp -DCE_TABLE) does not build, to name the function(s) at fault.
#include "xtl/xcompare.hpp"
#include <type_traits>
static_assert(std::integral_constant<bool, xtl::CE_FN(-1, 1u)>::value || true, "usable as a template argument");
static_assert(std::integral_constant<bool, xtl::CE_FN(static_cast<unsigned char>(200), static_cast<signed char>(-56))>::value || true, "");
static_assert(std::integral_constant<bool, xtl::CE_FN(5L, 5LL)>::value || true, "");
constexpr bool r = xtl::CE_FN(static_cast<unsigned long long>(-1), static_cast<short>(-1));
int main() { return r ? 0 : 0; }

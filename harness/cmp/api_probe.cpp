// C15 interface probe (see harness/base64/api_probe.cpp for the role of such a file): the six functions of
// xcompare.hpp called at run time with two integers of different types, as test/test_xcompare.cpp does.
#include "xtl/xcompare.hpp"

int main(int argc, char**)
{
    int a = -argc;
    unsigned long b = static_cast<unsigned long>(argc);
    signed char c = static_cast<signed char>(argc);
    unsigned long long d = 1;
    bool r = xtl::cmp_equal(a, b) || xtl::cmp_not_equal(a, b) || xtl::cmp_less(a, b) || xtl::cmp_greater(a, b)
          || xtl::cmp_less_equal(a, b) || xtl::cmp_greater_equal(a, b);
    r = (xtl::cmp_less(c, d) ? true : false) || (xtl::cmp_equal(d, c) ? true : false) || r;
    return r ? 0 : 1;
}

// C15, operands OUTSIDE the property's domain ("integer types"): what do the xtl::cmp_* templates do with them?
// std::cmp_* (C++20) reject character types, bool, enumerations and floating-point types at compile time.  Nothing here
// contributes to the verdict; checks/c15.py records the facts in the evidence and reports as ADVISORY those where a call
// compiles and returns something else than the comparison of the mathematical values.
//   -DPROBE=1  unscoped enumeration operands          -DPROBE=2  scoped enumeration operand (expected: does not compile)
//   -DPROBE=3  floating-point operand                 -DPROBE=4  __int128 / unsigned __int128 (built with -std=c++14 and -std=gnu++14)
// Output: one JSON object per line {"what":..., "got":0|1, "math":0|1}
#include "xtl/xcompare.hpp"
#include <cstdio>
#include <type_traits>

static void fact(const char* what, bool got, bool math) { std::printf("{\"what\":\"%s\",\"got\":%d,\"math\":%d}\n", what, got ? 1 : 0, math ? 1 : 0); }

#if PROBE == 1
enum E1 : int { e_neg = -1, e_one = 1 };
enum U1 : unsigned char { u_big = 200 };
int main()
{
    fact("cmp_less(enum E1:int{-1}, 1u)", xtl::cmp_less(e_neg, 1u), true);
    fact("cmp_equal(enum E1:int{-1}, 4294967295u)", xtl::cmp_equal(e_neg, 4294967295u), false);
    fact("cmp_greater(1u, enum E1:int{-1})", xtl::cmp_greater(1u, e_neg), true);
    fact("cmp_less(enum E1:int{-1}, 1)", xtl::cmp_less(e_neg, 1), true);
    fact("cmp_less(enum U1:uchar{200}, (signed char)-56)", xtl::cmp_less(u_big, static_cast<signed char>(-56)), false);
    fact("cmp_equal(enum E1{1}, enum E1{1})", xtl::cmp_equal(e_one, e_one), true);
    return 0;
}
#elif PROBE == 2
enum class S1 : int { neg = -1 };
int main() { fact("cmp_less(enum class S1{-1}, 1u)", xtl::cmp_less(S1::neg, 1u), true); return 0; }
#elif PROBE == 3
int main()
{
    fact("cmp_less(-0.5, 0u)", xtl::cmp_less(-0.5, 0u), true);
    fact("cmp_equal(0.5, 0)", xtl::cmp_equal(0.5, 0), false);
    fact("cmp_less(-1.0, 1u)", xtl::cmp_less(-1.0, 1u), true);
    return 0;
}
#elif PROBE == 4
int main()
{
    const __int128 m1 = -1;
    const unsigned __int128 u1 = 1;
    const unsigned __int128 umax = ~static_cast<unsigned __int128>(0);
    const __int128 big = static_cast<__int128>(1) << 100;
    fact("std::is_signed<__int128>", std::is_signed<__int128>::value, true);
    fact("std::is_integral<__int128>", std::is_integral<__int128>::value, true);
    fact("cmp_less(__int128(-1), (unsigned __int128)1)", xtl::cmp_less(m1, u1), true);
    fact("cmp_equal(__int128(-1), ~(unsigned __int128)0)", xtl::cmp_equal(m1, umax), false);
    fact("cmp_greater((unsigned __int128)1, __int128(-1))", xtl::cmp_greater(u1, m1), true);
    fact("cmp_less(__int128(-1), 1ull)", xtl::cmp_less(m1, 1ull), true);
    fact("cmp_less(-1, (unsigned __int128)1)", xtl::cmp_less(-1, u1), true);
    fact("cmp_less(__int128(1)<<100, 18446744073709551615ull)", xtl::cmp_less(big, 18446744073709551615ull), false);
    fact("cmp_greater_equal(~(unsigned __int128)0, -9223372036854775807ll-1)", xtl::cmp_greater_equal(umax, -9223372036854775807ll - 1), true);
    fact("cmp_less_equal(__int128 min, (unsigned __int128)0)", xtl::cmp_less_equal(static_cast<__int128>(1) << 127, static_cast<unsigned __int128>(0)), true);
    return 0;
}
#endif

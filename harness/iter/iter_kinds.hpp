// C12: the iterator kinds bound by the conformance harness (shared by driver.cpp, facts.cpp and the
// generated algorithm probes).  A kind K provides:
//   iterator                 the xtl iterator type under test
//   K(const vj::value& a)    a container holding a["under"] (a["n"] strides of a["step"] elements),
//                            a["src"] = 1: const_iterators are obtained from a CONST container's begin()/end()
//                            (rbegin()/rend()) instead of cbegin()/cend() (crbegin()/crend())
//   begin(), end(), size()   the iterator range and its length
//   under_v()                the storage read WITHOUT any xtl iterator, in range order
//   vals(x) / tup(x)         an element (reference or value_type) as integers / as a JSON tuple
//   put(ref, v)              assign the JSON tuple v through a reference
//   make<VT>(v)              a value_type object holding the tuple v
//   writable                 false: never try to write through *it
//   algo_writable            mutating std algorithms may be instantiated (element writes are not SFINAE-visible there)
// Only the public API of xtl is used.
#ifndef C12_ITER_KINDS_HPP
#define C12_ITER_KINDS_HPP
// C12_LIGHT: only the kinds that need nothing but xiterator_base.hpp (stepping, key/value, toys), so that these still
// build against a tree whose bitset / optional / complex headers do not compile.  Chosen from the driver group
// (-DC12_GROUP=3|4) or the single kind of the facts program (-DC12_ONLY=16..29, 40, 41).
#if (defined(C12_GROUP) && (C12_GROUP == 3 || C12_GROUP == 4)) || (defined(C12_ONLY) && ((C12_ONLY >= 16 && C12_ONLY <= 29) || (C12_ONLY >= 40 && C12_ONLY <= 41)))
#define C12_LIGHT 1
#endif
#include <xtl/xiterator_base.hpp>
#ifndef C12_LIGHT
#include <xtl/xdynamic_bitset.hpp>
#include <xtl/xoptional_sequence.hpp>
#include <xtl/xcomplex_sequence.hpp>
#endif
#include "vjson.hpp"
#include <algorithm>
#include <cstdint>
#include <iterator>
#include <map>
#include <memory>
#include <string>
#include <type_traits>
#include <vector>

#define RET(...) -> decltype(__VA_ARGS__) { return __VA_ARGS__; }

using elem_t = std::vector<long long>;

static inline std::vector<elem_t> elems_of(const vj::value& under, bool reversed)
{
    std::vector<elem_t> r;
    for (auto& e : under.a)
    {
        elem_t t;
        for (auto& x : e.a) t.push_back(x.i);
        r.push_back(t);
    }
    if (reversed) std::reverse(r.begin(), r.end());
    return r;
}
static inline std::string under_json(const std::vector<elem_t>& v)
{
    std::string s = "[";
    for (size_t i = 0; i < v.size(); ++i) { if (i) s += ','; s += vj::ints(v[i]); }
    return s + "]";
}
static inline std::vector<elem_t> reversed_if(std::vector<elem_t> v, bool reversed)
{
    if (reversed) std::reverse(v.begin(), v.end());
    return v;
}
static inline elem_t elem_of(const vj::value& v)
{
    elem_t t;
    for (auto& x : v.a) t.push_back(x.i);
    return t;
}

#ifndef C12_LIGHT
// ---- bitset iterators ------------------------------------------------------------------------
// Mode: 0 iterator, 1 const_iterator, 2 reverse_iterator, 3 const_reverse_iterator
template <class C, int Mode> struct seq_pick;
template <class C> struct seq_pick<C, 0>
{
    using type = typename C::iterator;
    static type b(C& c, int) { return c.begin(); }
    static type e(C& c, int) { return c.end(); }
};
template <class C> struct seq_pick<C, 1>
{
    using type = typename C::const_iterator;
    static type b(C& c, int src) { const C& cc = c; return src ? cc.begin() : c.cbegin(); }
    static type e(C& c, int src) { const C& cc = c; return src ? cc.end() : c.cend(); }
};
template <class C> struct seq_pick<C, 2>
{
    using type = typename C::reverse_iterator;
    static type b(C& c, int) { return c.rbegin(); }
    static type e(C& c, int) { return c.rend(); }
};
template <class C> struct seq_pick<C, 3>
{
    using type = typename C::const_reverse_iterator;
    static type b(C& c, int src) { const C& cc = c; return src ? cc.rbegin() : c.crbegin(); }
    static type e(C& c, int src) { const C& cc = c; return src ? cc.rend() : c.crend(); }
};

struct bit_elem
{
    template <class R> static elem_t vals(const R& r) { return elem_t{bool(r) ? 1 : 0}; }
    template <class R> static std::string tup(const R& r) { return vj::ints(vals(r)); }
    template <class R> static auto put(R&& r, const vj::value& v) RET(void(r = (v.a[0].i != 0)))
    template <class VT> static VT make(const elem_t& v) { return VT(v.at(0) != 0); }
};

template <class B, int Mode>
struct bit_kind : bit_elem
{
    using bs_t = xtl::xdynamic_bitset<B>;
    using pick = seq_pick<bs_t, Mode>;
    using iterator = typename pick::type;
    static constexpr bool rev = Mode >= 2;
    // xbitset_reference<B, true> declares operator=(bool) although its body cannot compile: never try it
    static constexpr bool writable = (Mode % 2) == 0;
    static constexpr bool algo_writable = writable;
    bs_t bs;
    int src;
    explicit bit_kind(const vj::value& a) : src(int(a.num("src", 0)))
    {
        for (auto& e : elems_of(a.at("under"), rev)) bs.push_back(e.at(0) != 0);
    }
    // the const twin (round 3): const_iterator for iterator, const_reverse_iterator for reverse_iterator
    using cpick = seq_pick<bs_t, (Mode | 1)>;
    using citerator = typename cpick::type;
    // (not for std::reverse_iterator<It>: its converting constructor and mixed comparisons are unconstrained templates
    // whose bodies do not compile when It does not convert, which SFINAE cannot see)
    template <int M = Mode, class = std::enable_if_t<M == 0 || M == 1>> citerator cbegin() { return cpick::b(bs, 0); }
    template <int M = Mode, class = std::enable_if_t<M == 0 || M == 1>> citerator cend() { return cpick::e(bs, 0); }
    iterator begin() { return pick::b(bs, src); }
    iterator end() { return pick::e(bs, src); }
    long long size() const { return (long long)bs.size(); }
    std::vector<elem_t> under_v() const
    {
        std::vector<elem_t> v;
        for (size_t i = 0; i < bs.size(); ++i) v.push_back({bs[i] ? 1 : 0});
        return reversed_if(v, rev);
    }
};

// iterators of a bitset view over caller memory
template <class B, int Mode>
struct bitview_kind : bit_elem
{
    using bs_t = xtl::xdynamic_bitset_view<B>;
    using pick = seq_pick<bs_t, Mode>;
    using iterator = typename pick::type;
    static constexpr bool rev = Mode >= 2;
    static constexpr bool writable = (Mode % 2) == 0;
    static constexpr bool algo_writable = writable;
    std::vector<B> mem;
    std::unique_ptr<bs_t> bs;
    int src;
    explicit bitview_kind(const vj::value& a) : src(int(a.num("src", 0)))
    {
        auto el = elems_of(a.at("under"), rev);
        const size_t W = sizeof(B) * 8;
        mem.assign((el.size() + W - 1) / W + 1, B(0));
        bs.reset(new bs_t(mem.data(), el.size()));
        for (size_t i = 0; i < el.size(); ++i) (*bs)[i] = (el[i].at(0) != 0);
    }
    // the const twin (round 3): const_iterator for iterator, const_reverse_iterator for reverse_iterator
    using cpick = seq_pick<bs_t, (Mode | 1)>;
    using citerator = typename cpick::type;
    // (not for std::reverse_iterator<It>: its converting constructor and mixed comparisons are unconstrained templates
    // whose bodies do not compile when It does not convert, which SFINAE cannot see)
    template <int M = Mode, class = std::enable_if_t<M == 0 || M == 1>> citerator cbegin() { return cpick::b(*bs, 0); }
    template <int M = Mode, class = std::enable_if_t<M == 0 || M == 1>> citerator cend() { return cpick::e(*bs, 0); }
    iterator begin() { return pick::b(*bs, src); }
    iterator end() { return pick::e(*bs, src); }
    long long size() const { return (long long)bs->size(); }
    std::vector<elem_t> under_v() const
    {
        std::vector<elem_t> v;
        const bs_t& c = *bs;
        for (size_t i = 0; i < c.size(); ++i) v.push_back({c[i] ? 1 : 0});
        return reversed_if(v, rev);
    }
};

// ---- optional / complex sequences ---------------------------------------------------------------
struct opt_elem
{
    template <class R> static elem_t vals(const R& r) { return elem_t{(long long)r.value(), bool(r.has_value()) ? 1 : 0}; }
    template <class R> static std::string tup(const R& r) { return vj::ints(vals(r)); }
    template <class R> static auto put(R&& r, const vj::value& v) RET(void(r = xtl::xoptional<int, bool>(int(v.a[0].i), v.a[1].i != 0)))
    template <class VT> static VT make(const elem_t& v) { return VT(int(v.at(0)), v.at(1) != 0); }
};
struct cplx_elem
{
    template <class R> static elem_t vals(const R& r) { return elem_t{(long long)r.real(), (long long)r.imag()}; }
    template <class R> static std::string tup(const R& r) { return vj::ints(vals(r)); }
    // xcomplex<double&, double&> closures: write both components through the reference
    template <class R> static auto put(R&& r, const vj::value& v) RET(void(r.real() = double(v.a[0].i)), void(r.imag() = double(v.a[1].i)))
    template <class VT> static VT make(const elem_t& v) { return VT(double(v.at(0)), double(v.at(1))); }
};

template <class C, int Mode>
struct opt_kind : opt_elem
{
    using pick = seq_pick<C, Mode>;
    using iterator = typename pick::type;
    static constexpr bool rev = Mode >= 2;
    static constexpr bool writable = true;     // decided by SFINAE on the reference type
    static constexpr bool algo_writable = (Mode % 2) == 0;
    C c;
    int src;
    explicit opt_kind(const vj::value& a) : c(size_t(a.num("n")), 0), src(int(a.num("src", 0)))
    {
        auto el = elems_of(a.at("under"), rev);
        for (size_t i = 0; i < el.size(); ++i) { c.value()[i] = int(el[i].at(0)); c.has_value()[i] = (el[i].at(1) != 0); }
    }
    // the const twin (round 3): const_iterator for iterator, const_reverse_iterator for reverse_iterator
    using cpick = seq_pick<C, (Mode | 1)>;
    using citerator = typename cpick::type;
    citerator cbegin() { return cpick::b(c, 0); }
    citerator cend() { return cpick::e(c, 0); }
    iterator begin() { return pick::b(c, src); }
    iterator end() { return pick::e(c, src); }
    long long size() const { return (long long)c.size(); }
    std::vector<elem_t> under_v() const
    {
        std::vector<elem_t> v;
        const auto& val = c.value();
        const auto& flg = c.has_value();
        // the two storages are reported independently: a flag storage of another length shows up here
        for (size_t i = 0; i < val.size(); ++i) v.push_back({val[i], i < flg.size() ? (flg[i] ? 1 : 0) : -1});
        return reversed_if(v, rev);
    }
};

template <class C, int Mode>
struct cplx_kind : cplx_elem
{
    using pick = seq_pick<C, Mode>;
    using iterator = typename pick::type;
    static constexpr bool rev = Mode >= 2;
    static constexpr bool writable = true;
    static constexpr bool algo_writable = (Mode % 2) == 0;
    C c;
    int src;
    explicit cplx_kind(const vj::value& a) : c(size_t(a.num("n"))), src(int(a.num("src", 0)))
    {
        auto el = elems_of(a.at("under"), rev);
        for (size_t i = 0; i < el.size(); ++i) { c.real()[i] = double(el[i].at(0)); c.imag()[i] = double(el[i].at(1)); }
    }
    // the const twin (round 3): const_iterator for iterator, const_reverse_iterator for reverse_iterator
    using cpick = seq_pick<C, (Mode | 1)>;
    using citerator = typename cpick::type;
    citerator cbegin() { return cpick::b(c, 0); }
    citerator cend() { return cpick::e(c, 0); }
    iterator begin() { return pick::b(c, src); }
    iterator end() { return pick::e(c, src); }
    long long size() const { return (long long)c.size(); }
    std::vector<elem_t> under_v() const
    {
        std::vector<elem_t> v;
        for (size_t i = 0; i < c.real().size(); ++i) v.push_back({(long long)c.real()[i], (long long)c.imag()[i]});
        return reversed_if(v, rev);
    }
};

#endif  // !C12_LIGHT

// ---- xstepping_iterator ---------------------------------------------------------------------------
struct int_elem
{
    template <class R> static elem_t vals(const R& r) { return elem_t{(long long)r}; }
    template <class R> static std::string tup(const R& r) { return vj::ints(vals(r)); }
    template <class R> static auto put(R&& r, const vj::value& v) RET(void(r = int(v.a[0].i)))
    template <class VT> static VT make(const elem_t& v) { return VT(int(v.at(0))); }
};

// Sub: 0 std::vector<int>::iterator, 1 std::vector<int>::const_iterator, 2 int*
template <int Sub> struct step_sub;
template <> struct step_sub<0> { using type = std::vector<int>::iterator; static type b(std::vector<int>& v) { return v.begin(); } static type e(std::vector<int>& v) { return v.end(); } };
template <> struct step_sub<1> { using type = std::vector<int>::const_iterator; static type b(std::vector<int>& v) { return v.cbegin(); } static type e(std::vector<int>& v) { return v.cend(); } };
template <> struct step_sub<2> { using type = int*; static type b(std::vector<int>& v) { return v.data(); } static type e(std::vector<int>& v) { return v.data() + v.size(); } };

template <int Sub>
struct step_kind : int_elem
{
    using sub = step_sub<Sub>;
    using iterator = xtl::xstepping_iterator<typename sub::type>;
    using step_t = typename std::iterator_traits<typename sub::type>::difference_type;
    static constexpr bool writable = true;
    static constexpr bool algo_writable = Sub != 1;
    std::vector<int> v;
    long long step;
    explicit step_kind(const vj::value& a) : step(a.num("step"))
    {
        for (auto& e : elems_of(a.at("under"), false)) v.push_back(int(e.at(0)));
    }
    iterator begin() { return xtl::make_stepping_iterator(sub::b(v), step_t(step)); }
    iterator end() { return xtl::make_stepping_iterator(sub::e(v), step_t(step)); }
    long long size() const { return (long long)v.size() / step; }
    std::vector<elem_t> under_v() const
    {
        std::vector<elem_t> r;
        for (int x : v) r.push_back({x});
        return r;
    }
};

// round 3 (advisory: the property speaks of a POSITIVE step): xstepping_iterator<int*> with stride -step.  Element i of the
// range [begin(), end()) is at a DEcreasing address; the script's storage (range order, the visited element first in
// each stride) is the physical buffer read backwards.  `pad` cells before the first element keep end() inside the buffer.
struct stepneg_kind : int_elem
{
    using iterator = xtl::xstepping_iterator<int*>;
    static constexpr bool writable = true;
    static constexpr bool algo_writable = true;
    std::vector<int> v;
    long long step, pad, len;
    explicit stepneg_kind(const vj::value& a) : step(a.num("step"))
    {
        auto el = elems_of(a.at("under"), false);
        len = (long long)el.size();
        pad = step;
        v.assign(size_t(pad + len + 1), -424242);
        for (long long x = 0; x < len; ++x) v[size_t(pad + len - 1 - x)] = int(el[size_t(x)].at(0));
    }
    iterator begin() { return xtl::make_stepping_iterator(v.data() + pad + len - 1, std::ptrdiff_t(-step)); }
    iterator end() { return xtl::make_stepping_iterator(v.data() + pad + len - 1 - (len / step) * step, std::ptrdiff_t(-step)); }
    long long size() const { return len / step; }
    std::vector<elem_t> under_v() const
    {
        std::vector<elem_t> r;
        for (long long x = 0; x < len; ++x) r.push_back({v[size_t(pad + len - 1 - x)]});
        return r;
    }
};

// ---- xkey_iterator / xvalue_iterator -----------------------------------------------------------------
// Which: 0 xkey_iterator<map>, 1 xvalue_iterator<map>, 2 xvalue_iterator<const map>
// round 3: also over std::multimap (equal keys: element i is the i-th pair in the multimap's order, equal keys in insertion order)
using imap = std::map<int, int>;
using immap = std::multimap<int, int>;
template <class M, int Which> struct map_pick;
template <class M> struct map_pick<M, 0> { using type = xtl::xkey_iterator<M>; static type b(M& m) { return type(m.cbegin()); } static type e(M& m) { return type(m.cend()); } };
template <class M> struct map_pick<M, 1> { using type = xtl::xvalue_iterator<M>; static type b(M& m) { return type(m.begin()); } static type e(M& m) { return type(m.end()); } };
template <class M> struct map_pick<M, 2> { using type = xtl::xvalue_iterator<const M>; static type b(M& m) { return type(m.cbegin()); } static type e(M& m) { return type(m.cend()); } };

template <int Which, class M = imap>
struct map_kind : int_elem
{
    using pick = map_pick<M, Which>;
    using iterator = typename pick::type;
    static constexpr bool writable = true;
    static constexpr bool algo_writable = Which == 1;
    M m;
    static constexpr bool multi = std::is_same<M, immap>::value;
    explicit map_kind(const vj::value& a)
    {
        // key kind: element i is the key itself (the script gives non-decreasing keys; equal ones only for the multimap);
        // value kinds: element i is the mapped value of key i (multimap: of key i/2, so that keys repeat)
        auto el = elems_of(a.at("under"), false);
        for (size_t i = 0; i < el.size(); ++i)
        {
            if (Which == 0) m.insert(typename M::value_type(int(el[i].at(0)), int(el[i].at(0)) + 1000 + int(i)));
            else m.insert(typename M::value_type(multi ? int(i / 2) : int(i), int(el[i].at(0))));
        }
    }
    iterator begin() { return pick::b(m); }
    iterator end() { return pick::e(m); }
    long long size() const { return (long long)m.size(); }
    std::vector<elem_t> under_v() const
    {
        std::vector<elem_t> r;
        for (auto& kv : m) r.push_back({Which == 0 ? kv.first : kv.second});
        return r;
    }
};

// ---- toy iterators, one on each flavour of the bases ---------------------------------------------------
// position in a std::vector<int>; only the primitive operations are defined, everything else must
// come from the xtl base.
namespace toy
{
    struct bi1; struct bi2; struct bi3; struct ra1; struct ra2; struct ra3;
    template <class Tag> class bidir;
    template <class Tag> class randacc;

    template <class I> struct traits
    {
        using iterator_type = I;
        using value_type = int;
        using difference_type = std::ptrdiff_t;
        using pointer = int*;
        using reference = int&;
    };
    template <class Tag> struct base_of;
    template <> struct base_of<bi1> { using type = xtl::xbidirectional_iterator_base<bidir<bi1>, int, std::ptrdiff_t, int*, int&>; };
    template <> struct base_of<bi2> { using type = xtl::xbidirectional_iterator_base2<traits<bidir<bi2>>>; };
    template <> struct base_of<bi3> { using type = xtl::xbidirectional_iterator_base3<bidir<bi3>, traits<bidir<bi3>>>; };
    template <> struct base_of<ra1> { using type = xtl::xrandom_access_iterator_base<randacc<ra1>, int, std::ptrdiff_t, int*, int&>; };
    template <> struct base_of<ra2> { using type = xtl::xrandom_access_iterator_base2<traits<randacc<ra2>>>; };
    template <> struct base_of<ra3> { using type = xtl::xrandom_access_iterator_base3<randacc<ra3>, traits<randacc<ra3>>>; };

    template <class Tag>
    class bidir : public base_of<Tag>::type
    {
    public:
        using self_type = bidir;
        bidir() : p_v(nullptr), m_i(0) {}
        bidir(std::vector<int>* v, std::ptrdiff_t i) : p_v(v), m_i(i) {}
        self_type& operator++() { ++m_i; return *this; }
        self_type& operator--() { --m_i; return *this; }
        int& operator*() const { return (*p_v)[size_t(m_i)]; }
        int* operator->() const { return &(*p_v)[size_t(m_i)]; }
        bool operator==(const self_type& rhs) const { return p_v == rhs.p_v && m_i == rhs.m_i; }
    private:
        std::vector<int>* p_v;
        std::ptrdiff_t m_i;
    };

    template <class Tag>
    class randacc : public base_of<Tag>::type
    {
    public:
        using self_type = randacc;
        using difference_type = std::ptrdiff_t;
        randacc() : p_v(nullptr), m_i(0) {}
        randacc(std::vector<int>* v, std::ptrdiff_t i) : p_v(v), m_i(i) {}
        self_type& operator++() { ++m_i; return *this; }
        self_type& operator--() { --m_i; return *this; }
        self_type& operator+=(difference_type n) { m_i += n; return *this; }
        self_type& operator-=(difference_type n) { m_i -= n; return *this; }
        difference_type operator-(const self_type& rhs) const { return m_i - rhs.m_i; }
        int& operator*() const { return (*p_v)[size_t(m_i)]; }
        int* operator->() const { return &(*p_v)[size_t(m_i)]; }
        bool operator==(const self_type& rhs) const { return p_v == rhs.p_v && m_i == rhs.m_i; }
        bool operator<(const self_type& rhs) const { return m_i < rhs.m_i; }
    private:
        std::vector<int>* p_v;
        std::ptrdiff_t m_i;
    };

    // random access base + size_t extension.  D = int reproduces the upstream test's toy (which also
    // defines += / -= for size_t); D = std::ptrdiff_t with only the difference_type primitives is
    // the other way a client can use the extension.
    template <class D, bool SizeAssign>
    class ext : public xtl::xrandom_access_iterator_base<ext<D, SizeAssign>, int, D, int*, int&>,
                public xtl::xrandom_access_iterator_ext<ext<D, SizeAssign>, int&>
    {
    public:
        using self_type = ext;
        using base_type = xtl::xrandom_access_iterator_base<self_type, int, D, int*, int&>;
        using ext_type = xtl::xrandom_access_iterator_ext<self_type, int&>;
        using difference_type = D;
        using reference = int&;
        using size_type = std::size_t;
        ext() : p_v(nullptr), m_i(0) {}
        ext(std::vector<int>* v, std::ptrdiff_t i) : p_v(v), m_i(i) {}
        self_type& operator++() { ++m_i; return *this; }
        self_type& operator--() { --m_i; return *this; }
        self_type& operator+=(difference_type n) { m_i += n; return *this; }
        self_type& operator-=(difference_type n) { m_i -= n; return *this; }
        template <class S, class = std::enable_if_t<SizeAssign && std::is_same<S, size_type>::value>>
        self_type& operator+=(S n) { m_i += std::ptrdiff_t(n); return *this; }
        template <class S, class = std::enable_if_t<SizeAssign && std::is_same<S, size_type>::value>>
        self_type& operator-=(S n) { m_i -= std::ptrdiff_t(n); return *this; }
        int& operator*() const { return (*p_v)[size_t(m_i)]; }
        int* operator->() const { return &(*p_v)[size_t(m_i)]; }
        using base_type::operator[];
        using ext_type::operator[];
        std::vector<int>* p_v;
        std::ptrdiff_t m_i;
    };
    template <class D, bool S> inline D operator-(const ext<D, S>& l, const ext<D, S>& r) { return D(l.m_i - r.m_i); }
    template <class D, bool S> inline bool operator==(const ext<D, S>& l, const ext<D, S>& r) { return l.p_v == r.p_v && l.m_i == r.m_i; }
    template <class D, bool S> inline bool operator<(const ext<D, S>& l, const ext<D, S>& r) { return l.m_i < r.m_i; }
}

template <class It>
struct toy_kind : int_elem
{
    using iterator = It;
    static constexpr bool writable = true;
    static constexpr bool algo_writable = true;
    std::vector<int> v;
    explicit toy_kind(const vj::value& a)
    {
        for (auto& e : elems_of(a.at("under"), false)) v.push_back(int(e.at(0)));
    }
    iterator begin() { return iterator(&v, 0); }
    iterator end() { return iterator(&v, std::ptrdiff_t(v.size())); }
    long long size() const { return (long long)v.size(); }
    std::vector<elem_t> under_v() const
    {
        std::vector<elem_t> r;
        for (int x : v) r.push_back({x});
        return r;
    }
};

// ---- std::reverse_iterator<It> over a kind ---------------------------------------------------------
// The range is [reverse_iterator(end()), reverse_iterator(begin())); element i of it is element n-1-i of
// the base range.  In the script's storage order (n strides of `step` elements, the visited element
// first in each stride) that is the base storage with the ORDER OF THE STRIDES reversed.
static inline std::vector<elem_t> stride_reverse(const std::vector<elem_t>& v, long long step)
{
    std::vector<elem_t> r(v.size());
    const long long n = step > 0 ? (long long)v.size() / step : 0;
    for (long long i = 0; i < n; ++i)
        for (long long j = 0; j < step; ++j)
            r[size_t(i * step + j)] = v[size_t((n - 1 - i) * step + j)];
    return r;
}
static inline vj::value stride_reversed_args(const vj::value& a)
{
    vj::value b = a;
    const long long step = a.num("step", 1);
    for (auto& kv : b.o)
        if (kv.first == "under")
        {
            std::vector<vj::value> src = kv.second.a;
            const long long n = step > 0 ? (long long)src.size() / step : 0;
            for (long long i = 0; i < n; ++i)
                for (long long j = 0; j < step; ++j)
                    kv.second.a[size_t(i * step + j)] = src[size_t((n - 1 - i) * step + j)];
        }
    return b;
}

template <class K>
struct srev_kind : K
{
    using base_iterator = typename K::iterator;
    using iterator = std::reverse_iterator<base_iterator>;
    long long m_step;
    explicit srev_kind(const vj::value& a) : K(stride_reversed_args(a)), m_step(a.num("step", 1)) {}
    iterator begin() { return iterator(K::end()); }
    iterator end() { return iterator(K::begin()); }
    std::vector<elem_t> under_v() const { return stride_reverse(K::under_v(), m_step); }
};

// ==================================================================== kind names
#ifndef C12_LIGHT
using k_bit8_it    = bit_kind<std::uint8_t, 0>;
using k_bit8_cit   = bit_kind<std::uint8_t, 1>;
using k_bit8_rit   = bit_kind<std::uint8_t, 2>;
using k_bit8_crit  = bit_kind<std::uint8_t, 3>;
using k_bit64_it   = bit_kind<std::uint64_t, 0>;
using k_bit64_cit  = bit_kind<std::uint64_t, 1>;
using k_bitv8_it   = bitview_kind<std::uint8_t, 0>;
using k_bitv8_cit  = bitview_kind<std::uint8_t, 1>;
using k_optvec_it   = opt_kind<xtl::xoptional_vector<int>, 0>;
using k_optvec_cit  = opt_kind<xtl::xoptional_vector<int>, 1>;
using k_optvec_rit  = opt_kind<xtl::xoptional_vector<int>, 2>;
using k_optvec_crit = opt_kind<xtl::xoptional_vector<int>, 3>;
using k_cplxvec_it   = cplx_kind<xtl::xcomplex_vector<double>, 0>;
using k_cplxvec_cit  = cplx_kind<xtl::xcomplex_vector<double>, 1>;
using k_cplxvec_rit  = cplx_kind<xtl::xcomplex_vector<double>, 2>;
using k_cplxvec_crit = cplx_kind<xtl::xcomplex_vector<double>, 3>;
#endif
using k_step_vec  = step_kind<0>;
using k_step_cvec = step_kind<1>;
using k_step_ptr  = step_kind<2>;
using k_key_map    = map_kind<0>;
using k_value_map  = map_kind<1>;
using k_cvalue_map = map_kind<2>;
using k_key_mmap   = map_kind<0, immap>;
using k_value_mmap = map_kind<1, immap>;
using k_step_neg   = stepneg_kind;
using k_toy_bi1 = toy_kind<toy::bidir<toy::bi1>>;
using k_toy_bi2 = toy_kind<toy::bidir<toy::bi2>>;
using k_toy_bi3 = toy_kind<toy::bidir<toy::bi3>>;
using k_toy_ra1 = toy_kind<toy::randacc<toy::ra1>>;
using k_toy_ra2 = toy_kind<toy::randacc<toy::ra2>>;
using k_toy_ra3 = toy_kind<toy::randacc<toy::ra3>>;
using k_toy_ext_int  = toy_kind<toy::ext<int, true>>;
using k_toy_ext_long = toy_kind<toy::ext<std::ptrdiff_t, false>>;
#ifndef C12_LIGHT
// std::reverse_iterator over the xtl iterators (the bitset containers' own reverse_iterator already is one)
using k_optvec_srit  = srev_kind<k_optvec_it>;
using k_cplxvec_srit = srev_kind<k_cplxvec_it>;
using k_step_srit    = srev_kind<k_step_vec>;
using k_toyra_srit   = srev_kind<k_toy_ra1>;
// the std::array flavours: one instantiation per size
template <std::size_t N> using k_optarr_it   = opt_kind<xtl::xoptional_array<int, N>, 0>;
template <std::size_t N> using k_optarr_cit  = opt_kind<xtl::xoptional_array<int, N>, 1>;
template <std::size_t N> using k_optarr_rit  = opt_kind<xtl::xoptional_array<int, N>, 2>;
template <std::size_t N> using k_cplxarr_it  = cplx_kind<xtl::xcomplex_array<double, N>, 0>;
template <std::size_t N> using k_cplxarr_cit = cplx_kind<xtl::xcomplex_array<double, N>, 1>;
template <std::size_t N> using k_cplxarr_rit = cplx_kind<xtl::xcomplex_array<double, N>, 2>;
#endif

#endif

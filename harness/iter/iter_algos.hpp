// C12: std algorithms run over [a, b) of an xtl iterator kind K.  No oracle: each function runs the
// algorithm and reports what came out.  Elements are compared through predicates on K::vals (the
// element as integers), never through operator== / operator< of the element types.
//
// The mutating algorithms (fill, reverse, sort) and operator-> may have bodies that do not compile
// for proxy references; that is invisible to SFINAE, so checks/c12.py instantiates each
// (kind, algorithm) pair in a generated probe translation unit first and passes the outcome to the
// driver build as a capability mask (see CAP_* below; std::rotate since round 3).
#ifndef C12_ITER_ALGOS_HPP
#define C12_ITER_ALGOS_HPP
#include "iter_kinds.hpp"
#include <algorithm>
#include <iterator>

namespace c12
{
    enum : unsigned { CAP_ARROW = 1, CAP_FILL = 2, CAP_REVERSE = 4, CAP_SORT = 8, CAP_ROTATE = 16, CAP_COPYWITHIN = 32, CAP_ALL = 63 };

    template <class It, class = void>
    struct has_traits : std::false_type {};
    template <class It>
    struct has_traits<It, decltype(void(typename std::iterator_traits<It>::iterator_category()))> : std::true_type {};

    template <class It, class = void>
    struct diff_of { using type = std::ptrdiff_t; };
    template <class It>
    struct diff_of<It, decltype(void(typename It::difference_type()))> { using type = typename It::difference_type; };

    inline std::string seq_json(const std::vector<std::string>& v)
    {
        std::string s = "[";
        for (size_t i = 0; i < v.size(); ++i) { if (i) s += ','; s += v[i]; }
        return s + "]";
    }

    // output iterator that records every element assigned to it
    template <class K>
    struct sink
    {
        using iterator_category = std::output_iterator_tag;
        using value_type = void;
        using difference_type = std::ptrdiff_t;
        using pointer = void;
        using reference = void;
        std::vector<std::string>* v;
        sink& operator*() { return *this; }
        sink& operator++() { return *this; }
        sink operator++(int) { return *this; }
        template <class T> sink& operator=(const T& x) { v->push_back(K::tup(x)); return *this; }
    };

    // bidirectional "output" iterator into a pre-sized vector (for copy_backward)
    template <class K>
    struct slot
    {
        std::vector<std::string>* v;
        std::ptrdiff_t i;
        template <class T> const slot& operator=(const T& x) const { if (i >= 0 && size_t(i) < v->size()) (*v)[size_t(i)] = K::tup(x); return *this; }
    };
    template <class K>
    struct back_sink
    {
        using iterator_category = std::bidirectional_iterator_tag;
        using value_type = std::string;
        using difference_type = std::ptrdiff_t;
        using pointer = void;
        using reference = slot<K>;
        std::vector<std::string>* v;
        std::ptrdiff_t i;
        slot<K> operator*() const { return slot<K>{v, i}; }
        back_sink& operator++() { ++i; return *this; }
        back_sink& operator--() { --i; return *this; }
        back_sink operator++(int) { back_sink t(*this); ++i; return t; }
        back_sink operator--(int) { back_sink t(*this); --i; return t; }
        bool operator==(const back_sink& o) const { return i == o.i; }
        bool operator!=(const back_sink& o) const { return i != o.i; }
    };

    template <class K, class It>
    std::string algo_copy(It a, It b)
    {
        std::vector<std::string> out;
        std::copy(a, b, sink<K>{&out});
        return seq_json(out);
    }
    template <class K, class It>
    std::string algo_reverse_copy(It a, It b)
    {
        std::vector<std::string> out;
        std::reverse_copy(a, b, sink<K>{&out});
        return seq_json(out);
    }
    template <class K, class It>
    std::string algo_copy_backward(It a, It b)
    {
        std::vector<std::string> out(size_t(std::distance(a, b)), std::string("\"unset\""));
        std::copy_backward(a, b, back_sink<K>{&out, std::ptrdiff_t(out.size())});
        return seq_json(out);
    }
    template <class K, class It>
    It algo_find(It a, It b, const elem_t& v)
    {
        return std::find_if(a, b, [&v](const auto& x) { return K::vals(x) == v; });
    }
    template <class K, class It>
    long long algo_count(It a, It b, const elem_t& v)
    {
        return (long long)std::count_if(a, b, [&v](const auto& x) { return K::vals(x) == v; });
    }
    template <class K, class It>
    bool algo_equal(It a, It b, It c)
    {
        return std::equal(a, b, c, [](const auto& x, const auto& y) { return K::vals(x) == K::vals(y); });
    }
    template <class K, class It>
    It algo_lower_bound(It a, It b, const elem_t& v)
    {
        return std::lower_bound(a, b, v, [](const auto& x, const elem_t& t) { return K::vals(x) < t; });
    }
    template <class K, class It>
    void algo_fill(It a, It b, const elem_t& v)
    {
        using VT = typename std::iterator_traits<It>::value_type;
        std::fill(a, b, K::template make<std::remove_cv_t<VT>>(v));
    }
    template <class K, class It>
    void algo_reverse(It a, It b)
    {
        std::reverse(a, b);
    }
    template <class K, class It>
    void algo_sort(It a, It b)
    {
        std::sort(a, b, [](const auto& x, const auto& y) { return K::vals(x) < K::vals(y); });
    }
    template <class K, class It>
    It algo_rotate(It a, It mid, It b)
    {
        return std::rotate(a, mid, b);
    }
    template <class K, class It>
    It algo_copy_within(It a, It b, It d)
    {
        return std::copy(a, b, d);
    }
    template <class K, class It>
    It algo_min_element(It a, It b)
    {
        return std::min_element(a, b, [](const auto& x, const auto& y) { return K::vals(x) < K::vals(y); });
    }
    template <class K, class It>
    std::string arrow_of(const It& x)
    {
        return K::tup(*(x.operator->()));
    }
}
#endif
